#!/usr/bin/env bash
# Copies the sid impersonation demo test into x/sao/siddemo/, runs it, removes it again and
# exits with go test's status.  FAIL ("impersonation accepted") == the defect is present.
# Extra arguments are passed to `go test` (e.g. -run TestForged_Terminate).
set -u
here="$(cd "$(dirname "${BASH_SOURCE[0]}")" && pwd)"
root="$(cd "$here/.." && pwd)"
dest="$root/x/sao/siddemo"

export GOFLAGS=-mod=mod GOPROXY=off GOSUMDB=off GOTOOLCHAIN=local GOWORK=off

mkdir -p "$dest"
cp "$here"/*_test.go "$dest"/
cleanup() { rm -rf "$dest"; }
trap cleanup EXIT

cd "$root"
go test ./x/sao/siddemo/ -count=1 -v "$@"
status=$?
echo "go test exit status: $status"
exit $status
