// Package siddemo demonstrates (or refutes) a suspected authorization defect in
// x/sao/keeper/verify.go verifySignature: the sid document used to verify a JWS is
// looked up by the version id found in the JWS "kid" only, without checking that this
// document version belongs to the DID named as proposal Owner.
//
// Everything security relevant is REAL code of this repository:
//   - x/did keeper + msg server  (sid DIDs are created through the real MsgBinding handler)
//   - x/order keeper, x/model keeper (the victim's Order / Shard / Metadata / Model records)
//   - x/sao keeper + msg server (MsgTerminate / MsgUpdataPermission handlers, verifySignature)
//   - github.com/SaoNetwork/sao-did (JWS verification, sid resolver)
//
// Only keepers that the exercised code paths do not depend on for authorization are mocked
// (auth, bank, staking, node, market).
package siddemo

import (
	"context"
	"crypto/rand"
	"encoding/base64"
	"encoding/json"
	"fmt"
	"testing"
	"time"

	didkeeper "github.com/SaoNetwork/sao/x/did/keeper"
	didtypes "github.com/SaoNetwork/sao/x/did/types"
	modelkeeper "github.com/SaoNetwork/sao/x/model/keeper"
	modeltypes "github.com/SaoNetwork/sao/x/model/types"
	nodetypes "github.com/SaoNetwork/sao/x/node/types"
	orderkeeper "github.com/SaoNetwork/sao/x/order/keeper"
	ordertypes "github.com/SaoNetwork/sao/x/order/types"
	saokeeper "github.com/SaoNetwork/sao/x/sao/keeper"
	saotypes "github.com/SaoNetwork/sao/x/sao/types"

	"github.com/cosmos/cosmos-sdk/codec"
	codectypes "github.com/cosmos/cosmos-sdk/codec/types"
	"github.com/cosmos/cosmos-sdk/crypto/keys/secp256k1"
	"github.com/cosmos/cosmos-sdk/store"
	storetypes "github.com/cosmos/cosmos-sdk/store/types"
	sdk "github.com/cosmos/cosmos-sdk/types"
	authtypes "github.com/cosmos/cosmos-sdk/x/auth/types"
	paramtypes "github.com/cosmos/cosmos-sdk/x/params/types"
	"github.com/dvsekhvalnov/jose2go/base64url"
	"github.com/multiformats/go-multibase"
	"github.com/stretchr/testify/require"
	"github.com/tendermint/tendermint/libs/log"
	tmproto "github.com/tendermint/tendermint/proto/tendermint/types"
	tmdb "github.com/tendermint/tm-db"
)

const (
	chainID = "sao-test"
	dataID  = "6f0d6c2e-1c3b-4d55-9a51-0c9b1d7a4e10" // 36 chars, as NewMeta demands
)

func init() {
	// same account prefix as the real chain (app.AccountAddressPrefix)
	sdk.GetConfig().SetBech32PrefixForAccount("sao", "saopub")
}

// ---------------------------------------------------------------------------------------------
// mocks for keepers that are irrelevant to authorization
// ---------------------------------------------------------------------------------------------

type mockAccount struct{}

func (mockAccount) GetAccount(sdk.Context, sdk.AccAddress) authtypes.AccountI { return nil }
func (mockAccount) GetModuleAddress(name string) sdk.AccAddress {
	return authtypes.NewModuleAddress(name)
}

type mockBank struct{}

func (mockBank) SpendableCoins(sdk.Context, sdk.AccAddress) sdk.Coins { return sdk.Coins{} }
func (mockBank) GetBalance(_ sdk.Context, _ sdk.AccAddress, denom string) sdk.Coin {
	return sdk.NewInt64Coin(denom, 0)
}
func (mockBank) SendCoinsFromModuleToAccount(sdk.Context, string, sdk.AccAddress, sdk.Coins) error {
	return nil
}
func (mockBank) SendCoinsFromAccountToModule(sdk.Context, sdk.AccAddress, string, sdk.Coins) error {
	return nil
}
func (mockBank) SendCoinsFromModuleToModule(sdk.Context, string, string, sdk.Coins) error {
	return nil
}
func (mockBank) MintCoins(sdk.Context, string, sdk.Coins) error { return nil }

type mockStaking struct{}

func (mockStaking) BondDenom(sdk.Context) string { return "sao" }

// mockNode embeds the (nil) interface; only the methods reached by Terminate/UpdataPermission
// are implemented, anything else would panic and so be noticed.
type mockNode struct{ saotypes.NodeKeeper }

func (mockNode) GetNode(sdk.Context, string) (nodetypes.Node, bool) { return nodetypes.Node{}, false }
func (mockNode) ShardRelease(sdk.Context, sdk.AccAddress, *ordertypes.Shard) error {
	return nil
}

type mockMarket struct{ saotypes.MarketKeeper }

func (mockMarket) Withdraw(sdk.Context, ordertypes.Order) (sdk.Coin, error) {
	return sdk.NewInt64Coin("sao", 0), nil
}

// ---------------------------------------------------------------------------------------------
// environment: real did / order / model / sao keepers over one in-memory multistore
// ---------------------------------------------------------------------------------------------

type env struct {
	ctx    sdk.Context
	did    *didkeeper.Keeper
	didMsg didtypes.MsgServer
	order  *orderkeeper.Keeper
	model  *modelkeeper.Keeper
	sao    *saokeeper.Keeper
	saoMsg saotypes.MsgServer
}

func newEnv(t *testing.T) *env {
	t.Helper()
	db := tmdb.NewMemDB()
	ms := store.NewCommitMultiStore(db)

	kv := func(name string) *storetypes.KVStoreKey {
		k := sdk.NewKVStoreKey(name)
		ms.MountStoreWithDB(k, storetypes.StoreTypeIAVL, db)
		return k
	}
	mem := func(name string) *storetypes.MemoryStoreKey {
		k := storetypes.NewMemoryStoreKey(name)
		ms.MountStoreWithDB(k, storetypes.StoreTypeMemory, nil)
		return k
	}
	didKey, didMem := kv(didtypes.StoreKey), mem(didtypes.MemStoreKey)
	orderKey, orderMem := kv(ordertypes.StoreKey), mem(ordertypes.MemStoreKey)
	modelKey, modelMem := kv(modeltypes.StoreKey), mem(modeltypes.MemStoreKey)
	saoKey, saoMem := kv(saotypes.StoreKey), mem(saotypes.MemStoreKey)
	marketKey := kv("market")
	paramsKey := kv("params")
	paramsTKey := sdk.NewTransientStoreKey("transient_params")
	ms.MountStoreWithDB(paramsTKey, storetypes.StoreTypeTransient, nil)
	require.NoError(t, ms.LoadLatestVersion())

	cdc := codec.NewProtoCodec(codectypes.NewInterfaceRegistry())
	amino := codec.NewLegacyAmino()
	sub := func(name string) paramtypes.Subspace {
		return paramtypes.NewSubspace(cdc, amino, paramsKey, paramsTKey, name)
	}

	didK := didkeeper.NewKeeper(cdc, didKey, didMem, sub(didtypes.ModuleName), mockAccount{}, mockBank{})
	orderK := orderkeeper.NewKeeper(mockAccount{}, mockBank{}, didK, cdc, orderKey, orderMem, modelKey, marketKey, sub(ordertypes.ModuleName))
	modelK := modelkeeper.NewKeeper(mockAccount{}, orderK, didK, mockBank{}, mockNode{}, mockMarket{}, cdc, modelKey, orderKey, modelMem, sub(modeltypes.ModuleName))
	saoK := saokeeper.NewKeeper(mockAccount{}, mockBank{}, mockNode{}, orderK, modelK, didK, mockMarket{}, mockStaking{}, cdc, saoKey, orderKey, saoMem, sub(saotypes.ModuleName))

	ctx := sdk.NewContext(ms, tmproto.Header{ChainID: chainID, Height: 100, Time: time.Now()}, false, log.NewNopLogger())
	didK.SetParams(ctx, didtypes.DefaultParams())

	return &env{
		ctx:    ctx,
		did:    didK,
		didMsg: didkeeper.NewMsgServerImpl(*didK),
		order:  orderK,
		model:  modelK,
		sao:    saoK,
		saoMsg: saokeeper.NewMsgServerImpl(*saoK),
	}
}

// ---------------------------------------------------------------------------------------------
// identities
// ---------------------------------------------------------------------------------------------

type identity struct {
	name      string
	account   *secp256k1.PrivKey // cosmos account key (tx signer / binding proof)
	address   string             // bech32 "sao1..."
	signing   *secp256k1.PrivKey // the sid document's signing key
	rootDocID string             // == first (and only) version id
	did       string             // did:sid:<rootDocID>
}

const signingKeyName = "signing"

// multibaseKey encodes a raw public key the way sid documents store it:
// multibase(base58btc, multicodec-varint || key)  -- see sao-did sid/sid_resolver.go toDidDocument.
func multibaseKey(codec0 byte, raw []byte) string {
	s, err := multibase.Encode(multibase.Base58BTC, append([]byte{codec0, 0x01}, raw...))
	if err != nil {
		panic(err)
	}
	return s
}

// bindNewSid creates a brand new sid DID through the real MsgBinding handler.
func bindNewSid(t *testing.T, e *env, name string) *identity {
	t.Helper()
	id := &identity{name: name}
	id.account = secp256k1.GenPrivKey()
	addr, err := sdk.Bech32ifyAddressBytes("sao", id.account.PubKey().Address())
	require.NoError(t, err)
	id.address = addr
	id.signing = secp256k1.GenPrivKey()

	x25519 := make([]byte, 32)
	_, _ = rand.Read(x25519)
	keys := []*didtypes.PubKey{
		{Name: signingKeyName, Value: multibaseKey(0xe7, id.signing.PubKey().Bytes())},
		{Name: "encryption", Value: multibaseKey(0xec, x25519)},
	}
	ts := uint64(e.ctx.BlockTime().Unix())
	id.rootDocID, err = didkeeper.CalculateDocId(keys, ts)
	require.NoError(t, err)
	id.did = "did:sid:" + id.rootDocID

	// binding proof: the cosmos account signs an ADR-36 style sign doc
	message := fmt.Sprintf("Link this account to your did: %s\nTimestamp: %d", id.did, ts)
	sig, err := id.account.Sign(didkeeper.GetSignData(id.address, message))
	require.NoError(t, err)
	proofSig := "tendermint/PubKeySecp256k1." +
		base64.StdEncoding.EncodeToString(id.account.PubKey().Bytes()) + "." +
		base64.StdEncoding.EncodeToString(sig)

	accountDid := "did:key:" + multibaseKey(0xe7, secp256k1.GenPrivKey().PubKey().Bytes())
	_, err = e.didMsg.Binding(sdk.WrapSDKContext(e.ctx), &didtypes.MsgBinding{
		Creator:   id.address,
		AccountId: "cosmos:" + chainID + ":" + id.address,
		RootDocId: id.rootDocID,
		Keys:      keys,
		AccountAuth: &didtypes.AccountAuth{
			AccountDid:           accountDid,
			AccountEncryptedSeed: "encrypted-seed-of-" + name,
			SidEncryptedAccount:  "encrypted-account-of-" + name,
		},
		Proof: &didtypes.BindingProof{
			Version:   1,
			Message:   message,
			Signature: proofSig,
			Account:   "cosmos:" + chainID + ":" + id.address,
			Did:       id.did,
			Timestamp: ts,
		},
	})
	require.NoError(t, err, "MsgBinding for %s", name)

	// sanity: the records were really created by the handler and the DID is valid chain-wide
	doc, found := e.did.GetSidDocument(e.ctx, id.rootDocID)
	require.True(t, found)
	require.Equal(t, id.rootDocID, doc.VersionId)
	vers, found := e.did.GetSidDocumentVersion(e.ctx, id.rootDocID)
	require.True(t, found)
	require.Equal(t, []string{id.rootDocID}, vers.VersionList)
	require.NoError(t, e.did.ValidDid(e.ctx, id.did))
	return id
}

// signJWS produces the compact JWS parts exactly like sao-did key/secp256k1_provider.go createJWS
// (which is unexported): protected = b64url({"kid":..,"alg":"ES256K"}), signature over
// protected + "." + b64url(payload) with a cosmos secp256k1 key.
func signJWS(t *testing.T, key *secp256k1.PrivKey, kid string, payload []byte) saotypes.JwsSignature {
	t.Helper()
	hdr, err := json.Marshal(struct {
		Kid string `json:"kid"`
		Alg string `json:"alg"`
	}{kid, "ES256K"})
	require.NoError(t, err)
	protected := base64url.Encode(hdr)
	sig, err := key.Sign([]byte(protected + "." + base64url.Encode(payload)))
	require.NoError(t, err)
	return saotypes.JwsSignature{Protected: protected, Signature: base64url.Encode(sig)}
}

// storeVictimData writes a completed order with one completed shard plus Metadata/Model owned by owner,
// using the real order and model keepers.
func storeVictimData(t *testing.T, e *env, owner *identity) (orderID uint64) {
	t.Helper()
	sp, err := sdk.Bech32ifyAddressBytes("sao", secp256k1.GenPrivKey().PubKey().Address())
	require.NoError(t, err)
	height := uint64(e.ctx.BlockHeight())
	order := ordertypes.Order{
		Creator:   owner.address,
		Owner:     owner.did,
		Provider:  sp,
		Cid:       "bafkreib3a5cpxqgd7jz6a3tn4wdfi2kpzvsgrw6bkgrf5bzkbrqmtpgzgu",
		Duration:  1000,
		Status:    ordertypes.OrderCompleted,
		Replica:   1,
		Amount:    sdk.NewInt64Coin("sao", 1000),
		Size_:     1024,
		Operation: 1,
		CreatedAt: height,
		Timeout:   10,
		DataId:    dataID,
		Commit:    "commit-0",
		UnitPrice: sdk.NewInt64DecCoin("sao", 1),
	}
	orderID = e.order.AppendOrder(e.ctx, order)
	order.Id = orderID
	shardID := e.order.AppendShard(e.ctx, ordertypes.Shard{
		OrderId:   orderID,
		Status:    ordertypes.ShardCompleted,
		Size_:     1024,
		Cid:       order.Cid,
		Pledge:    sdk.NewInt64Coin("sao", 0),
		Sp:        sp,
		Duration:  1000,
		CreatedAt: height,
	})
	order.Shards = []uint64{shardID}
	e.order.SetOrder(e.ctx, order)

	require.NoError(t, e.model.NewMeta(e.ctx, order, modeltypes.Metadata{
		DataId:    dataID,
		Owner:     owner.did,
		Alias:     "victims-private-notes",
		GroupId:   "group-1",
		OrderId:   orderID,
		Cid:       order.Cid,
		Commits:   []string{modelkeeper.Version("commit-0", e.ctx.BlockHeight())},
		Commit:    "commit-0",
		Duration:  1000,
		CreatedAt: height,
		Status:    modeltypes.MetaComplete,
		Orders:    []uint64{orderID},
	}))
	meta, found := e.model.GetMetadata(e.ctx, dataID)
	require.True(t, found)
	require.Equal(t, owner.did, meta.Owner)
	return orderID
}

type scenario struct {
	e        *env
	victim   *identity
	attacker *identity
	orderID  uint64
}

func newScenario(t *testing.T) *scenario {
	e := newEnv(t)
	s := &scenario{e: e}
	s.victim = bindNewSid(t, e, "victim")
	s.attacker = bindNewSid(t, e, "attacker")
	require.NotEqual(t, s.victim.did, s.attacker.did)
	s.orderID = storeVictimData(t, e, s.victim)
	return s
}

func (s *scenario) goCtx() context.Context { return sdk.WrapSDKContext(s.e.ctx) }

func (s *scenario) metaExists() bool {
	_, found := s.e.model.GetMetadata(s.e.ctx, dataID)
	return found
}

// terminate sends a real MsgTerminate whose proposal names the VICTIM as owner; the tx itself is
// sent (Creator == Provider) by `sender`, the JWS is made with `key` and header `kid`.
func (s *scenario) terminate(t *testing.T, sender *identity, key *secp256k1.PrivKey, kid string) error {
	proposal := saotypes.TerminateProposal{Owner: s.victim.did, DataId: dataID}
	bz, err := proposal.Marshal()
	require.NoError(t, err)
	_, err = s.e.saoMsg.Terminate(s.goCtx(), &saotypes.MsgTerminate{
		Creator:      sender.address,
		Provider:     sender.address,
		Proposal:     proposal,
		JwsSignature: signJWS(t, key, kid, bz),
	})
	return err
}

func (s *scenario) updatePermission(t *testing.T, sender *identity, key *secp256k1.PrivKey, kid string, rw []string) error {
	proposal := saotypes.PermissionProposal{Owner: s.victim.did, DataId: dataID, ReadwriteDids: rw}
	bz, err := proposal.Marshal()
	require.NoError(t, err)
	_, err = s.e.saoMsg.UpdataPermission(s.goCtx(), &saotypes.MsgUpdataPermission{
		Creator:      sender.address,
		Provider:     sender.address,
		Proposal:     proposal,
		JwsSignature: signJWS(t, key, kid, bz),
	})
	return err
}

// forgedKid: DID part = victim, version id = a document version that belongs to the ATTACKER.
func forgedKid(victim, attacker *identity, param string) string {
	return victim.did + "?" + param + "=" + attacker.rootDocID + "#" + signingKeyName
}

func ownKid(id *identity) string {
	return id.did + "?version-id=" + id.rootDocID + "#" + signingKeyName
}

// ---------------------------------------------------------------------------------------------
// tests
// ---------------------------------------------------------------------------------------------

// Sanity: wrong key / missing version must be rejected, so an "accepted" below really means the
// attacker's own document was used for the victim's DID and not that verification is a no-op.
func TestSanity_BadSignaturesRejected(t *testing.T) {
	s := newScenario(t)

	// attacker key, but pointing at the victim's real document version -> signature mismatch
	err := s.terminate(t, s.attacker, s.attacker.signing, ownKid(s.victim))
	require.Error(t, err)
	t.Logf("attacker key + victim's own version id  -> rejected: %v", err)
	require.True(t, s.metaExists())

	// attacker key, no version id at all
	err = s.terminate(t, s.attacker, s.attacker.signing, s.victim.did+"#"+signingKeyName)
	require.Error(t, err)
	t.Logf("attacker key + no version id            -> rejected: %v", err)
	require.True(t, s.metaExists())

	// attacker key, unknown version id
	err = s.terminate(t, s.attacker, s.attacker.signing, s.victim.did+"?version-id=deadbeef#"+signingKeyName)
	require.Error(t, err)
	t.Logf("attacker key + unknown version id       -> rejected: %v", err)
	require.True(t, s.metaExists())
}

// Informational (never fails): what does x/did ValidDid say about a sid DID URL that carries a version
// query?  Relevant for judging a repair of the form ValidDid(owner+"?version-id="+versionId).
func TestInfo_ValidDidWithVersionQuery(t *testing.T) {
	s := newScenario(t)
	t.Logf("ValidDid(victimDid)                           = %v", s.e.did.ValidDid(s.e.ctx, s.victim.did))
	t.Logf("ValidDid(victimDid?version-id=<victim's own>) = %v", s.e.did.ValidDid(s.e.ctx, s.victim.did+"?version-id="+s.victim.rootDocID))
	t.Logf("ValidDid(victimDid?version-id=<attacker's>)   = %v", s.e.did.ValidDid(s.e.ctx, s.victim.did+"?version-id="+s.attacker.rootDocID))
}

func TestControl_VictimTerminatesOwnData(t *testing.T) {
	s := newScenario(t)
	err := s.terminate(t, s.victim, s.victim.signing, ownKid(s.victim))
	if err != nil {
		t.Fatalf("CONTROL FAILED (MsgTerminate): legitimate owner request rejected: %v", err)
	}
	if s.metaExists() {
		t.Fatalf("CONTROL FAILED (MsgTerminate): handler returned nil but metadata still present")
	}
	_, orderFound := s.e.order.GetOrder(s.e.ctx, s.orderID)
	require.False(t, orderFound, "order should be removed by terminate")
	t.Logf("CONTROL OK (MsgTerminate): victim's own key + own version id accepted, data %s terminated", dataID)
}

func TestControl_VictimUpdatesOwnPermission(t *testing.T) {
	s := newScenario(t)
	err := s.updatePermission(t, s.victim, s.victim.signing, ownKid(s.victim), []string{s.attacker.did})
	if err != nil {
		t.Fatalf("CONTROL FAILED (MsgUpdataPermission): legitimate owner request rejected: %v", err)
	}
	meta, _ := s.e.model.GetMetadata(s.e.ctx, dataID)
	require.Equal(t, []string{s.attacker.did}, meta.ReadwriteDids)
	t.Logf("CONTROL OK (MsgUpdataPermission): victim's own key + own version id accepted")
}

func TestForged_Terminate(t *testing.T) {
	for _, param := range []string{"version-id", "versionId"} {
		t.Run(param, func(t *testing.T) {
			s := newScenario(t)
			kid := forgedKid(s.victim, s.attacker, param)
			t.Logf("victim   did=%s", s.victim.did)
			t.Logf("attacker did=%s", s.attacker.did)
			t.Logf("forged kid  =%s", kid)
			err := s.terminate(t, s.attacker, s.attacker.signing, kid)
			if err == nil {
				t.Errorf("impersonation accepted: MsgTerminate signed with the ATTACKER's key (kid %s) was accepted for owner %s; victim metadata still present=%v",
					kid, s.victim.did, s.metaExists())
				return
			}
			require.True(t, s.metaExists(), "request rejected but metadata vanished")
			t.Logf("forged MsgTerminate rejected: %v", err)
		})
	}
}

func TestForged_UpdataPermission(t *testing.T) {
	for _, param := range []string{"version-id", "versionId"} {
		t.Run(param, func(t *testing.T) {
			s := newScenario(t)
			kid := forgedKid(s.victim, s.attacker, param)
			err := s.updatePermission(t, s.attacker, s.attacker.signing, kid, []string{s.attacker.did})
			meta, found := s.e.model.GetMetadata(s.e.ctx, dataID)
			require.True(t, found)
			if err == nil {
				t.Errorf("impersonation accepted: MsgUpdataPermission signed with the ATTACKER's key (kid %s) was accepted for owner %s; victim data ReadwriteDids is now %v",
					kid, s.victim.did, meta.ReadwriteDids)
				return
			}
			require.Empty(t, meta.ReadwriteDids)
			t.Logf("forged MsgUpdataPermission rejected: %v", err)
		})
	}
}
