package main

import (
	"fmt"
	"os"
	"time"

	"golang.org/x/tools/go/ssa"

	"saoverif/internal/prog"
	"saoverif/internal/term"
)

func main() {
	t0 := time.Now()
	p, err := prog.Load("/repo", prog.Quick)
	if err != nil {
		fmt.Println("ERR", err)
		os.Exit(2)
	}
	p.BuildGraph()
	mods := term.BuildMods(p)
	fmt.Println("loaded", time.Since(t0))
	for _, name := range os.Args[1:] {
		f := p.Func(name)
		if f == nil {
			fmt.Println("no func", name)
			continue
		}
		r := term.NewResolver(p, mods, f)
		fmt.Println("==", name)
		for _, b := range f.Blocks {
			for _, ins := range b.Instrs {
				switch x := ins.(type) {
				case *ssa.If:
					fmt.Printf("  b%d %s IF %s\n", b.Index, p.Pos(x.Cond.Pos()), r.Of(x.Cond))
				case *ssa.Call:
					fmt.Printf("  b%d %s CALL %s\n", b.Index, p.Pos(x.Pos()), r.Of(x))
				case *ssa.Store:
					fmt.Printf("  b%d %s STORE %s := %s\n", b.Index, p.Pos(x.Pos()), r.Of(x.Addr), r.Of(x.Val))
				case *ssa.Return:
					s := ""
					for _, v := range x.Results {
						s += r.Of(v).String() + "; "
					}
					fmt.Printf("  b%d %s RETURN %s\n", b.Index, p.Pos(x.Pos()), s)
				}
			}
		}
	}
}
