// saocheck decides structural clauses of the properties C01..C20 of
// SAONetwork/sao-consensus from /repo's current source (static analysis only).
package main

import (
	"encoding/json"
	"flag"
	"fmt"
	"os"
	"sort"
	"strconv"
	"strings"
	"time"

	"golang.org/x/tools/go/ssa"

	"saoverif/internal/core"
	"saoverif/internal/eff"
	"saoverif/internal/guard"
	"saoverif/internal/prog"
	"saoverif/internal/rules"
	"saoverif/internal/term"
)

func main() {
	prop := flag.String("p", "", "property id (C01..C20) or 'all'")
	tier := flag.String("tier", "quick", "quick|thorough")
	repo := flag.String("repo", "/repo", "repository root")
	verif := flag.String("verif", "/verif", "verif root (evidence, known findings)")
	dump := flag.String("dump-terms", "", "debug: print terms of a function")
	caps := flag.Bool("caps", false, "debug: print the capability matrix")
	bank := flag.Bool("bank", false, "debug: print bank call sites")
	explain := flag.String("explain", "", "print a violation file")
	dumpVocab := flag.Bool("dump-vocab", false, "print the names of all named module functions (to regenerate vocabulary.txt)")
	variant := flag.String("variant", "", "self-test: analyse the named reference variant (in-memory overlay, shadow output)")
	selftest := flag.String("selftest", "auto", "self-test with reference variants: on|off|auto (auto = thorough tier only)")
	flag.Parse()
	if *explain != "" {
		b, err := os.ReadFile(*explain)
		if err != nil {
			fmt.Println(err)
			os.Exit(2)
		}
		var m map[string]any
		json.Unmarshal(b, &m)
		fmt.Printf("property %v rule %v\nconstruct %v\nwhere %v\n%v\n", m["property"], m["rule"], m["construct_key"], m["where"], m["detail"])
		if w, ok := m["witness"].([]any); ok {
			for _, x := range w {
				fmt.Println("   ", x)
			}
		}
		fmt.Println("re-run: saocheck -p", m["property"], "-tier", m["tier"])
		return
	}
	if t := os.Getenv("VERIF_TIER"); t == "quick" || t == "thorough" {
		*tier = t
	}
	seed, _ := strconv.ParseInt(os.Getenv("VERIF_SEED"), 10, 64)
	t0 := time.Now()
	pt := prog.Quick
	if *tier == "thorough" {
		pt = prog.Thorough
		guard.MaxHelperDepth = 4
	}
	if *variant != "" {
		ps, err := loadPositives(*verif)
		if err != nil {
			fmt.Println("UNDECIDED", err)
			os.Exit(2)
		}
		found := false
		for i := range ps {
			if ps[i].ID == *variant {
				ov, _, oerr := overlayFor(*repo, &ps[i])
				if oerr != nil {
					fmt.Println("UNDECIDED variant does not apply:", oerr)
					os.Exit(2)
				}
				prog.Overlay = ov
				found = true
			}
		}
		if !found {
			fmt.Println("UNDECIDED unknown variant", *variant)
			os.Exit(2)
		}
	}
	doSelf := *selftest == "on" || (*selftest == "auto" && *tier == "thorough")
	if v := os.Getenv("VERIF_SELFTEST"); v == "0" {
		doSelf = false
	} else if v == "1" {
		doSelf = true
	}
	if *variant != "" {
		doSelf = false
	}
	p, err := prog.Load(*repo, pt)
	if err != nil {
		fmt.Println("UNDECIDED load:", err)
		os.Exit(2)
	}
	verr := p.LoadVocab(*verif + "/vocabulary.txt")
	if verr != nil && *verif != "/verif" {
		verr = p.LoadVocab("/verif/vocabulary.txt") // scratch evidence directories share the committed vocabulary
	}
	if err := verr; err != nil && !*dumpVocab {
		fmt.Println("note: no vocabulary loaded (", err, "): helper functions are not interpreted through their bodies")
	}
	p.BuildGraph()
	if *dumpVocab {
		for _, f := range p.Funcs {
			if f.Parent() == nil && f.Synthetic == "" {
				fmt.Println(p.Name(f))
			}
		}
		return
	}
	roots, rerr := p.Roots()
	mods := term.BuildMods(p)
	et := eff.Build(p, mods)
	if *dump != "" {
		dumpTerms(p, mods, *dump)
		return
	}
	if *bank {
		dumpBank(p, et)
		return
	}
	if *caps {
		for _, r := range roots {
			if r.Kind == "query" {
				continue
			}
			fmt.Printf("%s %s (%s)\n", r.Kind, r.Name, p.Name(r.Fn))
			for _, c := range eff.Caps(et.Reach(r.Fn)) {
				fmt.Println("    ", c)
			}
		}
		for _, u := range et.Unres {
			fmt.Println("unres:", u)
		}
		return
	}
	var ids []string
	if *prop == "all" {
		for id := range rules.Registry {
			ids = append(ids, id)
		}
		sort.Strings(ids)
	} else {
		ids = strings.Split(*prop, ",")
	}
	exit := 0
	for _, id := range ids {
		chk := rules.Registry[id]
		if chk == nil {
			fmt.Println("UNDECIDED unknown property", id)
			os.Exit(2)
		}
		run := core.NewRun(id, *tier, p, roots, mods)
		run.Seed = seed
		run.Start = t0
		run.Eff = et
		run.VerifDir = *verif
		run.Shadow = *variant != ""
		if rerr != nil {
			run.Undecide("roots", "roots|discovery", "", rerr.Error())
		}
		func() {
			defer func() {
				if x := recover(); x != nil {
					run.Undecide("panic", "panic|"+id, "", fmt.Sprint("checker panic: ", x))
				}
			}()
			chk(run)
			if id != "C01" && id != "C02" {
				run.RequireResolvedStores()
			}
		}()
		if doSelf {
			selfTest(run, *repo, *verif)
		}
		if c := run.Finish(); c > exit {
			exit = c
		}
	}
	os.Exit(exit)
}

func dumpTerms(p *prog.Program, mods *term.Mods, name string) {
	f := p.Func(name)
	if f == nil {
		fmt.Println("no func", name)
		return
	}
	r := term.NewResolver(p, mods, f)
	for _, b := range f.Blocks {
		succ := ""
		for _, s := range b.Succs {
			succ += fmt.Sprint(" b", s.Index)
		}
		fmt.Printf(" b%d ->%s\n", b.Index, succ)
		for _, ins := range b.Instrs {
			switch x := ins.(type) {
			case *ssa.If:
				fmt.Printf("  b%d %s IF %s\n", b.Index, p.Pos(x.Cond.Pos()), r.Of(x.Cond))
			case *ssa.Call:
				fmt.Printf("  b%d %s CALL %s\n", b.Index, p.Pos(x.Pos()), r.Of(x))
			case *ssa.Store:
				fmt.Printf("  b%d %s STORE %s := %s\n", b.Index, p.Pos(x.Pos()), r.Of(x.Addr), r.Of(x.Val))
			case *ssa.Return:
				s := ""
				for _, v := range x.Results {
					s += r.Of(v).String() + "; "
				}
				fmt.Printf("  b%d %s RETURN %s\n", b.Index, p.Pos(x.Pos()), s)
			}
		}
	}
}
