package main

import (
	"crypto/sha256"
	"encoding/hex"
	"encoding/json"
	"fmt"
	"os"
	"os/exec"
	"path/filepath"
	"runtime"
	"sort"
	"strings"
	"sync"

	"saoverif/internal/core"
)

// A Positive is a reference variant of the tree on which a named rule must
// fire (or, for a control, on which the whole property check must stay
// silent). Variants are analysed in memory through a go/packages overlay;
// /repo is never modified. They keep rules whose expected count on the tree
// is zero from passing vacuously forever.
type Positive struct {
	ID       string `json:"id"`
	Property string `json:"property"`
	Rule     string `json:"rule"` // substring of the rule id expected to fire; "" = control, must be silent
	Edits    []Edit `json:"edits"`
	Note     string `json:"note,omitempty"`
}

// Edit replaces the single occurrence of Old by New in File (relative to the
// repository root). Old == "" creates File with contents New. BaseSHA is the
// sha256 of File when the variant was recorded.
type Edit struct {
	File    string `json:"file"`
	Old     string `json:"old"`
	New     string `json:"new"`
	BaseSHA string `json:"base_sha256,omitempty"`
}

func loadPositives(verif string) ([]Positive, error) {
	b, err := os.ReadFile(filepath.Join(verif, "positives.json"))
	if err != nil {
		return nil, err
	}
	var ps []Positive
	if err := json.Unmarshal(b, &ps); err != nil {
		return nil, err
	}
	return ps, nil
}

// overlayFor applies the edits of a variant in memory. pristine reports
// whether every edited file is byte-identical to the recorded base.
func overlayFor(repo string, p *Positive) (ov map[string][]byte, pristine bool, err error) {
	ov = map[string][]byte{}
	pristine = true
	for _, e := range p.Edits {
		abs := filepath.Join(repo, e.File)
		cur, ok := ov[abs]
		if !ok {
			b, rerr := os.ReadFile(abs)
			if rerr != nil {
				if e.Old == "" {
					ov[abs] = []byte(e.New)
					continue
				}
				return nil, false, fmt.Errorf("%s: %v", e.File, rerr)
			}
			cur = b
			if e.BaseSHA != "" {
				h := sha256.Sum256(b)
				if hex.EncodeToString(h[:]) != e.BaseSHA {
					pristine = false
				}
			}
		}
		if e.Old == "" {
			return nil, false, fmt.Errorf("%s: file to be created already exists", e.File)
		}
		if strings.Count(string(cur), e.Old) < 1 {
			return nil, pristine, fmt.Errorf("%s: anchor text of the variant not present", e.File)
		}
		ov[abs] = []byte(strings.Replace(string(cur), e.Old, e.New, 1))
	}
	return ov, pristine, nil
}

type stResult struct {
	p        *Positive
	status   string // fired | silent-ok | skipped | SILENT | FALSE-ALARM | ERROR
	pristine bool
	detail   string
}

// selfTest analyses every reference variant of the property in a child
// process (shadow mode, quick tier) and records the outcome on the run.
func selfTest(run *core.Run, repo, verif string) {
	ps, err := loadPositives(verif)
	if err != nil {
		run.Notes = append(run.Notes, "self-test: no reference variants loaded: "+err.Error())
		return
	}
	var mine []*Positive
	for i := range ps {
		if ps[i].Property == run.Prop {
			mine = append(mine, &ps[i])
		}
	}
	if len(mine) == 0 {
		return
	}
	exe, err := os.Executable()
	if err != nil {
		run.Notes = append(run.Notes, "self-test: "+err.Error())
		return
	}
	par := runtime.NumCPU() / 3
	if par < 1 {
		par = 1
	}
	if par > 6 {
		par = 6
	}
	sem := make(chan struct{}, par)
	res := make([]stResult, len(mine))
	var wg sync.WaitGroup
	for i, p := range mine {
		wg.Add(1)
		go func(i int, p *Positive) {
			defer wg.Done()
			sem <- struct{}{}
			defer func() { <-sem }()
			r := stResult{p: p}
			_, pristine, oerr := overlayFor(repo, p)
			r.pristine = pristine
			if oerr != nil {
				r.status, r.detail = "skipped", oerr.Error()
				res[i] = r
				return
			}
			cmd := exec.Command(exe, "-p", p.Property, "-tier", "quick", "-repo", repo, "-verif", verif, "-variant", p.ID)
			cmd.Env = append(os.Environ(), "VERIF_TIER=", "VERIF_SELFTEST=0")
			out, _ := cmd.CombinedOutput()
			code := cmd.ProcessState.ExitCode()
			var fired, und []string
			for _, l := range strings.Split(string(out), "\n") {
				f := strings.Split(l, "\t")
				switch {
				case f[0] == "SHADOW-FIRED" && len(f) >= 3:
					fired = append(fired, f[1]+" "+f[2])
				case f[0] == "SHADOW-UNDECIDED" && len(f) >= 3:
					und = append(und, f[1]+" "+f[2])
				case strings.HasPrefix(l, "UNDECIDED"):
					und = append(und, l)
				}
			}
			hit := ""
			for _, f := range fired {
				if p.Rule != "" && strings.Contains(strings.SplitN(f, " ", 2)[0], p.Rule) {
					hit = f
					break
				}
			}
			switch {
			case p.Rule == "" && code == 0:
				r.status = "silent-ok"
			case p.Rule == "":
				r.status, r.detail = "FALSE-ALARM", strings.Join(append(fired, und...), "; ")
			case hit != "":
				r.status, r.detail = "fired", hit
			case len(und) > 0 && len(fired) == 0:
				// an undecided answer is not silence: the check refuses to pass the variant
				r.status, r.detail = "fired", "undecided: "+und[0]
			case code != 0 && len(fired) > 0:
				r.status, r.detail = "fired", "other rule: "+fired[0]
			default:
				r.status, r.detail = "SILENT", fmt.Sprintf("exit %d, %d fired", code, len(fired))
			}
			res[i] = r
		}(i, p)
	}
	wg.Wait()
	sort.Slice(res, func(i, j int) bool { return res[i].p.ID < res[j].p.ID })
	for _, r := range res {
		kind := "variant"
		if r.p.Rule == "" {
			kind = "control"
		}
		run.Notes = append(run.Notes, fmt.Sprintf("self-test %s %s (expect %s): %s %s", kind, r.p.ID, orSilent(r.p.Rule), r.status, r.detail))
		switch r.status {
		case "fired":
			run.Count("selftest_variants_fired", 1)
		case "silent-ok":
			run.Count("selftest_controls_silent", 1)
		case "skipped":
			run.Count("selftest_skipped", 1)
		default:
			run.Count("selftest_unexpected", 1)
			// only a checker regression on unchanged source is an error of the
			// check; on edited source the variant may simply have lost its meaning.
			if r.pristine {
				run.Undecide("selftest", core.Key("selftest", r.p.ID), "", fmt.Sprintf("reference %s %s on unchanged source files: expected %s, got %s (%s): the rule no longer separates the variant from the tree", kind, r.p.ID, orSilent(r.p.Rule), r.status, r.detail))
			}
		}
	}
}

func orSilent(s string) string {
	if s == "" {
		return "silence"
	}
	return s
}
