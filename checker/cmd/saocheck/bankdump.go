package main

import (
	"fmt"
	"sort"
	"strings"

	"saoverif/internal/eff"
	"saoverif/internal/prog"
)

// dumpBank prints every bank mutator call site with its argument terms (debug aid for the E7 table).
func dumpBank(p *prog.Program, et *eff.Table) {
	var lines []string
	for _, f := range p.Funcs {
		for _, e := range et.Own[f] {
			if strings.HasPrefix(e.Kind, "bank.") {
				var as []string
				for _, a := range e.Args {
					s := a.String()
					if len(s) > 150 {
						s = s[:150] + "…"
					}
					as = append(as, s)
				}
				lines = append(lines, fmt.Sprintf("%s | %s | %s", p.Name(f), e.Method, strings.Join(as, " ; ")))
			}
		}
	}
	sort.Strings(lines)
	for _, l := range lines {
		fmt.Println(l)
	}
}
