// Package cfgx has control-flow helpers over go/ssa basic blocks: natural
// loops, edge-cut reachability (must-pass-through), path witnesses.
package cfgx

import (
	"sort"

	"golang.org/x/tools/go/ssa"
)

type Edge struct{ From, To *ssa.BasicBlock }

type Loop struct {
	Header *ssa.BasicBlock
	Body   map[*ssa.BasicBlock]bool // includes header
	Backs  []*ssa.BasicBlock        // sources of back edges
}

// Loops returns the natural loops of f (merged per header), sorted by header index.
func Loops(f *ssa.Function) []*Loop {
	byHeader := map[*ssa.BasicBlock]*Loop{}
	for _, b := range f.Blocks {
		for _, s := range b.Succs {
			if s.Dominates(b) { // back edge b -> s
				l := byHeader[s]
				if l == nil {
					l = &Loop{Header: s, Body: map[*ssa.BasicBlock]bool{s: true}}
					byHeader[s] = l
				}
				l.Backs = append(l.Backs, b)
				// collect body: reverse reachability from b stopping at header
				st := []*ssa.BasicBlock{b}
				for len(st) > 0 {
					x := st[len(st)-1]
					st = st[:len(st)-1]
					if l.Body[x] {
						continue
					}
					l.Body[x] = true
					st = append(st, x.Preds...)
				}
			}
		}
	}
	var out []*Loop
	for _, l := range byHeader {
		out = append(out, l)
	}
	sort.Slice(out, func(i, j int) bool { return out[i].Header.Index < out[j].Header.Index })
	return out
}

// HasIrreducible reports cycles that are not natural loops (a cycle remains
// after removing back edges).
func HasIrreducible(f *ssa.Function) bool {
	color := map[*ssa.BasicBlock]int{}
	var dfs func(b *ssa.BasicBlock) bool
	dfs = func(b *ssa.BasicBlock) bool {
		color[b] = 1
		for _, s := range b.Succs {
			if s.Dominates(b) {
				continue
			}
			if color[s] == 1 {
				return true
			}
			if color[s] == 0 && dfs(s) {
				return true
			}
		}
		color[b] = 2
		return false
	}
	if len(f.Blocks) == 0 {
		return false
	}
	return dfs(f.Blocks[0])
}

// ReachAvoiding: blocks reachable from start without traversing any edge in cut.
func ReachAvoiding(start *ssa.BasicBlock, cut map[Edge]bool) map[*ssa.BasicBlock]bool {
	seen := map[*ssa.BasicBlock]bool{start: true}
	st := []*ssa.BasicBlock{start}
	for len(st) > 0 {
		b := st[len(st)-1]
		st = st[:len(st)-1]
		for _, s := range b.Succs {
			if cut[Edge{b, s}] || seen[s] {
				continue
			}
			seen[s] = true
			st = append(st, s)
		}
	}
	return seen
}

// PathAvoiding returns one block path start..target avoiding cut edges, or nil.
func PathAvoiding(start, target *ssa.BasicBlock, cut map[Edge]bool) []*ssa.BasicBlock {
	prev := map[*ssa.BasicBlock]*ssa.BasicBlock{start: nil}
	q := []*ssa.BasicBlock{start}
	for len(q) > 0 {
		b := q[0]
		q = q[1:]
		if b == target {
			var rev []*ssa.BasicBlock
			for x := b; x != nil; x = prev[x] {
				rev = append(rev, x)
			}
			for i, j := 0, len(rev)-1; i < j; i, j = i+1, j-1 {
				rev[i], rev[j] = rev[j], rev[i]
			}
			return rev
		}
		for _, s := range b.Succs {
			if cut[Edge{b, s}] {
				continue
			}
			if _, ok := prev[s]; !ok {
				prev[s] = b
				q = append(q, s)
			}
		}
	}
	return nil
}

// BlockOf returns the block holding an instruction.
func BlockOf(ins ssa.Instruction) *ssa.BasicBlock { return ins.Block() }

// IfOf returns the If terminating b, if any.
func IfOf(b *ssa.BasicBlock) *ssa.If {
	if len(b.Instrs) == 0 {
		return nil
	}
	i, _ := b.Instrs[len(b.Instrs)-1].(*ssa.If)
	return i
}
