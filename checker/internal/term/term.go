// Package term maps SSA values to canonical access-path terms such as
//
//	order/keeper.Keeper.GetOrder(#2.OrderId)#0.Creator
//
// so that rules can talk about "the Creator of the order loaded with the
// message's OrderId" independently of local variable names, statement order
// and position. Callees are resolved through type information.
package term

import (
	"fmt"
	"go/constant"
	"go/token"
	"go/types"
	"sort"
	"strings"

	"golang.org/x/tools/go/ssa"

	"saoverif/internal/prog"
)

type Term struct {
	Op       string // param const field call extract elem index bin un conv phi zero global make slice opaque closure freevar alloc lookup typeassert
	Name     string
	Args     []*Term
	Unstable bool // read through memory that is written more than once in the function
	V        ssa.Value
	str      string
}

func (t *Term) String() string {
	if t == nil {
		return "<nil>"
	}
	if t.str != "" {
		return t.str
	}
	var s string
	switch t.Op {
	case "param", "const", "zero", "global", "opaque", "freevar", "alloc", "closure":
		s = t.Name
	case "field":
		s = t.Args[0].String() + "." + t.Name
	case "call":
		parts := make([]string, len(t.Args))
		for i, a := range t.Args {
			parts[i] = a.String()
		}
		s = t.Name + "(" + strings.Join(parts, ",") + ")"
	case "extract":
		s = t.Args[0].String() + "#" + t.Name
	case "elem":
		s = "elem(" + t.Args[0].String() + ")"
	case "key":
		s = "key(" + t.Args[0].String() + ")"
	case "index":
		s = t.Args[0].String() + "[" + t.Args[1].String() + "]"
	case "lookup":
		s = t.Args[0].String() + "[" + t.Args[1].String() + "]"
	case "bin":
		s = "(" + t.Args[0].String() + " " + t.Name + " " + t.Args[1].String() + ")"
	case "un":
		s = t.Name + t.Args[0].String()
	case "conv":
		s = t.Name + "(" + t.Args[0].String() + ")"
	case "slice":
		parts := []string{}
		for _, a := range t.Args[1:] {
			if a == nil {
				parts = append(parts, "")
			} else {
				parts = append(parts, a.String())
			}
		}
		s = t.Args[0].String() + "[" + strings.Join(parts, ":") + "]"
	case "phi":
		parts := make([]string, len(t.Args))
		for i, a := range t.Args {
			parts[i] = a.String()
		}
		sort.Strings(parts)
		// dedupe
		out := parts[:0]
		for i, p := range parts {
			if i == 0 || p != parts[i-1] {
				out = append(out, p)
			}
		}
		if len(out) == 1 {
			s = out[0]
		} else {
			s = "phi(" + strings.Join(out, "|") + ")"
		}
	case "mk":
		// a struct value built field by field (composite literal / parameter object / result struct)
		parts := make([]string, len(t.Args))
		for i, a := range t.Args {
			parts[i] = a.Name + ":" + a.Args[0].String()
		}
		s = "mk{" + strings.Join(parts, ",") + "}"
	case "make":
		s = "make(" + t.Name + ")"
	case "lit":
		parts := make([]string, len(t.Args))
		for i, a := range t.Args {
			parts[i] = a.String()
		}
		s = "[" + strings.Join(parts, ",") + "]"
	default:
		s = t.Op + ":" + t.Name
	}
	if t.Unstable {
		s = "~" + s
	}
	t.str = s
	return s
}

// FieldOf: the term of field `name` of base — the component itself when base is a struct built field by field.
func FieldOf(base *Term, name string) *Term {
	if base != nil && base.Op == "mk" {
		for _, a := range base.Args {
			if a.Name == name {
				return a.Args[0]
			}
		}
		return &Term{Op: "zero", Name: "zero:" + name}
	}
	return &Term{Op: "field", Name: name, Args: []*Term{base}, Unstable: base != nil && base.Unstable && base.Op != "mk"}
}

// ReduceLiteralFields rewrites, in a rendered term, every  mk{...,f:X,...}.f  to X (after parameter substitution a
// helper's  #i.f  can have become a field of the caller's literal).
func ReduceLiteralFields(s string) string {
	for iter := 0; iter < 20; iter++ {
		i := strings.Index(s, "mk{")
		found := false
		for i >= 0 {
			// find the matching brace
			depth, j := 0, i+2
			for ; j < len(s); j++ {
				if s[j] == '{' || s[j] == '(' || s[j] == '[' {
					depth++
				} else if s[j] == '}' || s[j] == ')' || s[j] == ']' {
					depth--
					if depth == 0 {
						break
					}
				}
			}
			if j >= len(s) {
				return s
			}
			if j+1 < len(s) && s[j+1] == '.' {
				// field name
				k := j + 2
				for k < len(s) && (s[k] == '_' || s[k] >= '0' && s[k] <= '9' || s[k] >= 'a' && s[k] <= 'z' || s[k] >= 'A' && s[k] <= 'Z') {
					k++
				}
				name := s[j+2 : k]
				// split the body at top-level commas
				body := s[i+3 : j]
				val := "zero:" + name
				d2, start := 0, 0
				for q := 0; q <= len(body); q++ {
					if q == len(body) || (body[q] == ',' && d2 == 0) {
						part := body[start:q]
						if c := strings.Index(part, ":"); c >= 0 && part[:c] == name {
							val = part[c+1:]
						}
						start = q + 1
						continue
					}
					if body[q] == '{' || body[q] == '(' || body[q] == '[' {
						d2++
					} else if body[q] == '}' || body[q] == ')' || body[q] == ']' {
						d2--
					}
				}
				pre := s[:i]
				pre = strings.TrimRight(pre, "~")
				s = pre + val + s[k:]
				found = true
				break
			}
			n := strings.Index(s[i+3:], "mk{")
			if n < 0 {
				break
			}
			i = i + 3 + n
		}
		if !found {
			return s
		}
	}
	return s
}

// DropNilPhi rewrites every phi(...) whose alternatives are nil / zero values / self-references (cyc:…, the φ of a
// loop that carries the value around unchanged) except one to that one.
func DropNilPhi(s string) string {
	for iter := 0; iter < 30; iter++ {
		changed := false
		from := 0
		for {
			i := strings.Index(s[from:], "phi(")
			if i < 0 {
				break
			}
			i += from
			depth, j := 0, i+3
			for ; j < len(s); j++ {
				if s[j] == '(' || s[j] == '[' || s[j] == '{' {
					depth++
				} else if s[j] == ')' || s[j] == ']' || s[j] == '}' {
					depth--
					if depth == 0 {
						break
					}
				}
			}
			if j >= len(s) {
				return s
			}
			body := s[i+4 : j]
			var parts []string
			d2, st := 0, 0
			for q := 0; q <= len(body); q++ {
				if q == len(body) || (body[q] == '|' && d2 == 0) {
					parts = append(parts, body[st:q])
					st = q + 1
					continue
				}
				if body[q] == '(' || body[q] == '[' || body[q] == '{' {
					d2++
				} else if body[q] == ')' || body[q] == ']' || body[q] == '}' {
					d2--
				}
			}
			var keep []string
			for _, pt := range parts {
				if pt == "nil" || strings.HasPrefix(pt, "zero:") || strings.HasPrefix(pt, "cyc:") {
					continue
				}
				keep = append(keep, pt)
			}
			if len(keep) == 1 && len(parts) > 1 {
				s = s[:i] + keep[0] + s[j+1:]
				changed = true
				break
			}
			from = i + 4
		}
		if !changed {
			return s
		}
	}
	return s
}

// FlattenPhi: in a rendered term, nested alternatives are merged, duplicates dropped and the alternatives sorted:
// phi(a|phi(nil|phi(b|nil))) and phi(a|phi(b|nil)) both read phi(a|b|nil) (which variable a value passed through on
// its way is not part of what it can be).
func FlattenPhi(s string) string {
	var rec func(s string) string
	splitTop := func(body string, sep byte) []string {
		var parts []string
		d, st := 0, 0
		for q := 0; q <= len(body); q++ {
			if q == len(body) || (body[q] == sep && d == 0) {
				parts = append(parts, body[st:q])
				st = q + 1
				continue
			}
			if body[q] == '(' || body[q] == '[' || body[q] == '{' {
				d++
			} else if body[q] == ')' || body[q] == ']' || body[q] == '}' {
				d--
			}
		}
		return parts
	}
	rec = func(s string) string {
		var out strings.Builder
		for i := 0; i < len(s); {
			if !strings.HasPrefix(s[i:], "phi(") || (i > 0 && (s[i-1] == '_' || s[i-1] >= 'a' && s[i-1] <= 'z' || s[i-1] >= 'A' && s[i-1] <= 'Z')) {
				out.WriteByte(s[i])
				i++
				continue
			}
			depth, j := 0, i+3
			for ; j < len(s); j++ {
				if s[j] == '(' || s[j] == '[' || s[j] == '{' {
					depth++
				} else if s[j] == ')' || s[j] == ']' || s[j] == '}' {
					depth--
					if depth == 0 {
						break
					}
				}
			}
			if j >= len(s) {
				out.WriteString(s[i:])
				break
			}
			var alts []string
			seen := map[string]bool{}
			for _, pt := range splitTop(s[i+4:j], '|') {
				pt = rec(pt)
				sub := []string{pt}
				if strings.HasPrefix(pt, "phi(") && strings.HasSuffix(pt, ")") && len(splitTop(pt, '|')) == 1 {
					sub = splitTop(pt[4:len(pt)-1], '|')
				}
				for _, a := range sub {
					if !seen[a] {
						seen[a] = true
						alts = append(alts, a)
					}
				}
			}
			sort.Strings(alts)
			if len(alts) == 1 {
				out.WriteString(alts[0])
			} else {
				out.WriteString("phi(" + strings.Join(alts, "|") + ")")
			}
			i = j + 1
		}
		return out.String()
	}
	return rec(s)
}

// Resolver computes terms for the values of one function.
type Resolver struct {
	P     *prog.Program
	Mods  *Mods
	Fn    *ssa.Function
	cache map[ssa.Value]*Term
	busy  map[ssa.Value]bool
	// inlining of transparent helpers (functions outside the rule vocabulary): the value of a call is the term
	// of what the helper returns, with its parameters replaced by the argument terms
	inlineDepth int
	subs        map[*ssa.Function]*Resolver
}

func NewResolver(p *prog.Program, mods *Mods, fn *ssa.Function) *Resolver {
	return &Resolver{P: p, Mods: mods, Fn: fn, cache: map[ssa.Value]*Term{}, busy: map[ssa.Value]bool{}}
}

const maxDepth = 14

func (r *Resolver) Of(v ssa.Value) *Term { return r.of(v, 0) }

func isCtxType(t types.Type) bool {
	s := t.String()
	return s == "github.com/cosmos/cosmos-sdk/types.Context" || s == "context.Context"
}

// statelessRecv: module types whose values carry no per-call data (keepers and
// servers are value structs over store keys and other keepers).
func statelessRecv(t types.Type) bool {
	for {
		if p, ok := t.(*types.Pointer); ok {
			t = p.Elem()
			continue
		}
		break
	}
	n, ok := t.(*types.Named)
	if !ok || n.Obj().Pkg() == nil || !prog.InModule(n.Obj().Pkg().Path()) {
		return false
	}
	switch n.Obj().Name() {
	case "Keeper", "msgServer", "Hooks", "Migrator", "AppModule", "queryServer":
		return true
	}
	return false
}

func constString(c *ssa.Const) string {
	if c.Value == nil {
		return "nil"
	}
	switch c.Value.Kind() {
	case constant.String:
		return fmt.Sprintf("%q", constant.StringVal(c.Value))
	case constant.Bool:
		return c.Value.String()
	default:
		return c.Value.ExactString()
	}
}

// CalleeName returns the canonical callee name of a call and whether the
// callee is a module function with a body.
func (r *Resolver) CalleeName(cc *ssa.CallCommon) (string, []*ssa.Function) {
	return CalleeName(r.P, cc)
}

func CalleeName(p *prog.Program, cc *ssa.CallCommon) (string, []*ssa.Function) {
	if sc := cc.StaticCallee(); sc != nil {
		if p.IsModFunc(sc) {
			return p.Name(sc), []*ssa.Function{sc}
		}
		if o, ok := sc.Object().(*types.Func); ok {
			return prog.ObjName(o), nil
		}
		return p.Name(sc), nil
	}
	if cc.IsInvoke() {
		// resolve through the call graph (module CHA)
		if p.CG != nil {
			// find site
		}
		iface, _ := cc.Value.Type().Underlying().(*types.Interface)
		if iface != nil {
			impl := p.Implementers(iface, cc.Method)
			if len(impl) == 1 {
				return p.Name(impl[0]), impl
			}
			if len(impl) > 1 {
				return prog.ObjName(cc.Method), impl
			}
		}
		return prog.ObjName(cc.Method), nil
	}
	if b, ok := cc.Value.(*ssa.Builtin); ok {
		return "builtin." + b.Name(), nil
	}
	if u, ok := cc.Value.(*ssa.UnOp); ok {
		if g, ok := u.X.(*ssa.Global); ok && g.Pkg != nil {
			return prog.Short(g.Pkg.Pkg.Path()) + "." + g.Name(), nil
		}
	}
	if mc, ok := cc.Value.(*ssa.MakeClosure); ok {
		if fn, ok := mc.Fn.(*ssa.Function); ok {
			return p.Name(fn), []*ssa.Function{fn}
		}
	}
	return "dyn", nil
}

func (r *Resolver) of(v ssa.Value, d int) *Term {
	if v == nil {
		return &Term{Op: "opaque", Name: "<nil-value>"}
	}
	if t, ok := r.cache[v]; ok {
		return t
	}
	if d > maxDepth {
		return &Term{Op: "opaque", Name: "…", V: v}
	}
	if r.busy[v] {
		return &Term{Op: "opaque", Name: "cyc:" + v.Name(), V: v}
	}
	r.busy[v] = true
	t := r.compute(v, d)
	delete(r.busy, v)
	t.V = v
	// do not cache cyclic approximations computed under a busy ancestor
	if len(r.busy) == 0 {
		r.cache[v] = t
	}
	return t
}

func (r *Resolver) compute(v ssa.Value, d int) *Term {
	switch x := v.(type) {
	case *ssa.Parameter:
		for i, p := range r.Fn.Params {
			if p == x {
				return &Term{Op: "param", Name: fmt.Sprintf("#%d", i)}
			}
		}
		return &Term{Op: "param", Name: "#" + x.Name()}
	case *ssa.FreeVar:
		return &Term{Op: "freevar", Name: "free:" + x.Name()}
	case *ssa.Const:
		return &Term{Op: "const", Name: constString(x)}
	case *ssa.Global:
		pk := ""
		if x.Pkg != nil {
			pk = prog.Short(x.Pkg.Pkg.Path()) + "."
		}
		return &Term{Op: "global", Name: "&" + pk + x.Name()}
	case *ssa.Function:
		return &Term{Op: "closure", Name: "func:" + r.P.Name(x)}
	case *ssa.MakeClosure:
		if fn, ok := x.Fn.(*ssa.Function); ok {
			return &Term{Op: "closure", Name: "func:" + r.P.Name(fn)}
		}
	case *ssa.Alloc:
		// address of a local: name it by what the local holds, not by its source name
		c := r.allocContent(x, -1, d+1)
		if c.Op == "alloc" || c.Op == "zero" {
			return &Term{Op: "alloc", Name: "&" + allocName(x)}
		}
		return &Term{Op: "un", Name: "&", Args: []*Term{c}}
	case *ssa.FieldAddr:
		// address term: only meaningful under a load; give a name anyway
		base := r.of(x.X, d+1)
		if sb := stripAddr(base); sb != nil && sb.Op == "mk" {
			return FieldOf(sb, fieldName(x.X.Type(), x.Field))
		}
		return &Term{Op: "field", Name: fieldName(x.X.Type(), x.Field), Args: []*Term{stripAddr(base)}}
	case *ssa.Field:
		return FieldOf(r.of(x.X, d+1), fieldNameV(x.X.Type(), x.Field))
	case *ssa.IndexAddr:
		base := stripAddr(r.of(x.X, d+1))
		if c, ok := x.Index.(*ssa.Const); ok {
			return &Term{Op: "index", Args: []*Term{base, {Op: "const", Name: constString(c)}}}
		}
		if isLenMinus(x.Index, x.X) {
			return &Term{Op: "index", Args: []*Term{base, {Op: "const", Name: "last"}}}
		}
		return &Term{Op: "elem", Args: []*Term{base}}
	case *ssa.Index:
		base := r.of(x.X, d+1)
		if c, ok := x.Index.(*ssa.Const); ok {
			return &Term{Op: "index", Args: []*Term{base, {Op: "const", Name: constString(c)}}}
		}
		return &Term{Op: "elem", Args: []*Term{base}}
	case *ssa.Lookup:
		return &Term{Op: "lookup", Args: []*Term{r.of(x.X, d+1), r.of(x.Index, d+1)}}
	case *ssa.UnOp:
		if x.Op == token.MUL {
			return r.load(x, d)
		}
		if x.Op == token.NOT {
			return &Term{Op: "un", Name: "!", Args: []*Term{r.of(x.X, d+1)}}
		}
		return &Term{Op: "un", Name: x.Op.String(), Args: []*Term{r.of(x.X, d+1)}}
	case *ssa.BinOp:
		return &Term{Op: "bin", Name: x.Op.String(), Args: []*Term{r.of(x.X, d+1), r.of(x.Y, d+1)}}
	case *ssa.Call:
		return r.call(x, d)
	case *ssa.Extract:
		if c, ok := x.Tuple.(*ssa.Call); ok {
			if t := r.inlineResult(c, x.Index, d); t != nil {
				return t
			}
		}
		return &Term{Op: "extract", Name: fmt.Sprint(x.Index), Args: []*Term{r.of(x.Tuple, d+1)}}
	case *ssa.Next:
		return &Term{Op: "elem", Args: []*Term{r.of(x.Iter, d+1)}}
	case *ssa.Range:
		return r.of(x.X, d+1)
	case *ssa.ChangeType:
		return r.of(x.X, d+1)
	case *ssa.ChangeInterface:
		return r.of(x.X, d+1)
	case *ssa.MakeInterface:
		return r.of(x.X, d+1)
	case *ssa.Convert:
		return &Term{Op: "conv", Name: types.TypeString(x.Type(), shortQual), Args: []*Term{r.of(x.X, d+1)}}
	case *ssa.TypeAssert:
		return &Term{Op: "conv", Name: "assert:" + types.TypeString(x.AssertedType, shortQual), Args: []*Term{r.of(x.X, d+1)}}
	case *ssa.Slice:
		// slice literal / variadic pack: [e0,e1,...]
		if al, ok := x.X.(*ssa.Alloc); ok && x.Low == nil && (al.Comment == "slicelit" || al.Comment == "varargs") {
			if arr, ok := al.Type().Underlying().(*types.Pointer).Elem().Underlying().(*types.Array); ok && arr.Len() <= 8 {
				elems := make([]*Term, arr.Len())
				okAll := true
				for _, ref := range *al.Referrers() {
					ia, isIA := ref.(*ssa.IndexAddr)
					if !isIA {
						continue
					}
					c, isC := ia.Index.(*ssa.Const)
					if !isC || c.Value == nil {
						okAll = false
						continue
					}
					idx, _ := constant.Int64Val(c.Value)
					for _, r2 := range *ia.Referrers() {
						if st, ok := r2.(*ssa.Store); ok && st.Addr == ia && idx >= 0 && int(idx) < len(elems) {
							if elems[idx] != nil {
								okAll = false
							}
							elems[idx] = r.of(st.Val, d+1)
						}
					}
				}
				for _, e := range elems {
					if e == nil {
						okAll = false
					}
				}
				if okAll {
					return &Term{Op: "lit", Args: elems}
				}
			}
		}
		args := []*Term{stripAddr(r.of(x.X, d+1)), nil, nil}
		if x.Low != nil {
			args[1] = r.of(x.Low, d+1)
		}
		if x.High != nil {
			args[2] = r.of(x.High, d+1)
		}
		return &Term{Op: "slice", Args: args}
	case *ssa.Phi:
		var args []*Term
		for _, e := range x.Edges {
			args = append(args, r.of(e, d+1))
		}
		return &Term{Op: "phi", Name: x.Name(), Args: args}
	case *ssa.MakeSlice:
		return &Term{Op: "make", Name: types.TypeString(x.Type(), shortQual)}
	case *ssa.MakeMap:
		return &Term{Op: "make", Name: types.TypeString(x.Type(), shortQual)}
	}
	return &Term{Op: "opaque", Name: fmt.Sprintf("%T:%s", v, v.Name())}
}

func shortQual(p *types.Package) string { return prog.Short(p.Path()) }

func allocName(a *ssa.Alloc) string {
	if a.Comment != "" {
		return a.Comment
	}
	return a.Name()
}

func stripAddr(t *Term) *Term {
	if t.Op == "alloc" {
		return &Term{Op: "alloc", Name: strings.TrimPrefix(t.Name, "&"), V: t.V}
	}
	if t.Op == "un" && t.Name == "&" {
		return t.Args[0]
	}
	return t
}

func structOf(t types.Type) *types.Struct {
	for i := 0; i < 4; i++ {
		switch x := t.Underlying().(type) {
		case *types.Pointer:
			t = x.Elem()
		case *types.Struct:
			return x
		default:
			return nil
		}
	}
	return nil
}

func fieldName(ptrT types.Type, i int) string {
	if s := structOf(ptrT); s != nil && i < s.NumFields() {
		return s.Field(i).Name()
	}
	return fmt.Sprintf("f%d", i)
}
func fieldNameV(T types.Type, i int) string { return fieldName(T, i) }

func isLenMinus(idx ssa.Value, sl ssa.Value) bool {
	b, ok := idx.(*ssa.BinOp)
	if !ok || b.Op != token.SUB {
		return false
	}
	c, ok := b.Y.(*ssa.Const)
	if !ok || c.Value == nil || c.Value.ExactString() != "1" {
		return false
	}
	call, ok := b.X.(*ssa.Call)
	if !ok {
		return false
	}
	if bi, ok := call.Call.Value.(*ssa.Builtin); ok && bi.Name() == "len" && len(call.Call.Args) == 1 {
		return sameValue(call.Call.Args[0], sl)
	}
	return false
}

// sameValue: syntactic identity up to re-loading the same address.
func sameValue(a, b ssa.Value) bool {
	if a == b {
		return true
	}
	ua, ok1 := a.(*ssa.UnOp)
	ub, ok2 := b.(*ssa.UnOp)
	if ok1 && ok2 && ua.Op == token.MUL && ub.Op == token.MUL {
		return sameAddr(ua.X, ub.X)
	}
	return false
}

func sameAddr(a, b ssa.Value) bool {
	if a == b {
		return true
	}
	fa, ok1 := a.(*ssa.FieldAddr)
	fb, ok2 := b.(*ssa.FieldAddr)
	if ok1 && ok2 && fa.Field == fb.Field {
		return sameAddr(fa.X, fb.X) || sameValue(fa.X, fb.X)
	}
	return false
}

// inlineResult: term of result idx of a call to a transparent helper, or nil.
func (r *Resolver) inlineResult(c *ssa.Call, idx int, d int) *Term {
	if r.inlineDepth >= 3 || d > maxDepth-4 {
		return nil
	}
	h := c.Call.StaticCallee()
	if h == nil || c.Call.IsInvoke() || !r.P.Transparent(h) || h == r.Fn {
		return nil
	}
	if h.Signature.Results().Len() <= idx {
		return nil
	}
	if r.subs == nil {
		r.subs = map[*ssa.Function]*Resolver{}
	}
	sub := r.subs[h]
	if sub == nil {
		sub = NewResolver(r.P, r.Mods, h)
		sub.inlineDepth = r.inlineDepth + 1
		r.subs[h] = sub
	}
	var rets []*Term
	if rec := sub.recordResult(h, idx); rec != nil {
		rets = []*Term{rec}
	} else {
		for _, b := range h.Blocks {
			ret, ok := b.Instrs[len(b.Instrs)-1].(*ssa.Return)
			if !ok || len(ret.Results) <= idx {
				continue
			}
			rets = append(rets, sub.Of(ret.Results[idx]))
		}
	}
	if len(rets) == 0 {
		return nil
	}
	args := make([]*Term, len(c.Call.Args))
	for i, a := range c.Call.Args {
		args[i] = r.of(a, d+1)
	}
	vals := c.Call.Args
	for _, t := range rets {
		if len(t.String()) > 2500 {
			return nil // too large to be a useful expression: keep the call by name
		}
	}
	var out *Term
	if len(rets) == 1 {
		out = r.substParamTerms(rets[0], args, vals, 0, d)
	} else {
		ph := &Term{Op: "phi"}
		for _, t := range rets {
			ph.Args = append(ph.Args, r.substParamTerms(t, args, vals, 0, d))
		}
		out = ph
	}
	if len(out.String()) > 8000 {
		return nil
	}
	return out
}

// recordResult: result idx of helper h (resolver r) is a record — one struct-typed local of a type declared in the
// module, filled in field by field on the way and handed back by value at every return that can succeed ("validate,
// collect what was looked up, return it"). The record is the tuple of the fields that are assigned exactly once, by a
// store that lies on every path to a succeeding return; the other fields stay opaque. What a failing return hands
// back is not described (the error is).
func (r *Resolver) recordResult(h *ssa.Function, idx int) *Term {
	t, _ := r.recordResult2(h, idx)
	return t
}

// RecordStatus: result idx of h is a record in the sense of recordResult (isRecord), and every field of it that is
// assigned at all is assigned exactly once on every path to a succeeding return (clean). A record that is not clean
// carries values whose presence depends on the path taken inside h.
func (r *Resolver) RecordStatus(h *ssa.Function, idx int) (isRecord, clean bool) {
	if idx >= h.Signature.Results().Len() || len(h.Blocks) == 0 {
		return false, false
	}
	t, opaque := r.recordResult2(h, idx)
	if t == nil && opaque < 0 {
		return false, false
	}
	return true, opaque == 0
}

// recordResult2: the record, and the number of fields left opaque (-1: not a record at all).
func (r *Resolver) recordResult2(h *ssa.Function, idx int) (*Term, int) {
	rt := h.Signature.Results().At(idx).Type()
	named, ok := rt.(*types.Named)
	if !ok || named.Obj().Pkg() == nil || !prog.InModule(named.Obj().Pkg().Path()) {
		return nil, -1
	}
	st, ok := named.Underlying().(*types.Struct)
	if !ok || r.P.IsGeneratedPos(named.Obj().Pos()) {
		return nil, -1
	}
	var A *ssa.Alloc
	var succ []*ssa.BasicBlock
	nres := h.Signature.Results().Len()
	hasErr := nres > 0 && h.Signature.Results().At(nres-1).Type().String() == "error"
	for _, b := range h.Blocks {
		ret, ok := b.Instrs[len(b.Instrs)-1].(*ssa.Return)
		if !ok || len(ret.Results) <= idx {
			continue
		}
		if hasErr && idx != nres-1 && failingReturn(b, ret.Results[nres-1]) {
			continue
		}
		succ = append(succ, b)
		u, ok := ret.Results[idx].(*ssa.UnOp)
		if !ok || u.Op != token.MUL {
			return nil, -1
		}
		al, ok := u.X.(*ssa.Alloc)
		if !ok || (A != nil && al != A) {
			return nil, -1
		}
		A = al
	}
	if A == nil || len(succ) == 0 {
		return nil, -1
	}
	stores := map[int][]*ssa.Store{}
	opaque := map[int]bool{}
	for _, ref := range *A.Referrers() {
		switch x := ref.(type) {
		case *ssa.FieldAddr:
			for _, rr := range *x.Referrers() {
				switch y := rr.(type) {
				case *ssa.Store:
					if y.Addr == x {
						stores[x.Field] = append(stores[x.Field], y)
					} else {
						opaque[x.Field] = true
					}
				case *ssa.UnOp, *ssa.DebugRef:
				case ssa.CallInstruction:
					if r.Mods == nil || r.Mods.CallWrites(y, x) {
						opaque[x.Field] = true
					}
				case *ssa.FieldAddr:
					if r.fieldAddrWritten(y) {
						opaque[x.Field] = true
					}
				default:
					opaque[x.Field] = true
				}
			}
		case *ssa.UnOp, *ssa.DebugRef:
		case *ssa.Store:
			// a named result is stored to itself on `return rec, ...`
			if u, isLoad := x.Val.(*ssa.UnOp); x.Addr == ssa.Value(A) && isLoad && u.Op == token.MUL && u.X == ssa.Value(A) {
				continue
			}
			return nil, -1
		default:
			return nil, -1 // whole stores, the address handed on
		}
	}
	t := &Term{Op: "mk", Name: allocName(A)}
	n := 0
	nOpaque := 0
	for i := 0; i < st.NumFields(); i++ {
		fname := fieldName(A.Type(), i)
		var val *Term
		if ss := stores[i]; len(ss) == 1 && !opaque[i] {
			dom := true
			for _, b := range succ {
				if !(ss[0].Block() == b || ss[0].Block().Dominates(b)) {
					dom = false
				}
			}
			if dom {
				val = r.Of(ss[0].Val)
				n++
			}
		} else if len(stores[i]) == 0 && !opaque[i] {
			val = &Term{Op: "zero", Name: "zero:" + fname}
		}
		if val == nil {
			// a list grown in place (f = append(f, ...)) is followed by the list rules, not through the record
			acc := len(stores[i]) > 0 && !opaque[i]
			for _, st := range stores[i] {
				cl, isCall := st.Val.(*ssa.Call)
				if !isCall {
					acc = false
					continue
				}
				bi, isB := cl.Call.Value.(*ssa.Builtin)
				if !isB || bi.Name() != "append" || len(cl.Call.Args) == 0 {
					acc = false
					continue
				}
				ld, isLoad := cl.Call.Args[0].(*ssa.UnOp)
				if !isLoad || ld.Op != token.MUL || !sameAddr(ld.X, st.Addr) {
					acc = false
				}
			}
			if !acc {
				nOpaque++
			}
			val = &Term{Op: "alloc", Name: r.P.Name(h) + "." + fname, Unstable: true}
		}
		t.Args = append(t.Args, &Term{Op: "fieldinit", Name: fname, Args: []*Term{val}})
	}
	if n == 0 {
		return nil, nOpaque
	}
	return t, nOpaque
}

// failingReturn: the error handed back at this return cannot be nil (it is built here, or the return is reached
// only through the non-nil side of a test of it).
func failingReturn(b *ssa.BasicBlock, e ssa.Value) bool {
	if c, ok := e.(*ssa.Const); ok {
		return c.Value != nil
	}
	if c, ok := e.(*ssa.Call); ok && !c.Call.IsInvoke() {
		name := ""
		if f := c.Call.StaticCallee(); f != nil {
			name = f.Name()
		} else if g, ok := c.Call.Value.(*ssa.UnOp); ok {
			if gl, ok := g.X.(*ssa.Global); ok {
				name = gl.Name()
			}
		}
		switch name {
		case "Wrap", "Wrapf", "Errorf", "New", "Error", "Register":
			return true
		}
	}
	for _, d := range b.Parent().Blocks {
		if len(d.Succs) != 2 || d.Succs[0] == d.Succs[1] || len(d.Instrs) == 0 {
			continue
		}
		iff, ok := d.Instrs[len(d.Instrs)-1].(*ssa.If)
		if !ok {
			continue
		}
		bo, ok := iff.Cond.(*ssa.BinOp)
		if !ok || (bo.Op != token.NEQ && bo.Op != token.EQL) {
			continue
		}
		x, y := bo.X, bo.Y
		if c, isC := x.(*ssa.Const); isC && c.Value == nil {
			x, y = y, x
		}
		if c, isC := y.(*ssa.Const); !isC || c.Value != nil || x != e {
			continue
		}
		side := d.Succs[0]
		if bo.Op == token.EQL {
			side = d.Succs[1]
		}
		if len(side.Preds) == 1 && (side == b || side.Dominates(b)) {
			return true
		}
	}
	return false
}

// fieldOfLocal: the term of field `name` of a struct-valued local variable (as a direct field read in this
// function would produce it), used when a by-value struct argument's field is read inside an inlined helper.
func (r *Resolver) fieldOfLocal(al *ssa.Alloc, name string, d int) *Term {
	st := structOf(al.Type())
	if st == nil {
		return nil
	}
	idx := -1
	for i := 0; i < st.NumFields(); i++ {
		if fieldName(al.Type(), i) == name {
			idx = i
		}
	}
	if idx < 0 {
		return nil
	}
	var fa *ssa.FieldAddr
	for _, ref := range *al.Referrers() {
		if x, ok := ref.(*ssa.FieldAddr); ok && x.Field == idx {
			fa = x
		}
	}
	if fa == nil {
		// never addressed field-wise: only whole-value stores can define it
		c := r.allocContent(al, -1, d+1)
		ft := FieldOf(c, name)
		return ft
	}
	return r.allocField(al, fa, []int{idx}, d+1)
}

// substParamTerms replaces parameter terms #i by args[i] (fresh term nodes; cached strings are not reused).
func (r *Resolver) substParamTerms(t *Term, args []*Term, vals []ssa.Value, depth int, d int) *Term {
	if t == nil || depth > 40 {
		return t
	}
	if t.Op == "field" && len(t.Args) == 1 && t.Args[0] != nil && t.Args[0].Op == "param" {
		var i int
		if _, err := fmt.Sscanf(t.Args[0].Name, "#%d", &i); err == nil && i < len(vals) {
			if u, ok := vals[i].(*ssa.UnOp); ok {
				if al, ok := u.X.(*ssa.Alloc); ok {
					if ft := r.fieldOfLocal(al, t.Name, d); ft != nil {
						return ft
					}
				}
			}
		}
	}
	if t.Op == "field" && len(t.Args) == 1 && t.Args[0] != nil && t.Args[0].Op == "param" {
		// field read through a pointer parameter bound to &X: the field of X
		var i int
		if _, err := fmt.Sscanf(t.Args[0].Name, "#%d", &i); err == nil && i < len(args) && args[i] != nil {
			if a := args[i]; a.Op == "un" && a.Name == "&" && len(a.Args) == 1 {
				if a.Args[0] != nil && a.Args[0].Op == "mk" {
					return FieldOf(a.Args[0], t.Name)
				}
				return &Term{Op: "field", Name: t.Name, Args: []*Term{a.Args[0]}, Unstable: t.Unstable || a.Args[0].Unstable}
			}
		}
	}
	if t.Op == "param" {
		var i int
		if _, err := fmt.Sscanf(t.Name, "#%d", &i); err == nil && i < len(args) && args[i] != nil {
			return args[i]
		}
		return t
	}
	if len(t.Args) == 0 {
		return t
	}
	nt := &Term{Op: t.Op, Name: t.Name, Unstable: t.Unstable, V: t.V}
	nt.Args = make([]*Term, len(t.Args))
	for i, a := range t.Args {
		nt.Args[i] = r.substParamTerms(a, args, vals, depth+1, d)
	}
	if nt.Op == "field" && len(nt.Args) == 1 && nt.Args[0] != nil && nt.Args[0].Op == "mk" {
		return FieldOf(nt.Args[0], nt.Name)
	}
	return nt
}

func (r *Resolver) call(c *ssa.Call, d int) *Term {
	cc := &c.Call
	if c.Type() != nil {
		if _, isTuple := c.Type().(*types.Tuple); !isTuple {
			if t := r.inlineResult(c, 0, d); t != nil {
				return t
			}
		}
	}
	name, _ := r.CalleeName(cc)
	var args []*Term
	if cc.IsInvoke() {
		if !statelessIface(cc.Value.Type()) {
			args = append(args, r.of(cc.Value, d+1))
		}
	}
	for i, a := range cc.Args {
		if isCtxType(a.Type()) {
			continue
		}
		if i == 0 && !cc.IsInvoke() && cc.Signature().Recv() != nil && statelessRecv(a.Type()) {
			continue
		}
		args = append(args, r.of(a, d+1))
	}
	return &Term{Op: "call", Name: name, Args: args}
}

// statelessIface: interfaces of other keepers (declared in module packages, or
// SDK keepers/codec): the receiver value carries no per-call data.
func statelessIface(t types.Type) bool {
	n, ok := t.(*types.Named)
	if !ok || n.Obj().Pkg() == nil {
		return false
	}
	if prog.InModule(n.Obj().Pkg().Path()) && strings.HasSuffix(n.Obj().Name(), "Keeper") {
		return true
	}
	switch n.String() {
	case "github.com/cosmos/cosmos-sdk/codec.BinaryCodec", "github.com/cosmos/cosmos-sdk/codec.Codec":
		return true
	}
	return false
}

// load resolves *addr.
func (r *Resolver) load(u *ssa.UnOp, d int) *Term {
	switch a := u.X.(type) {
	case *ssa.Alloc:
		if v := sameBlockStore(u, a); v != nil {
			return r.of(v, d+1)
		}
		return r.allocContent(a, -1, d)
	case *ssa.FieldAddr:
		path := []int{a.Field}
		base := a.X
		for {
			if fa, ok := base.(*ssa.FieldAddr); ok {
				path = append([]int{fa.Field}, path...)
				base = fa.X
				continue
			}
			break
		}
		if al, ok := base.(*ssa.Alloc); ok {
			return r.allocField(al, a, path, d)
		}
		// pointer-valued base: heap access path
		bt := r.of(a.X, d+1)
		if sb := stripAddr(bt); sb != nil && sb.Op == "mk" && !(r.Mods != nil && r.Mods.PtrPathWritten(base, path)) {
			return FieldOf(sb, fieldName(a.X.Type(), a.Field))
		}
		t := &Term{Op: "field", Name: fieldName(a.X.Type(), a.Field), Args: []*Term{stripAddr(bt)}}
		if r.Mods != nil && r.Mods.PtrPathWritten(base, path) {
			t.Unstable = true
		}
		return t
	case *ssa.IndexAddr:
		return r.of(a, d+1)
	case *ssa.Global:
		pk := ""
		if a.Pkg != nil {
			pk = prog.Short(a.Pkg.Pkg.Path()) + "."
		}
		return &Term{Op: "global", Name: pk + a.Name()}
	case *ssa.FreeVar:
		return &Term{Op: "freevar", Name: "*free:" + a.Name()}
	}
	return &Term{Op: "un", Name: "*", Args: []*Term{r.of(u.X, d+1)}}
}


// allocContent: the value held by a local variable (whole loads).
func (r *Resolver) allocContent(a *ssa.Alloc, _ int, d int) *Term {
	var whole []*ssa.Store
	fieldWrites := false
	escapes := false
	for _, ref := range *a.Referrers() {
		switch x := ref.(type) {
		case *ssa.Store:
			if x.Addr == a {
				whole = append(whole, x)
			} else if x.Val == a {
				escapes = true // the address itself is stored somewhere (e.g. into a slice handed to a callee)
			}
		case *ssa.FieldAddr:
			if r.fieldAddrWritten(x) {
				fieldWrites = true
			}
		case ssa.CallInstruction:
			if r.Mods == nil || r.Mods.CallWrites(x, a) {
				escapes = true
			}
		case *ssa.UnOp, *ssa.DebugRef:
		default:
			if _, ok := ref.(ssa.Value); ok {
				// address flows elsewhere (MakeInterface, Phi, ...)
				if r.Mods == nil || r.Mods.ValueEscapesWritable(ref) {
					escapes = true
				}
			}
		}
	}
	if len(whole) == 1 && !fieldWrites && !escapes {
		return r.of(whole[0].Val, d+1)
	}
	if len(whole) == 0 && fieldWrites && !escapes {
		if t := r.structLiteral(a, d); t != nil {
			return t
		}
	}
	if len(whole) == 0 && !fieldWrites && !escapes {
		return &Term{Op: "zero", Name: "zero:" + allocName(a)}
	}
	if len(whole) == 1 {
		t := *r.of(whole[0].Val, d+1)
		t.str = ""
		t.Unstable = true
		return &t
	}
	if len(whole) > 1 && len(whole) <= 4 {
		var args []*Term
		for _, w := range whole {
			args = append(args, r.of(w.Val, d+1))
		}
		return &Term{Op: "phi", Name: allocName(a), Args: args, Unstable: true}
	}
	return &Term{Op: "alloc", Name: allocName(a), Unstable: true}
}

// structLiteral: a struct-typed local that is only ever written by one direct store per field (a composite literal,
// or a value filled in field by field) and whose address does not escape: the struct value is the tuple of those
// field values.
func (r *Resolver) structLiteral(a *ssa.Alloc, d int) *Term {
	st := structOf(a.Type())
	if st == nil || d > maxDepth-2 {
		return nil
	}
	vals := map[int]ssa.Value{}
	for _, ref := range *a.Referrers() {
		fa, ok := ref.(*ssa.FieldAddr)
		if !ok {
			continue
		}
		for _, rr := range *fa.Referrers() {
			switch x := rr.(type) {
			case *ssa.Store:
				if x.Addr != fa {
					return nil
				}
				if _, dup := vals[fa.Field]; dup {
					return nil // assigned more than once: not a literal
				}
				vals[fa.Field] = x.Val
			case *ssa.UnOp, *ssa.DebugRef:
			default:
				return nil // nested writes, address taken, calls on the field
			}
		}
	}
	if len(vals) == 0 {
		return nil
	}
	// every field store precedes every load of the whole value: require all stores in the alloc's own block
	for _, ref := range *a.Referrers() {
		if fa, ok := ref.(*ssa.FieldAddr); ok {
			for _, rr := range *fa.Referrers() {
				if x, ok := rr.(*ssa.Store); ok && x.Block() != a.Block() {
					return nil
				}
			}
		}
	}
	t := &Term{Op: "mk", Name: allocName(a)}
	for i := 0; i < st.NumFields(); i++ {
		if v, ok := vals[i]; ok {
			t.Args = append(t.Args, &Term{Op: "fieldinit", Name: fieldName(a.Type(), i), Args: []*Term{r.of(v, d+1)}})
		}
	}
	return t
}

func (r *Resolver) fieldAddrWritten(fa *ssa.FieldAddr) bool {
	for _, ref := range *fa.Referrers() {
		switch x := ref.(type) {
		case *ssa.Store:
			if x.Addr == fa {
				return true
			}
		case *ssa.FieldAddr:
			if r.fieldAddrWritten(x) {
				return true
			}
		case ssa.CallInstruction:
			if r.Mods == nil || r.Mods.CallWrites(x, fa) {
				return true
			}
		case *ssa.UnOp, *ssa.DebugRef:
		case *ssa.IndexAddr:
			// element writes into an array field
			for _, rr := range *x.Referrers() {
				if st, ok := rr.(*ssa.Store); ok && st.Addr == x {
					return true
				}
			}
		}
	}
	return false
}

// allocField: load of a (nested) field of a local struct variable.
func (r *Resolver) allocField(al *ssa.Alloc, fa *ssa.FieldAddr, path []int, d int) *Term {
	// candidate definitions: whole stores to al, stores to the same field path, escapes
	var whole []*ssa.Store
	var fstores []*ssa.Store
	escapes := false
	var visit func(addr ssa.Value, cur []int)
	visit = func(addr ssa.Value, cur []int) {
		refs := addr.Referrers()
		if refs == nil {
			return
		}
		for _, ref := range *refs {
			switch x := ref.(type) {
			case *ssa.Store:
				if x.Addr == addr {
					if len(cur) == 0 {
						whole = append(whole, x)
					} else if prefixOf(cur, path) || prefixOf(path, cur) {
						fstores = append(fstores, x)
					}
				} else if x.Val == addr {
					escapes = true
				}
			case *ssa.FieldAddr:
				if x.X == addr {
					visit(x, append(append([]int{}, cur...), x.Field))
				}
			case ssa.CallInstruction:
				if len(cur) == 0 || prefixOf(cur, path) || prefixOf(path, cur) {
					if r.Mods == nil || r.Mods.CallWritesField(x, addr, relField(cur, path)) {
						escapes = true
					}
				}
			case *ssa.UnOp, *ssa.DebugRef, *ssa.IndexAddr:
			default:
				if _, ok := ref.(ssa.Value); ok && (len(cur) == 0 || prefixOf(cur, path)) {
					if r.Mods == nil || r.Mods.ValueEscapesWritable(ref) {
						escapes = true
					}
				}
			}
		}
	}
	visit(al, nil)
	fname := fieldPathName(al.Type(), path)
	mk := func(base *Term) *Term {
		t := base
		T := al.Type()
		for _, f := range path {
			if t != nil && t.Op == "mk" {
				t = FieldOf(t, fieldName(T, f))
			} else {
				t = &Term{Op: "field", Name: fieldName(T, f), Args: []*Term{t}}
			}
			if s := structOf(T); s != nil && f < s.NumFields() {
				T = s.Field(f).Type()
			}
		}
		return t
	}
	_ = fname
	n := len(whole) + len(fstores)
	switch {
	case n == 0 && !escapes:
		return mk(&Term{Op: "zero", Name: "zero:" + allocName(al)})
	case len(whole) == 1 && len(fstores) == 0 && !escapes:
		return mk(r.of(whole[0].Val, d+1))
	case len(whole) == 0 && len(fstores) == 1 && !escapes && sameAddr(fstores[0].Addr, fa):
		return r.of(fstores[0].Val, d+1)
	}
	// unstable: name it by the variable, or by its unique initialiser
	if len(whole) == 1 {
		t := mk(r.of(whole[0].Val, d+1))
		t.Unstable = true
		return t
	}
	base := r.allocContent(al, -1, d+1)
	if base.Op == "zero" {
		base = &Term{Op: "alloc", Name: allocName(al)}
	}
	t := mk(base)
	t.Unstable = true
	return t
}

func relField(cur, path []int) int {
	if len(cur) < len(path) && prefixOf(cur, path) {
		return path[len(cur)]
	}
	return -1
}

func prefixOf(a, b []int) bool {
	if len(a) > len(b) {
		return false
	}
	for i := range a {
		if a[i] != b[i] {
			return false
		}
	}
	return true
}

func fieldPathName(T types.Type, path []int) string {
	var parts []string
	for _, f := range path {
		parts = append(parts, fieldName(T, f))
		if s := structOf(T); s != nil && f < s.NumFields() {
			T = s.Field(f).Type()
		}
	}
	return strings.Join(parts, ".")
}

// sameBlockStore: the value most recently stored to the local in the same
// basic block before the load, provided no call in between can write it
// (the local escapes to closures or callees only through its address).
// StoredValue: v is a load of a local variable whose value at that point is unambiguously the one stored just
// before (a variable kept in memory because a deferred call or closure refers to it): that stored value; else v.
func StoredValue(v ssa.Value) ssa.Value {
	if u, ok := v.(*ssa.UnOp); ok && u.Op == token.MUL {
		if a, ok := u.X.(*ssa.Alloc); ok {
			if sv := sameBlockStore(u, a); sv != nil {
				return sv
			}
		}
	}
	return v
}

func sameBlockStore(u *ssa.UnOp, a *ssa.Alloc) ssa.Value {
	b := u.Block()
	if b == nil {
		return nil
	}
	idx := -1
	for i, ins := range b.Instrs {
		if ins == u {
			idx = i
			break
		}
	}
	escapes := false
	for _, ref := range *a.Referrers() {
		switch x := ref.(type) {
		case *ssa.Store:
			if x.Addr != a {
				escapes = true // address stored somewhere
			}
		case *ssa.UnOp, *ssa.DebugRef:
		case *ssa.FieldAddr, *ssa.IndexAddr:
		case *ssa.Defer:
			// a deferred call runs at function exit only: it cannot write the local before a later load
		default:
			escapes = true // passed to a call, captured by a closure, ...
		}
	}
	// walk backwards through this block and, while unambiguous, through single predecessors
	for hops := 0; hops < 6; hops++ {
		for i := idx - 1; i >= 0; i-- {
			switch x := b.Instrs[i].(type) {
			case *ssa.Store:
				if x.Addr == a {
					return x.Val
				}
				if fa, ok := x.Addr.(*ssa.FieldAddr); ok && fa.X == a {
					return nil
				}
			case *ssa.Defer:
			case ssa.CallInstruction:
				if escapes {
					return nil
				}
			}
		}
		if len(b.Preds) != 1 || b.Preds[0] == b {
			return nil
		}
		b = b.Preds[0]
		idx = len(b.Instrs)
	}
	return nil
}
