package term

import (
	"go/types"
	"strings"

	"golang.org/x/tools/go/ssa"

	"saoverif/internal/prog"
)

const AllFields = -1

// Mods holds per-function modification summaries: through which pointer
// parameters a function (transitively) writes, and which first-level fields.
type Mods struct {
	P      *prog.Program
	writes map[*ssa.Function]map[int]map[int]bool // fn -> param index -> field index (AllFields = unknown/whole)
}

// readOnlyExternal lists dependency callees known not to write through their
// pointer/interface arguments.
func readOnlyExternal(name string) bool {
	for _, suf := range []string{
		".MustMarshal", ".Marshal", ".MustMarshalJSON", ".MarshalJSON", ".MustMarshalLengthPrefixed",
		".String", ".Size", ".Error", ".Debug", ".Info", ".With", ".EmitEvent", ".EmitEvents",
		".GetSigners", ".ValidateBasic", ".IsZero", ".Empty", ".Equal", ".Equals",
	} {
		if strings.HasSuffix(name, suf) {
			return true
		}
	}
	for _, pre := range []string{"fmt.", "strings.", "strconv.", "bytes.Equal", "errors.", "github.com/cosmos/cosmos-sdk/types/errors.", "google.golang.org/grpc/status.", "github.com/cosmos/cosmos-sdk/types.NewEvent", "github.com/cosmos/cosmos-sdk/types.NewAttribute", "builtin.len", "builtin.cap", "builtin.append", "builtin.copy", "github.com/cosmos/cosmos-sdk/telemetry."} {
		if strings.HasPrefix(name, pre) {
			return true
		}
	}
	return false
}

type deriv struct {
	param int
	field int // first-level field, AllFields when the root itself
}

func BuildMods(p *prog.Program) *Mods {
	m := &Mods{P: p, writes: map[*ssa.Function]map[int]map[int]bool{}}
	add := func(f *ssa.Function, pi, fi int) bool {
		if m.writes[f] == nil {
			m.writes[f] = map[int]map[int]bool{}
		}
		if m.writes[f][pi] == nil {
			m.writes[f][pi] = map[int]bool{}
		}
		if m.writes[f][pi][fi] {
			return false
		}
		m.writes[f][pi][fi] = true
		return true
	}
	// derived addresses per function
	derived := map[*ssa.Function]map[ssa.Value]deriv{}
	for _, f := range p.Funcs {
		dm := map[ssa.Value]deriv{}
		for i, par := range f.Params {
			switch par.Type().Underlying().(type) {
			case *types.Pointer, *types.Slice, *types.Map:
				dm[par] = deriv{i, AllFields}
			}
		}
		changed := true
		for changed {
			changed = false
			for _, b := range f.Blocks {
				for _, ins := range b.Instrs {
					v, ok := ins.(ssa.Value)
					if !ok {
						continue
					}
					if _, done := dm[v]; done {
						continue
					}
					switch x := ins.(type) {
					case *ssa.FieldAddr:
						if d, ok := dm[x.X]; ok {
							if d.field == AllFields {
								d.field = x.Field
							}
							dm[v] = d
							changed = true
						}
					case *ssa.IndexAddr:
						if d, ok := dm[x.X]; ok {
							dm[v] = d
							changed = true
						}
					case *ssa.MakeInterface:
						if d, ok := dm[x.X]; ok {
							dm[v] = d
							changed = true
						}
					case *ssa.ChangeType:
						if d, ok := dm[x.X]; ok {
							dm[v] = d
							changed = true
						}
					case *ssa.Slice:
						if d, ok := dm[x.X]; ok {
							dm[v] = d
							changed = true
						}
					case *ssa.Phi:
						for _, e := range x.Edges {
							if d, ok := dm[e]; ok {
								dm[v] = d
								changed = true
								break
							}
						}
					}
				}
			}
		}
		derived[f] = dm
	}
	changed := true
	for changed {
		changed = false
		for _, f := range p.Funcs {
			dm := derived[f]
			for _, b := range f.Blocks {
				for _, ins := range b.Instrs {
					switch x := ins.(type) {
					case *ssa.Store:
						if d, ok := dm[x.Addr]; ok {
							if add(f, d.param, d.field) {
								changed = true
							}
						}
					case *ssa.MapUpdate:
						if d, ok := dm[x.Map]; ok {
							if add(f, d.param, d.field) {
								changed = true
							}
						}
					case ssa.CallInstruction:
						cc := x.Common()
						name, callees := CalleeName(p, cc)
						args := cc.Args
						off := 0
						if cc.IsInvoke() {
							off = 1 // callee param 0 is the receiver
						}
						for j, a := range args {
							d, ok := dm[a]
							if !ok {
								continue
							}
							if len(callees) == 0 {
								if readOnlyExternal(name) {
									continue
								}
								if add(f, d.param, d.field) {
									changed = true
								}
								continue
							}
							for _, g := range callees {
								for gf := range m.writes[g][j+off] {
									fi := d.field
									if fi == AllFields {
										fi = gf
									}
									if add(f, d.param, fi) {
										changed = true
									}
								}
							}
						}
					}
				}
			}
		}
	}
	return m
}

// Writes reports the fields written through parameter pi of f.
func (m *Mods) Writes(f *ssa.Function, pi int) map[int]bool { return m.writes[f][pi] }

// CallWrites: does the call write through the given address value (passed as
// an argument, possibly wrapped in an interface)?
func (m *Mods) CallWrites(call ssa.CallInstruction, addr ssa.Value) bool {
	return m.CallWritesField(call, addr, AllFields)
}

// CallWritesField: does the call write field `field` (AllFields: anything)
// through the address value?
func (m *Mods) CallWritesField(call ssa.CallInstruction, addr ssa.Value, field int) bool {
	cc := call.Common()
	name, callees := CalleeName(m.P, cc)
	off := 0
	if cc.IsInvoke() {
		off = 1
	}
	for j, a := range cc.Args {
		if a != addr {
			continue
		}
		if len(callees) == 0 {
			if readOnlyExternal(name) {
				continue
			}
			return true
		}
		for _, g := range callees {
			w := m.writes[g][j+off]
			if len(w) == 0 {
				continue
			}
			if field == AllFields || w[AllFields] || w[field] {
				return true
			}
		}
	}
	return false
}

// ValueEscapesWritable: an address wrapped into another value (interface,
// phi, slice...) — does any use of that value possibly write through it?
func (m *Mods) ValueEscapesWritable(ins ssa.Instruction) bool {
	v, ok := ins.(ssa.Value)
	if !ok {
		return false
	}
	switch ins.(type) {
	case *ssa.MakeInterface, *ssa.ChangeType, *ssa.Slice:
	default:
		if _, isCall := ins.(ssa.CallInstruction); isCall {
			return false
		}
		return true
	}
	refs := v.Referrers()
	if refs == nil {
		return false
	}
	for _, r := range *refs {
		switch x := r.(type) {
		case ssa.CallInstruction:
			if m.CallWrites(x, v) {
				return true
			}
		case *ssa.DebugRef:
		default:
			return true
		}
	}
	return false
}

// PtrPathWritten: within the function, is the field path (from pointer value
// root) written — directly, by overwriting an enclosing struct, or by a callee
// that receives an address on the path?
func (m *Mods) PtrPathWritten(root ssa.Value, path []int) bool {
	return m.pathWritten(root, path, 0)
}

func (m *Mods) pathWritten(addr ssa.Value, path []int, depth int) bool {
	refs := addr.Referrers()
	if refs == nil || depth > 8 {
		return false
	}
	for _, r := range *refs {
		switch x := r.(type) {
		case *ssa.Store:
			if x.Addr == addr && depth > 0 {
				return true // overwrites the enclosing struct or the field itself
			}
			if x.Val == addr && depth > 0 && len(path) == 0 {
				return true // the field's address is stored somewhere (a slice of pointers handed to a callee): it may be written through
			}
		case *ssa.FieldAddr:
			if x.X != addr {
				continue
			}
			if len(path) == 0 {
				// deeper than the queried path: any write below counts
				if m.pathWritten(x, nil, depth+1) {
					return true
				}
			} else if x.Field == path[0] {
				if m.pathWritten(x, path[1:], depth+1) {
					return true
				}
			}
		case *ssa.IndexAddr:
			if x.X == addr && len(path) == 0 {
				for _, rr := range *x.Referrers() {
					if st, ok := rr.(*ssa.Store); ok && st.Addr == x {
						return true
					}
				}
			}
		case ssa.CallInstruction:
			f := AllFields
			if len(path) > 0 {
				f = path[0]
			}
			if m.CallWritesField(x, addr, f) {
				return true
			}
		case *ssa.MakeInterface:
			if m.ValueEscapesWritable(x) {
				return true
			}
		}
	}
	return false
}
