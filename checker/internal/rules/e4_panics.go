package rules

import (
	"fmt"
	"go/constant"
	"go/token"
	"go/types"
	"regexp"
	"strings"

	"golang.org/x/tools/go/ssa"

	"saoverif/internal/cfgx"
	"saoverif/internal/core"
	"saoverif/internal/guard"
	"saoverif/internal/prog"
	"saoverif/internal/term"
)

func init() { register("C02", checkC02) }

// blockHookFuncs: module functions reachable from code that runs outside
// baseapp.runTx's panic recovery: Begin/EndBlock of the modules and the
// staking hooks the staking end-blocker fires when validators change state.
func blockHookFuncs(r *core.Run) (map[*ssa.Function]bool, []string) {
	var roots []*ssa.Function
	var names []string
	for _, rt := range r.Roots {
		ok := rt.Kind == "beginblock" || rt.Kind == "endblock"
		if rt.Kind == "hook" {
			switch {
			case strings.HasSuffix(rt.Name, "AfterValidatorBonded"), strings.HasSuffix(rt.Name, "AfterValidatorBeginUnbonding"), strings.HasSuffix(rt.Name, "AfterValidatorRemoved"):
				ok = true
			}
		}
		if ok {
			roots = append(roots, rt.Fn)
			names = append(names, rt.Name)
		}
	}
	return r.P.CG.Reach(roots...), names
}

var reNum = regexp.MustCompile(`^-?[0-9]+$`)

func divisorOf(name string, cc *ssa.CallCommon) (ssa.Value, bool) {
	switch name {
	case "sdk.Dec.Quo", "sdk.Dec.QuoInt64", "sdk.Dec.QuoInt", "sdk.Dec.QuoTruncate", "sdk.Dec.QuoRoundUp", "sdk.Dec.QuoMut", "sdk.Dec.QuoInt64Mut", "sdk.Dec.QuoIntMut", "sdk.Dec.QuoTruncateMut", "sdk.Dec.QuoRoundupMut",
		"math.Int.Quo", "math.Int.QuoRaw", "math.Int.Mod", "math.Int.ModRaw", "math.Uint.Quo", "math.Uint.QuoUint64", "math.LegacyDec.Quo", "math.LegacyDec.QuoInt64":
		if len(cc.Args) == 2 {
			return cc.Args[1], true
		}
	}
	return nil, false
}

func subOperands(name string, cc *ssa.CallCommon) (ssa.Value, ssa.Value, bool) {
	switch name {
	case "sdk.Coin.Sub", "sdk.Coins.Sub", "sdk.DecCoin.Sub", "sdk.DecCoins.Sub", "sdk.Coin.SubAmount":
		if len(cc.Args) == 2 {
			return cc.Args[0], cc.Args[1], true
		}
	}
	return nil, nil, false
}

// paramBound: divisor term of the form <Keeper>.GetParams().<F> (possibly / const):
// the registered validator of F must accept only values > K with K/const >= 1.
func paramBound(r *core.Run, divT string) (bool, string) {
	m := regexp.MustCompile(`^\(?~?(\w+)/keeper\.Keeper\.GetParams\(\)\.(\w+)(?: / (\d+)\))?$`).FindStringSubmatch(divT)
	if m == nil {
		return false, ""
	}
	mod, field := m[1], m[2]
	denom := int64(1)
	if m[3] != "" {
		fmt.Sscan(m[3], &denom)
	}
	psp := r.P.Func(mod + "/types.Params.ParamSetPairs")
	newp := r.P.Func(mod + "/types.NewParams")
	getp := r.P.Func(mod + "/keeper.Keeper.GetParams")
	if psp == nil || newp == nil || getp == nil {
		return false, "ParamSetPairs/NewParams/GetParams not found for module " + mod
	}
	// 1. validator and key registered for &p.<field>
	var validator *ssa.Function
	keyName := ""
	for _, b := range psp.Blocks {
		for _, ins := range b.Instrs {
			c, ok := ins.(*ssa.Call)
			if !ok {
				continue
			}
			name, _ := term.CalleeName(r.P, &c.Call)
			if name != "cosmos/x/params/types.NewParamSetPair" || len(c.Call.Args) != 3 {
				continue
			}
			var fa *ssa.FieldAddr
			switch x := c.Call.Args[1].(type) {
			case *ssa.MakeInterface:
				fa, _ = x.X.(*ssa.FieldAddr)
			case *ssa.FieldAddr:
				fa = x
			}
			if fa == nil || fieldNameOf(fa) != field {
				continue
			}
			switch fv := c.Call.Args[2].(type) {
			case *ssa.Function:
				validator = fv
			case *ssa.ChangeType:
				validator, _ = fv.X.(*ssa.Function)
			case *ssa.MakeClosure:
				validator, _ = fv.Fn.(*ssa.Function)
			}
			if u, ok := c.Call.Args[0].(*ssa.UnOp); ok {
				if g, ok := u.X.(*ssa.Global); ok {
					keyName = g.Name()
				}
			}
		}
	}
	if validator == nil || keyName == "" {
		return false, "no validator registered for parameter field " + field
	}
	// 2. the validator returns nil only above a constant bound
	res := r.Resolver(validator)
	ck := &guard.Checker{P: r.P, Fn: validator, Res: res}
	bound := int64(-1 << 62)
	found := false
	for _, b := range validator.Blocks {
		iff, _ := lastIf(b)
		if iff == nil {
			continue
		}
		p, pol, ok := guard.CondPred(res, iff.Cond)
		if !ok || p.Kind != "lt" || !reNum.MatchString(p.A) {
			continue
		}
		_ = pol
		var k int64
		fmt.Sscan(p.A, &k)
		// all nil returns must pass the edge where k < value
		atom := guard.Lt(p.A, guard.Exact(p.B))
		allOK := true
		nNil := 0
		for _, rb := range validator.Blocks {
			ret, ok := rb.Instrs[len(rb.Instrs)-1].(*ssa.Return)
			if !ok || len(ret.Results) != 1 {
				continue
			}
			if c, ok := ret.Results[0].(*ssa.Const); ok && c.Value == nil {
				nNil++
				if okp, _ := ck.MustPass(rb, []guard.Atom{atom}); !okp {
					allOK = false
				}
			} else if _, isConst := ret.Results[0].(*ssa.Const); !isConst {
				// returns a computed error: may be nil without the bound
				if okp, _ := ck.MustPass(rb, []guard.Atom{atom}); !okp {
					if _, isCall := ret.Results[0].(*ssa.Call); !isCall {
						allOK = false
					}
				}
			}
		}
		if allOK && nNil > 0 {
			bound, found = k, true
		}
	}
	if !found {
		return false, "validator " + r.P.Name(validator) + " does not bound the parameter from below"
	}
	if (bound+1)/denom < 1 {
		return false, fmt.Sprintf("validated bound > %d is not enough for divisor %s", bound, divT)
	}
	// 3. GetParams().<field> is the stored value of that key: NewParams maps an argument to the field,
	//    GetParams passes a getter that reads the key.
	argIdx := -1
	for _, b := range newp.Blocks {
		for _, ins := range b.Instrs {
			if st, ok := ins.(*ssa.Store); ok {
				if fa, ok := st.Addr.(*ssa.FieldAddr); ok && fieldNameOf(fa) == field {
					for i, par := range newp.Params {
						if st.Val == par {
							argIdx = i
						}
					}
				}
			}
		}
	}
	if argIdx < 0 {
		return false, "NewParams does not copy an argument into field " + field
	}
	okChain := false
	for _, b := range getp.Blocks {
		for _, ins := range b.Instrs {
			c, ok := ins.(*ssa.Call)
			if !ok || c.Call.StaticCallee() != newp || len(c.Call.Args) <= argIdx {
				continue
			}
			if g, ok := c.Call.Args[argIdx].(*ssa.Call); ok {
				if getter := g.Call.StaticCallee(); getter != nil {
					for _, e := range r.Eff.Own[getter] {
						_ = e
					}
					for _, gb := range getter.Blocks {
						for _, gi := range gb.Instrs {
							if gc, ok := gi.(*ssa.Call); ok {
								n, _ := term.CalleeName(r.P, &gc.Call)
								if n == "cosmos/x/params/types.Subspace.Get" && len(gc.Call.Args) >= 3 {
									if u, ok := gc.Call.Args[2].(*ssa.UnOp); ok {
										if gl, ok := u.X.(*ssa.Global); ok && gl.Name() == keyName {
											okChain = true
										}
									}
								}
							}
						}
					}
				}
			}
		}
	}
	if !okChain {
		return false, "GetParams does not read key " + keyName + " into field " + field
	}
	// 4. every consensus-reachable raw writer of that key (Subspace.Set does not validate) is a violation
	for f := range r.ConsensusFuncs() {
		for _, e := range r.Eff.Own[f] {
			if e.Kind == "param.set" && len(e.Args) > 0 && strings.HasSuffix(e.Args[0].String(), "."+keyName) {
				// only reachable writers matter
				return false, fmt.Sprintf("parameter key %s is written with Subspace.Set (no validation) in %s", keyName, r.P.Name(f))
			}
		}
	}
	return true, fmt.Sprintf("module parameter %s.%s: validator %s accepts only values > %d, so %s != 0; read through GetParams/NewParams from key %s; no unvalidated writer on a consensus path", mod, field, r.P.Name(validator), bound, divT, keyName)
}

func lastIf(b *ssa.BasicBlock) (*ssa.If, bool) {
	if len(b.Instrs) == 0 {
		return nil, false
	}
	i, ok := b.Instrs[len(b.Instrs)-1].(*ssa.If)
	return i, ok
}

func fieldNameOf(fa *ssa.FieldAddr) string {
	return fieldNameT(fa.X.Type(), fa.Field)
}

// af1: A.Sub(NewCoin(_, TruncateInt(Dec.Sub(NewDecCoinFromCoin(A).Amount, Y)))) with Y a product of record fields.
var reDerefMark = regexp.MustCompile(`(^|[(,\[])\*`)

func af1(aT, bT string) bool {
	a := reDerefMark.ReplaceAllString(strings.ReplaceAll(aT, "~", ""), "$1")
	b := reDerefMark.ReplaceAllString(strings.ReplaceAll(bT, "~", ""), "$1")
	pre := "sdk.Dec.TruncateInt(sdk.Dec.Sub(sdk.NewDecCoinFromCoin(" + a + ").Amount,"
	i := strings.Index(b, pre)
	if i < 0 || !strings.HasPrefix(b, "sdk.NewCoin(") {
		return false
	}
	y := b[i+len(pre):]
	// Y must be a MulInt64 chain over fields (no subtraction inside)
	return strings.HasPrefix(y, "sdk.Dec.MulInt64(") && !strings.Contains(y, ".Sub(") && !strings.Contains(y, " - ")
}

func ruleL2(r *core.Run) {
	scope, rootNames := blockHookFuncs(r)
	r.Notes = append(r.Notes, "L2 scope roots (no panic recovery above them): "+strings.Join(rootNames, ", "))
	nDiv, nSub := 0, 0
	// helpers outside the vocabulary are judged in the context of the known functions they were extracted from:
	// operands are expressed in that function's vocabulary and a dominating comparison may sit in either
	type l2frame struct {
		anchor *ssa.Function
		fr     frame
	}
	var work []l2frame
	visited := map[*ssa.Function]bool{}
	var late []*ssa.Function
	for _, f := range r.P.SortedFuncs(scope) {
		if r.P.IsGenerated(f) {
			continue
		}
		if r.P.Transparent(f) {
			owned := false
			for _, o := range r.Owners(f) {
				if scope[o] {
					owned = true
				}
			}
			if owned {
				late = append(late, f)
				continue
			}
		}
		for _, fr := range frames(r, f) {
			if scope[fr.Fn] {
				visited[fr.Fn] = true
				work = append(work, l2frame{f, fr})
			}
		}
	}
	for _, f := range late {
		if !visited[f] {
			work = append(work, l2frame{f, frame{Fn: f}})
		}
	}
	tidy := func(s string) string {
		for strings.Contains(s, "~~") {
			s = strings.ReplaceAll(s, "~~", "~")
		}
		return strings.ReplaceAll(s, "~&", "~")
	}
	for _, w := range work {
		f := w.fr.Fn
		fr := w.fr
		ck := frameChecker(r, w.anchor, fr.Chain, len(fr.Chain))
		seen := map[string]int{}
		for _, b := range f.Blocks {
			for _, ins := range b.Instrs {
				switch x := ins.(type) {
				case *ssa.BinOp:
					if x.Op != token.QUO && x.Op != token.REM {
						continue
					}
					if isFloat(x.Type()) {
						continue
					}
					if c, ok := x.Y.(*ssa.Const); ok && c.Value != nil && constant.Sign(c.Value) != 0 {
						continue
					}
					nDiv++
					dT := tidy(fr.Raw(r, x.Y))
					slot := "int" + x.Op.String() + ":" + dT
					seen[slot]++
					key := core.Key("L2-div", r.P.Name(w.anchor), slot)
					xi := ins
					checkDivisor(r, ck, key, x.Pos(), b, dT, "integer "+x.Op.String(), func(a []guard.Atom) (bool, []string) {
						return mustPassDeep(r, w.anchor, effSite{Ins: xi, Chain: fr.Chain}, a)
					})
				case ssa.CallInstruction:
					cc := x.Common()
					name, _ := term.CalleeName(r.P, cc)
					if d, ok := divisorOf(name, cc); ok {
						nDiv++
						dT := tidy(fr.Raw(r, d))
						key := core.Key("L2-div", r.P.Name(w.anchor), name+":"+dT)
						xi := ins
						checkDivisor(r, ck, key, x.Pos(), b, dT, name, func(a []guard.Atom) (bool, []string) {
							return mustPassDeep(r, w.anchor, effSite{Ins: xi, Chain: fr.Chain}, a)
						})
					}
					if a, bb, ok := subOperands(name, cc); ok {
						nSub++
						aT, bT := tidy(fr.Raw(r, a)), tidy(fr.Raw(r, bb))
						key := core.Key("L2-sub", r.P.Name(w.anchor), name+":"+aT+" - "+shorten(bT))
						var atoms []guard.Atom
						// operands as rendered, and without the unstable-read marks (a comparison in an enclosing
						// frame or in the helper renders the same records without them)
						for _, pr := range [][2]string{{aT, bT}, {strings.ReplaceAll(aT, "~", ""), strings.ReplaceAll(bT, "~", "")}} {
							ea, eb := guard.Exact(pr[0]), guard.Exact(pr[1])
							atoms = append(atoms,
								guard.True("sdk.Coin.IsGTE("+ea+","+eb+")"),
								guard.False("sdk.Coin.IsLT("+ea+","+eb+")"),
								guard.False("sdk.Coin.IsGTE("+eb+","+ea+")"), // b < a
								guard.True("sdk.Coin.IsLT("+eb+","+ea+")"),
								guard.True("sdk.Coins.IsAllGTE("+ea+","+eb+")"),
								guard.False("math.Int.GT("+eb+".Amount,"+ea+".Amount)"),
								guard.True("math.Int.GTE("+ea+".Amount,"+eb+".Amount)"),
								guard.False("math.Int.LT("+ea+".Amount,"+eb+".Amount)"),
							)
							if !strings.Contains(aT+bT, "~") {
								break
							}
						}
						if ok, _ := mustPassDeep(r, w.anchor, effSite{Ins: x, Chain: fr.Chain}, atoms); ok {
							r.Discharge("L2-sub", key, r.P.Pos(x.Pos()), name+" dominated by a comparison of the same operands")
						} else if af1(aT, bT) {
							r.Assume("A-nonneg: the record fields Size_, Duration, Replica, UnitPrice are non-negative (used by arithmetic form AF1: x.Sub(trunc(dec(x) − y)) with y a product of such fields cannot go negative)")
							r.Discharge("L2-sub", key, r.P.Pos(x.Pos()), "arithmetic form AF1: subtrahend is trunc(dec(x) − y), y a product of record fields; discharged under assumption A-nonneg")
						} else {
							_, w := ck.MustPass(b, atoms)
							r.Violate("L2-sub", key, r.P.Pos(x.Pos()), fmt.Sprintf("%s panics when the result is negative and runs outside panic recovery (begin/end-block); no dominating comparison of %s and %s", name, aT, shorten(bT)), w...)
						}
					}
				}
			}
		}
	}
	r.Floor("l2_div_sites", nDiv, 5)
	r.Floor("l2_sub_sites", nSub, 4)
}

func shorten(s string) string {
	if len(s) > 160 {
		return s[:160] + "…"
	}
	return s
}

func checkDivisor(r *core.Run, ck *guard.Checker, key string, pos token.Pos, b *ssa.BasicBlock, dT, what string, deep func([]guard.Atom) (bool, []string)) {
	if reNum.MatchString(dT) && dT != "0" {
		r.Discharge("L2-div", key, r.P.Pos(pos), "constant non-zero divisor")
		return
	}
	// conversions of a guarded operand: strip int64(...) etc for guard matching
	cands := []string{dT}
	if m := regexp.MustCompile(`^\w+\((.*)\)$`).FindStringSubmatch(dT); m != nil {
		cands = append(cands, m[1])
	}
	// a divisor held in a variable that a function literal captures is rendered as an unstable read: the test
	// that guards it reads the same variable
	if strings.Contains(dT, "~") {
		cands = append(cands, strings.ReplaceAll(dT, "~", ""))
	}
	var atoms []guard.Atom
	for _, c := range cands {
		e := guard.Exact(c)
		atoms = append(atoms,
			guard.Ne(e, "0"), guard.Lt("0", e),
			guard.False("sdk.Dec.IsZero("+e+")"), guard.False("math.Int.IsZero("+e+")"),
			guard.True("sdk.Dec.IsPositive("+e+")"), guard.True("math.Int.IsPositive("+e+")"),
		)
	}
	// x.Sub(y) as divisor guarded by !x.Equal(y)
	if m := regexp.MustCompile(`^~?sdk\.Dec\.Sub\((.*),(.*)\)$`).FindStringSubmatch(dT); m != nil {
		atoms = append(atoms, guard.False("sdk.Dec.Equal("+guard.Exact(m[1])+","+guard.Exact(m[2])+")"))
	}
	if ok, _ := ck.MustPass(b, atoms); ok {
		r.Discharge("L2-div", key, r.P.Pos(pos), what+" dominated by a non-zero test of the divisor")
		return
	}
	// the test may sit in an enclosing frame (the function a helper or a function literal was taken out of)
	if deep != nil {
		if ok, _ := deep(atoms); ok {
			r.Discharge("L2-div", key, r.P.Pos(pos), what+" dominated by a non-zero test of the divisor (in an enclosing frame)")
			return
		}
	}
	// a module parameter handed to an extracted helper as an argument is still that validated parameter
	pbOK, pbWhy := paramBound(r, normT(anchorTerm(r, ck.Fn, dT)))
	if pbOK {
		r.Discharge("L2-div", key, r.P.Pos(pos), pbWhy)
		return
	}
	if m := regexp.MustCompile(`^sdk\.(NewDec|NewInt|NewDecWithPrec|NewUint)\((-?[0-9]+)(,[0-9]+)?\)$`).FindStringSubmatch(dT); m != nil && m[2] != "0" {
		r.Discharge("L2-div", key, r.P.Pos(pos), "divisor constructed from a non-zero constant")
		return
	}
	if ok, why := ltChain(ck, b, dT); ok {
		r.Discharge("L2-div", key, r.P.Pos(pos), why)
		return
	}
	// phi-valued divisors: each incoming value must be guarded or bounded — try the simple "phi(x|guarded)" form
	_, w := ck.MustPass(b, atoms)
	r.Violate("L2-div", key, r.P.Pos(pos), fmt.Sprintf("%s by %s can panic (division by zero) outside panic recovery: no dominating non-zero test and the divisor is not a validated parameter%s", what, dT, map[bool]string{true: " (" + pbWhy + ")", false: ""}[pbWhy != ""]), w...)
}

func checkC02(r *core.Run) {
	r.Explanation = "C02 (structural clauses only): L1 every loop in consensus-reachable hand-written module code has a recognised termination variant (finite range, counted loop bounded in its direction of travel, store iterator advanced on every cycle, strictly shrinking slice) and no call cycle exists; L2 in code reachable from Begin/EndBlock and the staking hooks fired by the staking end-blocker (no panic recovery above them), every division has a provably non-zero divisor and every coin subtraction is dominated by a comparison of its operands. Decides these necessary conditions; index/nil panics, bank panics and wall-clock bounds are not decided."
	r.Rule("L1: natural loops classified by exit test on every cycle + monotone induction variable with bounding comparison | iterator Valid/Next | range Next | strictly shrinking memory-held slice; otherwise an undischarged termination obligation")
	r.Rule("L1-rec: no call cycle among consensus-reachable hand-written functions")
	r.Rule("L2-div: Dec/Int Quo*, integer / and % in block-hook-reachable code: constant non-zero divisor, dominating non-zero test, or module parameter whose registered validator bounds it (derived: ParamSetPairs -> validator -> bound; GetParams/NewParams chain; no unvalidated writer)")
	r.Rule("L2-couple: a slice indexed by the position in a collection of at most n selected items requires n to be incremented exactly where the slice is appended to (timeout re-assignment)")
	r.Rule("L2-sub: Coin(s)/DecCoin(s).Sub in block-hook-reachable code dominated by IsGTE/IsLT/GT/LT of the same operands, or arithmetic form AF1")
	r.Assume(aDeps)
	r.Assume(aCG)
	r.Assume(aGen)
	r.Assume("A-addr: bech32 strings read back from the store were valid when written (Must*AddressFromBech32 on them does not panic)")
	r.Assume("A-flow: a guard and the guarded use of a memory-held operand are not separated by a write to that operand")
	r.Rule("T-couple(divisor): Pool.TotalStorage — the divisor of the per-byte reward accrual in node.BeginBlocker, guarded there only by Pool.TotalPledged being non-zero — moves by the same term as the provider's Pledge.TotalStorage in AddVstorage/RemoveVstorage, so it is zero only when no capacity is pledged")
	for _, h := range []string{"node/keeper.msgServer.AddVstorage", "node/keeper.msgServer.RemoveVstorage"} {
		coupleSame(r, "T-couple", h, "node/types.Pledge.TotalStorage", "node/types.Pool.TotalStorage", false)
		coupleSame(r, "T-couple", h, "node/types.Pledge.TotalStoragePledged", "node/types.Pool.TotalPledged.Amount", true)
	}
	r.Rule("L2-index: in block-hook-reachable code a slice indexed by a value read from the store (a persisted cursor) is first compared with the slice's length")
	ruleL2Index(r, "L2-index")
	ruleL1(r)
	ruleL2(r)
	ruleL2Couple(r)
	r.Rule("L2-addr: PaymentAddress.Address (decoded with MustAccAddressFromBech32 on the end-blocker's refund path) is stored only under Network == cosmos AND Chain == this chain")
	rulePayAddrBech32(r)
	r.Rule("L2-nilarg: a parameter that is the constant nil at a call site in block-hook scope is tested != nil before being handed to a dependency call")
	ruleL2NilArg(r)
	// the subtrahend of the end-block subtraction TotalShardPledged.Sub(shard.Pledge) (ShardRelease, reached from
	// HandleExpiredShard) is kept within the minuend only if every persisted Shard.Pledge := v adds v to it
	r.Rule("T-couple(Shard.Pledge): every persisted Shard.Pledge := v moves Pledge.TotalShardPledged by v; otherwise releasing the shard in the end-blocker subtracts more than was added (negative coin panic outside recovery)")
	ruleShardPledgeBooked(r)
}

func fieldNameT(T types.Type, i int) string {
	for k := 0; k < 4; k++ {
		switch x := T.Underlying().(type) {
		case *types.Pointer:
			T = x.Elem()
		case *types.Struct:
			if i < x.NumFields() {
				return x.Field(i).Name()
			}
			return ""
		default:
			return ""
		}
	}
	return ""
}

// ltChain: divisor D is positive when, on every path to the use, X < D holds for
// some X, and 0 < P holds for a φ P that starts at X and only ever decreases
// (D > X >= P > 0).
func ltChain(ck *guard.Checker, b *ssa.BasicBlock, dT string) (bool, string) {
	for _, blk := range ck.Fn.Blocks {
		iff, _ := lastIf(blk)
		if iff == nil {
			continue
		}
		p, _, ok := guard.CondPred(ck.Res, iff.Cond)
		if !ok || p.Kind != "lt" || p.B != dT {
			continue
		}
		x := p.A
		if ok, _ := ck.MustPass(b, []guard.Atom{guard.Lt(guard.Exact(x), guard.Exact(dT))}); !ok {
			continue
		}
		// ... or x itself exceeds a counter that starts at a non-negative constant and only grows ( for i := 0; i < x; i++ )
		for _, blk2 := range ck.Fn.Blocks {
			iff2, _ := lastIf(blk2)
			if iff2 == nil {
				continue
			}
			p2, _, ok2 := guard.CondPred(ck.Res, iff2.Cond)
			if !ok2 || p2.Kind != "lt" || p2.B != x {
				continue
			}
			bo2, isBo := iff2.Cond.(*ssa.BinOp)
			if !isBo {
				continue
			}
			var ctr *ssa.Phi
			for _, cand := range []ssa.Value{bo2.X, bo2.Y} {
				if ph, isPhi := cand.(*ssa.Phi); isPhi && ck.Res.Of(ph).String() == p2.A {
					ctr = ph
				}
			}
			if ctr == nil {
				continue
			}
			growing := true
			for _, e := range ctr.Edges {
				if c, isC := e.(*ssa.Const); isC && c.Value != nil && constant.Sign(c.Value) >= 0 {
					continue
				}
				if bo, isAdd := e.(*ssa.BinOp); isAdd && bo.Op == token.ADD && bo.X == ssa.Value(ctr) {
					if c, isC := bo.Y.(*ssa.Const); isC && c.Value != nil && constant.Sign(c.Value) >= 0 {
						continue
					}
				}
				growing = false
			}
			if !growing {
				continue
			}
			if ok, _ := ck.MustPass(b, []guard.Atom{guard.Lt(guard.Exact(p2.A), guard.Exact(x))}); ok {
				return true, fmt.Sprintf("divisor %s > %s on every path, and %s > a counter that starts at a non-negative constant and only grows", dT, x, x)
			}
		}
		// find a φ starting at X that only decreases and is tested > 0 on every path
		for _, hb := range ck.Fn.Blocks {
			for _, ins := range hb.Instrs {
				phi, ok := ins.(*ssa.Phi)
				if !ok {
					break
				}
				startsAtX, decreasing := false, true
				for i, e := range phi.Edges {
					et := ck.Res.Of(e).String()
					if et == x {
						startsAtX = true
						continue
					}
					_ = i
					if e == phi {
						continue
					}
					if bo, ok := e.(*ssa.BinOp); ok && bo.Op == token.SUB && bo.X == phi {
						if c, ok := bo.Y.(*ssa.Const); ok && c.Value != nil && constant.Sign(c.Value) >= 0 {
							continue
						}
					}
					decreasing = false
				}
				if !startsAtX || !decreasing {
					continue
				}
				pt := ck.Res.Of(phi).String()
				if ok, _ := ck.MustPass(b, []guard.Atom{guard.Lt("0", guard.Exact(pt))}); ok {
					return true, fmt.Sprintf("divisor %s > %s on every path, and %s >= φ > 0 where the φ starts at %s and only decreases", dT, x, x, x)
				}
			}
		}
	}
	return false, ""
}

// ---- L2-couple: a slice indexed by the position in another collection whose size is bounded by a counter:
// the counter and the slice must grow together.

// phiWeb collects the values a φ-carried variable can take (through φ nodes), starting from v.
func phiWeb(v ssa.Value) map[ssa.Value]bool {
	web := map[ssa.Value]bool{}
	var walk func(x ssa.Value)
	walk = func(x ssa.Value) {
		if web[x] {
			return
		}
		web[x] = true
		switch y := x.(type) {
		case *ssa.Phi:
			for _, e := range y.Edges {
				walk(e)
			}
		case *ssa.Call:
			if bi, ok := y.Call.Value.(*ssa.Builtin); ok && bi.Name() == "append" && len(y.Call.Args) > 0 {
				walk(y.Call.Args[0])
			}
		case *ssa.BinOp:
			if y.Op == token.ADD {
				if _, ok := y.Y.(*ssa.Const); ok {
					walk(y.X)
				}
			}
		}
	}
	walk(v)
	return web
}

func ruleL2Couple(r *core.Run) {
	scope, _ := blockHookFuncs(r)
	n := 0
	stripConv := func(v ssa.Value) ssa.Value {
		for {
			c, ok := v.(*ssa.Convert)
			if !ok {
				return v
			}
			v = c.X
		}
	}
	// judge: in function g, collection Y (ranged over by position) and slice X (indexed by that position).
	// Returns false when Y is not the result of a call bounded by a count (the rule does not apply).
	judge := func(g *ssa.Function, Y, X ssa.Value, keyFn *ssa.Function, at ssa.Instruction) bool {
		res := r.Resolver(g)
		ycall, ok := Y.(*ssa.Call)
		if !ok {
			return false
		}
		// the collection ranged over is produced by a call taking an integer count: a counter, or a length
		var cnt ssa.Value
		for _, a := range ycall.Call.Args {
			if bt, ok := a.Type().Underlying().(*types.Basic); ok && bt.Info()&types.IsInteger != 0 && cnt == nil {
				av := stripConv(a)
				for v := range phiWeb(av) {
					if b2, ok := v.(*ssa.BinOp); ok && b2.Op == token.ADD {
						cnt = a
					}
				}
				if lc, ok := av.(*ssa.Call); ok {
					if bi, ok := lc.Call.Value.(*ssa.Builtin); ok && bi.Name() == "len" {
						cnt = a
					}
				}
			}
		}
		if cnt == nil {
			return false
		}
		n++
		yname, _ := res.CalleeName(&ycall.Call)
		key := core.Key("L2-couple", r.KeyName(keyFn), "slice indexed by position in result of "+yname)
		same := false
		why := ""
		cv := stripConv(cnt)
		if lc, ok := cv.(*ssa.Call); ok {
			// n == len(V): coupled when V is the indexed slice itself
			if bi, ok := lc.Call.Value.(*ssa.Builtin); ok && bi.Name() == "len" && len(lc.Call.Args) == 1 {
				V := lc.Call.Args[0]
				same = V == X || normT(res.Of(V).String()) == normT(res.Of(X).String())
				why = "the collection holds at most len(slice) items (the count asked for is the length of the indexed slice)"
			}
		} else {
			// blocks where the slice grows / the counter grows
			grow := listOriginOf(r, g, X).Blocks()
			inc := map[*ssa.BasicBlock]bool{}
			for v := range phiWeb(cv) {
				if b2, ok := v.(*ssa.BinOp); ok && b2.Op == token.ADD {
					inc[b2.Block()] = true
				}
			}
			same = len(grow) == len(inc) && len(grow) > 0
			for b2 := range grow {
				if !inc[b2] {
					same = false
				}
			}
			why = "n is incremented exactly in the blocks that append to the slice (len(slice) == n)"
		}
		if same {
			r.Assume("A-count: a selection routine asked for n items returns at most n")
			r.Discharge("L2-couple", key, r.P.Pos(at.Pos()), "the slice is indexed by the position in a collection of at most n items, and "+why)
		} else {
			r.Violate("L2-couple", key, r.P.Pos(at.Pos()), fmt.Sprintf("a slice (%s) is indexed by the position in the result of a call bounded by a count (%s), but the count is neither the length of that slice nor a counter incremented in exactly the blocks that append to it: the index can exceed len(slice) and panic outside panic recovery", normT(res.Of(X).String()), normT(res.Of(cnt).String())))
		}
		return true
	}
	paramIdx := func(f *ssa.Function, v ssa.Value) int {
		for i, p := range f.Params {
			if ssa.Value(p) == v {
				return i
			}
		}
		return -1
	}
	for _, f := range r.P.SortedFuncs(scope) {
		if r.P.IsGenerated(f) {
			continue
		}
		for _, l := range cfgx.Loops(f) {
			iff := cfgx.IfOf(l.Header)
			if iff == nil {
				continue
			}
			bo, ok := iff.Cond.(*ssa.BinOp)
			if !ok || bo.Op != token.LSS {
				continue
			}
			lc, ok := bo.Y.(*ssa.Call)
			if !ok {
				continue
			}
			if bi, ok := lc.Call.Value.(*ssa.Builtin); !ok || bi.Name() != "len" {
				continue
			}
			Y := lc.Call.Args[0]
			// index sites S[i] inside the loop with i the loop's induction value and S another slice
			for _, b := range f.Blocks {
				if !l.Body[b] {
					continue
				}
				for _, ins := range b.Instrs {
					ia, ok := ins.(*ssa.IndexAddr)
					if !ok || ia.Index != bo.X || ia.X == Y {
						continue
					}
					if _, isSlice := ia.X.Type().Underlying().(*types.Slice); !isSlice {
						continue
					}
					if judge(f, Y, ia.X, f, ia) {
						continue
					}
					// an extracted helper that receives both the collection and the slice: judged at its call sites
					yi, xi := paramIdx(f, Y), paramIdx(f, ia.X)
					if yi < 0 || xi < 0 || !r.P.Transparent(f) {
						continue
					}
					for _, caller := range r.P.CG.In[f] {
						if !scope[caller] {
							continue
						}
						for _, site := range r.P.CG.Sites[caller] {
							for _, c := range site.Callees {
								if c != f || site.Instr.Common().IsInvoke() {
									continue
								}
								args := site.Instr.Common().Args
								if yi < len(args) && xi < len(args) {
									judge(caller, args[yi], args[xi], caller, site.Instr)
								}
							}
						}
					}
				}
			}
		}
	}
	r.Floor("l2_couple_sites", n, 1)
}

// ---- L2-nilarg: a parameter that is the constant nil at some call site in
// block-hook scope must be nil-tested before it is handed on to a dependency
// (for example staking.Delegation(ctx, nil, val) returns a nil interface whose
// method call panics inside the staking end-blocker).
func ruleL2NilArg(r *core.Run) {
	scope, _ := blockHookFuncs(r)
	n := 0
	// parameters that receive a constant nil from a caller in scope, or a caller's such parameter handed on without
	// a dominating != nil test (helpers extracted from a hook receive the hook's parameters)
	nilParams := map[*ssa.Function]map[int]bool{}
	mark := func(g *ssa.Function, i int) bool {
		if nilParams[g] == nil {
			nilParams[g] = map[int]bool{}
		}
		if nilParams[g][i] {
			return false
		}
		nilParams[g][i] = true
		return true
	}
	for round := 0; round < 5; round++ {
		changed := false
		for _, caller := range r.P.SortedFuncs(scope) {
			if r.P.IsGenerated(caller) || len(caller.Blocks) == 0 {
				continue
			}
			var ck *guard.Checker
			for _, site := range r.P.CG.Sites[caller] {
				args := site.Instr.Common().Args
				off := 0
				if site.Instr.Common().IsInvoke() {
					off = 1
				}
				for i, a := range args {
					isNil := false
					if c, ok := a.(*ssa.Const); ok && c.Value == nil && c.IsNil() {
						isNil = true
					} else if pa, ok := a.(*ssa.Parameter); ok {
						for pi, q := range caller.Params {
							if q == pa && nilParams[caller][pi] {
								if ck == nil {
									ck = &guard.Checker{P: r.P, Fn: caller, Res: r.Resolver(caller)}
								}
								if ok2, _ := ck.MustPass(site.Instr.Block(), []guard.Atom{guard.Ne(fmt.Sprintf("#%d", pi), "nil")}); !ok2 {
									isNil = true
								}
							}
						}
					}
					if !isNil {
						continue
					}
					for _, g := range site.Callees {
						if scope[g] && len(g.Blocks) > 0 && prog.InModule(pkgPathOf(g)) && mark(g, i+off) {
							changed = true
						}
					}
				}
			}
		}
		if !changed {
			break
		}
	}
	for _, g := range r.P.SortedFuncs(scope) {
		if r.P.IsGenerated(g) || len(g.Blocks) == 0 {
			continue
		}
		nilParam := nilParams[g]
		if len(nilParam) == 0 {
			continue
		}
		res := r.Resolver(g)
		ck := &guard.Checker{P: r.P, Fn: g, Res: res}
		for pi := range nilParam {
			if pi >= len(g.Params) {
				continue
			}
			p := g.Params[pi]
			cnt := 0
			for _, b := range g.Blocks {
				for _, ins := range b.Instrs {
					c, ok := ins.(ssa.CallInstruction)
					if !ok {
						continue
					}
					name, callees := res.CalleeName(c.Common())
					if len(callees) > 0 && r.P.Funcs != nil {
						allMod := true
						for _, cal := range callees {
							if cal.Blocks == nil || !prog.InModule(pkgPathOf(cal)) {
								allMod = false
							}
						}
						if allMod {
							continue // handed to module code: checked there if nil flows on
						}
					}
					args := c.Common().Args
					start := 0
					if !c.Common().IsInvoke() && c.Common().Signature().Recv() != nil {
						start = 1 // a method on the parameter itself (AccAddress.String, Empty...) is nil-safe for the sdk address types
					}
					for ai := start; ai < len(args); ai++ {
						if args[ai] != ssa.Value(p) {
							continue
						}
						n++
						cnt++
						key := core.Key("L2-nilarg", r.KeyName(g), fmt.Sprintf("%s passed to %s#%d", p.Name(), name, cnt))
						ok2, w := ck.MustPass(b, []guard.Atom{guard.Ne(fmt.Sprintf("#%d", pi), "nil")})
						if ok2 {
							r.Discharge("L2-nilarg", key, r.P.Pos(c.Pos()), fmt.Sprintf("parameter %s is nil at a block-hook call site and is tested != nil before it is handed to %s", p.Name(), name))
						} else {
							r.Violate("L2-nilarg", key, r.P.Pos(c.Pos()), fmt.Sprintf("parameter %s of %s is the constant nil at a call site reached from the staking end-blocker hooks, and is handed to %s without a dominating %s != nil: the dependency returns a nil result for a nil address and the following method call on it panics outside panic recovery (chain halt)", p.Name(), r.P.Name(g), name, p.Name()), append([]string{"path (branch decisions):"}, w...)...)
						}
					}
				}
			}
		}
	}
	r.Floor("nil_param_handoffs", n, 1)
}

func pkgPathOf(f *ssa.Function) string {
	if f.Pkg != nil {
		return f.Pkg.Pkg.Path()
	}
	if f.Object() != nil && f.Object().Pkg() != nil {
		return f.Object().Pkg().Path()
	}
	return ""
}

// rulePayAddrBech32 (L2-addr): GetCosmosPaymentAddress calls
// sdk.MustAccAddressFromBech32 on the stored PaymentAddress.Address, and it is
// reached from the x/sao end-blocker (refund of a timed-out order). The stored
// string is therefore written only where the account id it comes from was
// tested to be an account of the cosmos namespace on this chain (a bech32
// address): every store to PaymentAddress.Address in the did handlers is
// dominated by Network == "cosmos" AND Chain == ctx.ChainID(). This replaces
// the blanket assumption A-addr for that field.
func rulePayAddrBech32(r *core.Run) {
	const id = "L2-addr"
	n := 0
	for _, fnName := range []string{"did/keeper.msgServer.Binding", "did/keeper.msgServer.UpdatePaymentAddress"} {
		fn := r.Func(id, fnName)
		if fn == nil {
			continue
		}
		res := r.Resolver(fn)
		ck := &guard.Checker{P: r.P, Fn: fn, Res: res}
		cnt := 0
		for _, b := range fn.Blocks {
			for _, ins := range b.Instrs {
				st, ok := ins.(*ssa.Store)
				if !ok {
					continue
				}
				fa, ok := st.Addr.(*ssa.FieldAddr)
				if !ok || fieldPath(fa) != "did/types.PaymentAddress.Address" {
					continue
				}
				n++
				cnt++
				for _, cl := range []struct {
					name string
					atom guard.Atom
				}{
					{"cosmos-namespace", guard.Eq("did/keeper.parseAcccountId(*)#0.Network", "\"cosmos\"")},
					{"this-chain", guard.Eq("did/keeper.parseAcccountId(*)#0.Chain", "sdk.Context.ChainID()")},
				} {
					key := core.Key(id, fnName, fmt.Sprintf("PaymentAddress.Address#%d", cnt), cl.name)
					ok2, w := ck.MustPass(b, []guard.Atom{cl.atom})
					if ok2 {
						r.Discharge(id, key, r.P.Pos(st.Pos()), "the stored payment address comes from an account id tested for "+cl.atom.Desc)
					} else {
						r.Violate(id, key, r.P.Pos(st.Pos()), fmt.Sprintf("%s stores a payment address without establishing %s: an address of another namespace (e.g. eip155 0x…) can be stored, and GetCosmosPaymentAddress — reached from the x/sao end-blocker when a timed-out order is refunded — calls MustAccAddressFromBech32 on it: panic outside recovery, chain halt", fnName, cl.atom.Desc), append([]string{"path (branch decisions):"}, w...)...)
					}
				}
			}
		}
	}
	r.Floor("payment_address_stores", n, 3)
}
