package rules

import (
	"fmt"
	"go/constant"
	"sort"
	"strings"

	"golang.org/x/tools/go/ssa"

	"saoverif/internal/core"
	"saoverif/internal/eff"
	"saoverif/internal/prog"
)

// ---------------------------------------------------------------- E1: capability rules

// capRoot is a consensus entry point or pseudo-root for the capability matrix.
type capRoot struct {
	Name string
	Fn   *ssa.Function
}

// capRoots: consensus roots plus the two halves of the sao end-blocker
// (pseudo-roots), so that unrelated operations multiplexed by one root are
// separated.
func capRoots(r *core.Run) []capRoot {
	var out []capRoot
	for _, rt := range r.Roots {
		if rt.Consensus() {
			out = append(out, capRoot{rt.Name, rt.Fn})
		}
	}
	for _, n := range []string{"sao/keeper.Keeper.HandleTimeoutOrder", "sao/keeper.Keeper.HandleExpiredShard"} {
		if f := r.P.Func(n); f != nil {
			out = append(out, capRoot{"pseudo:" + strings.TrimPrefix(n, "sao/keeper.Keeper."), f})
		}
	}
	return out
}

type capRule struct {
	ID      string
	Desc    string
	Match   func(e *eff.Effect) (slot string, ok bool)
	Allowed map[string]bool
	Skip    map[string]bool // roots not evaluated for this rule (covered by their pseudo-roots)
}

func set(xs ...string) map[string]bool {
	m := map[string]bool{}
	for _, x := range xs {
		m[x] = true
	}
	return m
}

// evalCap: every root outside Allowed must have no matching effect.
func evalCap(r *core.Run, cr capRule) {
	nRoots, nHits := 0, 0
	for _, rt := range capRoots(r) {
		if cr.Skip[rt.Name] {
			continue
		}
		nRoots++
		slots := map[string]*eff.Effect{}
		for _, e := range r.Eff.Reach(rt.Fn) {
			if s, ok := cr.Match(e); ok {
				if _, dup := slots[s]; !dup {
					slots[s] = e
				}
			}
		}
		if cr.Allowed[rt.Name] {
			var ss []string
			for s := range slots {
				ss = append(ss, s)
			}
			sort.Strings(ss)
			r.Discharge(cr.ID, core.Key(cr.ID, rt.Name, "allowed"), r.P.FuncPos(rt.Fn), "root is in the rule's table; matching effects: "+strings.Join(ss, ", "))
			continue
		}
		if len(slots) == 0 {
			r.Discharge(cr.ID, core.Key(cr.ID, rt.Name), r.P.FuncPos(rt.Fn), "no matching effect reachable (capability absent in the over-approximate call graph)")
			continue
		}
		var ss []string
		for s := range slots {
			ss = append(ss, s)
		}
		sort.Strings(ss)
		for _, s := range ss {
			nHits++
			e := slots[s]
			path := r.P.CG.Path(rt.Fn, e.Fn)
			r.Violate(cr.ID, core.Key(cr.ID, rt.Name, s), r.P.Pos(e.Instr.Pos()), fmt.Sprintf("%s: entry point %s can reach %s (%s), which the rule reserves for other entry points", cr.Desc, rt.Name, s, e.String()), "call path: "+strings.Join(path, " -> "))
		}
	}
	r.Count("cap_roots_"+cr.ID, nRoots)
}

func storeWrite(owner string, prefixes ...string) func(e *eff.Effect) (string, bool) {
	ps := set(prefixes...)
	return func(e *eff.Effect) (string, bool) {
		if !e.IsWrite() || eff.StoreOwner(e) != owner {
			return "", false
		}
		if len(ps) > 0 && !ps[e.Prefix] {
			return "", false
		}
		return e.Kind + " " + owner + ":" + e.Prefix, true
	}
}

// ---------------------------------------------------------------- module accounts

// maccPerms parses app.maccPerms (map literal in the package initialiser).
func maccPerms(r *core.Run) (map[string][]string, bool) {
	pk := r.P.PkgByID[prog.ModulePath+"/app"]
	if pk == nil {
		return nil, false
	}
	sp := r.P.SSA.Package(pk.Types)
	g, _ := sp.Members["maccPerms"].(*ssa.Global)
	init := sp.Func("init")
	if g == nil || init == nil {
		return nil, false
	}
	res := map[string][]string{}
	// find the map value stored to the global, then its MapUpdates
	var mv ssa.Value
	for _, b := range init.Blocks {
		for _, ins := range b.Instrs {
			if st, ok := ins.(*ssa.Store); ok && st.Addr == g {
				mv = st.Val
			}
		}
	}
	if mv == nil {
		return nil, false
	}
	for _, ref := range *mv.Referrers() {
		mu, ok := ref.(*ssa.MapUpdate)
		if !ok {
			continue
		}
		kc, ok := mu.Key.(*ssa.Const)
		if !ok || kc.Value == nil || kc.Value.Kind() != constant.String {
			return nil, false
		}
		key := constant.StringVal(kc.Value)
		perms := []string{}
		if sl, ok := mu.Value.(*ssa.Slice); ok {
			if al, ok := sl.X.(*ssa.Alloc); ok {
				for _, ar := range *al.Referrers() {
					if ia, ok := ar.(*ssa.IndexAddr); ok {
						for _, sr := range *ia.Referrers() {
							if st, ok := sr.(*ssa.Store); ok {
								if c, ok := st.Val.(*ssa.Const); ok && c.Value != nil && c.Value.Kind() == constant.String {
									perms = append(perms, constant.StringVal(c.Value))
								}
							}
						}
					}
				}
			}
		}
		res[key] = perms
	}
	return res, len(res) > 0
}

// moduleArgPositions: which non-context arguments of a bank method name module accounts.
func moduleArgPositions(method string) []int {
	switch method {
	case "SendCoinsFromModuleToAccount", "MintCoins", "BurnCoins", "UndelegateCoinsFromModuleToAccount":
		return []int{0}
	case "SendCoinsFromModuleToModule":
		return []int{0, 1}
	case "SendCoinsFromAccountToModule", "DelegateCoinsFromAccountToModule":
		return []int{1}
	}
	return nil
}

// constArgs resolves an argument term to string constants, following a
// parameter to the constants passed at every call site of the function.
func constArgs(r *core.Run, f *ssa.Function, argTerm string, depth int) ([]string, bool) {
	if strings.HasPrefix(argTerm, `"`) && strings.HasSuffix(argTerm, `"`) {
		return []string{strings.Trim(argTerm, `"`)}, true
	}
	if strings.HasPrefix(argTerm, "#") && depth < 3 {
		idx := 0
		fmt.Sscanf(argTerm, "#%d", &idx)
		var out []string
		n := 0
		for _, caller := range r.P.CG.In[f] {
			if !r.ConsensusFuncs()[caller] {
				continue // wrappers and query-only callers
			}
			for _, s := range r.P.CG.Sites[caller] {
				for _, c := range s.Callees {
					if c != f {
						continue
					}
					n++
					args := s.Instr.Common().Args
					ai := idx
					if s.Instr.Common().IsInvoke() {
						ai = idx - 1
					}
					if ai < 0 || ai >= len(args) {
						return nil, false
					}
					sub, ok := constArgs(r, caller, r.Resolver(caller).Of(args[ai]).String(), depth+1)
					if !ok {
						return nil, false
					}
					out = append(out, sub...)
				}
			}
		}
		return out, n > 0
	}
	return nil, false
}

// ruleMacc: every module name handed to the bank is registered with the permission the call needs.
func ruleMacc(r *core.Run) {
	perms, ok := maccPerms(r)
	if !ok {
		r.Undecide("CAP-macc", "CAP-macc|maccPerms", "", "unresolved anchor: app.maccPerms map literal not found/parsed")
		return
	}
	r.Count("macc_entries", len(perms))
	n := 0
	for _, f := range r.P.SortedFuncs(r.ConsensusFuncs()) {
		for _, e := range r.Eff.Own[f] {
			if !strings.HasPrefix(e.Kind, "bank.") {
				continue
			}
			for _, pos := range moduleArgPositions(e.Method) {
				if pos >= len(e.Args) {
					continue
				}
				n++
				role := "sender"
				if (e.Method == "SendCoinsFromModuleToModule" && pos == 1) || e.Method == "SendCoinsFromAccountToModule" {
					role = "recipient"
				}
				names, ok := constArgs(r, f, e.Args[pos].String(), 0)
				baseKey := core.Key("CAP-macc", r.KeyName(f), e.Method, role)
				if !ok {
					r.Undecide("CAP-macc", baseKey, r.P.Pos(e.Instr.Pos()), "module-name argument "+e.Args[pos].String()+" is not a constant (nor a parameter bound to constants at all call sites)")
					continue
				}
				for _, name := range dedupe(names) {
					key := core.Key(baseKey, name)
					p, reg := perms[name]
					need := ""
					switch e.Method {
					case "MintCoins":
						need = "minter"
					case "BurnCoins":
						need = "burner"
					}
					switch {
					case !reg:
						r.Violate("CAP-macc", key, r.P.Pos(e.Instr.Pos()), fmt.Sprintf("bank.%s names module account %q as %s, but %q is not registered in app.maccPerms: bank panics (\"module account %s does not exist\") instead of moving the coins", e.Method, name, role, name, name))
					case need != "" && !contains(p, need):
						r.Violate("CAP-macc", key, r.P.Pos(e.Instr.Pos()), fmt.Sprintf("bank.%s on module %q needs permission %s, registered permissions are %v", e.Method, name, need, p))
					default:
						r.Discharge("CAP-macc", key, r.P.Pos(e.Instr.Pos()), fmt.Sprintf("module %q registered in maccPerms %v", name, p))
					}
				}
			}
		}
	}
	r.Floor("bank_module_name_args", n, 15)
}

func contains(xs []string, x string) bool {
	for _, y := range xs {
		if y == x {
			return true
		}
	}
	return false
}

// ruleBankErr: the error of every bank mutator call in consensus code is tested or returned.
func ruleBankErr(r *core.Run) {
	n := 0
	for _, f := range r.P.SortedFuncs(r.ConsensusFuncs()) {
		cnt := map[string]int{}
		for _, e := range r.Eff.Own[f] {
			if !strings.HasPrefix(e.Kind, "bank.") {
				continue
			}
			n++
			cnt[e.Method]++
			key := core.Key("T-bankerr", r.KeyName(f), fmt.Sprintf("%s#%d", e.Method, cnt[e.Method]))
			v, isVal := e.Instr.(ssa.Value)
			used := false
			if isVal {
				if refs := v.Referrers(); refs != nil {
					for _, ref := range *refs {
						if _, dbg := ref.(*ssa.DebugRef); !dbg {
							used = true
						}
					}
				}
			}
			if used {
				r.Discharge("T-bankerr", key, r.P.Pos(e.Instr.Pos()), "error result is consumed (tested, stored or returned)")
			} else {
				r.Violate("T-bankerr", key, r.P.Pos(e.Instr.Pos()), fmt.Sprintf("the error returned by bank.%s is dropped: records are updated as if the transfer had happened even when it failed (e.g. vesting-locked coins: GetBalance >= amount but spendable < amount)", e.Method))
			}
		}
	}
	r.Floor("bank_call_sites", n, 19)
}
