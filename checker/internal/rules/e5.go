package rules

import (
	"fmt"
	"go/token"
	"go/types"
	"regexp"
	"sort"
	"strings"

	"golang.org/x/tools/go/ssa"

	"saoverif/internal/cfgx"
	"saoverif/internal/core"
	"saoverif/internal/eff"
	"saoverif/internal/prog"
	"saoverif/internal/term"
)

// ---------------------------------------------------------------- E5: determinism / residue

// nondetSource classifies callee names that read the wall clock, entropy or
// host state.
func nondetSource(name string) string {
	switch name {
	case "time.Now", "time.Since", "time.Until", "time.Tick", "time.After", "time.NewTimer", "time.NewTicker", "time.Sleep":
		return "wall clock"
	case "os.Getenv", "os.Hostname", "os.ReadDir", "os.ReadFile", "os.Getpid", "os.Getwd", "os.Environ", "os.LookupEnv", "os.UserHomeDir", "os.Stat", "os.Open":
		return "host state"
	case "runtime.NumCPU", "runtime.NumGoroutine", "runtime.GOMAXPROCS", "runtime.ReadMemStats", "runtime.Stack":
		return "runtime state"
	case "reflect.Value.MapKeys", "reflect.Value.MapRange", "sync.Map.Range":
		return "unordered iteration"
	case "github.com/satori/go.uuid.NewV1", "github.com/satori/go.uuid.NewV4", "github.com/google/uuid.New", "github.com/google/uuid.NewRandom", "github.com/google/uuid.NewUUID":
		return "entropy"
	}
	if strings.HasPrefix(name, "math/rand.") || strings.HasPrefix(name, "crypto/rand.") || strings.HasPrefix(name, "math/rand/v2.") {
		return "entropy"
	}
	return ""
}

func telemetrySink(name string) bool {
	return strings.HasPrefix(name, "cosmos/telemetry.") || strings.HasPrefix(name, "github.com/armon/go-metrics.") ||
		strings.HasPrefix(name, "github.com/tendermint/tendermint/libs/log.Logger.")
}

type hit struct {
	Fn     *ssa.Function
	Pos    token.Pos
	Key    string
	Detail string
}

// scanD1: nondeterministic sources whose result is used for anything but telemetry.
func scanD1(p *prog.Program, f *ssa.Function) (hits []hit, sites int) {
	seen := map[string]int{}
	for _, b := range f.Blocks {
		for _, ins := range b.Instrs {
			call, ok := ins.(ssa.CallInstruction)
			if !ok {
				continue
			}
			name, _ := term.CalleeName(p, call.Common())
			kind := nondetSource(name)
			if kind == "" {
				continue
			}
			sites++
			benign := true
			if v, ok := ins.(ssa.Value); ok {
				if refs := v.Referrers(); refs != nil {
					for _, r := range *refs {
						switch x := r.(type) {
						case *ssa.DebugRef:
						case ssa.CallInstruction:
							n, _ := term.CalleeName(p, x.Common())
							if !telemetrySink(n) {
								benign = false
							}
						default:
							benign = false
						}
					}
				}
			} else {
				benign = false // go/defer of a nondeterministic source
			}
			seen[name]++
			k := core.Key("D1", p.Name(f), name)
			if seen[name] > 1 {
				k += fmt.Sprintf("#%d", seen[name])
			}
			if benign {
				hits = append(hits, hit{f, ins.Pos(), k, "OK: " + name + " result feeds only telemetry/logging sinks"})
				continue
			}
			hits = append(hits, hit{f, ins.Pos(), k, fmt.Sprintf("%s (%s) read on a consensus path and its value is used by the state machine (not only by telemetry/logging)", name, kind)})
		}
	}
	return
}

// scanD4: concurrency constructs.
func scanD4(p *prog.Program, f *ssa.Function) (hits []hit) {
	n := 0
	for _, b := range f.Blocks {
		for _, ins := range b.Instrs {
			what := ""
			switch x := ins.(type) {
			case *ssa.Go:
				what = "go statement"
			case *ssa.Send:
				what = "channel send"
			case *ssa.Select:
				what = "select"
			case *ssa.MakeChan:
				what = "make(chan)"
			case *ssa.UnOp:
				if x.Op == token.ARROW {
					what = "channel receive"
				}
			}
			if what != "" {
				n++
				hits = append(hits, hit{f, ins.Pos(), core.Key("D4", p.Name(f), fmt.Sprintf("%s#%d", what, n)), what + " in consensus-reachable code: scheduling order can influence the result"})
			}
		}
	}
	return
}

func isFloat(t types.Type) bool {
	b, ok := t.Underlying().(*types.Basic)
	return ok && b.Info()&types.IsFloat != 0
}

// scanD5: x*y ± z on floats without an explicit conversion in between: the
// one shape the Go spec lets an architecture fuse (FMA) and round differently.
func scanD5(p *prog.Program, f *ssa.Function) (hits []hit) {
	n := 0
	for _, b := range f.Blocks {
		for _, ins := range b.Instrs {
			bo, ok := ins.(*ssa.BinOp)
			if !ok || (bo.Op != token.ADD && bo.Op != token.SUB) || !isFloat(bo.Type()) {
				continue
			}
			for _, op := range []ssa.Value{bo.X, bo.Y} {
				if m, ok := op.(*ssa.BinOp); ok && m.Op == token.MUL && isFloat(m.Type()) {
					n++
					hits = append(hits, hit{f, bo.Pos(), core.Key("D5", p.Name(f), fmt.Sprintf("fma#%d", n)), "floating-point x*y±z without an explicit conversion: may be fused on some architectures and round differently"})
				}
			}
		}
	}
	return
}

// longLived: types whose values outlive a transaction.
func longLived(t types.Type) bool {
	for {
		if p, ok := t.(*types.Pointer); ok {
			t = p.Elem()
			continue
		}
		break
	}
	n, ok := t.(*types.Named)
	if !ok || n.Obj().Pkg() == nil || !prog.InModule(n.Obj().Pkg().Path()) {
		return false
	}
	switch n.Obj().Name() {
	case "Keeper", "msgServer", "Hooks", "AppModule", "App", "Migrator", "AppModuleBasic":
		return true
	}
	return false
}

var mutatorMethods = map[string]bool{
	"AddMut": true, "SubMut": true, "MulMut": true, "QuoMut": true, "MulInt64Mut": true, "QuoInt64Mut": true, "MulIntMut": true, "QuoIntMut": true,
	"MulTruncateMut": true, "QuoTruncateMut": true, "QuoRoundupMut": true, "PowerMut": true, "ApproxRootMut": true, "NegMut": true, "AbsMut": true,
	"Set": true, "SetInt64": true, "SetUint64": true, "SetBytes": true, "SetString": true, "SetBit": true, "SetBits": true,
	"Add": false,
}

// addrRoot follows an address to its root value.
func addrRoot(v ssa.Value) ssa.Value {
	for i := 0; i < 16; i++ {
		switch x := v.(type) {
		case *ssa.FieldAddr:
			v = x.X
		case *ssa.IndexAddr:
			v = x.X
		case *ssa.ChangeType:
			v = x.X
		default:
			return v
		}
	}
	return v
}

// globalRooted: value is a global's address, or a pointer/map/slice loaded from one.
func globalRooted(v ssa.Value) *ssa.Global {
	v = addrRoot(v)
	switch x := v.(type) {
	case *ssa.Global:
		return x
	case *ssa.UnOp:
		if x.Op == token.MUL {
			return globalRooted(x.X)
		}
	case *ssa.Field:
		return globalRooted(x.X)
	case *ssa.Call:
		// method returning an interior pointer of a global value, e.g. global.BigInt()
		if len(x.Call.Args) > 0 && x.Call.Signature().Recv() != nil {
			if g := globalRooted(x.Call.Args[0]); g != nil {
				return g
			}
		}
	}
	return nil
}

// sharedViaLongLived: v is (an address inside) heap memory reached through a pointer, map or slice held in a
// field of a long-lived value (keeper, server, hooks, module, app) — shared by every copy of that value.
func sharedViaLongLived(v ssa.Value, depth int) (string, bool) {
	if depth > 8 {
		return "", false
	}
	v = addrRoot(v)
	switch x := v.(type) {
	case *ssa.UnOp:
		if x.Op != token.MUL {
			return "", false
		}
		// load of a field: is the holder long-lived?
		if fa, ok := x.X.(*ssa.FieldAddr); ok {
			if longLived(fa.X.Type()) {
				return shortTypeName(fa.X.Type()) + "." + fieldNameT(fa.X.Type(), fa.Field), true
			}
			return sharedViaLongLived(fa.X, depth+1)
		}
		return sharedViaLongLived(x.X, depth+1)
	case *ssa.Field:
		if longLived(x.X.Type()) {
			return shortTypeName(x.X.Type()) + "." + fieldNameT(x.X.Type(), x.Field), true
		}
		return sharedViaLongLived(x.X, depth+1)
	case *ssa.Lookup:
		return sharedViaLongLived(x.X, depth+1)
	}
	return "", false
}

// D3Mods is set by the driver so that scanD3 can see through calls that write via their arguments.
var D3Mods *term.Mods

// scanD3: writes to process-resident state.
func scanD3(p *prog.Program, f *ssa.Function) (hits []hit) {
	if f.Name() == "init" || strings.HasPrefix(f.Name(), "init#") {
		return
	}
	seen := map[string]bool{}
	add := func(pos token.Pos, slot, detail string) {
		k := core.Key("D3", slot, p.Name(f))
		if seen[k] {
			return
		}
		seen[k] = true
		hits = append(hits, hit{f, pos, k, detail})
	}
	gname := func(g *ssa.Global) string {
		if g.Pkg != nil {
			return prog.Short(g.Pkg.Pkg.Path()) + "." + g.Name()
		}
		return g.Name()
	}
	var recv *ssa.Parameter
	if f.Signature.Recv() != nil && len(f.Params) > 0 {
		if _, isPtr := f.Params[0].Type().(*types.Pointer); isPtr && longLived(f.Params[0].Type()) {
			recv = f.Params[0]
		}
	}
	for _, b := range f.Blocks {
		for _, ins := range b.Instrs {
			switch x := ins.(type) {
			case *ssa.Store:
				if fld, ok := sharedViaLongLived(x.Addr, 0); ok {
					add(x.Pos(), "shared:"+fld, "memory reached through field "+fld+" of a long-lived value is written during execution: every copy of the keeper/server shares it, it survives failed and simulated transactions and is lost on restart")
				}
				if g := globalRooted(x.Addr); g != nil && g.Pkg != nil && prog.InModule(g.Pkg.Pkg.Path()) {
					add(x.Pos(), "global:"+gname(g), "package-level variable "+gname(g)+" is written while executing a transaction/block: the value lives in process memory, survives failed and simulated transactions, and is absent after a restart")
				}
				if recv != nil && addrRoot(x.Addr) == recv {
					add(x.Pos(), "recvfield:"+p.Name(f), "field of long-lived receiver "+recv.Type().String()+" written during execution")
				}
			case *ssa.MapUpdate:
				if fld, ok := sharedViaLongLived(x.Map, 0); ok {
					add(x.Pos(), "shared:"+fld, "a map reached through field "+fld+" of a long-lived value is updated during execution (process-resident cache)")
				}
				if g := globalRooted(x.Map); g != nil && g.Pkg != nil && prog.InModule(g.Pkg.Pkg.Path()) {
					add(x.Pos(), "global:"+gname(g), "package-level map "+gname(g)+" updated during execution")
				}
				if recv != nil {
					if u, ok := x.Map.(*ssa.UnOp); ok && addrRoot(u.X) == recv {
						add(x.Pos(), "recvfield:"+p.Name(f), "map field of long-lived receiver updated during execution")
					}
				}
			case ssa.CallInstruction:
				cc := x.Common()
				// a callee that writes through an argument which points into memory shared via a long-lived value
				if D3Mods != nil {
					for _, a := range cc.Args {
						if fld, ok := sharedViaLongLived(a, 0); ok && D3Mods.CallWrites(x, a) {
							if nm, callees := term.CalleeName(p, cc); len(callees) > 0 {
								add(x.Pos(), "shared:"+fld, "memory reached through field "+fld+" of a long-lived value is passed to "+nm+", which writes through it")
							}
						}
					}
				}
				if cc.IsInvoke() || len(cc.Args) == 0 || cc.Signature().Recv() == nil {
					continue
				}
				sc := cc.StaticCallee()
				if sc == nil || !mutatorMethods[sc.Name()] {
					continue
				}
				if g := globalRooted(cc.Args[0]); g != nil && g.Pkg != nil && prog.InModule(g.Pkg.Pkg.Path()) {
					add(x.Pos(), "global:"+gname(g), "in-place mutator "+sc.Name()+" applied to package-level variable "+gname(g))
				}
			}
		}
	}
	return
}

// scanD2: map ranges with an order-sensitive body.
func scanD2(r *core.Run, f *ssa.Function) (hits []hit, sites int) {
	p := r.P
	var loops []*cfgx.Loop
	n := 0
	for _, b := range f.Blocks {
		for _, ins := range b.Instrs {
			rg, ok := ins.(*ssa.Range)
			if !ok {
				continue
			}
			if _, isMap := rg.X.Type().Underlying().(*types.Map); !isMap {
				continue
			}
			sites++
			n++
			if loops == nil {
				loops = cfgx.Loops(f)
			}
			// the loop whose header holds the Next on this iterator
			var loop *cfgx.Loop
			var next *ssa.Next
			for _, ref := range *rg.Referrers() {
				if nx, ok := ref.(*ssa.Next); ok {
					next = nx
					for _, l := range loops {
						if l.Header == nx.Block() {
							loop = l
						}
					}
				}
			}
			key := core.Key("D2", p.Name(f), fmt.Sprintf("maprange#%d", n))
			if loop == nil || next == nil {
				hits = append(hits, hit{f, rg.Pos(), key, "map range whose loop could not be identified"})
				continue
			}
			if why := orderSensitive(r, f, loop, next); why != "" {
				hits = append(hits, hit{f, rg.Pos(), key, "iteration over a map with an order-sensitive body: " + why})
			} else {
				hits = append(hits, hit{f, rg.Pos(), key, "OK: map range body is order-insensitive (per-key store access keyed by the range key / map inserts / integer-bool accumulation only)"})
			}
		}
	}
	return
}

// orderSensitive inspects the body of a map-range loop.
func orderSensitive(r *core.Run, f *ssa.Function, loop *cfgx.Loop, next *ssa.Next) string {
	p := r.P
	res := r.Resolver(f)
	// values derived from the range key/element
	derived := map[ssa.Value]bool{next: true}
	changed := true
	for changed {
		changed = false
		for b := range loop.Body {
			for _, ins := range b.Instrs {
				v, ok := ins.(ssa.Value)
				if !ok || derived[v] {
					continue
				}
				for _, op := range ins.Operands(nil) {
					if *op != nil && derived[*op] {
						switch ins.(type) {
						case *ssa.Extract, *ssa.Convert, *ssa.ChangeType, *ssa.MakeInterface, *ssa.Field, *ssa.UnOp, *ssa.BinOp, *ssa.Call, *ssa.Slice, *ssa.IndexAddr, *ssa.FieldAddr, *ssa.Index, *ssa.Lookup:
							derived[v] = true
							changed = true
						}
					}
				}
			}
		}
	}
	isRangeKey := func(v ssa.Value) bool {
		ex, ok := v.(*ssa.Extract)
		return ok && ex.Tuple == next && ex.Index == 1
	}
	nextT := res.Of(next).String()
	isDerived := func(v ssa.Value) bool {
		return derived[v] || strings.Contains(res.Of(v).String(), nextT)
	}
	// early exit: a body block (other than the header) leaving the loop
	for b := range loop.Body {
		if b == loop.Header {
			continue
		}
		for _, s := range b.Succs {
			if !loop.Body[s] {
				return fmt.Sprintf("the body leaves the loop early (break/return at %s): which element is seen first decides the result", p.Pos(lastPos(b)))
			}
		}
	}
	// loop-carried non-commutative state
	for _, ins := range loop.Header.Instrs {
		phi, ok := ins.(*ssa.Phi)
		if !ok {
			break
		}
		t := phi.Type().Underlying()
		if bt, ok := t.(*types.Basic); ok && bt.Info()&(types.IsInteger|types.IsBoolean) != 0 {
			continue // commutative accumulation / flags
		}
		if _, ok := t.(*types.Map); ok {
			continue
		}
		return fmt.Sprintf("value %s of type %s is carried from one iteration to the next (order of accumulation is the map's random order)", phi.Comment, phi.Type())
	}
	for b := range loop.Body {
		for _, ins := range b.Instrs {
			switch x := ins.(type) {
			case *ssa.Store:
				root := addrRoot(x.Addr)
				if al, ok := root.(*ssa.Alloc); ok && loop.Body[al.Block()] && al.Block() != loop.Header {
					continue // local to the iteration
				}
				if al, ok := root.(*ssa.Alloc); ok {
					// store to an outer local: allowed only for integers/bools
					if bt, ok := x.Val.Type().Underlying().(*types.Basic); ok && bt.Info()&(types.IsInteger|types.IsBoolean) != 0 {
						continue
					}
					_ = al
				}
				return fmt.Sprintf("store to %s, which outlives the iteration, at %s", res.Of(x.Addr), p.Pos(x.Pos()))
			case ssa.CallInstruction:
				cc := x.Common()
				name, callees := term.CalleeName(p, cc)
				if name == "builtin.append" {
					return fmt.Sprintf("append at %s builds a slice in map iteration order", p.Pos(x.Pos()))
				}
				if len(callees) == 0 {
					if pureExternal(name) {
						continue
					}
					if strings.HasPrefix(name, "cosmos/store/prefix.Store.") {
						m := strings.TrimPrefix(name, "cosmos/store/prefix.Store.")
						if m == "Get" || m == "Has" {
							continue
						}
						if (m == "Set" || m == "Delete") && len(cc.Args) > 1 && derivesFromKey(r, f, cc.Args[1], isRangeKey, 0) {
							continue // per-key write keyed by an injective encoding of the range key
						}
						return fmt.Sprintf("store %s at %s with a key that does not derive from the range key", m, p.Pos(x.Pos()))
					}
					return fmt.Sprintf("call to %s at %s (effects unknown)", name, p.Pos(x.Pos()))
				}
				for _, c := range callees {
					if why := calleeOrderSensitive(r, c, x, isRangeKey, f); why != "" {
						return fmt.Sprintf("call to %s at %s: %s", name, p.Pos(x.Pos()), why)
					}
				}
				// the callee must be keyed by something derived from the range key
				keyed := false
				for _, a := range cc.Args {
					if isDerived(a) {
						keyed = true
					}
				}
				if !keyed && hasWrites(r, callees) {
					return fmt.Sprintf("call to %s at %s writes state but none of its arguments derives from the range key", name, p.Pos(x.Pos()))
				}
			}
		}
	}
	return ""
}

func lastPos(b *ssa.BasicBlock) token.Pos {
	for i := len(b.Instrs) - 1; i >= 0; i-- {
		if b.Instrs[i].Pos().IsValid() {
			return b.Instrs[i].Pos()
		}
	}
	return token.NoPos
}

func pureExternal(name string) bool {
	for _, pre := range []string{"fmt.", "strings.", "strconv.", "builtin.", "sdk.NewDec", "sdk.NewInt", "sdk.Dec.", "math.Int.", "sdk.Coin.", "sdk.DecCoin.", "bytes.", "github.com/tendermint/tendermint/libs/log.Logger.", "sdk.MustAccAddressFromBech32", "sdk.AccAddress.", "sdk.Context.", "cosmos/codec.BinaryCodec.MustMarshal", "cosmos/codec.BinaryCodec.MustUnmarshal", "cosmos/codec.BinaryCodec.Unmarshal", "cosmos/codec.BinaryCodec.Marshal", "cosmos/store/prefix.NewStore", "sdkerrors."} {
		if strings.HasPrefix(name, pre) {
			return true
		}
	}
	return false
}

func hasWrites(r *core.Run, callees []*ssa.Function) bool {
	for _, e := range r.Eff.Reach(callees...) {
		if e.IsWrite() || strings.HasPrefix(e.Kind, "bank.") {
			return true
		}
	}
	return false
}

// ---- injectivity of store keys in the range key ---------------------------------------------
//
// Iterations of a map range commute when the store keys one iteration touches are disjoint from those of
// every other iteration. That is guaranteed when each touched key is an injective encoding of the range key
// itself. A key computed from loaded data (e.g. a height read from a record) can coincide for two range keys:
// the iterations then read-modify-write one record in the map's random order.

// pureEncoder: a module function without effects returning bytes/string (NodeKey, GetShardIDBytes, KeyPrefix...).
func pureEncoder(r *core.Run, f *ssa.Function) bool {
	if f == nil || len(f.Blocks) == 0 || len(r.Eff.Reach(f)) > 0 {
		return false
	}
	res := f.Signature.Results()
	if res.Len() != 1 {
		return false
	}
	switch t := res.At(0).Type().Underlying().(type) {
	case *types.Slice:
		b, ok := t.Elem().Underlying().(*types.Basic)
		return ok && b.Kind() == types.Byte
	case *types.Basic:
		return t.Kind() == types.String
	}
	return false
}

// keyFieldLemma: for v = getter(k)#0, v.<field> == k — because the getter reads Enc(k) from a prefix that is
// only ever written under Enc(record.<field>).
func keyFieldLemma(r *core.Run, getter *ssa.Function, field string) (paramIdx int, ok bool) {
	var get *eff.Effect
	for _, e := range r.Eff.Own[getter] {
		if e.Kind == "store.get" {
			if get != nil {
				return 0, false
			}
			get = e
		} else if strings.HasPrefix(e.Kind, "store.") {
			return 0, false
		}
	}
	if get == nil || get.KeyVal == nil {
		return 0, false
	}
	kc, isCall := get.KeyVal.(*ssa.Call)
	if !isCall || kc.Call.StaticCallee() == nil || !pureEncoder(r, kc.Call.StaticCallee()) || len(kc.Call.Args) != 1 {
		return 0, false
	}
	par, isPar := kc.Call.Args[0].(*ssa.Parameter)
	if !isPar {
		return 0, false
	}
	idx := -1
	for i, p := range getter.Params {
		if p == par {
			idx = i
		}
	}
	enc := kc.Call.StaticCallee()
	// every writer of that prefix uses Enc(record.field)
	nw := 0
	for _, f := range r.P.Funcs {
		for _, e := range r.Eff.Own[f] {
			if e.Kind != "store.set" || eff.StoreOwner(e) != eff.StoreOwner(get) || e.Prefix != get.Prefix {
				continue
			}
			nw++
			wc, ok := e.KeyVal.(*ssa.Call)
			if !ok || wc.Call.StaticCallee() != enc || len(wc.Call.Args) != 1 {
				return 0, false
			}
			t := r.Resolver(f).Of(wc.Call.Args[0]).String()
			if !regexp.MustCompile(`^~?#[0-9]+\.` + regexp.QuoteMeta(field) + `$`).MatchString(t) {
				return 0, false
			}
		}
	}
	return idx, nw > 0 && idx >= 0
}

// derivesFromKey: v is the range key itself, an injective encoding of it, or a key field of the record
// fetched under it (key-field lemma).
func derivesFromKey(r *core.Run, f *ssa.Function, v ssa.Value, isKey func(ssa.Value) bool, depth int) bool {
	if depth > 6 {
		return false
	}
	if isKey(v) {
		return true
	}
	switch x := v.(type) {
	case *ssa.Convert:
		return derivesFromKey(r, f, x.X, isKey, depth+1)
	case *ssa.ChangeType:
		return derivesFromKey(r, f, x.X, isKey, depth+1)
	case *ssa.MakeInterface:
		return derivesFromKey(r, f, x.X, isKey, depth+1)
	case *ssa.Call:
		if sc := x.Call.StaticCallee(); sc != nil && pureEncoder(r, sc) && len(x.Call.Args) >= 1 {
			n := 0
			for _, a := range x.Call.Args {
				if _, isC := a.(*ssa.Const); isC {
					continue
				}
				if !derivesFromKey(r, f, a, isKey, depth+1) {
					return false
				}
				n++
			}
			return n > 0
		}
	case *ssa.UnOp:
		// load of record.field where record = getter(key)#0
		if fa, ok := x.X.(*ssa.FieldAddr); ok && x.Op == token.MUL {
			if al, ok := fa.X.(*ssa.Alloc); ok {
				var src ssa.Value
				n := 0
				for _, ref := range *al.Referrers() {
					if st, ok := ref.(*ssa.Store); ok && st.Addr == al {
						src = st.Val
						n++
					}
				}
				if n == 1 {
					if ex, ok := src.(*ssa.Extract); ok && ex.Index == 0 {
						if c, ok := ex.Tuple.(*ssa.Call); ok {
							_, callees := term.CalleeName(r.P, &c.Call)
							if len(callees) == 1 {
								if pi, ok := keyFieldLemma(r, callees[0], fieldNameT(fa.X.Type(), fa.Field)); ok {
									off := 0
									if c.Call.IsInvoke() {
										off = 1
									}
									if pi-off >= 0 && pi-off < len(c.Call.Args) {
										return derivesFromKey(r, f, c.Call.Args[pi-off], isKey, depth+1)
									}
								}
							}
						}
					}
				}
			}
		}
	}
	return false
}

// effKeyParam: which parameter of f the key of store effect e (reachable from f) injectively derives from.
func effKeyParam(r *core.Run, f *ssa.Function, e *eff.Effect, depth int) (int, bool) {
	if depth > 4 {
		return 0, false
	}
	if e.Fn == f {
		if e.KeyVal == nil {
			return 0, false
		}
		for i, par := range f.Params {
			p := par
			if derivesFromKey(r, f, e.KeyVal, func(v ssa.Value) bool { return v == p }, 0) {
				return i, true
			}
		}
		return 0, false
	}
	res, found := -1, false
	for _, s := range r.P.CG.Sites[f] {
		for _, g := range s.Callees {
			if !r.P.CG.Reach(g)[e.Fn] {
				continue
			}
			j, ok := effKeyParam(r, g, e, depth+1)
			if !ok {
				return 0, false
			}
			off := 0
			if s.Instr.Common().IsInvoke() {
				off = 1
			}
			args := s.Instr.Common().Args
			if j-off < 0 || j-off >= len(args) {
				return 0, false
			}
			hit := -1
			for i, par := range f.Params {
				p := par
				if derivesFromKey(r, f, args[j-off], func(v ssa.Value) bool { return v == p }, 0) {
					hit = i
				}
			}
			if hit < 0 || (found && hit != res) {
				return 0, false
			}
			res, found = hit, true
		}
	}
	return res, found
}

// calleeOrderSensitive: a callee may be invoked per map key only if all it does is store access whose keys
// are injective in the argument that carries the range key: no events, no bank, no parameters, no iteration,
// no constant-key (counter/singleton) writes, no key computed from loaded data.
func calleeOrderSensitive(r *core.Run, c *ssa.Function, call ssa.CallInstruction, isKey func(ssa.Value) bool, caller *ssa.Function) string {
	effs := r.Eff.Reach(c)
	written := map[string]bool{}
	for _, e := range effs {
		if e.IsWrite() {
			written[eff.StoreOwner(e)+":"+e.Prefix] = true
		}
	}
	for _, e := range effs {
		switch {
		case e.Kind == "event":
			return "emits an event (events are ordered)"
		case strings.HasPrefix(e.Kind, "bank."):
			return "moves coins (" + e.Kind + ")"
		case strings.HasPrefix(e.Kind, "param."):
			return "writes parameters"
		case strings.HasPrefix(e.Kind, "store."):
			slot := eff.StoreOwner(e) + ":" + e.Prefix
			if !written[slot] {
				continue // reads of records no iteration writes commute
			}
			if e.Exact {
				return "touches the constant key " + slot + " (a counter or singleton: the value each iteration sees depends on order)"
			}
			if e.Kind == "store.iter" {
				return "iterates over " + slot + ", which the loop also writes"
			}
			j, ok := effKeyParam(r, c, e, 0)
			if !ok {
				return fmt.Sprintf("%s on %s at %s uses a key that is not an injective encoding of one of %s's parameters (e.g. computed from loaded data): two range keys can address the same record, which is then read-modified-written in map order", e.Kind, slot, r.P.Pos(e.Instr.Pos()), r.P.Name(c))
			}
			off := 0
			if call.Common().IsInvoke() {
				off = 1
			}
			args := call.Common().Args
			if j-off < 0 || j-off >= len(args) || !derivesFromKey(r, caller, args[j-off], isKey, 0) {
				return fmt.Sprintf("%s on %s is keyed by parameter #%d of %s, but the argument passed for it is not the range key (nor an injective encoding of it)", e.Kind, slot, j, r.P.Name(c))
			}
		}
	}
	return ""
}

// e5Scope: consensus-reachable, hand-written module functions.
func e5Scope(r *core.Run) []*ssa.Function {
	var out []*ssa.Function
	for _, f := range r.P.SortedFuncs(r.ConsensusFuncs()) {
		if r.P.IsGenerated(f) {
			continue
		}
		out = append(out, f)
	}
	return out
}

func applyHits(r *core.Run, rule string, hs []hit) {
	for _, h := range hs {
		if strings.HasPrefix(h.Detail, "OK: ") {
			r.Discharge(rule, h.Key, r.P.Pos(h.Pos), strings.TrimPrefix(h.Detail, "OK: "))
			continue
		}
		r.Violate(rule, h.Key, r.P.Pos(h.Pos), h.Detail)
	}
}

// ruleD3All runs D3 and records one discharged obligation per clean function
// group plus one violation per (global, writer).
func ruleD3(r *core.Run) {
	scope := e5Scope(r)
	n := 0
	for _, f := range scope {
		hs := scanD3(r.P, f)
		applyHits(r, "D3", hs)
		n += len(hs)
	}
	r.Discharge("D3", "D3|scope", "", fmt.Sprintf("%d consensus-reachable hand-written functions scanned for stores/map updates/in-place mutators rooted at package-level variables or long-lived receivers; %d writer sites found", len(scope), n))
	r.Count("d3_functions_scanned", len(scope))
	r.Count("d3_writer_sites", n)
	// stateless keepers: no pointer-receiver methods on long-lived types that write fields (covered above),
	// and no mem/transient store key is ever opened.
	memUse := 0
	for _, f := range r.P.Funcs {
		for _, e := range r.Eff.Own[f] {
			if strings.HasPrefix(e.Kind, "store.") && (strings.Contains(strings.ToLower(e.KeyField), "mem") || strings.Contains(strings.ToLower(e.KeyField), "transient")) {
				memUse++
				r.Violate("D3-mem", core.Key("D3-mem", r.KeyName(f), e.KeyField), r.P.Pos(e.Instr.Pos()), "module code opens the memory/transient store "+e.KeyField+": its content is not part of the committed state")
			}
		}
	}
	r.Discharge("D3-mem", "D3-mem|scope", "", fmt.Sprintf("no module function opens a store through a mem/transient key field (%d uses)", memUse))
	ruleStoreKeyKinds(r)
	// package-level variables of mutable type that are written anywhere outside init (any module function)
	vars := map[string]bool{}
	for _, f := range r.P.Funcs {
		if r.P.IsGenerated(f) {
			continue
		}
		for _, h := range scanD3(r.P, f) {
			parts := strings.Split(h.Key, "|")
			if len(parts) > 1 && strings.HasPrefix(parts[1], "global:") {
				vars[parts[1]] = true
			}
		}
	}
	var vs []string
	for v := range vars {
		vs = append(vs, v)
	}
	sort.Strings(vs)
	r.Notes = append(r.Notes, "package-level variables written outside init anywhere in the module: "+strings.Join(vs, ", "))
}

// ruleStoreKeyKinds (D3-mem, by type rather than by field name): every keeper
// field through which module code opens a store is bound, at the keeper's
// constructor call in the app wiring, to a persistent *KVStoreKey; a
// *MemoryStoreKey or *TransientStoreKey there makes the "store" process-resident
// (empty after a restart, absent from the app hash).
func ruleStoreKeyKinds(r *core.Run) {
	used := map[string]bool{} // module.field used to open stores
	for _, f := range r.P.Funcs {
		for _, e := range r.Eff.Own[f] {
			if strings.HasPrefix(e.Kind, "store.") && e.Module != "?" && !strings.HasPrefix(e.KeyField, "param:") {
				used[e.Module+"."+e.KeyField] = true
			}
		}
	}
	const kvKey = "*github.com/cosmos/cosmos-sdk/store/types.KVStoreKey"
	nBound := 0
	var ctors []*ssa.Function
	for _, f := range r.P.Funcs {
		if f.Name() == "NewKeeper" && f.Signature.Recv() == nil && f.Pkg != nil && strings.HasSuffix(f.Pkg.Pkg.Path(), "/keeper") {
			ctors = append(ctors, f)
		}
	}
	sort.Slice(ctors, func(i, j int) bool { return r.P.Name(ctors[i]) < r.P.Name(ctors[j]) })
	for _, ctor := range ctors {
		mod := strings.Split(r.P.Name(ctor), "/")[0]
		// param index -> field name
		p2f := map[int]string{}
		for _, b := range ctor.Blocks {
			for _, ins := range b.Instrs {
				st, ok := ins.(*ssa.Store)
				if !ok {
					continue
				}
				fa, ok := st.Addr.(*ssa.FieldAddr)
				if !ok {
					continue
				}
				pr, ok := st.Val.(*ssa.Parameter)
				if !ok {
					continue
				}
				T := fa.X.Type()
				if pt, ok := T.Underlying().(*types.Pointer); ok {
					T = pt.Elem()
				}
				stt, ok := T.Underlying().(*types.Struct)
				if !ok || fa.Field >= stt.NumFields() {
					continue
				}
				for i, q := range ctor.Params {
					if q == pr {
						p2f[i] = stt.Field(fa.Field).Name()
					}
				}
			}
		}
		for _, caller := range r.P.CG.In[ctor] {
			for _, site := range r.P.CG.Sites[caller] {
				hit := false
				for _, c := range site.Callees {
					if c == ctor {
						hit = true
					}
				}
				if !hit {
					continue
				}
				args := site.Instr.Common().Args
				for i, a := range args {
					field, ok := p2f[i]
					if !ok || !used[mod+"."+field] {
						continue
					}
					mi, ok := a.(*ssa.MakeInterface)
					if !ok {
						r.Notes = append(r.Notes, fmt.Sprintf("store key kind of %s.%s not visible at %s (argument is already an interface value)", mod, field, r.P.Pos(site.Instr.Pos())))
						continue
					}
					nBound++
					key := core.Key("D3-mem", "keykind", mod+"."+field, r.P.Name(caller))
					if ts := mi.X.Type().String(); ts != kvKey {
						r.Violate("D3-mem", key, r.P.Pos(site.Instr.Pos()), fmt.Sprintf("keeper field %s.%s, through which module code opens its store, is bound to a %s at the constructor call: that store is not persisted (empty after a restart) and does not enter the app hash, so a restarted node diverges from an uninterrupted one", mod, field, ts))
					} else {
						r.Discharge("D3-mem", key, r.P.Pos(site.Instr.Pos()), fmt.Sprintf("%s.%s bound to a persistent *KVStoreKey", mod, field))
					}
				}
			}
		}
	}
	r.Floor("store_key_bindings", nBound, 6)
}

// ruleStartupWrites (D3-startup): the application constructor (app.New), which
// runs on every process start, reaches no committed-store write and obtains no
// sdk.Context outside a block: state must be a function of the committed
// database and the blocks, not of how often the process was started.
func ruleStartupWrites(r *core.Run) {
	fn := r.Func("D3-startup", "app.New")
	if fn == nil {
		return
	}
	reach := r.P.CG.Reach(fn)
	nW := 0
	for _, f := range r.P.SortedFuncs(reach) {
		for _, e := range r.Eff.Own[f] {
			if e.IsWrite() {
				nW++
				path := r.P.CG.Path(fn, f)
				r.Violate("D3-startup", core.Key("D3-startup", "write", r.P.Name(f), e.Kind+" "+eff.StoreOwner(e)+":"+e.Prefix), r.P.Pos(e.Instr.Pos()), "the application constructor, which runs at every process start, reaches a write to the committed store ("+e.String()+"): a node that was restarted then holds different state than one that kept running", "call path: "+strings.Join(path, " -> "))
			}
		}
		res := r.Resolver(f)
		for _, b := range f.Blocks {
			for _, ins := range b.Instrs {
				c, ok := ins.(ssa.CallInstruction)
				if !ok {
					continue
				}
				name, _ := res.CalleeName(c.Common())
				if strings.HasSuffix(name, "BaseApp.NewUncachedContext") || strings.HasSuffix(name, "BaseApp.NewContext") {
					nW++
					r.Violate("D3-startup", core.Key("D3-startup", "context", r.P.Name(f), name), r.P.Pos(c.Pos()), "code reachable from the application constructor obtains an sdk.Context outside any block ("+name+"): store access at process start depends on restarts, not on the block stream")
				}
			}
		}
	}
	r.Discharge("D3-startup", "D3-startup|scope", r.P.FuncPos(fn), fmt.Sprintf("%d module functions reachable from app.New; no committed-store write and no out-of-block context among them", len(reach)))
	r.Count("startup_reachable_funcs", len(reach))
}

// ruleD1Dep (D1-dep): the one known place where a dependency reads the host
// clock on a consensus path is sao-did's DidManager.VerifyJWS (v0.0.12 did.go:
// `time.Now().After(nextUpdate)` / `time.Now().Before(updated)`), and it does so
// only when the resolved document's metadata carries NextUpdate / Updated. The
// stock resolvers never set them; module code must not either (no store to
// those fields anywhere in the module), otherwise the verdict of a signature
// check depends on the executing node's wall clock.
func ruleD1Dep(r *core.Run) {
	n, bad := 0, 0
	for _, f := range r.P.Funcs {
		if r.P.IsGenerated(f) {
			continue
		}
		n++
		for _, b := range f.Blocks {
			for _, ins := range b.Instrs {
				st, ok := ins.(*ssa.Store)
				if !ok {
					continue
				}
				fa, ok := st.Addr.(*ssa.FieldAddr)
				if !ok {
					continue
				}
				T := fa.X.Type()
				if p, ok := T.Underlying().(*types.Pointer); ok {
					T = p.Elem()
				}
				if !strings.HasSuffix(T.String(), "sao-did/types.DidDocumentMetadata") {
					continue
				}
				fld := fieldNameT(fa.X.Type(), fa.Field)
				if fld != "NextUpdate" && fld != "Updated" {
					continue
				}
				if c, isC := st.Val.(*ssa.Const); isC && c.Value != nil && c.Value.ExactString() == `""` {
					continue
				}
				bad++
				r.Violate("D1-dep", core.Key("D1-dep", r.KeyName(f), "DidDocumentMetadata."+fld), r.P.Pos(st.Pos()), fmt.Sprintf("%s sets DidDocumentMetadata.%s on a resolved DID document: sao-did's VerifyJWS compares that field with time.Now() (the executing node's wall clock), so whether a signature is accepted then differs between a live validator and a node replaying the block later", r.P.Name(f), fld))
			}
		}
	}
	r.Discharge("D1-dep", "D1-dep|scope", "", fmt.Sprintf("%d module functions scanned; %d stores to DidDocumentMetadata.NextUpdate/Updated (the inputs of the only wall-clock comparison in the DID library's verification path)", n, bad))
}
