package rules

import (
	"fmt"
	"sort"
	"strings"

	"golang.org/x/tools/go/ssa"

	"saoverif/internal/core"
	"saoverif/internal/eff"
	"saoverif/internal/guard"
)

func init() { register("C19", checkC19) }

func checkC19(r *core.Run) {
	r.Explanation = "C19 (structural clauses only): capability — the fault handlers can reach no bank operation and write no store prefix other than the fault tables (and, for recovery, the fishing-reward table and the accused provider's pledge record): a proof of the 'never touches balances, orders, shards' clause over the call graph; guards — every write in ReportFaults/RecoverFaults is dominated by the registered-node and fishman tests, a report is persisted only after the provider/metadata/order/data-id/shard/holder/unexpired tests, self-recovery only for faults recorded against the signer. Penalty arithmetic (<= holdings) is not decided."
	r.Rule("CAP-fault: ReportFaults writes ⊆ {node:Fault/*}; RecoverFaults writes ⊆ {node:Fault/*, node:FishingReward/value/, node:Pledge/value/}; neither reaches any bank mutator")
	r.Rule("G-fish: every store write in the two handlers <= GetNode(msg.Creator) found AND (msg.Creator listed in FishmenInfo OR, for recovery, msg.Creator == msg.Provider with the storage status bit)")
	r.Rule("G-fault: SetFault in ReportFaults <= provider match AND metadata found AND order found AND data id match AND shard listed AND shard found AND shard.Sp == fault.Provider AND shard unexpired")
	r.Rule("G-selfrec: status := Recovering <= msg.Provider == msg.Creator AND stored fault.Provider == msg.Creator; pledge written is GetPledge(fault.Provider)")
	r.Rule("T-keyparams: every store-key constructor encodes all of its parameters (the provider+shard fault index is keyed by both)")
	ruleKeyParams(r, "T-keyparams")
	r.Rule("CAP-period: Shard.CreatedAt / Shard.Duration are assigned only in Complete and in the expiry roll-over; an assigned-but-unserved shard has no period, which is what the report filter's unexpired test relies on to mean 'the accused holds it'")
	rulePeriodWriters(r, "CAP-period")
	r.Rule("T-flag-reset: in the fault handlers a boolean that decides inside a loop whether the current entry is recorded is not carried over from the previous entry (a flag set by one valid entry must not wave the later entries of the same message through)")
	ruleFlagReset(r, "T-flag-reset", "sao/keeper.msgServer.ReportFaults", "sao/keeper.msgServer.RecoverFaults")
	r.Assume(aDeps)
	r.Assume(aCG)

	allowedW := map[string]map[string]bool{
		"sao.ReportFaults":  set("node:Fault/value/", "node:Fault/faultId/"),
		"sao.RecoverFaults": set("node:Fault/value/", "node:Fault/faultId/", "node:FishingReward/value/", "node:Pledge/value/"),
	}
	for _, name := range []string{"sao.ReportFaults", "sao.RecoverFaults"} {
		rt := r.Root(name)
		if rt == nil {
			r.Undecide("CAP-fault", core.Key("CAP-fault", name), "", "unresolved anchor: root "+name)
			continue
		}
		seenW := map[string]bool{}
		nBank := 0
		for _, e := range r.Eff.Reach(rt.Fn) {
			if strings.HasPrefix(e.Kind, "bank.") {
				nBank++
				r.Violate("CAP-fault", core.Key("CAP-fault", name, e.Kind), r.P.Pos(e.Instr.Pos()), name+" can reach "+e.Kind+": filing or clearing fault reports must never move coins", "call path: "+strings.Join(r.P.CG.Path(rt.Fn, e.Fn), " -> "))
			}
			if e.IsWrite() {
				slot := eff.StoreOwner(e) + ":" + e.Prefix
				if seenW[slot] {
					continue
				}
				seenW[slot] = true
				key := core.Key("CAP-fault", name, "write "+slot)
				if allowedW[name][slot] {
					r.Discharge("CAP-fault", key, r.P.Pos(e.Instr.Pos()), "write is within the handler's table")
				} else {
					r.Violate("CAP-fault", key, r.P.Pos(e.Instr.Pos()), name+" can write "+slot+", which is outside the fault tables: fault handling must not change orders, shards, models, node records or other accounts", "call path: "+strings.Join(r.P.CG.Path(rt.Fn, e.Fn), " -> "))
				}
			}
		}
		if nBank == 0 {
			r.Discharge("CAP-fault", core.Key("CAP-fault", name, "no-bank"), r.P.FuncPos(rt.Fn), "no bank mutator reachable from "+name+" (over-approximate call graph)")
		}
		r.Count("cap_fault_written_prefixes", len(seenW))
	}
	r.Floor("cap_fault_written_prefixes", r.Counters["cap_fault_written_prefixes"], 5)

	nodeC := fGetNode + "(" + msg + ".Creator)"
	fishman := guard.True("strings.Contains(node/keeper.Keeper.FishmenInfo()," + nodeC + "#0.Creator)")
	found := guard.True(nodeC + "#1")
	evalGuard(r, "G-fish", "sao/keeper.msgServer.ReportFaults", effSel{AllWrites: true}, []clause{
		cl("reporter-is-a-registered-node", found),
		cl("reporter-is-a-fishman", fishman),
	}, 1)
	evalGuard(r, "G-fish", "sao/keeper.msgServer.RecoverFaults", effSel{AllWrites: true}, []clause{
		cl("signer-is-a-registered-node", found),
		cl("signer-is-a-fishman-or-the-accused-provider-itself", fishman, guard.Eq(msg+".Creator", msg+".Provider")),
		cl("fishman-or-serving-storage", fishman, guard.Ne("("+nodeC+"#0.Status & "+constVal(r, "node/types", "NODE_STATUS_SERVE_STORAGE")+")", "0")),
	}, 5)

	fault := "elem(" + msg + ".Faults)"
	orderF := fGetOrder + "(" + fault + ".OrderId)"
	shardF := fGetShard + "(elem(" + orderF + "#0.Shards))"
	evalGuard(r, "G-fault", "sao/keeper.msgServer.ReportFaults", effSel{Calls: []string{"node/keeper.Keeper.SetFault"}}, []clause{
		cl("report-is-about-the-named-provider", guard.Eq(msg+".Provider", fault+".Provider")),
		cl("data-model-exists", guard.True(fGetMeta+"("+fault+".DataId)#1")),
		cl("order-exists", guard.True(orderF+"#1")),
		cl("order-belongs-to-that-data-model", guard.Eq(orderF+"#0.DataId", fault+".DataId")),
		cl("shard-is-listed-by-the-order", guard.Eq("elem("+orderF+"#0.Shards)", fault+".ShardId")),
		cl("shard-exists", guard.True(shardF+"#1")),
		cl("accused-provider-holds-the-shard", guard.Eq(shardF+"#0.Sp", fault+".Provider")),
		cl("shard-unexpired", guard.Lt("uint64(sdk.Context.BlockHeight())", "("+shardF+"#0.CreatedAt + "+shardF+"#0.Duration)")),
	}, 1)

	faultOrg := "node/keeper.Keeper.GetFaultBySpAndShardId(" + fault + ".Provider," + fault + ".ShardId)"
	evalStoreConst(r, "G-selfrec", "sao/keeper.msgServer.RecoverFaults", "type:node/types.Fault.Status", constVal(r, "node/types", "FaultStatusRecovering"), []clause{
		cl("signer-is-the-named-provider", guard.Eq(msg+".Provider", msg+".Creator")),
		cl("fault-is-recorded-against-the-signer", guard.Eq(faultOrg+"#0.Provider", msg+".Creator")),
		cl("fault-exists", guard.True(faultOrg+"#1")),
	})
	evalArgAll(r, "G-selfrec", "sao/keeper.msgServer.RecoverFaults", fGetPledge, 0, []string{fault + ".Provider", "*complit.Provider"}, "pledge touched by recovery is the accused provider's")
	evalArgAll(r, "G-selfrec", "sao/keeper.msgServer.RecoverFaults", "node/keeper.Keeper.SetPledge", 0, []string{fGetPledge + "(" + fault + ".Provider)#0", fGetPledge + "(*complit.Provider)#0"}, "pledge persisted by recovery is the accused provider's")
}

// rulePeriodWriters (CAP-period): a shard's paid period (Shard.CreatedAt,
// Shard.Duration) is assigned only where a provider has just completed the shard
// or where the end-blocker rolls it into its next paid period. The fault-report
// filter (and the expiry logic) take "CreatedAt + Duration > height" as "the
// provider holds this shard now"; a shard that is only assigned (waiting /
// migrating) must therefore carry no period.
func rulePeriodWriters(r *core.Run, id string) {
	// which functions assign the period fields
	writers := map[*ssa.Function]string{}
	for _, f := range r.P.SortedFuncs(r.ConsensusFuncs()) {
		if r.P.IsGenerated(f) {
			continue
		}
		for _, b := range f.Blocks {
			for _, ins := range b.Instrs {
				st, ok := ins.(*ssa.Store)
				if !ok {
					continue
				}
				fa, ok := st.Addr.(*ssa.FieldAddr)
				if !ok || shortTypeName(fa.X.Type()) != "order/types.Shard" {
					continue
				}
				fld := fieldNameT(fa.X.Type(), fa.Field)
				if fld == "CreatedAt" || fld == "Duration" {
					if _, seen := writers[f]; !seen {
						writers[f] = r.P.Pos(st.Pos())
					}
				}
			}
		}
	}
	// which entry points can reach them: only completion and the expiry roll-over (and store migrations)
	allowed := func(root string) bool {
		return root == "sao.Complete" || root == "sao.EndBlock" || root == "pseudo:HandleExpiredShard" || strings.Contains(root, "migration") || strings.Contains(root, "upgrade")
	}
	n := 0
	for _, rt := range capRoots(r) {
		reach := r.P.CG.Reach(rt.Fn)
		var hit []*ssa.Function
		for w := range writers {
			if reach[w] {
				hit = append(hit, w)
			}
		}
		key := core.Key(id, rt.Name)
		switch {
		case len(hit) == 0:
			r.Discharge(id, key, r.P.FuncPos(rt.Fn), "no assignment of Shard.CreatedAt/Duration reachable")
		case allowed(rt.Name):
			n++
			r.Discharge(id, key, r.P.FuncPos(rt.Fn), "completion / roll-over entry point")
		default:
			n++
			w := r.P.SortedFuncs(map[*ssa.Function]bool{hit[0]: true})[0]
			r.Violate(id, key, writers[w], fmt.Sprintf("entry point %s can reach %s, which assigns a shard's paid period (Shard.CreatedAt / Duration): a shard that is merely assigned to a provider (waiting / migrating) gets a period, so every test of the form CreatedAt + Duration > height (fault-report validity, expiry) treats it as held by that provider although the provider never stored it", rt.Name, r.P.Name(w)), "call path: "+strings.Join(r.P.CG.Path(rt.Fn, w), " -> "))
		}
	}
	r.Floor("period_writer_functions", len(writers), 2)
	r.Count("period_writer_roots", n)
}

// ruleKeyParams (T-keyparams): every store-key constructor of the module
// (x/*/types: func …Key(args) []byte) uses each of its parameters. A key that
// silently ignores a component (the provider in the provider+shard fault index)
// makes records of different owners share an entry: a lookup "for provider P"
// then reads — and the self-healing branches of the lookups delete — another
// provider's record.
func ruleKeyParams(r *core.Run, id string) {
	n := 0
	var fs []*ssa.Function
	for _, f := range r.P.Funcs {
		if f.Pkg == nil || !strings.HasSuffix(f.Pkg.Pkg.Path(), "/types") || r.P.IsGenerated(f) {
			continue
		}
		if !strings.HasSuffix(f.Name(), "Key") || f.Signature.Recv() != nil || f.Signature.Results().Len() != 1 {
			continue
		}
		if f.Signature.Results().At(0).Type().String() != "[]byte" {
			continue
		}
		fs = append(fs, f)
	}
	sort.Slice(fs, func(i, j int) bool { return r.P.Name(fs[i]) < r.P.Name(fs[j]) })
	for _, f := range fs {
		for _, p := range f.Params {
			n++
			key := core.Key(id, r.KeyName(f), p.Name())
			used := false
			if refs := p.Referrers(); refs != nil {
				for _, ref := range *refs {
					if _, dbg := ref.(*ssa.DebugRef); !dbg {
						used = true
					}
				}
			}
			if used {
				r.Discharge(id, key, r.P.FuncPos(f), "key component is encoded into the key")
			} else {
				r.Violate(id, key, r.P.FuncPos(f), fmt.Sprintf("store-key constructor %s ignores its parameter %s: records that differ only in %s share one entry, so code that looks a record up \"for\" one %s reads (and, in the self-healing lookups, deletes) the record of another", r.P.Name(f), p.Name(), p.Name(), p.Name()))
			}
		}
	}
	r.Floor("key_constructor_params", n, 20)
}
