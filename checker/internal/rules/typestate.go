package rules

import (
	"fmt"
	"go/token"
	"strings"

	"golang.org/x/tools/go/ssa"

	"saoverif/internal/cfgx"
	"saoverif/internal/core"
	"saoverif/internal/guard"
)

// ---------------------------------------------------------------- a small interprocedural typestate walk
//
// Ordering rules of the form "X happens before Y on every path" / "after Y, Z happens before W" are decided by
// walking the control-flow graph of the anchor function with a small state. Calls of helpers outside the rule
// vocabulary are walked in place (their parameters expressed in the caller's vocabulary), so it does not matter in
// which function the events sit. Everything is explored: all paths, all (block, state) pairs.

type tsRule struct {
	r *core.Run
	// events names the events an instruction stands for; T renders a value in the anchor's vocabulary
	events func(fn *ssa.Function, ins ssa.Instruction, T func(ssa.Value) string) []string
	// edges names events that happen when a branch edge is taken (may be nil)
	edges func(ck *guard.Checker) map[cfgx.Edge]string
	// step: the transition; a non-empty message is a violation
	step func(state uint8, ev string) (uint8, string)
	// descend: walk into this helper call? (nil: every transparent helper)
	descend func(h *ssa.Function, call ssa.CallInstruction) bool
}

type tsResult struct {
	outs   map[uint8]bool
	// outKinds: for each out state of a helper, whether it leaves through a return whose error result is nil (1),
	// non-nil (2) or either (3); 3 for helpers without an error result
	outKinds map[uint8]uint8
	bad    string
	badAt  ssa.Instruction
	counts map[string]int
}

func (t *tsRule) run(anchor *ssa.Function, init uint8) *tsResult {
	total := &tsResult{outs: map[uint8]bool{}, outKinds: map[uint8]uint8{}, counts: map[string]int{}}
	type key struct {
		fn    *ssa.Function
		subst string
		st    uint8
	}
	memo := map[key]*tsResult{}
	var walk func(f *ssa.Function, subst []string, st uint8, depth int) *tsResult
	walk = func(f *ssa.Function, subst []string, st uint8, depth int) *tsResult {
		k := key{f, strings.Join(subst, "\x00"), st}
		if s, ok := memo[k]; ok {
			return s
		}
		sum := &tsResult{outs: map[uint8]bool{}, outKinds: map[uint8]uint8{}}
		memo[k] = sum
		res := t.r.Resolver(f)
		T := func(v ssa.Value) string {
			s := res.Of(v).String()
			if len(subst) > 0 {
				s = guard.SubstParams(s, subst)
			}
			return s
		}
		var edgeEv map[cfgx.Edge]string
		if t.edges != nil {
			edgeEv = t.edges(&guard.Checker{P: t.r.P, Fn: f, Res: res, Subst: subst})
		}
		// a walk state: the rule's state plus, right after a helper call, what is known about how the helper returned
		// (so that the caller's `if err != nil` is followed only on the matching side)
		type wst struct {
			st   uint8
			call ssa.Value // the helper call whose outcome is still pending a test (nil: none)
			kind uint8     // 1 returned nil error, 2 returned an error
		}
		type ps struct {
			b *ssa.BasicBlock
			w wst
		}
		seen := map[ps]bool{{f.Blocks[0], wst{st: st}}: true}
		q := []ps{{f.Blocks[0], wst{st: st}}}
		apply := func(states []wst, ev string, at ssa.Instruction) []wst {
			total.counts[ev]++
			var out []wst
			has := map[wst]bool{}
			for _, s := range states {
				ns, msg := t.step(s.st, ev)
				if msg != "" && sum.bad == "" {
					sum.bad, sum.badAt = msg, at
				}
				n := wst{ns, s.call, s.kind}
				if !has[n] {
					has[n] = true
					out = append(out, n)
				}
			}
			return out
		}
		errKind := func(fn *ssa.Function, b *ssa.BasicBlock) uint8 {
			ret := b.Instrs[len(b.Instrs)-1].(*ssa.Return)
			if len(ret.Results) == 0 {
				return 3
			}
			last := ret.Results[len(ret.Results)-1]
			if !isErrorType(last.Type()) {
				return 3
			}
			if c, ok := last.(*ssa.Const); ok && c.Value == nil {
				return 1
			}
			if errNonNilAt(t.r, fn, b, last, 0) {
				return 2
			}
			return 3
		}
		for len(q) > 0 && sum.bad == "" {
			cur := q[0]
			q = q[1:]
			states := []wst{cur.w}
			for _, ins := range cur.b.Instrs {
				for _, ev := range t.events(f, ins, T) {
					states = apply(states, ev, ins)
				}
				call, ok := ins.(ssa.CallInstruction)
				if !ok || call.Common().IsInvoke() || depth >= 3 {
					continue
				}
				h := call.Common().StaticCallee()
				if h == nil || h == f || !t.r.P.Transparent(h) || len(h.Blocks) == 0 {
					continue
				}
				if t.descend != nil && !t.descend(h, call) {
					continue
				}
				hs := make([]string, len(h.Params))
				for i, a := range call.Common().Args {
					if i < len(hs) {
						hs[i] = normT(T(a))
					}
				}
				var next []wst
				has := map[wst]bool{}
				cv, _ := ins.(ssa.Value)
				for _, s := range states {
					hr := walk(h, hs, s.st, depth+1)
					if hr.bad != "" && sum.bad == "" {
						sum.bad, sum.badAt = hr.bad, hr.badAt
					}
					for o := range hr.outs {
						kinds := hr.outKinds[o]
						for _, kd := range []uint8{1, 2} {
							if kinds&kd == 0 {
								continue
							}
							n := wst{o, cv, kd}
							if kinds == 3 && hr.outKinds[o] == 3 && !hasErrorResult(h) {
								n = wst{st: o}
							}
							if !has[n] {
								has[n] = true
								next = append(next, n)
							}
						}
					}
				}
				if len(next) > 0 {
					states = next
				}
			}
			if _, isRet := cur.b.Instrs[len(cur.b.Instrs)-1].(*ssa.Return); isRet {
				ek := errKind(f, cur.b)
				for _, s := range states {
					sum.outs[s.st] = true
					sum.outKinds[s.st] |= ek
				}
			}
			// a branch on the pending helper's error result: follow only the matching side
			var errCall ssa.Value
			nonNilSucc := -1
			if iff := cfgx.IfOf(cur.b); iff != nil && len(cur.b.Succs) == 2 {
				errCall, nonNilSucc = errTestOf(iff.Cond)
			}
			for si, nx := range cur.b.Succs {
				for _, s := range states {
					if errCall != nil && s.call == errCall {
						if (si == nonNilSucc) != (s.kind == 2) {
							continue
						}
					}
					ns := s
					if ev, ok := edgeEv[cfgx.Edge{From: cur.b, To: nx}]; ok {
						total.counts[ev]++
						var msg string
						ns.st, msg = t.step(s.st, ev)
						if msg != "" && sum.bad == "" {
							sum.bad, sum.badAt = msg, cur.b.Instrs[len(cur.b.Instrs)-1]
						}
					}
					if errCall != nil && s.call == errCall {
						ns.call, ns.kind = nil, 0 // consumed
					}
					p := ps{nx, ns}
					if !seen[p] {
						seen[p] = true
						q = append(q, p)
					}
				}
			}
		}
		return sum
	}
	top := walk(anchor, nil, init, 0)
	total.outs, total.bad, total.badAt = top.outs, top.bad, top.badAt
	return total
}

func hasErrorResult(h *ssa.Function) bool {
	rs := h.Signature.Results()
	return rs.Len() > 0 && isErrorType(rs.At(rs.Len()-1).Type())
}

// errTestOf: the condition tests the error result of a call against nil: returns that call (as a value) and the
// index of the successor taken when the error is non-nil.
func errTestOf(cond ssa.Value) (ssa.Value, int) {
	neg := false
	for {
		if u, ok := cond.(*ssa.UnOp); ok && u.Op == token.NOT {
			cond = u.X
			neg = !neg
			continue
		}
		break
	}
	bo, ok := cond.(*ssa.BinOp)
	if !ok || (bo.Op != token.EQL && bo.Op != token.NEQ) {
		return nil, -1
	}
	x, y := bo.X, bo.Y
	if c, isC := x.(*ssa.Const); isC && c.Value == nil {
		x, y = y, x
	}
	if c, isC := y.(*ssa.Const); !isC || c.Value != nil {
		return nil, -1
	}
	if !isErrorType(x.Type()) {
		return nil, -1
	}
	var call ssa.Value
	switch v := x.(type) {
	case *ssa.Call:
		call = v
	case *ssa.Extract:
		call = v.Tuple
	}
	if call == nil {
		return nil, -1
	}
	nonNilOnTrue := bo.Op == token.NEQ
	if neg {
		nonNilOnTrue = !nonNilOnTrue
	}
	if nonNilOnTrue {
		return call, 0
	}
	return call, 1
}

var _ = fmt.Sprintf
var _ = core.Key
