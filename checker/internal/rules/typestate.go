package rules

import (
	"fmt"
	"go/constant"
	"os"
	"go/token"
	"strings"

	"golang.org/x/tools/go/ssa"

	"saoverif/internal/cfgx"
	"saoverif/internal/core"
	"saoverif/internal/guard"
	"saoverif/internal/term"
)

// ---------------------------------------------------------------- a small interprocedural typestate walk
//
// Ordering rules of the form "X happens before Y on every path" / "after Y, Z happens before W" are decided by
// walking the control-flow graph of the anchor function with a small state. Calls of helpers outside the rule
// vocabulary are walked in place (their parameters expressed in the caller's vocabulary), so it does not matter in
// which function the events sit. Everything is explored: all paths, all (block, state) pairs.

type tsRule struct {
	r *core.Run
	// events names the events an instruction stands for; T renders a value in the anchor's vocabulary
	events func(fn *ssa.Function, ins ssa.Instruction, T func(ssa.Value) string) []string
	// edges names events that happen when a branch edge is taken (may be nil)
	edges func(ck *guard.Checker) map[cfgx.Edge]string
	// condEv names the event that happens when the boolean v is known to be `truth` (may be nil): used where a branch
	// tests a materialised `A && B` and the walk knows through which operand it arrived
	condEv func(ck *guard.Checker, v ssa.Value, truth bool) string
	// step: the transition; a non-empty message is a violation
	step func(state uint8, ev string) (uint8, string)
	// descend: walk into this helper call? (nil: every transparent helper)
	descend func(h *ssa.Function, call ssa.CallInstruction) bool
}

type tsResult struct {
	outs   map[uint8]bool
	// outKinds: for each out state of a helper, how it can leave: "nil" / "err" (its error result), "c:<k>" (its
	// single result is that constant: a boolean or an enum-like classification), "?" (anything else)
	outKinds map[uint8]map[string]bool
	bad    string
	badAt  ssa.Instruction
	counts map[string]int
}

func (t *tsRule) run(anchor *ssa.Function, init uint8) *tsResult {
	total := &tsResult{outs: map[uint8]bool{}, outKinds: map[uint8]map[string]bool{}, counts: map[string]int{}}
	type key struct {
		fn    *ssa.Function
		subst string
		st    uint8
	}
	memo := map[key]*tsResult{}
	var walk func(f *ssa.Function, subst []string, st uint8, depth int, parent *guard.Checker, args []ssa.Value) *tsResult
	walk = func(f *ssa.Function, subst []string, st uint8, depth int, parent *guard.Checker, args []ssa.Value) *tsResult {
		k := key{f, strings.Join(subst, "\x00"), st}
		if s, ok := memo[k]; ok {
			return s
		}
		sum := &tsResult{outs: map[uint8]bool{}, outKinds: map[uint8]map[string]bool{}}
		memo[k] = sum
		res := t.r.Resolver(f)
		T := func(v ssa.Value) string {
			s := res.Of(v).String()
			if len(subst) > 0 {
				s = guard.SubstParams(s, subst)
			}
			return s
		}
		var edgeEv map[cfgx.Edge]string
		ck := &guard.Checker{P: t.r.P, Fn: f, Res: res, Subst: subst, Parent: parent, ArgVals: args}
		if t.edges != nil {
			edgeEv = t.edges(ck)
			if os.Getenv("SAODEBUG") == "ts" {
				for e, ev := range edgeEv {
					fmt.Fprintf(os.Stderr, "ts edge %s b%d->b%d %s (st %d)\n", t.r.P.Name(f), e.From.Index, e.To.Index, ev, st)
				}
			}
		}
		// a walk state: the rule's state plus, right after a helper call, what is known about how the helper returned
		// (so that the caller's `if err != nil` is followed only on the matching side)
		type wst struct {
			st   uint8
			call ssa.Value // the helper call whose outcome is still pending a test (nil: none)
			kind string    // how it returned: "nil", "err", "c:<k>"
			via  int       // a block that branches on a φ of its own: the predecessor it was entered from, plus one
			val  string    // what is known of the conditions this function branches on more than once ('?', '0', '1' each)
		}
		type ps struct {
			b *ssa.BasicBlock
			w wst
		}
		// conditions tested by more than one branch of f: a path may not take them both ways
		repeated := map[ssa.Value]int{}
		definedIn := map[*ssa.BasicBlock][]int{}
		{
			uses := map[ssa.Value]int{}
			var order []ssa.Value
			for _, b := range f.Blocks {
				if iff := cfgx.IfOf(b); iff != nil && len(b.Succs) == 2 {
					cv, _ := stripNotV(iff.Cond)
					if uses[cv] == 0 {
						order = append(order, cv)
					}
					uses[cv]++
				}
			}
			for _, cv := range order {
				if uses[cv] < 2 || len(repeated) >= 16 {
					continue
				}
				if _, isConst := cv.(*ssa.Const); isConst {
					continue
				}
				repeated[cv] = len(repeated)
				if ins, ok := cv.(ssa.Instruction); ok && ins.Block() != nil {
					definedIn[ins.Block()] = append(definedIn[ins.Block()], repeated[cv])
				}
			}
		}
		val0 := strings.Repeat("?", len(repeated))
		seen := map[ps]bool{{f.Blocks[0], wst{st: st, val: val0}}: true}
		q := []ps{{f.Blocks[0], wst{st: st, val: val0}}}
		apply := func(states []wst, ev string, at ssa.Instruction) []wst {
			total.counts[ev]++
			var out []wst
			has := map[wst]bool{}
			for _, s := range states {
				ns, msg := t.step(s.st, ev)
				if msg != "" && sum.bad == "" {
					sum.bad, sum.badAt = msg, at
				}
				n := s
				n.st = ns
				if !has[n] {
					has[n] = true
					out = append(out, n)
				}
			}
			return out
		}
		errKind := func(fn *ssa.Function, b *ssa.BasicBlock) string {
			ret := b.Instrs[len(b.Instrs)-1].(*ssa.Return)
			if len(ret.Results) == 0 {
				return "?"
			}
			last := ret.Results[len(ret.Results)-1]
			if !isErrorType(last.Type()) {
				if c, ok := last.(*ssa.Const); ok && c.Value != nil && len(ret.Results) == 1 {
					return "c:" + c.Value.ExactString()
				}
				return "?"
			}
			if c, ok := last.(*ssa.Const); ok && c.Value == nil {
				return "nil"
			}
			if errNonNilAt(t.r, fn, b, last, 0) {
				return "err"
			}
			return "?"
		}
		for len(q) > 0 && sum.bad == "" {
			cur := q[0]
			q = q[1:]
			if idxs := definedIn[cur.b]; len(idxs) > 0 {
				// recomputed in this block (a loop came round): nothing is known of the new value
				bs := []byte(cur.w.val)
				for _, i := range idxs {
					bs[i] = '?'
				}
				cur.w.val = string(bs)
			}
			states := []wst{cur.w}
			if os.Getenv("SAODEBUG") == "ts" {
				fmt.Fprintf(os.Stderr, "ts visit %s b%d st=%d kind=%s val=%s\n", t.r.P.Name(f), cur.b.Index, cur.w.st, cur.w.kind, cur.w.val)
			}
			for _, ins := range cur.b.Instrs {
				for _, ev := range t.events(f, ins, T) {
					states = apply(states, ev, ins)
				}
				call, ok := ins.(ssa.CallInstruction)
				if !ok || call.Common().IsInvoke() || depth >= 3 {
					continue
				}
				h := call.Common().StaticCallee()
				if h == nil || h == f || !t.r.P.Transparent(h) || len(h.Blocks) == 0 {
					continue
				}
				if t.descend != nil && !t.descend(h, call) {
					continue
				}
				hs := make([]string, len(h.Params))
				for i, a := range call.Common().Args {
					if i < len(hs) {
						hs[i] = normT(T(a))
					}
				}
				var next []wst
				has := map[wst]bool{}
				cv, _ := ins.(ssa.Value)
				for _, s := range states {
					hr := walk(h, hs, s.st, depth+1, ck, call.Common().Args)
					if hr.bad != "" && sum.bad == "" {
						sum.bad, sum.badAt = hr.bad, hr.badAt
					}
					for o := range hr.outs {
						for kd := range hr.outKinds[o] {
							n := wst{st: o, call: cv, kind: kd, val: s.val}
							if kd == "?" || cv == nil {
								n = wst{st: o, val: s.val}
							}
							if !has[n] {
								has[n] = true
								next = append(next, n)
							}
						}
					}
				}
				if len(next) > 0 {
					states = next
				}
			}
			if _, isRet := cur.b.Instrs[len(cur.b.Instrs)-1].(*ssa.Return); isRet {
				ek := errKind(f, cur.b)
				for _, s := range states {
					sum.outs[s.st] = true
					if sum.outKinds[s.st] == nil {
						sum.outKinds[s.st] = map[string]bool{}
					}
					sum.outKinds[s.st][ek] = true
				}
			}
			// a branch on the pending helper's outcome (its error result against nil, its boolean result, its result
			// against a constant): follow only the matching side
			var cond ssa.Value
			if iff := cfgx.IfOf(cur.b); iff != nil && len(cur.b.Succs) == 2 {
				cond = iff.Cond
			}
			// a branch on a boolean φ of this very block (a materialised `A && B`): on this path the φ is the operand
			// that flowed in from the predecessor the block was entered from
			var phiIn ssa.Value
			phiPol := true
			if cond != nil && cur.w.via > 0 {
				cv, pol := stripNotV(cond)
				if phi, ok := cv.(*ssa.Phi); ok && phi.Block() == cur.b && cur.w.via-1 < len(phi.Edges) {
					phiIn, phiPol = phi.Edges[cur.w.via-1], pol
				}
			}
			for si, nx := range cur.b.Succs {
				for _, s := range states {
					s.via = 0
					if pv, ok := stripNotPhi(nx); ok {
						for pi, pb := range nx.Preds {
							if pb == cur.b {
								s.via = pi + 1
							}
						}
						_ = pv
					}
					follow, consumed := true, false
					phiEv := ""
					if phiIn != nil {
						truth := (si == 0) == phiPol
						if k, isC := phiIn.(*ssa.Const); isC && k.Value != nil && k.Value.Kind() == constant.Bool {
							if constant.BoolVal(k.Value) != truth {
								continue
							}
						} else if t.condEv != nil {
							phiEv = t.condEv(ck, phiIn, truth)
						}
					}
					if cond != nil && s.call != nil {
						follow, consumed = outcomeBranch(cond, s.call, s.kind, si)
					}
					if !follow {
						continue
					}
					ns := s
					if cond != nil {
						cv, pol := stripNotV(cond)
						if i, ok := repeated[cv]; ok {
							want := byte('0')
							if (si == 0) == pol {
								want = '1'
							}
							if s.val[i] != '?' && s.val[i] != want {
								continue
							}
							bs := []byte(s.val)
							bs[i] = want
							ns.val = string(bs)
						}
					}
					ev, ok := edgeEv[cfgx.Edge{From: cur.b, To: nx}]
					if !ok && phiEv != "" {
						ev, ok = phiEv, true
					}
					if ok {
						total.counts[ev]++
						var msg string
						ns.st, msg = t.step(s.st, ev)
						if msg != "" && sum.bad == "" {
							sum.bad, sum.badAt = msg, cur.b.Instrs[len(cur.b.Instrs)-1]
						}
					}
					if consumed {
						ns.call, ns.kind = nil, ""
					}
					p := ps{nx, ns}
					if !seen[p] {
						seen[p] = true
						q = append(q, p)
					}
				}
			}
		}
		return sum
	}
	top := walk(anchor, nil, init, 0, nil, nil)
	total.outs, total.bad, total.badAt = top.outs, top.bad, top.badAt
	return total
}

func hasErrorResult(h *ssa.Function) bool {
	rs := h.Signature.Results()
	return rs.Len() > 0 && isErrorType(rs.At(rs.Len()-1).Type())
}

// stripNotPhi: the block branches on a boolean φ defined in the block itself.
func stripNotPhi(b *ssa.BasicBlock) (*ssa.Phi, bool) {
	iff := cfgx.IfOf(b)
	if iff == nil || len(b.Succs) != 2 {
		return nil, false
	}
	cv, _ := stripNotV(iff.Cond)
	phi, ok := cv.(*ssa.Phi)
	if !ok || phi.Block() != b {
		return nil, false
	}
	return phi, true
}

func stripNotV(v ssa.Value) (ssa.Value, bool) {
	pol := true
	for {
		if u, ok := v.(*ssa.UnOp); ok && u.Op == token.NOT {
			v, pol = u.X, !pol
			continue
		}
		return v, pol
	}
}

// outcomeBranch: cond tests the outcome of the pending helper call; is successor si compatible with the way the
// helper is known to have returned, and is the knowledge used up by the test?
func outcomeBranch(cond ssa.Value, call ssa.Value, kind string, si int) (follow, consumed bool) {
	if ec, nonNilSucc := errTestOf(cond); ec != nil && ec == call && (kind == "nil" || kind == "err") {
		return (si == nonNilSucc) == (kind == "err"), true
	}
	if !strings.HasPrefix(kind, "c:") {
		return true, false
	}
	neg := false
	for {
		if u, ok := cond.(*ssa.UnOp); ok && u.Op == token.NOT {
			cond, neg = u.X, !neg
			continue
		}
		break
	}
	cond = term.StoredValue(cond)
	if cond == call {
		// the boolean result itself
		isTrue := kind == "c:true"
		return (si == 0) == (isTrue != neg), true
	}
	bo, ok := cond.(*ssa.BinOp)
	if !ok || (bo.Op != token.EQL && bo.Op != token.NEQ) {
		return true, false
	}
	x, y := bo.X, bo.Y
	if _, isC := x.(*ssa.Const); isC {
		x, y = y, x
	}
	k, isC := y.(*ssa.Const)
	if !isC || k.Value == nil || term.StoredValue(x) != call {
		return true, false
	}
	eq := kind == "c:"+k.Value.ExactString()
	holds := eq == (bo.Op == token.EQL)
	if neg {
		holds = !holds
	}
	return (si == 0) == holds, eq
}

// errTestOf: the condition tests the error result of a call against nil: returns that call (as a value) and the
// index of the successor taken when the error is non-nil.
func errTestOf(cond ssa.Value) (ssa.Value, int) {
	neg := false
	for {
		if u, ok := cond.(*ssa.UnOp); ok && u.Op == token.NOT {
			cond = u.X
			neg = !neg
			continue
		}
		break
	}
	bo, ok := cond.(*ssa.BinOp)
	if !ok || (bo.Op != token.EQL && bo.Op != token.NEQ) {
		return nil, -1
	}
	x, y := bo.X, bo.Y
	if c, isC := x.(*ssa.Const); isC && c.Value == nil {
		x, y = y, x
	}
	if c, isC := y.(*ssa.Const); !isC || c.Value != nil {
		return nil, -1
	}
	if !isErrorType(x.Type()) {
		return nil, -1
	}
	x = term.StoredValue(x)
	var call ssa.Value
	switch v := x.(type) {
	case *ssa.Call:
		call = v
	case *ssa.Extract:
		call = v.Tuple
	}
	if call == nil {
		return nil, -1
	}
	nonNilOnTrue := bo.Op == token.NEQ
	if neg {
		nonNilOnTrue = !nonNilOnTrue
	}
	if nonNilOnTrue {
		return call, 0
	}
	return call, 1
}

var _ = fmt.Sprintf
var _ = core.Key
