package rules

import (
	"fmt"
	"sort"
	"strings"

	"golang.org/x/tools/go/ssa"

	"saoverif/internal/cfgx"
	"saoverif/internal/core"
	"saoverif/internal/guard"
)

// ---------------------------------------------------------------- a small interprocedural typestate walk
//
// Ordering rules of the form "X happens before Y on every path" / "after Y, Z happens before W" are decided by
// walking the control-flow graph of the anchor function with a small state. Calls of helpers outside the rule
// vocabulary are walked in place (their parameters expressed in the caller's vocabulary), so it does not matter in
// which function the events sit. Everything is explored: all paths, all (block, state) pairs.

type tsRule struct {
	r *core.Run
	// events names the events an instruction stands for; T renders a value in the anchor's vocabulary
	events func(fn *ssa.Function, ins ssa.Instruction, T func(ssa.Value) string) []string
	// edges names events that happen when a branch edge is taken (may be nil)
	edges func(ck *guard.Checker) map[cfgx.Edge]string
	// step: the transition; a non-empty message is a violation
	step func(state uint8, ev string) (uint8, string)
	// descend: walk into this helper call? (nil: every transparent helper)
	descend func(h *ssa.Function, call ssa.CallInstruction) bool
}

type tsResult struct {
	outs   map[uint8]bool
	bad    string
	badAt  ssa.Instruction
	counts map[string]int
}

func (t *tsRule) run(anchor *ssa.Function, init uint8) *tsResult {
	total := &tsResult{outs: map[uint8]bool{}, counts: map[string]int{}}
	type key struct {
		fn    *ssa.Function
		subst string
		st    uint8
	}
	memo := map[key]*tsResult{}
	var walk func(f *ssa.Function, subst []string, st uint8, depth int) *tsResult
	walk = func(f *ssa.Function, subst []string, st uint8, depth int) *tsResult {
		k := key{f, strings.Join(subst, "\x00"), st}
		if s, ok := memo[k]; ok {
			return s
		}
		sum := &tsResult{outs: map[uint8]bool{}}
		memo[k] = sum
		res := t.r.Resolver(f)
		T := func(v ssa.Value) string {
			s := res.Of(v).String()
			if len(subst) > 0 {
				s = guard.SubstParams(s, subst)
			}
			return s
		}
		var edgeEv map[cfgx.Edge]string
		if t.edges != nil {
			edgeEv = t.edges(&guard.Checker{P: t.r.P, Fn: f, Res: res, Subst: subst})
		}
		type ps struct {
			b  *ssa.BasicBlock
			st uint8
		}
		seen := map[ps]bool{{f.Blocks[0], st}: true}
		q := []ps{{f.Blocks[0], st}}
		apply := func(states []uint8, ev string, at ssa.Instruction) []uint8 {
			total.counts[ev]++
			out := states[:0:0]
			has := map[uint8]bool{}
			for _, s := range states {
				ns, msg := t.step(s, ev)
				if msg != "" && sum.bad == "" {
					sum.bad, sum.badAt = msg, at
				}
				if !has[ns] {
					has[ns] = true
					out = append(out, ns)
				}
			}
			return out
		}
		for len(q) > 0 && sum.bad == "" {
			cur := q[0]
			q = q[1:]
			states := []uint8{cur.st}
			for _, ins := range cur.b.Instrs {
				for _, ev := range t.events(f, ins, T) {
					states = apply(states, ev, ins)
				}
				call, ok := ins.(ssa.CallInstruction)
				if !ok || call.Common().IsInvoke() || depth >= 3 {
					continue
				}
				h := call.Common().StaticCallee()
				if h == nil || h == f || !t.r.P.Transparent(h) || len(h.Blocks) == 0 {
					continue
				}
				if t.descend != nil && !t.descend(h, call) {
					continue
				}
				hs := make([]string, len(h.Params))
				for i, a := range call.Common().Args {
					if i < len(hs) {
						hs[i] = normT(T(a))
					}
				}
				var next []uint8
				has := map[uint8]bool{}
				for _, s := range states {
					hr := walk(h, hs, s, depth+1)
					if hr.bad != "" && sum.bad == "" {
						sum.bad, sum.badAt = hr.bad, hr.badAt
					}
					for o := range hr.outs {
						if !has[o] {
							has[o] = true
							next = append(next, o)
						}
					}
				}
				if len(next) > 0 {
					sort.Slice(next, func(i, j int) bool { return next[i] < next[j] })
					states = next
				}
			}
			if _, isRet := cur.b.Instrs[len(cur.b.Instrs)-1].(*ssa.Return); isRet {
				for _, s := range states {
					sum.outs[s] = true
				}
			}
			for _, nx := range cur.b.Succs {
				for _, s := range states {
					ns := s
					if ev, ok := edgeEv[cfgx.Edge{From: cur.b, To: nx}]; ok {
						total.counts[ev]++
						var msg string
						ns, msg = t.step(s, ev)
						if msg != "" && sum.bad == "" {
							sum.bad, sum.badAt = msg, cur.b.Instrs[len(cur.b.Instrs)-1]
						}
					}
					p := ps{nx, ns}
					if !seen[p] {
						seen[p] = true
						q = append(q, p)
					}
				}
			}
		}
		return sum
	}
	top := walk(anchor, nil, init, 0)
	total.outs, total.bad, total.badAt = top.outs, top.bad, top.badAt
	return total
}

var _ = fmt.Sprintf
var _ = core.Key
