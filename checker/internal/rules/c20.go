package rules

import (
	"fmt"
	"strings"

	"golang.org/x/tools/go/ssa"

	"saoverif/internal/cfgx"
	"saoverif/internal/core"
	"saoverif/internal/guard"
)

func init() { register("C20", checkC20) }

func checkC20(r *core.Run) {
	D3Mods = r.Mods
	r.Explanation = "C20 (structural clauses only): promotion — every store of the super role into a node record is dominated, along the whole call chain up to its entry point, by the status-requirement mask, the capacity threshold and a successful delegation-share check; re-evaluation — each share-affecting staking hook reaches the re-evaluation routine on every path, inside it every failing requirement is followed by demotion when the role is super, a capacity withdrawal re-tests the threshold after the decrement and demotes, a status reset clears the role before re-evaluating; committed state only — no process-resident state is written (shared with C01/C03). Decides these structural clauses, not agreement of the flag with the predicate over staking histories."
	r.Rule("G-promote: stores of NODE_SUPER to Node.Role <= (Status & SUPER_REQUIREMENT) == SUPER_REQUIREMENT AND TotalStorage >= VstorageThreshold AND CheckDelegationShare == nil, conjoined along the call chain")
	r.Rule("G-demote: in verifySuperStorageNodes each failing requirement (status mask, pledge missing/below threshold, share check error, delegation being removed) is followed within the iteration by SetNormalNode unless Role != super")
	r.Rule("hook exhaustiveness: AfterDelegationModified, BeforeDelegationRemoved, AfterValidatorRemoved, AfterValidatorBonded, AfterValidatorBeginUnbonding call verifySuperStorageNodes on every path")
	r.Rule("RemoveVstorage: after the decrement the threshold is re-tested on every success path and a super node below it is demoted and persisted; Reset: Role := normal before re-evaluation")
	r.Rule("no-stale-check: after CheckNodeShare(&node,..) no store to node.Validator/Status before the record is persisted")
	r.Rule("D3: no process-resident state (shared with C01/C03)")
	r.Rule("G-rescan: verifySuperStorageNodes has no exit before its loop over all delegations of the validator")
	ruleScanTotal(r)
	r.Rule("T-shares-sub: the shares verifySuperStorageNodes hands to CheckDelegationShare for subtraction are non-zero only under sharesBeforeModified > current shares, or when the delegation is being removed")
	ruleSharesToSub(r, "T-shares-sub", "node/keeper.Hooks.verifySuperStorageNodes")
	r.Rule("G-share-ratio: CheckDelegationShare succeeds only if (delegation.Shares / (validator.DelegatorShares - sharesToSub)) >= ShareThreshold: numerator and denominator are both in SHARES of that validator (sharesToSub, the pending reduction passed by the unbond hooks, is an amount of shares)")
	r.Assume(aDeps)
	r.Assume(aCG)
	{
		cds := "node/keeper.Keeper.CheckDelegationShare"
		del := "node/types.StakingKeeper.GetDelegation(*)#0.Shares"
		val := "node/types.StakingKeeper.GetValidator(*)#0.DelegatorShares"
		ratio := "sdk.Dec.Quo(" + del + ",sdk.Dec.Sub(" + val + ",#4))"
		if fn := r.Func("G-share-ratio", cds); fn != nil {
			ck := &guard.Checker{P: r.P, Fn: fn, Res: r.Resolver(fn)}
			n := 0
			for _, b := range fn.Blocks {
				ret, ok := b.Instrs[len(b.Instrs)-1].(*ssa.Return)
				if !ok || len(ret.Results) != 1 {
					continue
				}
				if c, isC := ret.Results[0].(*ssa.Const); !isC || c.Value != nil {
					continue
				}
				n++
				key := core.Key("G-share-ratio", cds, fmt.Sprintf("success return#%d", n))
				ok2, w := ck.MustPass(b, []guard.Atom{guard.False("sdk.Dec.LT(" + ratio + ",node/keeper.Keeper.ShareThreshold())"), guard.True("sdk.Dec.GTE(" + ratio + ",node/keeper.Keeper.ShareThreshold())")})
				if ok2 {
					// units: the denominator must not mix in token amounts
					bad := ""
					res := r.Resolver(fn)
					for _, bb := range fn.Blocks {
						for _, ins := range bb.Instrs {
							if c, ok := ins.(*ssa.Call); ok {
								if name, _ := res.CalleeName(&c.Call); name == "sdk.Dec.Quo" {
									t := normT(res.Of(c).String())
									if strings.Contains(t, ".Tokens") || strings.Contains(t, "TokensFromShares") {
										bad = t
									}
								}
							}
						}
					}
					if bad == "" {
						r.Discharge("G-share-ratio", key, r.P.Pos(ret.Pos()), "success only after delegation.Shares / (validator.DelegatorShares - sharesToSub) >= ShareThreshold")
					} else {
						r.Violate("G-share-ratio", key, r.P.Pos(ret.Pos()), "the share ratio mixes token amounts with share amounts: "+shorten(bad))
					}
				} else {
					r.Violate("G-share-ratio", key, r.P.Pos(ret.Pos()), "CheckDelegationShare can succeed without establishing delegation.Shares / (validator.DelegatorShares - sharesToSub) >= ShareThreshold (both in shares of the validator): after a slash tokens < shares, so subtracting the pending SHARE reduction from a TOKEN total, or comparing other quantities, lets a node below the threshold become or stay a super node", append([]string{"path (branch decisions):"}, w...)...)
				}
			}
			r.Floor("share_ratio_success_returns", n, 1)
		}
	}

	super := constVal(r, "node/types", "NODE_SUPER")
	normal := constVal(r, "node/types", "NODE_NORMAL")
	req := constVal(r, "node/types", "NODE_STATUS_SUPER_REQUIREMENT")
	maskOK := guard.Eq("(*Status & "+req+")", req)
	thrOK := guard.Ge("*.TotalStorage", "node/keeper.Keeper.VstorageThreshold()")
	shareOK := guard.Eq("node/keeper.Keeper.CheckDelegationShare(*)", "nil")
	clauses := []clause{cl("status-requirement-mask", maskOK), cl("capacity-threshold", thrOK), cl("delegation-share-check", shareOK)}

	// ---- promotion sites: every store of the super constant into a field Role of a node record
	nSites := 0
	for _, f := range r.P.SortedFuncs(r.ConsensusFuncs()) {
		if r.P.IsGenerated(f) {
			continue
		}
		k := 0
		for _, b := range f.Blocks {
			for _, ins := range b.Instrs {
				st, ok := ins.(*ssa.Store)
				if !ok {
					continue
				}
				fa, ok := st.Addr.(*ssa.FieldAddr)
				if !ok || shortTypeName(fa.X.Type())+"."+fieldNameT(fa.X.Type(), fa.Field) != "node/types.Node.Role" {
					continue
				}
				vt := r.Resolver(f).Of(st.Val).String()
				if vt == normal {
					continue
				}
				nSites++
				k++
				slot := fmt.Sprintf("store Node.Role := %s#%d", vt, k)
				if vt != super {
					// a non-constant role value: must not be able to carry the super role unguarded
					r.Violate("G-promote", core.Key("G-promote", r.KeyName(f), slot), r.P.Pos(st.Pos()), "Node.Role is assigned a value that is neither the normal nor the super constant: promotion cannot be checked")
					continue
				}
				for _, c := range clauses {
					key := core.Key("G-promote", r.KeyName(f), slot, c.Name)
					ok, w := requireUpward(r, f, b, c.Atoms, 0, nil)
					if ok {
						r.Discharge("G-promote", key, r.P.Pos(st.Pos()), "guard holds on every path to the promotion, in this function or at every call site up the chain: "+c.Atoms[0].Desc)
					} else {
						r.Violate("G-promote", key, r.P.Pos(st.Pos()), fmt.Sprintf("a node can be given the super role in %s without %s (%s) on some path/call chain", r.P.Name(f), c.Name, c.Atoms[0].Desc), w...)
					}
				}
			}
		}
	}
	r.Floor("promotion_sites", nSites, 3)

	// ---- demotion inside the re-evaluation routine
	vs := "node/keeper.Hooks.verifySuperStorageNodes"
	del := "elem(node/types.StakingKeeper.GetValidatorDelegations(#2))"
	node := fGetNode + "(" + del + ".DelegatorAddress)#0"
	pledge := fGetPledge + "(" + del + ".DelegatorAddress)"
	roleNotSuper := []guard.Atom{guard.Ne(node+".Role", super)}
	mustFollow(r, "G-demote", vs, "failing requirement => demotion", []guard.Atom{
		guard.Ne("("+node+".Status & "+req+")", req),
		guard.False(pledge + "#1"),
		guard.Lt(pledge+"#0.TotalStorage", "node/keeper.Keeper.VstorageThreshold()"),
		guard.Ne("node/keeper.Keeper.CheckDelegationShare("+del+".DelegatorAddress,*)", "nil"),
		guard.Eq(del+".DelegatorAddress", "sdk.AccAddress.String(#3)"),
	}, []string{"node/keeper.Keeper.SetNormalNode"}, roleNotSuper, 5)
	evalArgAll(r, "G-demote", vs, "node/keeper.Keeper.SetNormalNode", 0, []string{node + ".Creator"}, "the node demoted is the one whose requirement failed")
	evalArgAll(r, "G-promote", vs, "node/keeper.Keeper.SetSuperNode", 0, []string{node + ".Creator"}, "the node promoted is the one whose requirements were checked")
	evalArgAll(r, "G-promote", vs, "node/keeper.Keeper.CheckDelegationShare", 0, []string{del + ".DelegatorAddress"}, "the share checked is the candidate's own delegation")

	// ---- hooks reach the re-evaluation on every path
	nh := 0
	for _, h := range []string{"AfterDelegationModified", "BeforeDelegationRemoved", "AfterValidatorRemoved", "AfterValidatorBonded", "AfterValidatorBeginUnbonding"} {
		everyPathCalls(r, "G-hooks", "node/keeper.Hooks."+h, vs, "share-affecting hook re-evaluates super nodes")
		nh++
	}
	r.Count("share_affecting_hooks", nh)
	// the hooks object handed to staking is the node keeper's
	if f := r.Func("G-hooks", "app.New"); f != nil {
		found := false
		for _, c := range callsIn(r, f, "node/keeper.Keeper.Hooks") {
			v, ok := c.(*ssa.Call)
			if !ok {
				continue
			}
			// Hooks() -> interface -> element of the variadic slice -> NewMultiStakingHooks(...)
			for _, r1 := range *v.Referrers() {
				mi, ok := r1.(*ssa.MakeInterface)
				if !ok {
					continue
				}
				for _, r2 := range *mi.Referrers() {
					st, ok := r2.(*ssa.Store)
					if !ok {
						continue
					}
					if al, ok := addrRoot(st.Addr).(*ssa.Alloc); ok {
						for _, r3 := range *al.Referrers() {
							if sl, ok := r3.(*ssa.Slice); ok {
								for _, r4 := range *sl.Referrers() {
									if cc, ok := r4.(*ssa.Call); ok {
										if n, _ := r.Resolver(f).CalleeName(&cc.Call); strings.HasSuffix(n, "NewMultiStakingHooks") {
											found = true
										}
									}
								}
							}
						}
					}
				}
			}
		}
		if found {
			r.Discharge("G-hooks", "G-hooks|app.New|node hooks registered with staking", r.P.FuncPos(f), "app.New passes NodeKeeper.Hooks() to stakingtypes.NewMultiStakingHooks")
		} else {
			r.Violate("G-hooks", "G-hooks|app.New|node hooks registered with staking", r.P.FuncPos(f), "the node keeper's hooks are not registered with the staking keeper: delegation changes never re-evaluate super nodes")
		}
	}

	// ---- RemoveVstorage: re-test after the decrement, demote, persist
	rv := "node/keeper.msgServer.RemoveVstorage"
	pl := fGetPledge + "(" + msg + ".Creator)#0"
	nd := fGetNode + "(" + msg + ".Creator)#0"
	if fn := r.Func("G-demote", rv); fn != nil {
		ck := &guard.Checker{P: r.P, Fn: fn, Res: r.Resolver(fn)}
		// every success return passes one of the two edges of the threshold re-test
		thr := []guard.Atom{guard.Lt("*"+pl+".TotalStorage", "node/keeper.Keeper.VstorageThreshold()"), guard.Ge("*"+pl+".TotalStorage", "node/keeper.Keeper.VstorageThreshold()")}
		n := 0
		for _, b := range fn.Blocks {
			if successReturnIn(r, fn, b) {
				n++
				key := core.Key("G-demote", rv, "threshold re-tested before success")
				if ok, w := ck.MustPass(b, thr); ok {
					r.Discharge("G-demote", key, r.P.Pos(lastPos(b)), "every success path tests TotalStorage against VstorageThreshold")
				} else {
					r.Violate("G-demote", key, r.P.Pos(lastPos(b)), "RemoveVstorage can succeed without re-testing the capacity threshold: a super node keeps its role below the threshold", w...)
				}
			}
		}
		if n == 0 {
			r.Undecide("G-demote", core.Key("G-demote", rv, "success-returns"), r.P.FuncPos(fn), "no success return found")
		}
		// the test reads the decremented value: the store TotalStorage -= size precedes the test on every path
		// (typestate walk through helpers outside the vocabulary: the decrement is often a helper on the pledge)
		key := core.Key("G-demote", rv, "re-test follows the decrement")
		t := &tsRule{r: r,
			events: func(f *ssa.Function, ins ssa.Instruction, T func(ssa.Value) string) []string {
				if st, ok := ins.(*ssa.Store); ok {
					if fa, ok := st.Addr.(*ssa.FieldAddr); ok && shortTypeName(fa.X.Type())+"."+fieldNameT(fa.X.Type(), fa.Field) == "node/types.Pledge.TotalStorage" {
						if strings.Contains(T(st.Val), " - ") {
							return []string{"dec"}
						}
					}
				}
				return nil
			},
			edges: func(c *guard.Checker) map[cfgx.Edge]string {
				m := map[cfgx.Edge]string{}
				for e := range c.PassEdges(thr) {
					m[e] = "test"
				}
				return m
			},
			step: func(st uint8, ev string) (uint8, string) {
				switch ev {
				case "dec":
					return 1, ""
				case "test":
					if st == 0 {
						return st, "tested before the decrement"
					}
				}
				return st, ""
			}}
		res := t.run(fn, 0)
		if res.counts["dec"] == 0 || res.counts["test"] == 0 || res.bad != "" {
			r.Violate("G-demote", key, r.P.FuncPos(fn), "the threshold test in RemoveVstorage can be reached before TotalStorage has been decremented (it would test the old capacity)")
		} else {
			r.Discharge("G-demote", key, r.P.FuncPos(fn), "the decrement of Pledge.TotalStorage lies on every path to the threshold test")
		}
	}
	mustFollow(r, "G-demote", rv, "below threshold => demote and persist", []guard.Atom{
		guard.Lt("*"+pl+".TotalStorage", "node/keeper.Keeper.VstorageThreshold()"),
	}, []string{"node/keeper.Keeper.SetNode"}, []guard.Atom{guard.Ne("*"+nd+".Role", super), guard.False(fGetNode + "(" + msg + ".Creator)#1")}, 1)
	// the persisted node has Role := normal on that path
	evalGuard(r, "G-demote", rv, effSel{Calls: []string{"node/keeper.Keeper.SetNode"}}, []clause{
		cl("only-reached-below-threshold-with-super-role", guard.Eq("*"+nd+".Role", super)),
	}, 1)

	// ---- Reset: role cleared before re-evaluation and persistence
	rs := "node/keeper.msgServer.Reset"
	if fn := r.Func("G-demote", rs); fn != nil {
		clr := map[*ssa.BasicBlock]bool{}
		for _, b := range fn.Blocks {
			for _, ins := range b.Instrs {
				if st, ok := ins.(*ssa.Store); ok {
					if fa, ok := st.Addr.(*ssa.FieldAddr); ok && shortTypeName(fa.X.Type())+"."+fieldNameT(fa.X.Type(), fa.Field) == "node/types.Node.Role" && r.Resolver(fn).Of(st.Val).String() == normal {
						clr[b] = true
					}
				}
			}
		}
		for _, callee := range []string{"node/keeper.Keeper.SetNode", "node/keeper.Keeper.CheckNodeShare"} {
			for i, c := range callsIn(r, fn, callee) {
				key := core.Key("G-demote", rs, fmt.Sprintf("role cleared before %s#%d", callee, i+1))
				if clr[c.Block()] || forwardAvoid(fn.Blocks[0], clr, nil, func(b *ssa.BasicBlock) bool { return b == c.Block() }) == nil {
					r.Discharge("G-demote", key, r.P.Pos(c.Pos()), "Role := normal lies on every path to this call: the role held after Reset is decided by the re-evaluation only")
				} else {
					r.Violate("G-demote", key, r.P.Pos(c.Pos()), "Reset can persist / re-evaluate the node without first clearing the super role: a node that no longer meets the status requirement keeps the role")
				}
			}
		}
	}
	ruleNoStaleCheck(r)
	ruleD3(r)
}

// ruleNoStaleCheck: after the requirements of a node record have been evaluated (CheckNodeShare(&node, ...)),
// the fields the evaluation depends on are not rewritten before the record is persisted: otherwise the role
// stored with the record was decided for a different validator / status than the one stored next to it.
func ruleNoStaleCheck(r *core.Run) {
	callee := "node/keeper.Keeper.CheckNodeShare"
	n := 0
	for _, f := range r.P.SortedFuncs(r.ConsensusFuncs()) {
		for i, c := range callsIn(r, f, callee) {
			call, ok := c.(*ssa.Call)
			if !ok || len(call.Call.Args) < 3 {
				continue
			}
			n++
			rec := addrRoot(call.Call.Args[2]) // &node
			key := core.Key("G-promote", r.KeyName(f), fmt.Sprintf("no requirement field rewritten after CheckNodeShare#%d", i+1))
			bad := ""
			isDep := func(ins ssa.Instruction) bool {
				st, ok := ins.(*ssa.Store)
				if !ok {
					return false
				}
				fa, ok := st.Addr.(*ssa.FieldAddr)
				if !ok || addrRoot(fa.X) != rec {
					return false
				}
				switch fieldNameT(fa.X.Type(), fa.Field) {
				case "Validator", "Status", "Creator":
					bad = fieldNameT(fa.X.Type(), fa.Field) + " at " + r.P.Pos(st.Pos())
					return true
				}
				return false
			}
			// rest of the call's block, then everything reachable
			blk := call.Block()
			after := false
			found := false
			for _, ins := range blk.Instrs {
				if ins == call {
					after = true
					continue
				}
				if after && isDep(ins) {
					found = true
				}
			}
			seen := map[*ssa.BasicBlock]bool{}
			st := append([]*ssa.BasicBlock{}, blk.Succs...)
			for len(st) > 0 && !found {
				b := st[len(st)-1]
				st = st[:len(st)-1]
				if seen[b] {
					continue
				}
				seen[b] = true
				for _, ins := range b.Instrs {
					if isDep(ins) {
						found = true
					}
				}
				st = append(st, b.Succs...)
			}
			if found {
				r.Violate("G-promote", key, r.P.Pos(call.Pos()), fmt.Sprintf("%s rewrites node.%s after CheckNodeShare decided the role: the role persisted with the record was evaluated against a different validator/status than the one stored (and the staking hooks only re-evaluate nodes whose declared validator matches)", r.P.Name(f), bad))
			} else {
				r.Discharge("G-promote", key, r.P.Pos(call.Pos()), "no store to Validator/Status of the evaluated record follows the evaluation")
			}
		}
	}
	r.Floor("checknodeshare_sites", n, 2)
}

// ruleScanTotal (G-rescan): every call of verifySuperStorageNodes walks all
// delegations of the validator: no return is reachable without entering the loop
// over GetValidatorDelegations. Any change of the validator's total shares — by a
// delegator that is not itself a storage node, or by the operator — changes every
// node's ratio, so skipping the scan for "uninteresting" delegators leaves
// diluted super nodes in place.
func ruleScanTotal(r *core.Run) {
	const id = "G-rescan"
	fnName := "node/keeper.Hooks.verifySuperStorageNodes"
	fn := r.Func(id, fnName)
	if fn == nil {
		return
	}
	var hdr *ssa.BasicBlock
	for _, l := range cfgx.Loops(fn) {
		over := rangedOver(r, fn, l)
		if strings.Contains(over, "GetValidatorDelegations(") {
			hdr = l.Header
		}
	}
	key := core.Key(id, fnName, "every return lies after the scan of the validator's delegations")
	if hdr == nil {
		r.Violate(id, key, r.P.FuncPos(fn), "verifySuperStorageNodes no longer ranges over the validator's delegations")
		return
	}
	bad := forwardAvoid(fn.Blocks[0], map[*ssa.BasicBlock]bool{hdr: true}, nil, isReturnBlock)
	if bad == nil {
		r.Discharge(id, key, r.P.FuncPos(fn), "no return is reachable without entering the loop over GetValidatorDelegations(valAddr)")
	} else {
		r.Violate(id, key, r.P.FuncPos(fn), "verifySuperStorageNodes can return before scanning the validator's delegations: a delegation change that dilutes the storage nodes' share (by a delegator that is not a node, or by the operator) then re-evaluates nobody, and a super node below the share threshold keeps its role", pathDesc(r, bad))
	}
}
