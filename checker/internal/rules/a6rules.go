package rules

import (
	"fmt"
	"go/token"
	"go/types"
	"strings"

	"golang.org/x/tools/go/ssa"

	"saoverif/internal/cfgx"
	"saoverif/internal/core"
	"saoverif/internal/guard"
)

// ruleDecodeFresh (T-decode-fresh): the generated Unmarshal of a protobuf message does not reset its target — repeated
// fields are appended to, and zero-valued scalars (absent from the wire) keep what the target held. A record decoded
// inside a loop must therefore be decoded into a variable that is fresh in every iteration; one variable hoisted out
// of the loop hands every element the leftovers of its predecessors in key order (an offline node inherits the
// previous node's status bits, a node inherits the tx addresses other nodes declared).
func ruleDecodeFresh(r *core.Run, id string, pkgPrefixes ...string) {
	n := 0
	for _, f := range r.P.SortedFuncs(r.ConsensusFuncs()) {
		if r.P.IsGenerated(f) || len(f.Blocks) == 0 {
			continue
		}
		name := r.P.Name(f)
		in := len(pkgPrefixes) == 0
		for _, p := range pkgPrefixes {
			if strings.HasPrefix(name, p) {
				in = true
			}
		}
		if !in {
			continue
		}
		loops := cfgx.Loops(f)
		res := r.Resolver(f)
		k := 0
		// a callback handed to an iteration helper is the loop body: decoding there into a variable captured from the
		// enclosing function is decoding into one variable for all elements
		if f.Parent() != nil {
			for _, b := range f.Blocks {
				for _, ins := range b.Instrs {
					c, ok := ins.(ssa.CallInstruction)
					if !ok {
						continue
					}
					cn, _ := res.CalleeName(c.Common())
					if !(strings.HasSuffix(cn, ".MustUnmarshal") || strings.HasSuffix(cn, ".Unmarshal")) || len(c.Common().Args) == 0 {
						continue
					}
					tgt := c.Common().Args[len(c.Common().Args)-1]
					if mi, ok := tgt.(*ssa.MakeInterface); ok {
						tgt = mi.X
					}
					if fv, ok := tgt.(*ssa.FreeVar); ok {
						n++
						k++
						key := core.Key(id, r.KeyName(f), fmt.Sprintf("decode in callback#%d", k))
						r.Violate(id, key, r.P.Pos(c.Pos()), fmt.Sprintf("a callback decodes every record it is handed into %s, a variable captured from the enclosing function: the generated Unmarshal does not reset its target, so each element keeps the repeated fields and zero-valued scalars of the elements decoded before it", fv.Name()))
					}
				}
			}
		}
		if len(loops) == 0 {
			continue
		}
		for _, b := range f.Blocks {
			for _, ins := range b.Instrs {
				c, ok := ins.(ssa.CallInstruction)
				if !ok {
					continue
				}
				cn, _ := res.CalleeName(c.Common())
				if !(strings.HasSuffix(cn, ".MustUnmarshal") || strings.HasSuffix(cn, ".Unmarshal")) || len(c.Common().Args) == 0 {
					continue
				}
				tgt := c.Common().Args[len(c.Common().Args)-1]
				if mi, ok := tgt.(*ssa.MakeInterface); ok {
					tgt = mi.X
				}
				al, ok := tgt.(*ssa.Alloc)
				if !ok {
					continue
				}
				var inLoop *cfgx.Loop
				for _, l := range loops {
					if l.Body[b] && (inLoop == nil || len(l.Body) < len(inLoop.Body)) {
						inLoop = l
					}
				}
				if inLoop == nil {
					continue
				}
				n++
				k++
				key := core.Key(id, r.KeyName(f), fmt.Sprintf("decode in loop#%d", k))
				// a variable declared outside but cleared inside the loop (x = T{} / x.Reset()) is fresh as well
				cleared := false
				for _, ref := range *al.Referrers() {
					switch x := ref.(type) {
					case *ssa.Store:
						if x.Addr == ssa.Value(al) && inLoop.Body[x.Block()] {
							cleared = true
						}
					case ssa.CallInstruction:
						if cn2, _ := res.CalleeName(x.Common()); strings.HasSuffix(cn2, ".Reset") && inLoop.Body[x.Block()] {
							cleared = true
						}
					}
				}
				if inLoop.Body[al.Block()] || cleared {
					r.Discharge(id, key, r.P.Pos(c.Pos()), "the record is decoded into a variable that is fresh in every iteration")
				} else {
					r.Violate(id, key, r.P.Pos(c.Pos()), "records are decoded inside a loop into one variable declared outside it: the generated Unmarshal does not reset its target, so every element keeps the repeated fields (appended to) and the zero-valued scalars (absent from the wire) of the elements decoded before it")
				}
			}
		}
	}
	r.Floor("decode_in_loop_sites_"+id, n, 2)
}

// ruleFreshOnlyIfMissing (T-fresh-if-missing): `rec, found := k.GetX(key); if !found { rec = X{...} }` — the freshly
// built record may replace the one read from the store only when there was none. Any other condition that lets the
// literal through (an "idle" worker, an empty pledge) wipes what the stored record still holds: unclaimed reward,
// accumulated totals.
func ruleFreshOnlyIfMissing(r *core.Run, id string, pkgPrefixes ...string) {
	n := 0
	for _, f := range r.P.SortedFuncs(r.ConsensusFuncs()) {
		if r.P.IsGenerated(f) || len(f.Blocks) == 0 {
			continue
		}
		name := r.P.Name(f)
		in := false
		for _, p := range pkgPrefixes {
			if strings.HasPrefix(name, p) {
				in = true
			}
		}
		if !in {
			continue
		}
		res := r.Resolver(f)
		ck := &guard.Checker{P: r.P, Fn: f, Res: res}
		k := 0
		for _, b := range f.Blocks {
			for _, ins := range b.Instrs {
				al, ok := ins.(*ssa.Alloc)
				if !ok {
					continue
				}
				// whole stores: one from a (rec, found) getter, others from composite literals
				var getter *ssa.Call
				var lits []*ssa.Store
				for _, ref := range *al.Referrers() {
					st, ok := ref.(*ssa.Store)
					if !ok || st.Addr != ssa.Value(al) {
						continue
					}
					if ex, ok := st.Val.(*ssa.Extract); ok && ex.Index == 0 {
						if c, ok := ex.Tuple.(*ssa.Call); ok {
							if cn, _ := res.CalleeName(&c.Call); strings.Contains(cn, ".Get") {
								getter = c
							}
						}
						continue
					}
					if _, isCall := st.Val.(*ssa.Call); isCall && res.Of(st.Val).Op == "mk" {
						lits = append(lits, st) // a constructor helper that builds the record from scratch
					}
					if _, isZero := st.Val.(*ssa.Const); isZero {
						lits = append(lits, st) // x = T{...} on an addressable variable: zeroed, then filled field by field
					}
					if u, ok := st.Val.(*ssa.UnOp); ok && u.Op == token.MUL {
						if la, ok := u.X.(*ssa.Alloc); ok && la.Comment == "complit" {
							lits = append(lits, st)
						}
					}
				}
				// a literal assigned to an addressable variable with every field given is written field by field,
				// without a zeroing store: a block that assigns at least half of the struct's fields (and three)
				if getter != nil {
					if stt := structOfT(al.Type()); stt != nil {
						perBlock := map[*ssa.BasicBlock]map[int]*ssa.Store{}
						for _, ref := range *al.Referrers() {
							fa, ok := ref.(*ssa.FieldAddr)
							if !ok {
								continue
							}
							for _, rr := range *fa.Referrers() {
								if st, ok := rr.(*ssa.Store); ok && st.Addr == ssa.Value(fa) {
									if perBlock[st.Block()] == nil {
										perBlock[st.Block()] = map[int]*ssa.Store{}
									}
									perBlock[st.Block()][fa.Field] = st
								}
							}
						}
						for _, fs := range perBlock {
							if len(fs) >= 3 && 2*len(fs) >= stt.NumFields() {
								dup := false
								var first *ssa.Store
								for _, st := range fs {
									if first == nil || st.Pos() < first.Pos() {
										first = st
									}
								}
								for _, l := range lits {
									if l.Block() == first.Block() {
										dup = true
									}
								}
								if !dup {
									lits = append(lits, first)
								}
							}
						}
					}
				}
				if getter == nil || len(lits) == 0 {
					continue
				}
				found := normT(res.Of(getter).String()) + "#1"
				for _, st := range lits {
					n++
					k++
					key := core.Key(id, r.KeyName(f), fmt.Sprintf("fresh record#%d replaces %s", k, shortTypeName(al.Type())))
					if ok, w := ck.MustPass(st.Block(), []guard.Atom{guard.False(guard.Exact(found))}); ok {
						r.Discharge(id, key, r.P.Pos(st.Pos()), "the freshly built record replaces the stored one only when none was found")
					} else {
						r.Violate(id, key, r.P.Pos(st.Pos()), "a freshly built record can replace a record that WAS found in the store: whatever the stored record still holds (unclaimed reward, accumulated totals, the accrual clock) is wiped", w...)
					}
				}
			}
		}
	}
	r.Floor("fresh_if_missing_sites_"+id, n, 1)
}

// ruleValidateMaps (T-validate-map): the duplicate-index checks of a GenesisState.Validate consult, in each loop, the
// very map that loop fills. A check that looks an element up in another list's map rejects a state in which two
// DIFFERENT tables share a key (every provider in debt has a Pledge and a PledgeDebt under its address): the module
// then refuses its own export.
func ruleValidateMaps(r *core.Run, id string) {
	n := 0
	// what a helper does with the maps it is handed: parameter index -> looked up / filled (two levels deep)
	type use struct{ looked, filled map[int]bool }
	memo := map[*ssa.Function]*use{}
	var summarize func(g *ssa.Function, depth int) *use
	summarize = func(g *ssa.Function, depth int) *use {
		if u, ok := memo[g]; ok {
			return u
		}
		u := &use{map[int]bool{}, map[int]bool{}}
		memo[g] = u
		pidx := func(v ssa.Value) int {
			for i, p := range g.Params {
				if ssa.Value(p) == v {
					return i
				}
			}
			return -1
		}
		for _, b := range g.Blocks {
			for _, ins := range b.Instrs {
				switch x := ins.(type) {
				case *ssa.Lookup:
					if i := pidx(x.X); i >= 0 && x.CommaOk {
						u.looked[i] = true
					}
				case *ssa.MapUpdate:
					if i := pidx(x.Map); i >= 0 {
						u.filled[i] = true
					}
				case ssa.CallInstruction:
					if h := x.Common().StaticCallee(); h != nil && len(h.Blocks) > 0 && depth < 2 && !x.Common().IsInvoke() {
						hu := summarize(h, depth+1)
						for ai, a := range x.Common().Args {
							if i := pidx(a); i >= 0 {
								if hu.looked[ai] {
									u.looked[i] = true
								}
								if hu.filled[ai] {
									u.filled[i] = true
								}
							}
						}
					}
				}
			}
		}
		return u
	}
	for _, root := range r.P.Funcs {
		if root == nil || len(root.Blocks) == 0 || !strings.HasSuffix(r.P.Name(root), "/types.GenesisState.Validate") {
			continue
		}
		// the function and the helpers of its package it is split into
		for _, f := range r.P.SortedFuncs(r.P.CG.Reach(root)) {
			if f.Pkg != root.Pkg || len(f.Blocks) == 0 || r.P.IsGenerated(f) {
				continue
			}
			for li, l := range cfgx.Loops(f) {
				var looked, filled []ssa.Value
				for b := range l.Body {
					for _, ins := range b.Instrs {
						switch x := ins.(type) {
						case *ssa.Lookup:
							if x.CommaOk {
								looked = append(looked, x.X)
							}
						case *ssa.MapUpdate:
							filled = append(filled, x.Map)
						case ssa.CallInstruction:
							if h := x.Common().StaticCallee(); h != nil && len(h.Blocks) > 0 && !x.Common().IsInvoke() {
								hu := summarize(h, 0)
								for ai, a := range x.Common().Args {
									if _, isMap := a.Type().Underlying().(*types.Map); !isMap {
										continue
									}
									if hu.looked[ai] {
										looked = append(looked, a)
									}
									if hu.filled[ai] {
										filled = append(filled, a)
									}
								}
							}
						}
					}
				}
				if len(looked) == 0 || len(filled) == 0 {
					continue
				}
				n++
				key := core.Key(id, r.P.Name(root), r.P.Name(f), fmt.Sprintf("loop#%d", li+1))
				okm := true
				for _, m := range looked {
					same := false
					for _, m2 := range filled {
						if m == m2 {
							same = true
						}
					}
					if !same {
						okm = false
					}
				}
				if okm {
					r.Discharge(id, key, r.P.Pos(l.Header.Instrs[0].Pos()), "the index is looked up in the map this loop fills")
				} else {
					r.Violate(id, key, r.P.Pos(l.Header.Instrs[0].Pos()), "a duplicate-index check of GenesisState.Validate looks the element up in a map that this loop does not fill (another list's index): a state in which two different tables share a key is rejected although the module exported it")
				}
			}
		}
	}
	r.Floor("validate_index_loops", n, 5)
}

// rulePermApplied (T-perm-applied): model.UpdatePermission replaces BOTH grant lists by the lists of the verified
// request on every path that persists the metadata: an empty list (proto3 decodes it as nil) is a revocation, not
// "leave as is".
func rulePermApplied(r *core.Run, id string) {
	fnName := "model/keeper.Keeper.UpdatePermission"
	fn := r.Func(id, fnName)
	if fn == nil {
		return
	}
	n := 0
	// the assignments and the write may sit in a helper the exported function forwards to (parameter object): every
	// frame under the function is looked at, values are read in the exported function's vocabulary
	all := frames(r, fn)
	for _, fr := range all {
		g := fr.Fn
		sets := callsIn(r, g, "model/keeper.Keeper.SetMetadata")
		if len(sets) == 0 {
			continue
		}
		for _, field := range []string{"ReadonlyDids", "ReadwriteDids"} {
			// blocks of g in which the field is assigned from a parameter of UpdatePermission: directly, or inside a
			// helper called from that block
			blocks := map[*ssa.BasicBlock]bool{}
			for _, fs := range all {
				if len(fs.Chain) < len(fr.Chain) {
					continue
				}
				same := true
				for i := range fr.Chain {
					if fs.Chain[i] != fr.Chain[i] {
						same = false
					}
				}
				if !same {
					continue
				}
				for _, b := range fs.Fn.Blocks {
					for _, ins := range b.Instrs {
						st, ok := ins.(*ssa.Store)
						if !ok {
							continue
						}
						fa, ok := st.Addr.(*ssa.FieldAddr)
						if !ok || shortTypeName(fa.X.Type())+"."+fieldNameT(fa.X.Type(), fa.Field) != "model/types.Metadata."+field {
							continue
						}
						vt := strings.TrimLeft(normT(fs.T(r, st.Val)), "*&~")
						if !(len(vt) >= 2 && vt[0] == '#' && strings.Trim(vt[1:], "0123456789") == "") {
							continue
						}
						if len(fs.Chain) == len(fr.Chain) {
							blocks[b] = true
						} else {
							blocks[fs.Chain[len(fr.Chain)].Block()] = true
						}
					}
				}
			}
			for i, c := range sets {
				n++
				key := core.Key(id, fnName, fmt.Sprintf("SetMetadata#%d", i+1), field)
				okp := blocks[c.Block()]
				if !okp && len(blocks) > 0 {
					okp = forwardAvoid(g.Blocks[0], blocks, nil, func(x *ssa.BasicBlock) bool { return x == c.Block() }) == nil
				}
				if okp {
					r.Discharge(id, key, r.P.Pos(c.Pos()), "every path to the write assigns Metadata."+field+" from the verified request")
				} else {
					r.Violate(id, key, r.P.Pos(c.Pos()), "UpdatePermission can persist the metadata on a path that does not assign Metadata."+field+" from the request: a request with an empty list (decoded as nil) is accepted and reports success, but the grants it revokes stay in force")
				}
			}
		}
	}
	r.Floor("perm_applied_sites", n, 2)
}

// ruleDebtRepay (T-debt-repay): RepayPledgeDebt consumes the coins it is given against the provider's recorded debt.
// Wherever it zeroes a coin (partial repayment), the debt record it later persists must have been lowered by that
// coin in the same step; a running balance kept in a local leaves the stored debt unchanged, and the same debt is
// withheld again from the next release or claim.
func ruleDebtRepay(r *core.Run, id string) {
	fnName := "node/keeper.Keeper.RepayPledgeDebt"
	fn := r.Func(id, fnName)
	if fn == nil {
		return
	}
	// typestate over the function and the helpers it is split into: "consume" = a coin of the caller is overwritten
	// through its pointer; "lower" = the Debt field of the debt record is assigned. Within a path the two must pair
	// up (in either order) before the record is persisted.
	nConsume := 0
	rule := &tsRule{r: r,
		events: func(g *ssa.Function, ins ssa.Instruction, T func(ssa.Value) string) []string {
			switch x := ins.(type) {
			case *ssa.Store:
				if fa, ok := x.Addr.(*ssa.FieldAddr); ok {
					if shortTypeName(fa.X.Type())+"."+fieldNameT(fa.X.Type(), fa.Field) == "node/types.PledgeDebt.Debt" {
						return []string{"lower"}
					}
					return nil
				}
				switch x.Addr.(type) {
				case *ssa.Alloc, *ssa.IndexAddr, *ssa.Global:
					return nil
				}
				if shortTypeName(x.Addr.Type()) == "sdk.Coin" || strings.HasSuffix(x.Addr.Type().String(), "types.Coin") {
					return []string{"consume"}
				}
			case ssa.CallInstruction:
				if n, _ := r.Resolver(g).CalleeName(x.Common()); n == "node/keeper.Keeper.SetPledgeDebt" {
					return []string{"persist"}
				}
			}
			return nil
		},
		step: func(st uint8, ev string) (uint8, string) {
			const C, L = 1, 2
			switch ev {
			case "lower":
				if st&C != 0 {
					return st &^ C, ""
				}
				return st | L, ""
			case "consume":
				nConsume++
				if st&L != 0 {
					return st &^ L, ""
				}
				return st | C, ""
			case "persist":
				if st&C != 0 {
					return st, "persisted with a coin consumed but the record not lowered"
				}
			}
			return st, ""
		}}
	res := rule.run(fn, 0)
	key := core.Key(id, fnName, "coin consumed => debt record lowered before it is persisted")
	switch {
	case nConsume == 0 || res.counts["persist"] == 0:
		r.Undecide(id, key, r.P.FuncPos(fn), fmt.Sprintf("vacuous: expected a coin overwritten through its pointer and a SetPledgeDebt under %s (found %d, %d)", fnName, nConsume, res.counts["persist"]))
	case res.bad == "":
		r.Discharge(id, key, r.P.FuncPos(fn), "wherever a coin is consumed against the debt the debt record is lowered before SetPledgeDebt")
	default:
		pos := r.P.FuncPos(fn)
		if res.badAt != nil && res.badAt.Pos().IsValid() {
			pos = r.P.Pos(res.badAt.Pos())
		}
		r.Violate(id, key, pos, "a coin is consumed against the pledge debt (overwritten through its pointer) on a path that persists the debt RECORD without having lowered it: the record still shows the old debt, which is then withheld again from the next release or claim — more than the recorded debt is deducted and the excess stays in the module account")
	}
}

func structOfT(t types.Type) *types.Struct {
	if p, ok := t.Underlying().(*types.Pointer); ok {
		t = p.Elem()
	}
	st, _ := t.Underlying().(*types.Struct)
	return st
}
