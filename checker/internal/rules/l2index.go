package rules

import (
	"fmt"
	"go/token"
	"go/types"

	"golang.org/x/tools/go/ssa"

	"saoverif/internal/cfgx"
	"saoverif/internal/core"
)

// ruleL2Index (L2-index): in code that runs without panic recovery (Begin/EndBlock, staking hooks) a slice indexed by
// a value that comes out of the store — a persisted cursor — must be brought into range first: the element access is
// dominated by a comparison of that index with len of the slice (either way round), or the index is the induction
// variable of a loop bounded by that len, or a constant guarded by a length test. A cursor saved when the list was
// longer otherwise indexes past the end, and the panic halts every validator at the same height.
func ruleL2Index(r *core.Run, id string) {
	scope, _ := blockHookFuncs(r)
	n := 0
	for _, f := range r.P.SortedFuncs(scope) {
		if r.P.IsGenerated(f) || len(f.Blocks) == 0 {
			continue
		}
		res := r.Resolver(f)
		// index values derived from store bytes: element loads of a Get result, through conversions and +/- constants, φ
		fromStore := map[ssa.Value]bool{}
		for changed := true; changed; {
			changed = false
			for _, b := range f.Blocks {
				for _, ins := range b.Instrs {
					v, ok := ins.(ssa.Value)
					if !ok || fromStore[v] {
						continue
					}
					hit := false
					switch x := ins.(type) {
					case *ssa.UnOp:
						if x.Op == token.MUL {
							if ia, ok := x.X.(*ssa.IndexAddr); ok {
								if c, ok := ia.X.(*ssa.Call); ok {
									if cn, _ := res.CalleeName(&c.Call); len(cn) > 4 && cn[len(cn)-4:] == ".Get" {
										hit = true
									}
								}
								if fromStore[ia.X] {
									hit = true
								}
							}
						}
					case *ssa.Call:
						if cn, _ := res.CalleeName(&x.Call); len(cn) > 4 && cn[len(cn)-4:] == ".Get" {
							if _, isSl := x.Type().Underlying().(*types.Slice); isSl {
								hit = true
							}
						}
					case *ssa.Convert:
						hit = fromStore[x.X]
					case *ssa.BinOp:
						hit = fromStore[x.X] || fromStore[x.Y]
					case *ssa.Phi:
						for _, e := range x.Edges {
							if fromStore[e] {
								hit = true
							}
						}
					}
					if hit {
						fromStore[v] = true
						changed = true
					}
				}
			}
		}
		if len(fromStore) == 0 {
			continue
		}
		k := 0
		for _, b := range f.Blocks {
			for _, ins := range b.Instrs {
				ia, ok := ins.(*ssa.IndexAddr)
				if !ok || !fromStore[ia.Index] {
					continue
				}
				if _, isSl := ia.X.Type().Underlying().(*types.Slice); !isSl {
					continue
				}
				if fromStore[ia.X] {
					continue // indexing the store bytes themselves
				}
				n++
				k++
				key := core.Key(id, r.KeyName(f), fmt.Sprintf("cursor index#%d", k))
				// a comparison of this index value (or the value it is a φ of) with len(X) that dominates the access
				okb := false
				// ... or the index is reduced modulo the list's length
				{
					iv := ia.Index
					for {
						if c, ok := iv.(*ssa.Convert); ok {
							iv = c.X
							continue
						}
						break
					}
					if bo, ok := iv.(*ssa.BinOp); ok && bo.Op == token.REM {
						y := bo.Y
						for {
							if c, ok := y.(*ssa.Convert); ok {
								y = c.X
								continue
							}
							break
						}
						if c, ok := y.(*ssa.Call); ok && len(c.Call.Args) == 1 {
							if bi, ok := c.Call.Value.(*ssa.Builtin); ok && bi.Name() == "len" && c.Call.Args[0] == ia.X {
								okb = true
							}
						}
					}
				}
				web := map[ssa.Value]bool{ia.Index: true}
				if phi, ok := ia.Index.(*ssa.Phi); ok {
					for _, e := range phi.Edges {
						web[e] = true
					}
				}
				for _, d := range f.Blocks {
					iff := cfgx.IfOf(d)
					if iff == nil || !(d == b || d.Dominates(b)) {
						continue
					}
					bo, ok := iff.Cond.(*ssa.BinOp)
					if !ok {
						continue
					}
					isLenOf := func(v ssa.Value) bool {
						for {
							if c, ok := v.(*ssa.Convert); ok {
								v = c.X
								continue
							}
							break
						}
						c, ok := v.(*ssa.Call)
						if !ok || len(c.Call.Args) != 1 {
							return false
						}
						bi, ok := c.Call.Value.(*ssa.Builtin)
						return ok && bi.Name() == "len" && c.Call.Args[0] == ia.X
					}
					strip := func(v ssa.Value) ssa.Value {
						for {
							if c, ok := v.(*ssa.Convert); ok {
								v = c.X
								continue
							}
							return v
						}
					}
					switch bo.Op {
					case token.LSS, token.LEQ, token.GTR, token.GEQ:
						if (web[strip(bo.X)] && isLenOf(bo.Y)) || (web[strip(bo.Y)] && isLenOf(bo.X)) {
							okb = true
						}
					}
				}
				if okb {
					r.Discharge(id, key, r.P.Pos(ia.Pos()), "the persisted cursor is compared with the length of the list before it is used as an index")
				} else {
					r.Violate(id, key, r.P.Pos(ia.Pos()), "a list is indexed by a value read from the store (a persisted cursor) without a dominating comparison of that value with the list's current length: the list can have shrunk since the cursor was saved, the access then panics, and in Begin/EndBlock nothing recovers it — every validator halts at the same height")
				}
			}
		}
	}
	r.Count("cursor_index_sites", n) // no floor: the cursor need not be used as an index at all; the reference variant S-C02-a6 keeps the rule from going vacuous unnoticed (thorough tier)
}
