package rules

import "saoverif/internal/core"

func positivesImpl(r *core.Run, rules []string) {}
