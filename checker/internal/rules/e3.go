package rules

import (
	"fmt"
	"go/types"
	"saoverif/internal/eff"
	"strings"

	"golang.org/x/tools/go/ssa"

	"saoverif/internal/cfgx"
	"saoverif/internal/core"
	"saoverif/internal/guard"
	"saoverif/internal/term"
)

// ---------------------------------------------------------------- E3: coupling / ordering helpers

// blocksCalling returns the blocks of fn that call one of the named callees.
func blocksCalling(r *core.Run, fn *ssa.Function, callees ...string) map[*ssa.BasicBlock]bool {
	want := set(callees...)
	out := map[*ssa.BasicBlock]bool{}
	for _, b := range fn.Blocks {
		for _, ins := range b.Instrs {
			if c, ok := ins.(ssa.CallInstruction); ok {
				name, _ := term.CalleeName(r.P, c.Common())
				if want[name] {
					out[b] = true
				}
			}
		}
	}
	return out
}

// alwaysCalls: every path through g to a return passes a call of callee (directly or through such a wrapper).
func alwaysCalls(r *core.Run, g *ssa.Function, callee string, depth int) bool {
	if depth > 2 || len(g.Blocks) == 0 {
		return false
	}
	blk := blocksCallingDeep(r, g, callee, depth+1)
	if len(blk) == 0 {
		return false
	}
	return forwardAvoid(g.Blocks[0], blk, nil, isReturnBlock) == nil
}

// blocksCallingDeep: blocks calling callee, or a module wrapper that always calls it.
func blocksCallingDeep(r *core.Run, fn *ssa.Function, callee string, depth int) map[*ssa.BasicBlock]bool {
	out := map[*ssa.BasicBlock]bool{}
	for _, b := range fn.Blocks {
		for _, ins := range b.Instrs {
			if c, ok := ins.(ssa.CallInstruction); ok {
				name, callees := term.CalleeName(r.P, c.Common())
				if name == callee {
					out[b] = true
					continue
				}
				if depth <= 2 {
					for _, g := range callees {
						if g != fn && alwaysCalls(r, g, callee, depth) {
							out[b] = true
						}
					}
				}
			}
		}
	}
	return out
}

// callsIn lists call instructions to the named callee.
func callsIn(r *core.Run, fn *ssa.Function, callee string) []ssa.CallInstruction {
	var out []ssa.CallInstruction
	for _, b := range fn.Blocks {
		for _, ins := range b.Instrs {
			if c, ok := ins.(ssa.CallInstruction); ok {
				name, _ := term.CalleeName(r.P, c.Common())
				if name == callee {
					out = append(out, c)
				}
			}
		}
	}
	return out
}

// forwardAvoid searches forward from start, never entering blocked blocks nor
// traversing blocked edges, until stop(b) holds; returns the path or nil.
func forwardAvoid(start *ssa.BasicBlock, blockedB map[*ssa.BasicBlock]bool, blockedE map[cfgx.Edge]bool, stop func(*ssa.BasicBlock) bool) []*ssa.BasicBlock {
	if blockedB[start] {
		return nil
	}
	prev := map[*ssa.BasicBlock]*ssa.BasicBlock{start: nil}
	q := []*ssa.BasicBlock{start}
	for len(q) > 0 {
		b := q[0]
		q = q[1:]
		if stop(b) && !(b == start && len(prev) == 1 && false) {
			var rev []*ssa.BasicBlock
			for x := b; x != nil; x = prev[x] {
				rev = append(rev, x)
			}
			for i, j := 0, len(rev)-1; i < j; i, j = i+1, j-1 {
				rev[i], rev[j] = rev[j], rev[i]
			}
			return rev
		}
		for _, s := range b.Succs {
			if blockedE[cfgx.Edge{From: b, To: s}] || blockedB[s] {
				continue
			}
			if _, ok := prev[s]; !ok {
				prev[s] = b
				q = append(q, s)
			}
		}
	}
	return nil
}

func isReturnBlock(b *ssa.BasicBlock) bool {
	if len(b.Instrs) == 0 {
		return false
	}
	_, ok := b.Instrs[len(b.Instrs)-1].(*ssa.Return)
	return ok
}

// successReturn: a return whose error result may be nil (panics and error returns are not success exits).
func successReturn(b *ssa.BasicBlock) bool {
	if len(b.Instrs) == 0 {
		return false
	}
	ret, ok := b.Instrs[len(b.Instrs)-1].(*ssa.Return)
	return ok && mayReturnNilError(ret)
}

// innermostLoopHeader: header of the innermost natural loop containing b (nil if none).
func innermostLoopHeader(fn *ssa.Function, b *ssa.BasicBlock) *ssa.BasicBlock {
	var best *cfgx.Loop
	for _, l := range cfgx.Loops(fn) {
		if l.Body[b] && (best == nil || len(l.Body) < len(best.Body)) {
			best = l
		}
	}
	if best == nil {
		return nil
	}
	return best.Header
}

// mustFollow: after every trigger edge (an edge on which a trigger atom holds), every path to the end of the
// current loop iteration (or to a return, outside loops) passes a response: a call to one of respCalls or an
// edge on which a response atom holds.
func mustFollow(r *core.Run, id, fnName, what string, triggers []guard.Atom, respCalls []string, respAtoms []guard.Atom, minTriggers int) {
	fn := r.Func(id, fnName)
	if fn == nil {
		return
	}
	// A typestate walk through the function and the helpers outside the vocabulary under it: passing a branch edge
	// on which a trigger condition holds arms the obligation; a response call, or an edge on which a response
	// condition holds, disarms it; reaching the end of the loop iteration in which it was armed (or, outside
	// loops, any return of the function) while armed is the violation. Trigger and response may sit in different
	// functions, or in the same helper.
	want := set(respCalls...)
	// loop headers, numbered: state k+2 = armed inside loop k, 1 = armed outside loops
	hdrIdx := map[*ssa.BasicBlock]int{}
	hdrFirst := map[ssa.Instruction]int{}
	innermost := map[*ssa.BasicBlock]int{}
	for _, g := range transparentClosure(r, fn) {
		loops := cfgx.Loops(g)
		for _, l := range loops {
			k := len(hdrIdx)
			if k > 200 {
				break
			}
			hdrIdx[l.Header] = k
			for _, ins := range l.Header.Instrs {
				if _, isPhi := ins.(*ssa.Phi); !isPhi {
					hdrFirst[ins] = k
					break
				}
			}
		}
		for _, b := range g.Blocks {
			best := -1
			bestSize := 0
			for _, l := range loops {
				if l.Body[b] && (best < 0 || len(l.Body) < bestSize) {
					if k, ok := hdrIdx[l.Header]; ok {
						best, bestSize = k, len(l.Body)
					}
				}
			}
			innermost[b] = best
		}
	}
	n := 0
	for _, t := range triggers {
		trig := t
		nTrig := 0
		rule := &tsRule{r: r,
			events: func(g *ssa.Function, ins ssa.Instruction, T func(ssa.Value) string) []string {
				var ev []string
				if k, ok := hdrFirst[ins]; ok {
					ev = append(ev, fmt.Sprintf("iter@%d", k))
				}
				switch x := ins.(type) {
				case ssa.CallInstruction:
					if name, _ := r.Resolver(g).CalleeName(x.Common()); want[name] {
						ev = append(ev, "resp")
					}
				case *ssa.Return:
					if g == fn {
						ev = append(ev, "end")
					}
				}
				return ev
			},
			edges: func(ck *guard.Checker) map[cfgx.Edge]string {
				m := map[cfgx.Edge]string{}
				for e := range ck.PassEdges([]guard.Atom{trig}) {
					m[e] = fmt.Sprintf("trig@%d", innermost[e.From])
				}
				for e := range ck.PassEdges(respAtoms) {
					m[e] = "resp" // an edge that both arms and answers (a helper that tests and reacts) answers
				}
				return m
			},
			condEv: func(ck *guard.Checker, v ssa.Value, truth bool) string {
				if ck.ValueEstablishes(v, truth, respAtoms) {
					return "resp"
				}
				return ""
			},
			step: func(st uint8, ev string) (uint8, string) {
				switch {
				case ev == "resp":
					return 0, ""
				case strings.HasPrefix(ev, "trig@"):
					nTrig++
					var k int
					fmt.Sscanf(ev, "trig@%d", &k)
					if k < 0 {
						return 1, ""
					}
					return uint8(k + 2), ""
				case strings.HasPrefix(ev, "iter@"):
					var k int
					fmt.Sscanf(ev, "iter@%d", &k)
					if st == uint8(k+2) {
						return st, "iteration ends unanswered"
					}
				case ev == "end":
					if st != 0 {
						return st, "returns unanswered"
					}
				}
				return st, ""
			}}
		res := rule.run(fn, 0)
		if nTrig == 0 {
			continue
		}
		n += nTrig
		key := core.Key(id, fnName, what, t.Desc)
		if res.bad == "" {
			r.Discharge(id, key, r.P.FuncPos(fn), "after this condition every path of the iteration passes "+strings.Join(respCalls, "/")+" or a branch excluding the case")
		} else {
			pos := r.P.FuncPos(fn)
			if res.badAt != nil && res.badAt.Pos().IsValid() {
				pos = r.P.Pos(res.badAt.Pos())
			}
			r.Violate(id, key, pos, fmt.Sprintf("%s: after [%s] a path continues without %s (%s)", what, t.Desc, strings.Join(respCalls, "/"), res.bad))
		}
	}
	if n < minTriggers {
		r.Undecide(id, core.Key(id, fnName, what, "triggers"), r.P.FuncPos(fn), fmt.Sprintf("vacuous: expected at least %d trigger conditions in %s, found %d", minTriggers, fnName, n))
	}
}

// everyPathCalls: every path from the entry of fn to a return passes a call to callee.
func everyPathCalls(r *core.Run, id, fnName, callee, what string) {
	fn := r.Func(id, fnName)
	if fn == nil {
		return
	}
	key := core.Key(id, fnName, "every-path-calls", callee)
	blk := blocksCalling(r, fn, callee)
	if len(blk) == 0 {
		r.Violate(id, key, r.P.FuncPos(fn), fmt.Sprintf("%s: %s never calls %s", what, fnName, callee))
		return
	}
	path := forwardAvoid(fn.Blocks[0], blk, nil, isReturnBlock)
	if path == nil {
		r.Discharge(id, key, r.P.FuncPos(fn), what+": every path to a return passes "+callee)
	} else {
		ck := &guard.Checker{P: r.P, Fn: fn, Res: r.Resolver(fn)}
		r.Violate(id, key, r.P.FuncPos(fn), fmt.Sprintf("%s: a path through %s returns without calling %s", what, fnName, callee), ck.RenderPath(path)...)
	}
}

// requireUpward: the clause must hold on every path to the effect, counting guards established by the callers
// (conjunction along the call chain): locally, or else at every consensus-reachable call site of fn, recursively.
func requireUpward(r *core.Run, fn *ssa.Function, blk *ssa.BasicBlock, atoms []guard.Atom, depth int, trail []string) (bool, []string) {
	ck := &guard.Checker{P: r.P, Fn: fn, Res: r.Resolver(fn)}
	ok, w := ck.MustPass(blk, atoms)
	if ok {
		return true, nil
	}
	if depth >= 4 {
		return false, append(trail, "call-chain depth bound reached in "+r.P.Name(fn))
	}
	cons := r.ConsensusFuncs()
	nSites := 0
	for _, caller := range r.P.CG.In[fn] {
		if !cons[caller] {
			continue
		}
		for _, s := range r.P.CG.Sites[caller] {
			for _, c := range s.Callees {
				if c != fn {
					continue
				}
				nSites++
				ok2, w2 := requireUpward(r, caller, s.Instr.Block(), atoms, depth+1, append(trail, fmt.Sprintf("%s called from %s at %s", r.P.Name(fn), r.P.Name(caller), r.P.Pos(s.Instr.Pos()))))
				if !ok2 {
					return false, w2
				}
			}
		}
	}
	if nSites == 0 {
		return false, append(append(trail, "in "+r.P.Name(fn)+" (no caller establishes it):"), w...)
	}
	return true, nil
}

// successReturnIn: like successReturn, but a returned error value that is known non-nil on every path to the
// return (the block is reached only through `v != nil`) is an error exit.
func successReturnIn(r *core.Run, fn *ssa.Function, b *ssa.BasicBlock) bool {
	if !successReturn(b) {
		return false
	}
	ret := b.Instrs[len(b.Instrs)-1].(*ssa.Return)
	if len(ret.Results) == 0 {
		return true
	}
	last := ret.Results[len(ret.Results)-1]
	if !isErrorType(last.Type()) {
		return true
	}
	if c, ok := last.(*ssa.Const); ok && c.Value == nil {
		return true
	}
	return !errNonNilAt(r, fn, b, last, 0)
}

// errNonNilAt: the error value is non-nil whenever block b is reached.
func errNonNilAt(r *core.Run, fn *ssa.Function, b *ssa.BasicBlock, v ssa.Value, depth int) bool {
	if depth > 4 {
		return false
	}
	if definitelyNonNil(v, 0) {
		return true
	}
	if c, ok := v.(*ssa.Call); ok && len(c.Call.Args) > 0 {
		name := ""
		if sc := c.Call.StaticCallee(); sc != nil {
			name = sc.Name()
		} else if u, ok := c.Call.Value.(*ssa.UnOp); ok {
			if g, ok := u.X.(*ssa.Global); ok {
				name = g.Name()
			}
		}
		if name == "Wrap" || name == "Wrapf" {
			return errNonNilAt(r, fn, b, c.Call.Args[0], depth+1)
		}
	}
	if mi, ok := v.(*ssa.ChangeInterface); ok {
		return errNonNilAt(r, fn, b, mi.X, depth+1)
	}
	ck := &guard.Checker{P: r.P, Fn: fn, Res: r.Resolver(fn)}
	t := r.Resolver(fn).Of(v).String()
	ok, _ := ck.MustPass(b, []guard.Atom{guard.Ne(guard.Exact(t), "nil")})
	return ok
}

// rangedOver: for a range-over-slice loop (header test `i+1 < len(X)`), the term of X with memory markers
// removed; "" for other loops. The term is that of the slice itself, so callers can require e.g. a field access
// `<record>.Shards` rather than any value whose derivation mentions one.
func rangedOver(r *core.Run, f *ssa.Function, l *cfgx.Loop) string {
	iff := cfgx.IfOf(l.Header)
	if iff == nil {
		return ""
	}
	bo, ok := iff.Cond.(*ssa.BinOp)
	if !ok {
		return ""
	}
	lc, ok := bo.Y.(*ssa.Call)
	if !ok || len(lc.Call.Args) != 1 {
		return ""
	}
	if bi, ok := lc.Call.Value.(*ssa.Builtin); !ok || bi.Name() != "len" {
		return ""
	}
	return normT(r.Resolver(f).Of(lc.Call.Args[0]).String())
}

// rangesField: the loop ranges over a field access ending in .<field> (not a derived list).
func rangesField(r *core.Run, f *ssa.Function, l *cfgx.Loop, field string) bool {
	t := rangedOver(r, f, l)
	return t != "" && strings.HasSuffix(t, "."+field) && !strings.HasPrefix(t, "phi(") && !strings.HasPrefix(t, "builtin.append(")
}

// pathDesc renders a block path as source positions.
func pathDesc(r *core.Run, path []*ssa.BasicBlock) string {
	var ps []string
	for _, b := range path {
		for _, ins := range b.Instrs {
			if ins.Pos().IsValid() {
				ps = append(ps, r.P.Pos(ins.Pos()))
				break
			}
		}
	}
	return "path: " + strings.Join(ps, " -> ")
}

// ruleLoopVarAddr (T-loopvar): the address of a variable that is re-assigned on
// every iteration of a loop (a range/loop variable under the module's Go <1.22
// semantics: one variable per loop) is stored into a slice, field or map inside
// that loop. Every stored pointer then refers to the same variable, i.e. to the
// last element: per-element work done later through those pointers is applied
// to the last element only (e.g. only the last revoked account is unbound).
func ruleLoopVarAddr(r *core.Run, id string, roots ...string) {
	var rs []*ssa.Function
	for _, rt := range r.Roots {
		for _, pfx := range roots {
			if rt.Consensus() && strings.HasPrefix(r.P.Name(rt.Fn), pfx) {
				rs = append(rs, rt.Fn)
			}
		}
	}
	scope := r.P.CG.Reach(rs...)
	nLoops, nBad := 0, 0
	for _, f := range r.P.SortedFuncs(scope) {
		if r.P.IsGenerated(f) || len(f.Blocks) == 0 {
			continue
		}
		for _, l := range cfgx.Loops(f) {
			nLoops++
			for _, b := range f.Blocks {
				if !l.Body[b] {
					continue
				}
				for _, ins := range b.Instrs {
					st, ok := ins.(*ssa.Store)
					if !ok {
						continue
					}
					al, ok := st.Val.(*ssa.Alloc)
					if !ok || l.Body[al.Block()] {
						continue // not an address, or a variable that is fresh in every iteration
					}
					if _, toLocal := st.Addr.(*ssa.Alloc); toLocal {
						continue // p := &v (pointer kept in a local): only flows further through other stores
					}
					// re-assigned inside the loop?
					reassigned := false
					for _, ref := range *al.Referrers() {
						if s2, ok := ref.(*ssa.Store); ok && s2.Addr == al && l.Body[s2.Block()] {
							reassigned = true
						}
					}
					if !reassigned {
						continue
					}
					nBad++
					r.Violate(id, core.Key(id, r.KeyName(f), "&"+al.Comment), r.P.Pos(st.Pos()), fmt.Sprintf("%s stores the address of %s, a variable re-assigned on every iteration of the enclosing loop (one variable per loop under this module's Go version), into a slice/field inside that loop: all stored pointers alias the last element, so what is later done \"for each\" of them happens to the last one only", r.P.Name(f), al.Comment))
				}
			}
		}
	}
	r.Discharge(id, core.Key(id, "scope"), "", fmt.Sprintf("%d loops in %d functions scanned, %d escaping loop-variable addresses", nLoops, len(scope), nBad))
	r.Floor("loopvar_loops_scanned", nLoops, 5)
}

// lostUpdateCandidates: in function f a record is read from store prefix P into a
// local (call g1 with a read effect on P whose result feeds a later write call),
// then a module helper that itself writes P is called, then the stale local is
// written back to P. Returns descriptions (used by T-lost-update).
type lostUpdate struct {
	Fn              *ssa.Function
	Prefix          string
	Read, Mid, Back ssa.CallInstruction
}

func lostUpdates(r *core.Run, f *ssa.Function) []lostUpdate {
	res := r.Resolver(f)
	type callInfo struct {
		c      ssa.CallInstruction
		reads  map[string]bool
		writes map[string]bool
		direct bool // the callee itself is the accessor (getter/setter): its own effects, not transitive
	}
	var calls []callInfo
	for _, b := range f.Blocks {
		for _, ins := range b.Instrs {
			c, ok := ins.(ssa.CallInstruction)
			if !ok {
				continue
			}
			_, cs := res.CalleeName(c.Common())
			if len(cs) == 0 {
				continue
			}
			ci := callInfo{c: c, reads: map[string]bool{}, writes: map[string]bool{}}
			for _, e := range r.Eff.Reach(cs...) {
				if !strings.HasPrefix(e.Kind, "store.") || e.Prefix == "?" {
					continue
				}
				p := eff.StoreOwner(e) + ":" + e.Prefix
				if e.IsWrite() {
					ci.writes[p] = true
				} else {
					ci.reads[p] = true
				}
			}
			if len(ci.reads)+len(ci.writes) > 0 {
				calls = append(calls, ci)
			}
		}
	}
	reach := func(from, to ssa.Instruction) bool {
		if from.Block() == to.Block() {
			fi, ti := -1, -1
			for i, ins := range from.Block().Instrs {
				if ins == from {
					fi = i
				}
				if ins == to {
					ti = i
				}
			}
			if fi < ti {
				return true
			}
		}
		return forwardAvoid(from.Block(), nil, nil, func(b *ssa.BasicBlock) bool { return b == to.Block() && b != from.Block() }) != nil
	}
	reachAvoiding := func(from, to ssa.Instruction, avoid *ssa.BasicBlock) bool {
		if from.Block() == to.Block() {
			return reach(from, to)
		}
		blocked := map[*ssa.BasicBlock]bool{}
		if avoid != from.Block() && avoid != to.Block() {
			blocked[avoid] = true
		}
		return forwardAvoid(from.Block(), blocked, nil, func(b *ssa.BasicBlock) bool { return b == to.Block() }) != nil
	}
	dependsOn := func(v ssa.Value, src ssa.Value) bool {
		seen := map[ssa.Value]bool{}
		var walk func(x ssa.Value, d int) bool
		walk = func(x ssa.Value, d int) bool {
			if x == src {
				return true
			}
			if d > 6 || seen[x] {
				return false
			}
			seen[x] = true
			switch y := x.(type) {
			case *ssa.UnOp:
				if al, ok := y.X.(*ssa.Alloc); ok {
					for _, ref := range *al.Referrers() {
						if st, ok := ref.(*ssa.Store); ok && st.Addr == al && walk(st.Val, d+1) {
							return true
						}
					}
				}
				return walk(y.X, d+1)
			case *ssa.Extract:
				return walk(y.Tuple, d+1)
			case *ssa.Alloc:
				for _, ref := range *y.Referrers() {
					if st, ok := ref.(*ssa.Store); ok && st.Addr == y && walk(st.Val, d+1) {
						return true
					}
				}
			case *ssa.MakeInterface:
				return walk(y.X, d+1)
			case *ssa.Phi:
				for _, e := range y.Edges {
					if walk(e, d+1) {
						return true
					}
				}
			}
			return false
		}
		return walk(v, 0)
	}
	var out []lostUpdate
	for _, rd := range calls {
		rv, isVal := rd.c.(ssa.Value)
		if !isVal || len(rd.writes) > 0 || len(rd.reads) != 1 {
			continue // a pure getter of one prefix
		}
		var P string
		for p := range rd.reads {
			P = p
		}
		for _, back := range calls {
			if !back.writes[P] || len(back.writes) != 1 || back.c == rd.c {
				continue
			}
			// the write-back stores a value derived from the getter's result
			derived := false
			for _, a := range back.c.Common().Args {
				if dependsOn(a, rv) {
					derived = true
				}
			}
			if !derived || !reach(rd.c, back.c) {
				continue
			}
			for _, mid := range calls {
				if mid.c == rd.c || mid.c == back.c || !mid.writes[P] || !mid.reads[P] {
					continue // the helper loads and stores records of P itself
				}
				// ... and is told WHICH record by a scalar key taken from the local copy (or equal to the getter's key)
				keyed := false
				rdArgs := map[string]bool{}
				for _, a := range rd.c.Common().Args {
					rdArgs[res.Of(a).String()] = true
				}
				for _, a := range mid.c.Common().Args {
					if _, isBasic := a.Type().Underlying().(*types.Basic); !isBasic {
						continue
					}
					if rdArgs[res.Of(a).String()] {
						keyed = true
					}
					if fl, ok := a.(*ssa.Field); ok && dependsOn(fl.X, rv) {
						keyed = true
					}
					if u, ok := a.(*ssa.UnOp); ok {
						if fa, ok := u.X.(*ssa.FieldAddr); ok && dependsOn(fa.X, rv) {
							keyed = true
						}
					}
				}
				if !keyed {
					continue
				}
				// the helper is not handed the local by reference (then it updates the same copy)
				byRef := false
				for _, a := range mid.c.Common().Args {
					if _, isPtr := a.Type().Underlying().(*types.Pointer); isPtr && dependsOn(a, rv) {
						byRef = true
					}
					if al, ok := a.(*ssa.Alloc); ok && dependsOn(al, rv) {
						byRef = true
					}
				}
				if byRef {
					continue
				}
				if reach(rd.c, mid.c) && reachAvoiding(mid.c, back.c, rd.c.Block()) {
					// re-read in between?
					reread := false
					for _, rr := range calls {
						if rr.c != rd.c && rr.reads[P] && len(rr.writes) == 0 && reach(mid.c, rr.c) && reach(rr.c, back.c) {
							if rrv, ok := rr.c.(ssa.Value); ok {
								for _, a := range back.c.Common().Args {
									if dependsOn(a, rrv) {
										reread = true
									}
								}
							}
						}
					}
					if !reread {
						out = append(out, lostUpdate{f, P, rd.c, mid.c, back.c})
					}
				}
			}
		}
	}
	return out
}

// unpersisted: stores to fields of a local record (an Alloc of one of the given
// named struct types) from which a success return is reachable without passing a
// call that receives the record (by value or address) and can write the store.
type unpersistedSite struct {
	Fn    *ssa.Function
	Store ssa.Instruction
	Type  string
	Field string
	Path  []*ssa.BasicBlock
}

func unpersisted(r *core.Run, f *ssa.Function, typeNames map[string]bool) []unpersistedSite {
	res := r.Resolver(f)
	var out []unpersistedSite
	succ := map[*ssa.BasicBlock]bool{}
	for _, b := range f.Blocks {
		if isReturnBlock(b) && successReturnIn(r, f, b) {
			succ[b] = true
		}
	}
	if len(succ) == 0 {
		return nil
	}
	// persist calls per alloc
	persistBlocks := func(al *ssa.Alloc) map[*ssa.BasicBlock][]int {
		m := map[*ssa.BasicBlock][]int{}
		for _, b := range f.Blocks {
			for i, ins := range b.Instrs {
				c, ok := ins.(ssa.CallInstruction)
				if !ok {
					continue
				}
				uses := false
				for _, a := range c.Common().Args {
					if a == ssa.Value(al) {
						uses = true
					}
					if u, ok := a.(*ssa.UnOp); ok && u.X == ssa.Value(al) {
						uses = true
					}
				}
				if !uses {
					continue
				}
				_, cs := res.CalleeName(c.Common())
				if len(cs) > 0 && persistsRecord(r, cs, shortTypeName(al.Type())) {
					m[b] = append(m[b], i)
				}
			}
		}
		return m
	}
	// the record may also be returned to the caller (the caller persists it)
	returned := func(al *ssa.Alloc) bool {
		for _, b := range f.Blocks {
			if ret, ok := b.Instrs[len(b.Instrs)-1].(*ssa.Return); ok {
				for _, v := range ret.Results {
					if v == ssa.Value(al) {
						return true
					}
					if u, ok := v.(*ssa.UnOp); ok && u.X == ssa.Value(al) {
						return true
					}
				}
			}
		}
		return false
	}
	for _, b := range f.Blocks {
		for i, ins := range b.Instrs {
			var al *ssa.Alloc
			var st ssa.Instruction
			field := ""
			switch x := ins.(type) {
			case *ssa.Store:
				fa, ok := x.Addr.(*ssa.FieldAddr)
				if !ok {
					continue
				}
				// innermost record: walk nested FieldAddr up to the Alloc
				root := fa.X
				for {
					if f2, ok := root.(*ssa.FieldAddr); ok {
						root = f2.X
						continue
					}
					break
				}
				a, ok := root.(*ssa.Alloc)
				if !ok {
					continue
				}
				al, st, field = a, x, fieldPath(fa)
			case ssa.CallInstruction:
				// the record handed by pointer to a function that assigns fields of it (and does not persist it)
				for j, a := range x.Common().Args {
					a2, ok := a.(*ssa.Alloc)
					if !ok || x.Common().IsInvoke() {
						continue
					}
					g := x.Common().StaticCallee()
					if g == nil || !typeNames[shortTypeName(a2.Type())] {
						continue
					}
					if fl := mutatedFields(r, g, j, 0); len(fl) > 0 && !persistsRecord(r, []*ssa.Function{g}, shortTypeName(a2.Type())) {
						al, st, field = a2, x, shortTypeName(a2.Type())+"."+fl[0]+" (assigned in "+r.P.Name(g)+")"
					}
				}
				if al == nil {
					continue
				}
			default:
				continue
			}
			tn := shortTypeName(al.Type())
			if !typeNames[tn] {
				continue
			}
			// only records that came from the store (initialised by a getter result), not fresh literals
			fromStore := false
			for _, ref := range *al.Referrers() {
				if s2, ok := ref.(*ssa.Store); ok && s2.Addr == ssa.Value(al) {
					v := s2.Val
					if ex, ok := v.(*ssa.Extract); ok {
						v = ex.Tuple
					}
					if c, ok := v.(*ssa.Call); ok {
						if _, cs := res.CalleeName(&c.Call); len(cs) > 0 && !hasWrites(r, cs) {
							fromStore = true
						}
					}
				}
			}
			if !fromStore || returned(al) {
				continue
			}
			pb := persistBlocks(al)
			if len(pb) == 0 {
				continue // never persisted at all in this function: a scratch copy
			}
			same := false
			for _, j := range pb[b] {
				if j > i {
					same = true
				}
			}
			if same {
				continue
			}
			blocked := map[*ssa.BasicBlock]bool{}
			for x := range pb {
				if x != b {
					blocked[x] = true
				}
			}
			if path := forwardAvoid(b, blocked, nil, func(x *ssa.BasicBlock) bool { return succ[x] }); path != nil {
				out = append(out, unpersistedSite{f, st, tn, field, path})
			}
		}
	}
	return out
}

// persistsRecord: the callees (transitively) write the store prefix that holds records of the named type
// ("<Type>/value/"); when the module has no such prefix at all, any store write counts.
func persistsRecord(r *core.Run, cs []*ssa.Function, typeName string) bool {
	base := typeName
	if i := strings.LastIndex(base, "."); i >= 0 {
		base = base[i+1:]
	}
	pfx := base + "/value/"
	for _, e := range r.Eff.Reach(cs...) {
		if e.Kind == "store.set" && e.Prefix == pfx {
			return true
		}
	}
	known := false
	for _, f := range r.P.SortedFuncs(r.ConsensusFuncs()) {
		for _, e := range r.Eff.Own[f] {
			if e.Kind == "store.set" && e.Prefix == pfx {
				known = true
			}
		}
	}
	if known {
		return false
	}
	return hasWrites(r, cs)
}

// mutatedFields: names of fields of the record behind pointer parameter idx that g assigns (directly or by handing the
// pointer on).
func mutatedFields(r *core.Run, g *ssa.Function, idx int, depth int) []string {
	if g == nil || idx >= len(g.Params) || depth > 3 || len(g.Blocks) == 0 {
		return nil
	}
	p := g.Params[idx]
	if _, isPtr := p.Type().Underlying().(*types.Pointer); !isPtr {
		return nil
	}
	seen := map[string]bool{}
	var out []string
	for _, b := range g.Blocks {
		for _, ins := range b.Instrs {
			switch x := ins.(type) {
			case *ssa.Store:
				fa, ok := x.Addr.(*ssa.FieldAddr)
				if !ok {
					continue
				}
				root := fa.X
				name := fieldNameT(fa.X.Type(), fa.Field)
				for {
					if f2, ok := root.(*ssa.FieldAddr); ok {
						name = fieldNameT(f2.X.Type(), f2.Field)
						root = f2.X
						continue
					}
					break
				}
				if root == ssa.Value(p) && !seen[name] {
					seen[name] = true
					out = append(out, name)
				}
			case ssa.CallInstruction:
				if x.Common().IsInvoke() {
					continue
				}
				for j, a := range x.Common().Args {
					if a == ssa.Value(p) {
						for _, n := range mutatedFields(r, x.Common().StaticCallee(), j, depth+1) {
							if !seen[n] {
								seen[n] = true
								out = append(out, n)
							}
						}
					}
				}
			}
		}
	}
	return out
}

// helperResponds: every path from the entry of helper h to a return passes a call of one of respCalls (directly or
// through such a helper again) or an edge on which one of respAtoms holds (atoms are in the caller's vocabulary:
// the helper's parameters are replaced by the argument terms of the call).
func helperResponds(r *core.Run, caller *ssa.Function, call ssa.CallInstruction, h *ssa.Function, respCalls []string, respAtoms []guard.Atom, depth int) bool {
	if depth > 2 || len(h.Blocks) == 0 {
		return false
	}
	cres := r.Resolver(caller)
	subst := make([]string, len(h.Params))
	for i, a := range call.Common().Args {
		if i < len(subst) {
			subst[i] = normT(cres.Of(a).String())
		}
	}
	hk := &guard.Checker{P: r.P, Fn: h, Res: r.Resolver(h), Subst: subst}
	respB := blocksCalling(r, h, respCalls...)
	for _, b := range h.Blocks {
		for _, ins := range b.Instrs {
			if c, ok := ins.(ssa.CallInstruction); ok {
				if g := c.Common().StaticCallee(); g != nil && g != h && r.P.Transparent(g) && helperResponds(r, h, c, g, respCalls, respAtoms, depth+1) {
					respB[b] = true
				}
			}
		}
	}
	respE := hk.PassEdges(respAtoms)
	if len(respB) == 0 && len(respE) == 0 {
		return false
	}
	if respB[h.Blocks[0]] {
		return true
	}
	return forwardAvoid(h.Blocks[0], respB, respE, isReturnBlock) == nil
}
