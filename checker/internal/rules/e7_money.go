package rules

import (
	"fmt"
	"go/token"
	"os"
	"regexp"
	"strings"

	"golang.org/x/tools/go/ssa"

	"saoverif/internal/cfgx"
	"saoverif/internal/core"
	"saoverif/internal/guard"
	"saoverif/internal/term"
)

// ---------------------------------------------------------------- E7: closed table of money flows

// flowRow describes one allowed bank call site.
type flowRow struct {
	Fn, Method string
	Mod        []string // constant module-name arguments, in order
	Party      string   // glob for the account counter-party ("" when module-to-module / mint)
	Amount     string   // glob for the coins argument
	Props      []string // which properties cite this row
	Why        string
}

func flowTable() []flowRow {
	pay := func(did string) string { return fPayAddr + "(" + did + ")#0" }
	return []flowRow{
		{"sao/keeper.msgServer.Store", "SendCoinsFromAccountToModule", []string{"order"}, "phi(" + pay("#2.Proposal.Owner") + "|phi(" + pay("#2.Proposal.PaymentDid") + "|nil))", "[*]", []string{"C04"}, "order charge: from the owner's or sponsor's payment address into order escrow"},
		{"order/keeper.Keeper.RenewOrder", "SendCoinsFromAccountToModule", []string{"market"}, pay("#2.Owner"), "[#2.Amount]", []string{"C04"}, "renewal charge: order.Amount from the owner's payment address into the market escrow"},
		{"market/keeper.Keeper.Deposit", "SendCoinsFromModuleToModule", []string{"order", "market"}, "", "[#2.Amount]", []string{"C04"}, "completion: the whole order amount moves from order escrow to market escrow"},
		{"market/keeper.Keeper.Withdraw", "SendCoinsFromModuleToModule", []string{"market", "order"}, "", "[sdk.DecCoin.TruncateDecimal(*)#0]", []string{"C04"}, "termination: unearned part back to order escrow"},
		{"order/keeper.Keeper.TerminateOrder", "SendCoinsFromModuleToAccount", []string{"order"}, pay(fGetOrder + "(#2)#0.Owner"), "[#3]", []string{"C04"}, "termination refund to the owner's payment address"},
		{"did/keeper.Keeper.SendCoinsFromModuleToDidBalances", "SendCoinsFromModuleToModule", []string{"#2", "did"}, "", "[#4]", []string{"C04", "C06"}, "termination refund held for a DID without payment address"},
		{"order/keeper.Keeper.RefundOrder", "SendCoinsFromModuleToAccount", []string{"order"}, pay("phi(" + fGetOrder + "(#2)#0.Owner|" + fGetOrder + "(#2)#0.PaymentDid)"), "[" + fGetOrder + "(#2)#0.Amount]", []string{"C04", "C05"}, "full refund of a cancelled order to its payer"},
		{"sao/keeper.Keeper.HandleTimeoutOrder", "SendCoinsFromModuleToAccount", []string{"market"}, pay(fGetOrder + "(#2)#0.Owner"), "[sdk.NewCoin(*)]", []string{"C04"}, "replica reduction refund to the owner's payment address"},
		{"node/keeper.msgServer.ClaimReward", "SendCoinsFromModuleToAccount", []string{"market"}, "node/types.MsgClaimReward.GetSigners(#2)[0]", "[market/keeper.Keeper.Claim(*,#2.Creator)#0]", []string{"C04", "C07"}, "storage income paid to the claiming provider (its own worker account)"},
		{"node/keeper.msgServer.ClaimReward", "SendCoinsFromModuleToAccount", []string{"node"}, "node/types.MsgClaimReward.GetSigners(#2)[0]", "[*TruncateDecimal(*.Reward)#0*]", []string{"C07", "C08"}, "block reward paid to the claiming provider"},
		{"node/keeper.msgServer.AddVstorage", "SendCoinsFromAccountToModule", []string{"node"}, "node/types.MsgAddVstorage.GetSigners(#2)[0]", "[sdk.NewCoin(*)]", []string{"C07"}, "capacity pledge taken from the signer"},
		{"node/keeper.msgServer.RemoveVstorage", "SendCoinsFromModuleToAccount", []string{"node"}, "node/types.MsgRemoveVstorage.GetSigners(#2)[0]", "[sdk.NewCoin(*)]", []string{"C07"}, "capacity pledge returned to the signer"},
		{"node/keeper.Keeper.ShardPledge", "SendCoinsFromAccountToModule", []string{"node"}, "sdk.MustAccAddressFromBech32(#2.Sp)", "*", []string{"C07"}, "shard collateral taken from the shard's provider"},
		{"node/keeper.Keeper.ShardRelease", "SendCoinsFromModuleToAccount", []string{"node"}, "#2", "[#3.Pledge]", []string{"C07"}, "shard collateral returned (net of recorded debt) to the address the caller names (checked per call site)"},
		{"sao/keeper.msgServer.Renew", "SendCoinsFromAccountToModule", []string{"node"}, "sdk.MustAccAddressFromBech32(elem(*).Sp)", "[*]", []string{"C07"}, "renewal top-up taken from the shard's provider"},
		{"node/keeper.Keeper.MintCoins", "MintCoins", []string{"node"}, "", "#2", []string{"C08"}, "block reward mint"},
	}
}

// ruleFlows: every bank mutator call site in consensus code matches a row; rows cited by prop are reported.
func ruleFlows(r *core.Run, prop string) {
	rows := flowTable()
	used := map[int]int{}
	n := 0
	for _, f := range r.P.SortedFuncs(r.ConsensusFuncs()) {
		cnt := map[string]int{}
		for _, e := range r.Eff.Own[f] {
			if !strings.HasPrefix(e.Kind, "bank.") {
				continue
			}
			n++
			cnt[e.Method]++
			key := core.Key("E7-flow", r.KeyName(f), fmt.Sprintf("%s#%d", e.Method, cnt[e.Method]))
			var args []string
			for _, a := range e.Args {
				args = append(args, normT(a.String()))
			}
			matched, why := matchFlowRow(rows, r.P.Name(f), e.Method, args)
			if matched < 0 {
				// the call may have been moved into a helper of a tabled function: re-read it in each caller's vocabulary
				if m2, ok := matchThroughCallers(r, rows, f, e.Method, args); ok {
					matched = m2
				}
			}
			if matched >= 0 {
				used[matched]++
				r.Discharge("E7-flow", key, r.P.Pos(e.Instr.Pos()), rows[matched].Why)
			} else {
				r.Violate("E7-flow", key, r.P.Pos(e.Instr.Pos()), fmt.Sprintf("bank.%s(%s) in %s is not in the closed table of money flows (%s): escrowed money may leave to a party, or in an amount, the records do not account for", e.Method, shorten(strings.Join(args, " ; ")), r.P.Name(f), why))
			}
		}
	}
	for i, row := range rows {
		if used[i] == 0 {
			r.Notes = append(r.Notes, "flow table row not matched on this tree (site removed?): "+row.Fn+" "+row.Method)
		}
	}
	r.Floor("bank_call_sites", n, 19)
}

// matchFlowRow: index of the first row of fnName/method that the argument terms satisfy, or -1 and why not.
var reDeref = regexp.MustCompile(`(^|[(,\[])\*`)

func matchFlowRow(rows []flowRow, fnName, method string, args []string) (int, string) {
	matched := -1
	why := "no row for this function/method"
	for i, row := range rows {
		if row.Fn != fnName || row.Method != method {
			continue
		}
		// split args: module names are string constants / params per moduleArgPositions; rest: party, amount
		pos := moduleArgPositions(method)
		isMod := map[int]bool{}
		for _, p := range pos {
			isMod[p] = true
		}
		var mods, rest []string
		for j, a := range args {
			if isMod[j] {
				mods = append(mods, strings.Trim(a, `"`))
			} else {
				rest = append(rest, a)
			}
		}
		ok := len(mods) == len(row.Mod)
		for j := range mods {
			if ok && mods[j] != row.Mod[j] {
				ok = false
				why = fmt.Sprintf("module accounts %v differ from the table's %v", mods, row.Mod)
			}
		}
		party, amount := "", ""
		if len(rest) == 2 {
			party, amount = rest[0], rest[1]
		} else if len(rest) == 1 {
			amount = rest[0]
		}
		// a value reached through a pointer parameter of a helper is rendered with a dereference mark: the record
		// is the same one
		party, amount = reDeref.ReplaceAllString(party, "$1"), reDeref.ReplaceAllString(amount, "$1")
		party, amount = term.FlattenPhi(party), term.FlattenPhi(amount)
		if ok && row.Party != "" && !guard.Glob(term.FlattenPhi(normT(row.Party))).MatchString(party) {
			ok = false
			why = "counter-party " + shorten(party) + " is not " + row.Party
		}
		if ok && !guard.Glob(term.FlattenPhi(normT(row.Amount))).MatchString(amount) {
			ok = false
			why = "amount " + shorten(amount) + " is not of the form " + row.Amount
		}
		if ok {
			matched = i
			break
		}
	}
	return matched, why
}

// matchThroughCallers: f has no row of its own; every consensus caller's instantiation of the call (f's parameter
// tokens replaced by the caller's argument terms) must match a row of that caller.
func matchThroughCallers(r *core.Run, rows []flowRow, f *ssa.Function, method string, args []string) (int, bool) {
	return matchThroughCallersD(r, rows, f, method, args, 0)
}

func matchThroughCallersD(r *core.Run, rows []flowRow, f *ssa.Function, method string, args []string, depth int) (int, bool) {
	if depth > 3 {
		return -1, false
	}
	found := -1
	n := 0
	for _, caller := range r.P.CG.In[f] {
		if !r.ConsensusFuncs()[caller] {
			continue
		}
		cres := r.Resolver(caller)
		for _, site := range r.P.CG.Sites[caller] {
			hit := false
			for _, c := range site.Callees {
				if c == f {
					hit = true
				}
			}
			if !hit {
				continue
			}
			n++
			off := 0
			if site.Instr.Common().IsInvoke() {
				off = 1
			}
			subst := make([]string, len(f.Params))
			for i, a := range site.Instr.Common().Args {
				if i+off < len(subst) {
					subst[i+off] = normT(cres.Of(a).String())
				}
			}
			inst := make([]string, len(args))
			for i, a := range args {
				inst[i] = normT(guard.SubstParams(a, subst))
			}
			m, why := matchFlowRow(rows, r.P.Name(caller), method, inst)
			if os.Getenv("SAODEBUG") == "flow" {
				fmt.Fprintf(os.Stderr, "flow: %s <- %s depth=%d inst=%v m=%d why=%s\n", r.P.Name(f), r.P.Name(caller), depth, inst, m, why)
			}
			if m < 0 {
				// the caller may itself be a helper of a tabled function
				m2, ok := matchThroughCallersD(r, rows, caller, method, inst, depth+1)
				if !ok {
					return -1, false
				}
				m = m2
			}
			found = m
		}
	}
	return found, n > 0 && found >= 0
}

// ruleShardReleaseCallers: at every call ShardRelease(sp, shard) with a non-nil shard, sp is the address of shard.Sp
// (same shard value) or the key under which the shard was looked up.
func ruleShardReleaseCallers(r *core.Run) {
	n := 0
	for _, f := range r.P.SortedFuncs(r.ConsensusFuncs()) {
		res := r.Resolver(f)
		for i, c := range callsIn(r, f, fShardRel) {
			call, ok := c.(*ssa.Call)
			if !ok {
				continue
			}
			t := res.Of(call)
			if len(t.Args) != 2 {
				continue
			}
			n++
			key := core.Key("E7-release", r.KeyName(f), fmt.Sprintf("ShardRelease#%d recipient", i+1))
			sp, sh := normT(t.Args[0].String()), normT(t.Args[1].String())
			if sh == "nil" {
				r.Discharge("E7-release", key, r.P.Pos(call.Pos()), "nil shard: settles the caller's reward only, releases nothing")
				continue
			}
			okForm := false
			// form 1: sp == MustAcc(<shard>.Sp) for the same shard value
			if sp == "sdk.MustAccAddressFromBech32("+sh+".Sp)" {
				okForm = true
			}
			// form 2: shard == GetOrderShardBySP(o, K) and sp == MustAcc(K)
			if strings.HasPrefix(sh, fShardBySP+"(") && strings.HasPrefix(sp, "sdk.MustAccAddressFromBech32(") {
				k := strings.TrimSuffix(strings.TrimPrefix(sp, "sdk.MustAccAddressFromBech32("), ")")
				if strings.HasSuffix(sh, ","+k+")") {
					okForm = true
				}
			}
			if okForm {
				r.Discharge("E7-release", key, r.P.Pos(call.Pos()), "collateral of the shard goes to the provider recorded in / used to look up that same shard")
			} else {
				r.Violate("E7-release", key, r.P.Pos(call.Pos()), fmt.Sprintf("ShardRelease pays the collateral of shard %s to %s, which is not the provider of that shard", shorten(sh), shorten(sp)))
			}
		}
	}
	r.Floor("shardrelease_call_sites", n, 5)
}

// ruleWithdrawClass (T-refund-class): in market.Withdraw every contribution
// added to the refund inside the per-shard loop is classified by the shard's
// status: the price of the full order duration only for a shard that never
// started (waiting), the price of the remaining term only for a completed shard
// of this order. A shard in any other state (migrating = the in-flight copy of
// a replica that is already settled through the old shard, timeout, terminated)
// contributes nothing. This is the structural part of "refund + income = charge".
func ruleWithdrawClass(r *core.Run) {
	const id = "T-refund-class"
	fn := r.Func(id, "market/keeper.Keeper.Withdraw")
	if fn == nil {
		return
	}
	waiting := constVal(r, "order/types", "ShardWaiting")
	completed := constVal(r, "order/types", "ShardCompleted")
	status := "*order/keeper.Keeper.GetShard(*)#0.Status"
	n := 0
	cnt := map[string]int{}
	// the per-shard loop may have been moved into a helper: every frame under Withdraw is searched, terms and
	// guards are expressed in Withdraw's vocabulary (#2 = the order)
	all := frames(r, fn)
	// inShardLoop: at some level of the frame chain the instruction sits in a loop ranging over an order's Shards
	inShardLoop := func(fr frame, ins ssa.Instruction) bool {
		fns := fr.Fns(fn)
		for lvl := range fns {
			g := fns[lvl]
			at := fr.At(lvl, ins)
			var gfr *frame
			for _, x := range all {
				if x.Fn == g && len(x.Chain) == lvl {
					same := true
					for i := range x.Chain {
						if x.Chain[i] != fr.Chain[i] {
							same = false
						}
					}
					if same {
						y := x
						gfr = &y
					}
				}
			}
			for _, l := range cfgx.Loops(g) {
				if !l.Body[at.Block()] {
					continue
				}
				ro := rangedOver(r, g, l)
				if gfr != nil {
					ro = normT(gfr.Sub(ro))
				}
				if ro != "" && strings.HasSuffix(ro, ".Shards") && !strings.HasPrefix(ro, "phi(") && !strings.HasPrefix(ro, "builtin.append(") {
					return true
				}
			}
		}
		return false
	}
	for _, fr := range all {
		res := r.Resolver(fr.Fn)
		{
			for _, b := range fr.Fn.Blocks {
				for _, ins := range b.Instrs {
					c, ok := ins.(*ssa.Call)
					if !ok || !inShardLoop(fr, c) {
						continue
					}
					name, _ := res.CalleeName(&c.Call)
					if name != "sdk.Dec.Add" || len(c.Call.Args) != 2 {
						continue
					}
					n++
					t := fr.T(r, c.Call.Args[1])
					class, atoms := "unclassified", []guard.Atom{guard.Eq(status, waiting), guard.Eq(status, completed)}
					switch {
					case strings.Contains(t, "int64(#2.Duration)"):
						class, atoms = "full-term", []guard.Atom{guard.Eq(status, waiting)}
					case strings.Contains(t, ".CreatedAt"):
						class, atoms = "remaining-term", []guard.Atom{guard.Eq(status, completed)}
					}
					cnt[class]++
					key := core.Key(id, "market/keeper.Keeper.Withdraw", fmt.Sprintf("%s#%d", class, cnt[class]))
					site := effSite{Ins: c, Chain: fr.Chain}
					ok2, w := mustPassDeep(r, fn, site, atoms)
					if ok2 && class == "remaining-term" {
						// conjunction, in either order: the shard also belongs to this order's paid period
						ok2, w = mustPassDeep(r, fn, site, []guard.Atom{guard.Eq("*order/keeper.Keeper.GetShard(*)#0.OrderId", "#2.Id")})
					}
					switch {
					case ok2:
						r.Discharge(id, key, r.P.Pos(c.Pos()), "the "+class+" contribution is added only under "+atoms[0].Desc)
					case len(w) == 1 && w[0] == guard.StateBound:
						r.Undecide(id, key, r.P.Pos(c.Pos()), "abstract-state bound exceeded")
					default:
						r.Violate(id, key, r.P.Pos(c.Pos()), fmt.Sprintf("Withdraw adds a %s refund contribution for a shard without establishing %s: a shard in another state (e.g. the migrating copy of a replica that is settled through its old shard) is refunded as if it were an unstarted replica, so refund + provider income exceeds what the order was charged and the market escrow pays it from other orders' money", class, atoms[0].Desc), append([]string{"path (branch decisions):"}, w...)...)
					}
				}
			}
		}
	}
	r.Floor("refund_contributions", n, 2)
}

// ruleReplicaGiveUp (T-replica-dec): when the timeout handler gives missing
// replicas up and refunds them, Order.Replica is lowered by a counter that is
// incremented exactly for the shards that are still waiting (one per live,
// unserved replica). Stale records of earlier re-assignments (status timeout)
// or in-flight migrations are not replicas: counting them refunds replicas that
// are still stored and earning.
func ruleReplicaGiveUp(r *core.Run) {
	const id = "T-replica-dec"
	fnName := "sao/keeper.Keeper.HandleTimeoutOrder"
	fn := r.Func(id, fnName)
	if fn == nil {
		return
	}
	n := 0
	// the decrement may sit in a helper extracted from the handler: every frame is searched
	for _, fr := range frames(r, fn) {
		res := r.Resolver(fr.Fn)
		for _, b := range fr.Fn.Blocks {
			for _, ins := range b.Instrs {
				st, ok := ins.(*ssa.Store)
				if !ok {
					continue
				}
				fa, ok := st.Addr.(*ssa.FieldAddr)
				if !ok || fieldPath(fa) != "order/types.Order.Replica" {
					continue
				}
				bo, ok := st.Val.(*ssa.BinOp)
				if !ok || bo.Op != token.SUB {
					continue
				}
				n++
				key := core.Key(id, fnName, fmt.Sprintf("Replica decrement#%d", n))
				okCounter, why := countsWaiting(r, fn, fr, bo.Y, 0)
				if why == "" {
					why = "the amount subtracted (" + shorten(normT(res.Of(bo.Y).String())) + ") is not a counter"
				}
				if okCounter {
					r.Discharge(id, key, r.P.Pos(st.Pos()), "Replica is lowered by the number of shards found waiting")
				} else {
					r.Violate(id, key, r.P.Pos(st.Pos()), "the timeout handler lowers Order.Replica (and refunds price x size x duration per replica from the market escrow) by something other than the number of shards still waiting: "+why+". Records of earlier re-assignments (status timeout) or in-flight migrations are not replicas; counting them refunds replicas that are stored and earning, so the market escrow owes its providers more than it holds")
				}
			}
		}
	}
	r.Floor("replica_decrements", n, 1)
}

// parentFrame: the frame of the caller that leads to fr (nil for the anchor's own frame).
func parentFrame(r *core.Run, anchor *ssa.Function, fr frame) *frame {
	if len(fr.Chain) == 0 {
		return nil
	}
	for _, p := range frames(r, anchor) {
		if len(p.Chain) != len(fr.Chain)-1 {
			continue
		}
		same := true
		for i := range p.Chain {
			if p.Chain[i] != fr.Chain[i] {
				same = false
			}
		}
		if same {
			q := p
			return &q
		}
	}
	return nil
}

// countsWaiting: the value is the number of shards found in waiting status — a counter incremented only under
// shard.Status == ShardWaiting, or the length of a list that collects only such shards; a helper's parameter is
// followed to the argument of the call that leads there.
func countsWaiting(r *core.Run, anchor *ssa.Function, fr frame, v ssa.Value, depth int) (bool, string) {
	waiting := guard.Eq("*order/keeper.Keeper.GetShard(*)#0.Status", constVal(r, "order/types", "ShardWaiting"))
	for {
		if c, ok := v.(*ssa.Convert); ok {
			v = c.X
			continue
		}
		break
	}
	switch x := v.(type) {
	case *ssa.Phi:
		ck := &guard.Checker{P: r.P, Fn: fr.Fn, Res: r.Resolver(fr.Fn)}
		incs := 0
		for w := range phiWeb(v) {
			add, ok := w.(*ssa.BinOp)
			if !ok || add.Op != token.ADD {
				continue
			}
			incs++
			if ok2, _ := ck.MustPass(add.Block(), []guard.Atom{waiting}); !ok2 {
				return false, "the counter subtracted is incremented at " + r.P.Pos(add.Pos()) + " without establishing shard.Status == ShardWaiting"
			}
		}
		if incs == 0 {
			return false, "the value subtracted is never incremented"
		}
		return true, ""
	case *ssa.Call:
		if bi, ok := x.Call.Value.(*ssa.Builtin); ok && bi.Name() == "len" && len(x.Call.Args) == 1 {
			l := x.Call.Args[0]
			if isCollected(r, l) && listFedOnlyUnderV(r, fr.Fn, l, guard.Eq("*.Status", constVal(r, "order/types", "ShardWaiting"))) {
				return true, ""
			}
			return false, "the length subtracted is that of a list that is not fed only with shards in waiting status"
		}
	case *ssa.Parameter:
		if p := parentFrame(r, anchor, fr); p != nil && depth < 3 {
			call := fr.Chain[len(fr.Chain)-1]
			for j, q := range fr.Fn.Params {
				if q == x && j < len(call.Common().Args) {
					return countsWaiting(r, anchor, *p, call.Common().Args[j], depth+1)
				}
			}
		}
	}
	return false, ""
}
