package rules

import (
	"fmt"
	"go/token"
	"go/types"
	"strings"

	"golang.org/x/tools/go/ssa"

	"saoverif/internal/core"
	"saoverif/internal/prog"
)

// ---------------------------------------------------------------- in-place mutation of bytes that are not the function's own
//
// Two kinds of slices must never be written in place by consensus code:
//
//   - what a KVStore / iterator hands back (Get, Value, Key): the SDK's cache layers and the IAVL node cache return
//     the very slice they hold, so a write changes the cached copy of committed state at once — in this process only,
//     and even when the transaction's cache branch is dropped afterwards (failed DeliverTx, simulation, CheckTx);
//   - the slice fields of the signed request: the signature was verified over the original bytes, what is stored
//     afterwards must be what was signed. `append(msg.A, msg.B...)` may share A's backing array.
//
// The rule is a may-alias taint inside one function: sources as above; propagated through φ, reslices, conversions
// and the result of append(tainted, ...); sinks are element stores, copy(dst, ..), and the sort package's in-place
// sorts.
func ruleNoInPlace(r *core.Run, id string, kind string, pkgPrefixes ...string) {
	nFuncs, nSrc := 0, 0
	// slices handed on to other module functions keep their taint: the parameter that receives one is a source in
	// the callee (two rounds: handler -> helper -> helper's helper)
	paramTaint := map[*ssa.Parameter]string{}
	reported := map[ssa.Instruction]bool{}
	for round := 0; round < 3; round++ {
		nFuncs, nSrc = 0, 0
		grew := false
		for _, f := range r.P.SortedFuncs(r.ConsensusFuncs()) {
			if r.P.IsGenerated(f) || len(f.Blocks) == 0 {
				continue
			}
			name := r.P.Name(f)
			in := len(pkgPrefixes) == 0
			for _, p := range pkgPrefixes {
				if strings.HasPrefix(name, p) {
					in = true
				}
			}
			if !in {
				continue
			}
			nFuncs++
			res := r.Resolver(f)
			tainted := map[ssa.Value]string{}
			isSource := func(v ssa.Value) string {
				switch kind {
				case "store":
					c, ok := v.(*ssa.Call)
					if !ok {
						return ""
					}
					if _, isSl := c.Type().Underlying().(*types.Slice); !isSl {
						return ""
					}
					n, _ := res.CalleeName(&c.Call)
					if (strings.HasSuffix(n, ".Get") || strings.HasSuffix(n, ".Value") || strings.HasSuffix(n, ".Key")) &&
						(strings.Contains(n, "Store") || strings.Contains(n, "Iterator") || strings.Contains(n, "KVStore")) {
						return "the bytes handed back by " + n
					}
				case "msg":
					u, ok := v.(*ssa.UnOp)
					if !ok || u.Op != token.MUL {
						return ""
					}
					if _, isSl := u.Type().Underlying().(*types.Slice); !isSl {
						return ""
					}
					base := u.X
					path := ""
					for {
						fa, ok := base.(*ssa.FieldAddr)
						if !ok {
							break
						}
						path = "." + fieldNameT(fa.X.Type(), fa.Field) + path
						base = fa.X
					}
					if p, ok := base.(*ssa.Parameter); ok && path != "" {
						tn := shortTypeName(p.Type())
						if strings.Contains(tn, ".Msg") || strings.Contains(tn, "Proposal") {
							return "the request field " + p.Name() + path
						}
					}
				}
				return ""
			}
			// sources
			for _, prm := range f.Params {
				if w := paramTaint[prm]; w != "" {
					tainted[prm] = w
				}
			}
			for _, b := range f.Blocks {
				for _, ins := range b.Instrs {
					if v, ok := ins.(ssa.Value); ok {
						if w := isSource(v); w != "" {
							tainted[v] = w
							nSrc++
						}
					}
				}
			}
			if len(tainted) == 0 {
				continue
			}
			// propagate
			for changed := true; changed; {
				changed = false
				for _, b := range f.Blocks {
					for _, ins := range b.Instrs {
						v, ok := ins.(ssa.Value)
						if !ok || tainted[v] != "" {
							continue
						}
						from := ""
						switch x := ins.(type) {
						case *ssa.Phi:
							for _, e := range x.Edges {
								if tainted[e] != "" {
									from = tainted[e]
								}
							}
						case *ssa.Slice:
							from = tainted[x.X]
						case *ssa.ChangeType:
							from = tainted[x.X]
						case *ssa.MakeInterface:
							from = tainted[x.X]
						case *ssa.Call:
							if bi, isB := x.Call.Value.(*ssa.Builtin); isB && bi.Name() == "append" && len(x.Call.Args) > 0 {
								from = tainted[x.Call.Args[0]]
							}
						}
						if from != "" {
							tainted[v] = from
							changed = true
						}
					}
				}
			}
			// hand-on: a tainted slice passed to a module function taints that parameter
			for _, b := range f.Blocks {
				for _, ins := range b.Instrs {
					ci, ok := ins.(ssa.CallInstruction)
					if !ok || ci.Common().IsInvoke() {
						continue
					}
					g := ci.Common().StaticCallee()
					if g == nil || len(g.Blocks) == 0 || g.Pkg == nil || !prog.InModule(g.Pkg.Pkg.Path()) {
						continue
					}
					for i, a := range ci.Common().Args {
						if w := tainted[a]; w != "" && i < len(g.Params) && paramTaint[g.Params[i]] == "" {
							paramTaint[g.Params[i]] = w + " (handed to " + r.P.Name(g) + ")"
							grew = true
						}
					}
				}
			}
			// sinks
			k := 0
			report := func(at ssa.Instruction, how, src string) {
				k++
				if reported[at] {
					return
				}
				reported[at] = true
				key := core.Key(id, r.KeyName(f), fmt.Sprintf("in-place write#%d", k))
				msg := ""
				if kind == "store" {
					msg = fmt.Sprintf("%s writes into %s (%s): the store's cache layers hand back the slice they hold, so this changes the cached copy of committed state immediately, in this process only, and is not undone when the transaction's cache branch is dropped (failed or simulated transaction) — replicas that did not see that transaction, or that restarted, read a different value", r.P.Name(f), src, how)
				} else {
					msg = fmt.Sprintf("%s writes into %s (%s) after the request was authenticated: the slice may share its backing array with the signed request (append re-uses spare capacity), so what is stored afterwards is no longer what the owner signed", r.P.Name(f), src, how)
				}
				r.Violate(id, key, r.P.Pos(at.Pos()), msg)
			}
			for _, b := range f.Blocks {
				for _, ins := range b.Instrs {
					switch x := ins.(type) {
					case *ssa.Store:
						if ia, ok := x.Addr.(*ssa.IndexAddr); ok && tainted[ia.X] != "" {
							report(x, "element assignment", tainted[ia.X])
						}
					case ssa.CallInstruction:
						cc := x.Common()
						if bi, isB := cc.Value.(*ssa.Builtin); isB {
							if bi.Name() == "copy" && len(cc.Args) > 0 && tainted[cc.Args[0]] != "" {
								report(x, "copy into it", tainted[cc.Args[0]])
							}
							continue
						}
						n, _ := res.CalleeName(cc)
						if strings.HasPrefix(n, "sort.") && len(cc.Args) > 0 && tainted[cc.Args[0]] != "" {
							switch n {
							case "sort.Strings", "sort.Ints", "sort.Float64s", "sort.Slice", "sort.SliceStable", "sort.Sort", "sort.Stable":
								report(x, n+" sorts in place", tainted[cc.Args[0]])
							}
						}
					}
				}
			}
		}
		if !grew {
			break
		}
	}
	r.Floor("inplace_"+kind+"_functions_scanned", nFuncs, 3)
	r.Floor("inplace_"+kind+"_sources", nSrc, 1)
}
