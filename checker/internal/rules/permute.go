package rules

import (
	"fmt"
	"strings"
	"go/token"
	"go/types"

	"golang.org/x/tools/go/ssa"

	"saoverif/internal/core"
	"saoverif/internal/guard"
	"saoverif/internal/term"
)

// rulePermute (T-permute): the candidate selection reorders the slice of eligible providers in place (heap sift). The
// random draw afterwards picks DISTINCT INDICES, so providers are distinct only if the reordering is a permutation:
// every element store into the slice must be one half of a swap — the value stored at position i is loaded from
// position j of the same slice in the same block, and position j receives, in that block, the value loaded from
// position i. A store of a value cached earlier (a stale copy of the parent) can duplicate one provider and lose
// another.
func rulePermute(r *core.Run, id string, rootName string) {
	root := r.Func(id, rootName)
	if root == nil {
		return
	}
	n := 0
	for _, f := range r.P.SortedFuncs(r.P.CG.Reach(root)) {
		if f.Pkg == nil || r.P.IsGenerated(f) || len(f.Blocks) == 0 || f.Pkg != root.Pkg {
			continue
		}
		k := 0
		for _, b := range f.Blocks {
			type st struct {
				s      *ssa.Store
				sl, ix ssa.Value // slice and index written
				fs, fi ssa.Value // slice and index the value was loaded from (nil: not a same-block load)
			}
			var stores []st
			for _, ins := range b.Instrs {
				s, ok := ins.(*ssa.Store)
				if !ok {
					continue
				}
				ia, ok := s.Addr.(*ssa.IndexAddr)
				if !ok {
					continue
				}
				sl, isSl := ia.X.Type().Underlying().(*types.Slice)
				if !isSl {
					continue
				}
				if _, isStruct := sl.Elem().Underlying().(*types.Struct); !isStruct {
					continue
				}
				e := st{s: s, sl: ia.X, ix: ia.Index}
				if u, ok := s.Val.(*ssa.UnOp); ok && u.Op == token.MUL && u.Block() == b {
					if la, ok := u.X.(*ssa.IndexAddr); ok {
						e.fs, e.fi = la.X, la.Index
					}
				}
				stores = append(stores, e)
			}
			for _, e := range stores {
				n++
				k++
				key := core.Key(id, r.KeyName(f), fmt.Sprintf("element store#%d", k))
				paired := false
				if e.fs == e.sl && e.fi != nil {
					for _, o := range stores {
						if o.s != e.s && o.sl == e.sl && o.ix == e.fi && o.fs == e.sl && o.fi == e.ix {
							paired = true
						}
					}
				}
				if paired {
					r.Discharge(id, key, r.P.Pos(e.s.Pos()), "half of a swap of two positions of the slice, both values loaded in the same block")
				} else {
					r.Violate(id, key, r.P.Pos(e.s.Pos()), "the candidate slice is reordered by a store that is not half of a swap (the value is not the one just loaded from the position that receives this position's value): a cached copy can be written back over a changed slot, so one provider appears twice and another is lost — distinct indices then name the same provider, and two shards of an order land on it")
				}
			}
		}
	}
	r.Floor("permute_element_stores", n, 4)
}

// ruleShardOwner (T-shard-owner): a shard record is created (AppendShard) by a function that is handed the order it
// is created for, and the caller lists the new id in THAT order's Shards. The record must therefore name that order:
// its OrderId is the Id of the *Order parameter of the creating function. (Naming the order a replaced shard is still
// paid by — as the hand-over in Complete later does — at creation time leaves a shard that names one order while only
// another one lists it.)
func ruleShardOwner(r *core.Run, id string) {
	if r.Func(id, "order/keeper.Keeper.AppendShard") == nil {
		return
	}
	n := 0
	for _, f := range r.P.SortedFuncs(r.ConsensusFuncs()) {
		if r.P.IsGenerated(f) || len(f.Blocks) == 0 || r.P.Transparent(f) {
			continue // helpers outside the vocabulary are seen through the frames of the functions they belong to
		}
		k := 0
		for _, dc := range deepCalls(r, f, "order/keeper.Keeper.AppendShard") {
			args := dc.Call.Common().Args
			rec := args[len(args)-1]
			n++
			k++
			key := core.Key(id, r.KeyName(f), fmt.Sprintf("AppendShard#%d OrderId", k))
			// the OrderId of the record, in the vocabulary of f: a field store on the local record, or the field of
			// the record's term (a literal built by a constructor helper, a record handed on by pointer)
			val := ""
			g := dc.Fr.Fn
			res := r.Resolver(g)
			if u, ok := rec.(*ssa.UnOp); ok {
				if al, ok := u.X.(*ssa.Alloc); ok {
					for _, ref := range *al.Referrers() {
						if fa, ok := ref.(*ssa.FieldAddr); ok && fieldNameT(fa.X.Type(), fa.Field) == "OrderId" {
							for _, rr := range *fa.Referrers() {
								if st, ok := rr.(*ssa.Store); ok && st.Addr == ssa.Value(fa) {
									val = normT(dc.Fr.T(r, st.Val))
								}
							}
						}
					}
					if val == "" {
						for _, ref := range *al.Referrers() {
							if st, ok := ref.(*ssa.Store); ok && st.Addr == ssa.Value(al) {
								val = normT(dc.Fr.Sub(term.FieldOf(res.Of(st.Val), "OrderId").String()))
							}
						}
					}
				}
			}
			if val == "" {
				t := strings.TrimLeft(normT(dc.Fr.T(r, rec)), "*&~")
				val = normT(term.ReduceLiteralFields(t + ".OrderId"))
			}
			okv := false
			for i, p := range f.Params {
				if shortTypeName(p.Type()) == "order/types.Order" && val == fmt.Sprintf("#%d.Id", i) {
					okv = true
				}
			}
			if okv {
				r.Discharge(id, key, r.P.Pos(dc.Call.Pos()), "the new shard names the order it is created for ("+val+")")
			} else {
				r.Violate(id, key, r.P.Pos(dc.Call.Pos()), fmt.Sprintf("a shard is created with OrderId = %s, which is not the Id of the order the creating function was handed (the order whose Shards the caller extends with the new id): the shard then names one order while only another one lists it", shorten(val)))
			}
		}
	}
	r.Floor("shard_creation_sites", n, 2)
}

// ruleRemainingTerm (T-remaining-term): at the hand-over of a migrating shard in Complete the replacement serves what
// is left of the REPLACED SHARD's term: the Duration it is given before market.Migrate must be computed from the old
// shard's own CreatedAt and Duration (old.CreatedAt + old.Duration - now, in whatever arrangement). A term derived
// from an order's Duration is only equal for a shard that was never migrated before; for a second migration it
// stretches the paid period, and the worker earns past what the order paid for.
func ruleRemainingTerm(r *core.Run, id string) {
	fnName := "sao/keeper.msgServer.Complete"
	anchor := r.Func(id, fnName)
	if anchor == nil {
		return
	}
	n := 0
	for _, g := range transparentClosure(r, anchor) {
		mig := callsIn(r, g, "market/keeper.Keeper.Migrate")
		if len(mig) == 0 {
			mig = callsIn(r, g, "sao/types.MarketKeeper.Migrate")
		}
		res := r.Resolver(g)
		for i, c := range mig {
			B := c.Block()
			// the Duration store in effect at the call: the last one in the call's block before it, else one in a
			// dominating block
			var st *ssa.Store
			for _, b := range g.Blocks {
				if b != B && !b.Dominates(B) {
					continue
				}
				for _, ins := range b.Instrs {
					if ins == c.(ssa.Instruction) {
						break
					}
					s, ok := ins.(*ssa.Store)
					if !ok {
						continue
					}
					fa, ok := s.Addr.(*ssa.FieldAddr)
					if ok && shortTypeName(fa.X.Type())+"."+fieldNameT(fa.X.Type(), fa.Field) == "order/types.Shard.Duration" {
						st = s
					}
				}
			}
			n++
			key := core.Key(id, fnName, fmt.Sprintf("Migrate#%d", i+1), "remaining term")
			if st == nil {
				r.Violate(id, key, r.P.Pos(c.Pos()), "the replacement shard is handed over without its Duration being set from the replaced shard's remaining term")
				continue
			}
			vt := normT(res.Of(st.Val).String())
			if strings.Contains(vt, "GetOrderShardBySP(") && strings.Contains(vt, ".From).CreatedAt") && strings.Contains(vt, ".From).Duration") {
				r.Discharge(id, key, r.P.Pos(st.Pos()), "the replacement's Duration is computed from the replaced shard's CreatedAt and Duration")
			} else {
				r.Violate(id, key, r.P.Pos(st.Pos()), "the Duration given to the replacement shard ("+shorten(vt)+") is not computed from the replaced shard's own CreatedAt and Duration: a term taken from an order is the remaining term only for a shard that was never migrated before — after a second migration the shard outlives the period the order paid for and its provider keeps earning from the shared escrow")
			}
		}
	}
	r.Floor("handover_sites_"+id, n, 1)
}

// ruleUnschedule (T-unschedule): removeDataExpireBlock takes one data id out of the expiry schedule entry of a
// height. When other ids remain, the entry it writes back must be the filtered list: the Data of the record handed to
// SetExpiredData is a list collected only from elements tested unequal to a parameter (the id to drop). Writing back
// the record as it was read leaves the cancelled model scheduled; the end-blocker later deletes whatever model lives
// under that id then.
func ruleUnschedule(r *core.Run, id string) {
	fnName := "model/keeper.Keeper.removeDataExpireBlock"
	f := r.Func(id, fnName)
	if f == nil {
		return
	}
	// the write-back and the replacement of the list may sit in helpers that receive the record by pointer: both are
	// looked for in every frame under the function
	nSet := 0
	type dstore struct {
		g  *ssa.Function
		st *ssa.Store
	}
	var stores []dstore
	var firstSet ssa.CallInstruction
	for _, fr := range frames(r, f) {
		g := fr.Fn
		for _, c := range callsIn(r, g, "model/keeper.Keeper.SetExpiredData") {
			nSet++
			if firstSet == nil {
				firstSet = c
			}
		}
		for _, b := range g.Blocks {
			for _, ins := range b.Instrs {
				st, ok := ins.(*ssa.Store)
				if !ok {
					continue
				}
				fa, ok := st.Addr.(*ssa.FieldAddr)
				if ok && shortTypeName(fa.X.Type())+"."+fieldNameT(fa.X.Type(), fa.Field) == "model/types.ExpiredData.Data" {
					stores = append(stores, dstore{g, st})
				}
			}
		}
	}
	key := core.Key(id, fnName, "entry written back without the dropped id")
	switch {
	case nSet == 0:
		r.Undecide(id, key, r.P.FuncPos(f), "vacuous: no SetExpiredData under removeDataExpireBlock")
	case len(stores) == 0:
		r.Violate(id, key, r.P.Pos(firstSet.Pos()), "the schedule entry is written back with the Data list it was read with: the id that was to be dropped stays scheduled, and the end-blocker of that height later deletes whatever model then lives under it (a cancelled order's rollback is not clean)")
	default:
		bad := ""
		for _, d := range stores {
			if !listFedOnlyUnderV(r, d.g, d.st.Val, guard.Ne("*", "#*")) {
				bad = r.P.Pos(d.st.Pos())
			}
		}
		if bad == "" {
			r.Discharge(id, key, r.P.Pos(firstSet.Pos()), "the entry's Data is replaced by a list collected only from ids tested unequal to the id being dropped")
		} else {
			r.Violate(id, key, bad, "the Data list of the schedule entry is replaced by a list that is not collected solely from ids tested unequal to the id being dropped: the cancelled model can stay scheduled")
		}
	}
	r.Floor("unschedule_writebacks", nSet, 1)
}

// ruleExtendMeta (T-extend-meta): a typestate walk of Complete: "sched" (SetExpiredShardBlock) and "ext"
// (ExtendMetaDuration) are both seen on every path that reaches a succeeding return after scheduling.
func ruleExtendMeta(r *core.Run, id string) {
	fnName := "sao/keeper.msgServer.Complete"
	fn := r.Func(id, fnName)
	if fn == nil {
		return
	}
	nSched := 0
	rule := &tsRule{r: r,
		events: func(g *ssa.Function, ins ssa.Instruction, T func(ssa.Value) string) []string {
			switch x := ins.(type) {
			case ssa.CallInstruction:
				name, _ := r.Resolver(g).CalleeName(x.Common())
				switch {
				case strings.HasSuffix(name, ".SetExpiredShardBlock"):
					return []string{"sched"}
				case strings.HasSuffix(name, ".ExtendMetaDuration"):
					return []string{"ext"}
				}
			case *ssa.Return:
				if g == fn && successReturnIn(r, g, x.Block()) {
					return []string{"end"}
				}
			}
			return nil
		},
		step: func(st uint8, ev string) (uint8, string) {
			switch ev {
			case "sched":
				nSched++
				return st | 1, ""
			case "ext":
				return st | 2, ""
			case "end":
				if st&1 != 0 && st&2 == 0 {
					return st, "succeeds with the shard's expiry scheduled but the model's lifetime not extended"
				}
			}
			return st, ""
		}}
	res := rule.run(fn, 0)
	key := core.Key(id, fnName, "expiry scheduled => model lifetime extended")
	switch {
	case nSched == 0:
		r.Undecide(id, key, r.P.FuncPos(fn), "vacuous: no SetExpiredShardBlock under Complete")
	case res.bad == "":
		r.Discharge(id, key, r.P.FuncPos(fn), "every succeeding path that schedules the shard's expiry passes ExtendMetaDuration")
	default:
		pos := r.P.FuncPos(fn)
		if res.badAt != nil && res.badAt.Pos().IsValid() {
			pos = r.P.Pos(res.badAt.Pos())
		}
		r.Violate(id, key, pos, "Complete "+res.bad+" on some path: a shard completed later than the first one (second replica, timeout replacement) is released at its own CreatedAt+Duration, but the model is deleted at the first shard's end — the model disappears while a paid, unexpired shard of it remains")
	}
}
