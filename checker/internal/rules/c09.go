package rules

import (
	"fmt"
	"go/types"
	"strings"

	"golang.org/x/tools/go/ssa"

	"saoverif/internal/core"
	"saoverif/internal/eff"
	"saoverif/internal/guard"
)

func init() { register("C09", checkC09) }

func sigTerm() string {
	return fVerifySig + "(" + msg + ".Proposal.Owner," + msg + ".Proposal," + msg + ".JwsSignature)"
}

func checkC09(r *core.Run) {
	r.Explanation = "C09 (structural clauses only): every call that can change a data model (metadata, alias, expiry schedule, or terminate its orders) is dominated on all paths by (a) success of verifySignature over the same proposal value whose fields feed the effect and (b) the owner / read-write-grantee comparison against the DID that signed; the model prefixes are written only from the entry points of the table. Decides guard dominance and capability for all paths and inputs; cryptographic validity is the trusted library's."
	r.Rule("G-term / G-renew / G-perm / G-updmeta / G-store-upd: effect <= verifySignature(...) err == nil AND (metadata.Owner == signer DID OR signer DID ∈ metadata.ReadwriteDids) — owner only for renew and permission update")
	r.Rule("G-newmeta: a new model's Owner is the verified proposal owner; identifiers passed to the model keeper are fields of the signed proposal")
	r.Rule("CAP-meta: model:{Metadata,Model,ExpiredData} written only from {sao Store, Complete, Renew, Terminate, UpdataPermission, Cancel, the timeout handler, model end-block, model genesis}")
	r.Rule("T-perm-applied: model.UpdatePermission assigns both grant lists from the verified request on every path that persists the metadata (an empty list revokes)")
	rulePermApplied(r, "T-perm-applied")
	r.Assume(aDeps)
	r.Assume(aCG)
	r.Assume("A-sig: sao-did VerifyJWS rejects unless the DID part of the signature's kid equals the DID the manager was created with (proposal.Owner), and verifies the signature over the given payload with the keys of the document the resolver returns for the kid's version id (read in sao-did v0.0.12: did.go VerifyJWS, sid/sid_resolver.go Resolve)")
	r.Rule("G-sigdoc: the sid-document lookup that verifySignature hands to the DID library returns a document only for a version id that is an element of the claimed owner's own SidDocumentVersion list (otherwise anybody verifies as any sid DID with a document of his own)")
	ruleSigDoc(r)
	r.Rule("T-msg-immutable: in the sao message handlers the slice fields of the signed request are never written in place — element stores, copy, sort — directly or through append(field, ...), which may share the field's backing array (what is stored must be what the owner signed)")
	ruleNoInPlace(r, "T-msg-immutable", "msg", "sao/keeper.")
	r.Rule("G-sigpath: verifySignature returns success only after VerifyJWS succeeded on that path, with a payload derived from the proposal argument's bytes")
	ruleSigPath(r)
	ruleSigOwner(r)

	sig := sigTerm()
	sigOK := guard.Eq(sig+"#1", "nil")
	sigDid := sig + "#0"

	// ---- Terminate
	meta := fGetMeta + "(" + msg + ".Proposal.DataId)#0"
	ownerOrRW := []guard.Atom{guard.Eq(meta+".Owner", sigDid), guard.Eq("elem("+meta+".ReadwriteDids)", sigDid)}
	evalGuard(r, "G-term", "sao/keeper.msgServer.Terminate", effSel{AllWrites: true}, []clause{
		cl("request-signature-verified", sigOK),
		cl("signer-is-owner-or-readwrite-grantee", ownerOrRW...),
	}, 3)
	evalArgAll(r, "G-term", "sao/keeper.msgServer.Terminate", "model/keeper.Keeper.DeleteMeta", 0, []string{msg + ".Proposal.DataId"}, "model deleted is the one named in the signed proposal")
	evalArgAll(r, "G-term", "sao/keeper.msgServer.Terminate", "model/keeper.Keeper.TerminateOrder", 0, []string{fGetOrder + "(elem(" + meta + ".Orders))#0"}, "orders terminated are those of the checked model")

	// ---- Renew (owner only)
	ruleRenewOwner(r)

	// ---- UpdataPermission -> model.UpdatePermission
	evalGuard(r, "G-perm", "sao/keeper.msgServer.UpdataPermission", effSel{AllWrites: true}, []clause{
		cl("request-signature-verified", sigOK),
	}, 1)
	evalArgAll(r, "G-perm", "sao/keeper.msgServer.UpdataPermission", "model/keeper.Keeper.UpdatePermission", 0, []string{msg + ".Proposal.Owner"}, "owner compared by the model keeper is the DID whose signature was verified")
	evalArgAll(r, "G-perm", "sao/keeper.msgServer.UpdataPermission", "model/keeper.Keeper.UpdatePermission", 1, []string{msg + ".Proposal.DataId"}, "model changed is the one named in the signed proposal")
	evalArgAll(r, "G-perm", "sao/keeper.msgServer.UpdataPermission", fVerifySig, 0, []string{msg + ".Proposal.Owner"}, "DID manager is created for the proposal's owner")
	evalGuard(r, "G-perm", "model/keeper.Keeper.UpdatePermission", effSel{AllWrites: true}, []clause{
		cl("caller-supplied-owner-is-the-model-owner", guard.Eq("#2", fGetMeta+"(#3)#0.Owner")),
	}, 1)

	// ---- model.UpdateMeta (called on completion and renewal)
	metaU := fGetMeta + "(#2.DataId)#0"
	evalGuard(r, "G-updmeta", "model/keeper.Keeper.UpdateMeta", effSel{AllWrites: true}, []clause{
		cl("order-owner-is-model-owner-or-readwrite-grantee", guard.Eq(metaU+".Owner", "#2.Owner"), guard.Eq("elem("+metaU+".ReadwriteDids)", "#2.Owner")),
	}, 3)

	// ---- Store: update of an existing model, creation of a new one
	evalGuard(r, "G-store-upd", "sao/keeper.msgServer.Store", effSel{Calls: []string{"model/keeper.Keeper.UpdateMetaStatusAndCommit"}}, []clause{
		cl("request-signature-verified", sigOK),
		cl("signer-is-owner-or-readwrite-grantee", ownerOrRW...),
	}, 1)
	evalGuard(r, "G-newmeta", "sao/keeper.msgServer.Store", effSel{Calls: []string{"model/keeper.Keeper.NewMeta", "order/keeper.Keeper.NewOrder", "sao/types.BankKeeper.SendCoinsFromAccountToModule"}}, []clause{
		cl("request-signature-verified", sigOK),
	}, 3)
	evalStoreVal(r, "G-newmeta", "sao/keeper.msgServer.Store", "model/types.Metadata.Owner", []string{msg + ".Proposal.Owner"}, "owner of a new model is the verified proposal owner")
	evalStoreVal(r, "G-newmeta", "sao/keeper.msgServer.Store", "model/types.Metadata.DataId", []string{msg + ".Proposal.DataId"}, "id of a new model is the one in the signed proposal")
	evalStoreVal(r, "G-newmeta", "sao/keeper.msgServer.Store", "order/types.Order.Owner", []string{msg + ".Proposal.Owner"}, "order owner (checked again on completion) is the verified proposal owner")
	evalStoreVal(r, "G-newmeta", "sao/keeper.msgServer.Store", "order/types.Order.DataId", []string{msg + ".Proposal.DataId"}, "order data id is the one in the signed proposal")

	// ---- capability
	evalCap(r, capRule{
		ID:   "CAP-meta",
		Desc: "data-model records change only through the model operations",
		Match: func(e *eff.Effect) (string, bool) {
			if e.IsWrite() && eff.StoreOwner(e) == "model" {
				return e.Kind + " model:" + e.Prefix, true
			}
			return "", false
		},
		Allowed: set("sao.Store", "sao.Complete", "sao.Renew", "sao.Terminate", "sao.UpdataPermission", "sao.Cancel", "sao.EndBlock", "pseudo:HandleTimeoutOrder", "model.EndBlock", "model.InitGenesis"),
	})
	r.Floor("cap_roots_CAP-meta", r.Counters["cap_roots_CAP-meta"], 40)
}

// ruleSigDoc (G-sigdoc): the closure passed to saodid.NewDidManagerWithDid in
// verifySignature answers with a non-nil document only on paths that tested
// the requested version id for membership in the owner's version list.
// ruleSigOwner (T-sigowner): the DID manager that verifies the JWS is created with the owner verifySignature was
// asked about (its second parameter). The library's "kid DID == manager DID" test is the only place where the signer
// is tied to the claimed owner; a manager created with the DID found in the signature itself accepts anybody's
// signature over a proposal that names somebody else as owner (handlers that use the claimed owner afterwards —
// permission update — are then open to strangers).
func ruleSigOwner(r *core.Run) {
	r.Rule("T-sigowner: in verifySignature the DID manager is created with the claimed owner (parameter), not with a DID taken from the signature")
	evalArgAll(r, "T-sigowner", "sao/keeper.Keeper.verifySignature", "github.com/SaoNetwork/sao-did.NewDidManagerWithDid", 0, []string{"#2"}, "the verifying DID manager is bound to the claimed owner")
}

func ruleSigDoc(r *core.Run) {
	const id = "G-sigdoc"
	fnName := "sao/keeper.Keeper.verifySignature"
	fn := r.Func(id, fnName)
	if fn == nil {
		return
	}
	var clo *ssa.Function
	for _, fr := range frames(r, fn) {
		res := r.Resolver(fr.Fn)
		for _, b := range fr.Fn.Blocks {
			for _, ins := range b.Instrs {
				c, ok := ins.(ssa.CallInstruction)
				if !ok {
					continue
				}
				name, _ := res.CalleeName(c.Common())
				if !strings.HasSuffix(name, "NewDidManagerWithDid") {
					continue
				}
				for _, a := range c.Common().Args {
					if _, isSig := a.Type().Underlying().(*types.Signature); !isSig {
						continue
					}
					if f := closureOfValue(r, fn, fr, a, 0); f != nil {
						clo = f
					}
				}
			}
		}
	}
	if clo == nil {
		r.Undecide(id, core.Key(id, fnName, "lookup closure"), r.P.FuncPos(fn), "unresolved anchor: the sid-document lookup closure passed to NewDidManagerWithDid was not found")
		return
	}
	ck := &guard.Checker{P: r.P, Fn: clo, Res: r.Resolver(clo)}
	member := guard.Eq("elem(*GetSidDocumentVersion(*free:owner*)#0.VersionList)", "#0")
	n := 0
	var visit func(ck *guard.Checker, depth int)
	visit = func(ck *guard.Checker, depth int) {
		for _, b := range ck.Fn.Blocks {
			ret, ok := b.Instrs[len(b.Instrs)-1].(*ssa.Return)
			if !ok || len(ret.Results) == 0 {
				continue
			}
			if c, isC := ret.Results[0].(*ssa.Const); isC && c.Value == nil {
				continue // returns no document
			}
			ok2, w := ck.MustPass(b, []guard.Atom{member})
			// the document is what a helper outside the vocabulary hands back: its own return sites are judged
			if call, isCall := ret.Results[0].(*ssa.Call); isCall && !ok2 && depth < 3 && !call.Call.IsInvoke() {
				if h := call.Call.StaticCallee(); h != nil && r.P.Transparent(h) && len(h.Blocks) > 0 {
					subst := make([]string, len(h.Params))
					for i, a := range call.Call.Args {
						if i < len(subst) {
							subst[i] = ck.T(a)
						}
					}
					visit(&guard.Checker{P: r.P, Fn: h, Res: r.Resolver(h), Subst: subst, Parent: ck, ArgVals: call.Call.Args, Depth: depth + 1}, depth+1)
					continue
				}
			}
			n++
			key := core.Key(id, fnName, fmt.Sprintf("document returned#%d", n))
			switch {
			case ok2:
				r.Discharge(id, key, r.P.Pos(ret.Pos()), "a document is returned only after the requested version id matched an element of the owner's version list")
			case len(w) == 1 && w[0] == guard.StateBound:
				r.Undecide(id, key, r.P.Pos(ret.Pos()), "abstract-state bound exceeded")
			default:
				r.Violate(id, key, r.P.Pos(ret.Pos()), "the sid-document lookup used for signature verification returns a document for a version id that was not tested against the claimed owner's own version list: a signer holding any sid document can name another DID in the kid (did:sid:<victim>?version-id=<own document>) and is accepted as that DID's owner", append([]string{"path (branch decisions):"}, w...)...)
			}
		}
	}
	visit(ck, 0)
	r.Floor("sigdoc_returns", n, 1)
}

// ruleSigPath (G-sigpath): verifySignature returns success only after a
// successful VerifyJWS on every path (no shortcut such as a cache keyed without
// the payload), and the payload handed to VerifyJWS is derived from the bytes of
// the proposal argument (the signature is over exactly that request).
// closureOfValue: the function literal a function value stands for — through locals, conversions, helpers that
// return the closure, and (in a helper frame) parameters bound at the call that leads there.
func closureOfValue(r *core.Run, anchor *ssa.Function, fr frame, v ssa.Value, depth int) *ssa.Function {
	if depth > 6 {
		return nil
	}
	switch x := v.(type) {
	case *ssa.MakeClosure:
		f, _ := x.Fn.(*ssa.Function)
		return f
	case *ssa.Function:
		return x
	case *ssa.ChangeType:
		return closureOfValue(r, anchor, fr, x.X, depth+1)
	case *ssa.MakeInterface:
		return closureOfValue(r, anchor, fr, x.X, depth+1)
	case *ssa.UnOp:
		if al, ok := x.X.(*ssa.Alloc); ok {
			for _, ref := range *al.Referrers() {
				if st, ok := ref.(*ssa.Store); ok && st.Addr == al {
					if f := closureOfValue(r, anchor, fr, st.Val, depth+1); f != nil {
						return f
					}
				}
			}
		}
	case *ssa.Call:
		if h := x.Call.StaticCallee(); h != nil && len(h.Blocks) > 0 {
			for _, hb := range h.Blocks {
				if ret, ok := hb.Instrs[len(hb.Instrs)-1].(*ssa.Return); ok && len(ret.Results) == 1 {
					if f := closureOfValue(r, anchor, frame{Fn: h}, ret.Results[0], depth+1); f != nil {
						return f
					}
				}
			}
		}
	case *ssa.Parameter:
		if p := parentFrame(r, anchor, fr); p != nil {
			call := fr.Chain[len(fr.Chain)-1]
			for j, q := range fr.Fn.Params {
				if q == x && j < len(call.Common().Args) {
					return closureOfValue(r, anchor, *p, call.Common().Args[j], depth+1)
				}
			}
		}
	}
	return nil
}

// mkComponent: the value of field `name` in a rendered struct-literal term mk{...}.
func mkComponent(t, name string) string {
	i := strings.Index(t, name+":")
	if i < 0 {
		return ""
	}
	rest := t[i+len(name)+1:]
	depth := 0
	for k := 0; k < len(rest); k++ {
		switch rest[k] {
		case '(', '[', '{':
			depth++
		case ')', ']', '}':
			if depth == 0 {
				return rest[:k]
			}
			depth--
		case ',':
			if depth == 0 {
				return rest[:k]
			}
		}
	}
	return rest
}

func ruleSigPath(r *core.Run) {
	const id = "G-sigpath"
	fnName := "sao/keeper.Keeper.verifySignature"
	fn := r.Func(id, fnName)
	if fn == nil {
		return
	}
	res := r.Resolver(fn)
	ck := &guard.Checker{P: r.P, Fn: fn, Res: res}
	verified := guard.Eq("*DidManager.VerifyJWS(*)#1", "nil")
	n := 0
	for _, b := range fn.Blocks {
		ret, ok := b.Instrs[len(b.Instrs)-1].(*ssa.Return)
		if !ok || len(ret.Results) != 2 {
			continue
		}
		if !successReturnIn(r, fn, b) {
			continue // returns an error value
		}
		n++
		key := core.Key(id, fnName, fmt.Sprintf("success return#%d", n))
		ok2, w := ck.MustPass(b, []guard.Atom{verified})
		switch {
		case ok2:
			r.Discharge(id, key, r.P.Pos(ret.Pos()), "success is returned only after VerifyJWS returned no error")
		case len(w) == 1 && w[0] == guard.StateBound:
			r.Undecide(id, key, r.P.Pos(ret.Pos()), "abstract-state bound exceeded")
		default:
			r.Violate(id, key, r.P.Pos(ret.Pos()), "verifySignature can return success on a path that did not pass a successful VerifyJWS over this request (a shortcut such as a remembered earlier verification): a signature made for one request then authorises another", append([]string{"path (branch decisions):"}, w...)...)
		}
	}
	r.Floor("sig_success_returns", n, 1)
	// payload provenance: the GeneralJWS handed to VerifyJWS (in verifySignature or a helper under it) carries an
	// encoding of the proposal argument's bytes
	np := 0
	for _, fr := range frames(r, fn) {
		fres := r.Resolver(fr.Fn)
		for _, c := range fr.Fn.Blocks {
			for _, ins := range c.Instrs {
				call, ok := ins.(ssa.CallInstruction)
				if !ok {
					continue
				}
				name, _ := fres.CalleeName(call.Common())
				if !strings.HasSuffix(name, "DidManager.VerifyJWS") {
					continue
				}
				args := call.Common().Args
				np++
				key := core.Key(id, fnName, "payload is the proposal's bytes")
				payload := mkComponent(fr.T(r, args[len(args)-1]), "Payload")
				if strings.Contains(payload, ".Marshal(#3)#0") {
					r.Discharge(id, key, r.P.Pos(call.Pos()), "GeneralJWS.Payload is an encoding of proposal.Marshal()")
				} else {
					r.Violate(id, key, r.P.Pos(call.Pos()), "the payload handed to VerifyJWS is not derived from the bytes of the proposal argument: the signature is not checked against this request")
				}
			}
		}
	}
	r.Floor("sig_payload_stores", np, 1)
}

// ruleRenewOwner (G-renew): shared by C09 (only the owner renews) and C10 (the
// renewal order is owned by, and charged to, the model owner: the owner must be
// the signer, a read-write grantee's signature is not the payer's consent).
func ruleRenewOwner(r *core.Run) {
	sig := sigTerm()
	metaR := fGetMeta + "(elem(" + msg + ".Proposal.Data))#0"
	evalGuard(r, "G-renew", "sao/keeper.msgServer.Renew", effSel{AllWrites: true}, []clause{
		cl("request-signature-verified", guard.Eq(sig+"#1", "nil")),
		cl("signer-is-owner", guard.Eq(metaR+".Owner", sig+"#0")),
	}, 6)
}
