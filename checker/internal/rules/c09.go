package rules

import (
	"saoverif/internal/core"
	"saoverif/internal/eff"
	"saoverif/internal/guard"
)

func init() { register("C09", checkC09) }

func sigTerm() string {
	return fVerifySig + "(" + msg + ".Proposal.Owner," + msg + ".Proposal," + msg + ".JwsSignature)"
}

func checkC09(r *core.Run) {
	r.Explanation = "C09 (structural clauses only): every call that can change a data model (metadata, alias, expiry schedule, or terminate its orders) is dominated on all paths by (a) success of verifySignature over the same proposal value whose fields feed the effect and (b) the owner / read-write-grantee comparison against the DID that signed; the model prefixes are written only from the entry points of the table. Decides guard dominance and capability for all paths and inputs; cryptographic validity is the trusted library's."
	r.Rule("G-term / G-renew / G-perm / G-updmeta / G-store-upd: effect <= verifySignature(...) err == nil AND (metadata.Owner == signer DID OR signer DID ∈ metadata.ReadwriteDids) — owner only for renew and permission update")
	r.Rule("G-newmeta: a new model's Owner is the verified proposal owner; identifiers passed to the model keeper are fields of the signed proposal")
	r.Rule("CAP-meta: model:{Metadata,Model,ExpiredData} written only from {sao Store, Complete, Renew, Terminate, UpdataPermission, Cancel, the timeout handler, model end-block, model genesis}")
	r.Assume(aDeps)
	r.Assume(aCG)
	r.Assume("A-sig: sao-did VerifyJWS rejects unless the signature's kid DID is a key of the DID the manager was created with (proposal.Owner)")

	sig := sigTerm()
	sigOK := guard.Eq(sig+"#1", "nil")
	sigDid := sig + "#0"

	// ---- Terminate
	meta := fGetMeta + "(" + msg + ".Proposal.DataId)#0"
	ownerOrRW := []guard.Atom{guard.Eq(meta+".Owner", sigDid), guard.Eq("elem("+meta+".ReadwriteDids)", sigDid)}
	evalGuard(r, "G-term", "sao/keeper.msgServer.Terminate", effSel{AllWrites: true}, []clause{
		cl("request-signature-verified", sigOK),
		cl("signer-is-owner-or-readwrite-grantee", ownerOrRW...),
	}, 3)
	evalArgAll(r, "G-term", "sao/keeper.msgServer.Terminate", "model/keeper.Keeper.DeleteMeta", 0, []string{msg + ".Proposal.DataId"}, "model deleted is the one named in the signed proposal")
	evalArgAll(r, "G-term", "sao/keeper.msgServer.Terminate", "model/keeper.Keeper.TerminateOrder", 0, []string{fGetOrder + "(elem(" + meta + ".Orders))#0"}, "orders terminated are those of the checked model")

	// ---- Renew (owner only)
	metaR := fGetMeta + "(elem(" + msg + ".Proposal.Data))#0"
	evalGuard(r, "G-renew", "sao/keeper.msgServer.Renew", effSel{AllWrites: true}, []clause{
		cl("request-signature-verified", sigOK),
		cl("signer-is-owner", guard.Eq(metaR+".Owner", sigDid)),
	}, 6)

	// ---- UpdataPermission -> model.UpdatePermission
	evalGuard(r, "G-perm", "sao/keeper.msgServer.UpdataPermission", effSel{AllWrites: true}, []clause{
		cl("request-signature-verified", sigOK),
	}, 1)
	evalArgAll(r, "G-perm", "sao/keeper.msgServer.UpdataPermission", "model/keeper.Keeper.UpdatePermission", 0, []string{msg + ".Proposal.Owner"}, "owner compared by the model keeper is the DID whose signature was verified")
	evalArgAll(r, "G-perm", "sao/keeper.msgServer.UpdataPermission", "model/keeper.Keeper.UpdatePermission", 1, []string{msg + ".Proposal.DataId"}, "model changed is the one named in the signed proposal")
	evalArgAll(r, "G-perm", "sao/keeper.msgServer.UpdataPermission", fVerifySig, 0, []string{msg + ".Proposal.Owner"}, "DID manager is created for the proposal's owner")
	evalGuard(r, "G-perm", "model/keeper.Keeper.UpdatePermission", effSel{AllWrites: true}, []clause{
		cl("caller-supplied-owner-is-the-model-owner", guard.Eq("#2", fGetMeta+"(#3)#0.Owner")),
	}, 1)

	// ---- model.UpdateMeta (called on completion and renewal)
	metaU := fGetMeta + "(#2.DataId)#0"
	evalGuard(r, "G-updmeta", "model/keeper.Keeper.UpdateMeta", effSel{AllWrites: true}, []clause{
		cl("order-owner-is-model-owner-or-readwrite-grantee", guard.Eq(metaU+".Owner", "#2.Owner"), guard.Eq("elem("+metaU+".ReadwriteDids)", "#2.Owner")),
	}, 3)

	// ---- Store: update of an existing model, creation of a new one
	evalGuard(r, "G-store-upd", "sao/keeper.msgServer.Store", effSel{Calls: []string{"model/keeper.Keeper.UpdateMetaStatusAndCommit"}}, []clause{
		cl("request-signature-verified", sigOK),
		cl("signer-is-owner-or-readwrite-grantee", ownerOrRW...),
	}, 1)
	evalGuard(r, "G-newmeta", "sao/keeper.msgServer.Store", effSel{Calls: []string{"model/keeper.Keeper.NewMeta", "order/keeper.Keeper.NewOrder", "sao/types.BankKeeper.SendCoinsFromAccountToModule"}}, []clause{
		cl("request-signature-verified", sigOK),
	}, 3)
	evalStoreVal(r, "G-newmeta", "sao/keeper.msgServer.Store", "model/types.Metadata.Owner", []string{msg + ".Proposal.Owner"}, "owner of a new model is the verified proposal owner")
	evalStoreVal(r, "G-newmeta", "sao/keeper.msgServer.Store", "model/types.Metadata.DataId", []string{msg + ".Proposal.DataId"}, "id of a new model is the one in the signed proposal")
	evalStoreVal(r, "G-newmeta", "sao/keeper.msgServer.Store", "order/types.Order.Owner", []string{msg + ".Proposal.Owner"}, "order owner (checked again on completion) is the verified proposal owner")
	evalStoreVal(r, "G-newmeta", "sao/keeper.msgServer.Store", "order/types.Order.DataId", []string{msg + ".Proposal.DataId"}, "order data id is the one in the signed proposal")

	// ---- capability
	evalCap(r, capRule{
		ID:   "CAP-meta",
		Desc: "data-model records change only through the model operations",
		Match: func(e *eff.Effect) (string, bool) {
			if e.IsWrite() && eff.StoreOwner(e) == "model" {
				return e.Kind + " model:" + e.Prefix, true
			}
			return "", false
		},
		Allowed: set("sao.Store", "sao.Complete", "sao.Renew", "sao.Terminate", "sao.UpdataPermission", "sao.Cancel", "sao.EndBlock", "pseudo:HandleTimeoutOrder", "model.EndBlock", "model.InitGenesis"),
	})
	r.Floor("cap_roots_CAP-meta", r.Counters["cap_roots_CAP-meta"], 40)
}
