package rules

import (
	"fmt"
	"go/constant"
	"go/types"
	"strings"

	"golang.org/x/tools/go/ssa"

	"saoverif/internal/cfgx"
	"saoverif/internal/core"
)

// ruleFlagReset (T-flag-reset): a boolean that decides, inside a loop, whether the current element's effects happen
// must be decided for the current element: if the flag is carried from one iteration into the next (it is a φ at the
// loop header with a back-edge value other than the constant it starts with) and a branch on it inside the loop leads
// — on the side the carried value selects — to state writes within the same iteration, then once any element has set
// it every later element skips its own test ("one valid entry first, then anything").
// Flags tested only after the loop (found-style accumulators) and flags whose test leaves the loop are not concerned.
func ruleFlagReset(r *core.Run, id string, fnNames ...string) {
	nLoops := 0
	writesMemo := map[*ssa.Function]bool{}
	calleeWrites := func(g *ssa.Function) bool {
		if w, ok := writesMemo[g]; ok {
			return w
		}
		w := false
		for _, e := range r.Eff.Reach(g) {
			if e.IsWrite() {
				w = true
				break
			}
		}
		writesMemo[g] = w
		return w
	}
	for _, name := range fnNames {
		anchor := r.Func(id, name)
		if anchor == nil {
			continue
		}
		for _, f := range transparentClosure(r, anchor) {
			sites := map[ssa.Instruction][]*ssa.Function{}
			for _, s := range r.P.CG.Sites[f] {
				sites[s.Instr.(ssa.Instruction)] = s.Callees
			}
			blockWrites := func(b *ssa.BasicBlock) bool {
				for _, ins := range b.Instrs {
					if ci, ok := ins.(ssa.CallInstruction); ok {
						for _, g := range sites[ci.(ssa.Instruction)] {
							if calleeWrites(g) {
								return true
							}
						}
					}
				}
				return false
			}
			for li, l := range cfgx.Loops(f) {
				nLoops++
				for _, ins := range l.Header.Instrs {
					phi, ok := ins.(*ssa.Phi)
					if !ok {
						break
					}
					if !isBoolT(phi.Type()) {
						continue
					}
					// initial value (from outside the loop) must be a constant; a back-edge value must differ
					var init *bool
					carried := false
					for pi, e := range phi.Edges {
						fromLoop := l.Body[phi.Block().Preds[pi]]
						if !fromLoop {
							if k, isK := e.(*ssa.Const); isK && k.Value != nil && k.Value.Kind() == constant.Bool {
								v := constant.BoolVal(k.Value)
								init = &v
							}
							continue
						}
						if k, isK := e.(*ssa.Const); isK && init != nil && k.Value != nil && k.Value.Kind() == constant.Bool && constant.BoolVal(k.Value) == *init {
							continue
						}
						carried = true
					}
					if init == nil || !carried {
						continue
					}
					// the flag's web inside the loop (φs merging it with constants)
					web := map[ssa.Value]bool{phi: true}
					for changed := true; changed; {
						changed = false
						for b := range l.Body {
							for _, i2 := range b.Instrs {
								p2, ok := i2.(*ssa.Phi)
								if !ok || web[p2] {
									continue
								}
								for _, e := range p2.Edges {
									if web[e] {
										web[p2] = true
										changed = true
									}
								}
							}
						}
					}
					for b := range l.Body {
						iff := cfgx.IfOf(b)
						if iff == nil || len(b.Succs) != 2 {
							continue
						}
						cv, pol := stripNotV(iff.Cond)
						if !web[cv] {
							continue
						}
						// the side taken when the flag differs from its initial value
						side := b.Succs[0]
						if (!*init) != pol {
							side = b.Succs[1]
						}
						if !l.Body[side] {
							continue
						}
						// state writes on that side before the loop comes round
						seen := map[*ssa.BasicBlock]bool{side: true}
						q := []*ssa.BasicBlock{side}
						var wr *ssa.BasicBlock
						for len(q) > 0 && wr == nil {
							x := q[0]
							q = q[1:]
							if x != l.Header && blockWrites(x) {
								wr = x
								break
							}
							for _, sc := range x.Succs {
								if l.Body[sc] && sc != l.Header && !seen[sc] {
									seen[sc] = true
									q = append(q, sc)
								}
							}
						}
						key := core.Key(id, r.KeyName(f), fmt.Sprintf("loop#%d flag %s", li+1, strings.TrimPrefix(phi.Comment, "")))
						if wr != nil {
							r.Violate(id, key, r.P.Pos(iff.Cond.Pos()), fmt.Sprintf("the flag %q is carried from one iteration of the loop into the next (it is not re-initialised per element) and decides inside the loop whether the element's state writes happen: once one element has set it, every later element passes without its own test", phi.Comment))
						} else {
							r.Discharge(id, key, r.P.Pos(iff.Cond.Pos()), "the carried flag does not gate state writes inside the loop")
						}
					}
				}
			}
		}
	}
	r.Floor("flag_reset_loops_scanned_"+id, nLoops, 1)
}

func isBoolT(t types.Type) bool {
	b, ok := t.Underlying().(*types.Basic)
	return ok && b.Kind() == types.Bool
}
