package rules

import (
	"fmt"
	"go/token"
	"go/types"
	"strings"

	"golang.org/x/tools/go/ssa"

	"saoverif/internal/cfgx"
	"saoverif/internal/core"
	"saoverif/internal/eff"
	"saoverif/internal/guard"
)

func init() {
	register("C16", checkC16)
	register("C08", checkC08)
}

// ---------------------------------------------------------------- C16

func checkC16(r *core.Run) {
	r.Explanation = "C16 (structural clauses only): identifiers — the order and shard counters are written only by their Append function (and genesis), which stores the record under the counter value it read, returns that value and writes back exactly value+1; in-flight exclusion — the status/commit of an existing model is rewritten only when its status is Complete, and Store reaches that point only when the model's latest order is Completed; base version — the comparison between the model's latest commit and the base named by the request must be an equality. History shape over interleavings is not decided."
	r.Rule("CAP-count: order:{Order/count/, Shard/count/} written only inside SetOrderCount/SetShardCount, called only from AppendOrder/AppendShard and order.InitGenesis")
	r.Rule("T-count: Append*: id := GetCount(); record stored under key(id) with Id := id; SetCount(id + 1); return id")
	r.Rule("G-inflight(renew): in Renew the order renewal and the metadata update are reached only for a model whose Status is MetaComplete (a renewal must not complete a model that has an update in flight)")
	r.Rule("G-inflight: UpdateMetaStatusAndCommit writes <= metadata.Status == MetaComplete; in Store the call <= lastOrder.Status == OrderCompleted with lastOrder = GetOrder(meta.OrderId)")
	r.Rule("T-forcepush: the shrinking reslice of Metadata.Commits is never inside a loop (a force-push replaces only the latest entry)")
	r.Rule("T-persist: a field assigned on a local copy of a stored Metadata record is persisted on every success path of that function (the in-flight marker Status/Commit/OrderId set by UpdateMetaStatusAndCommit must reach the store)")
	rulePersisted(r, "T-persist", "model/types.Metadata")
	r.Rule("T-lost-update: no stale local copy of a record is written back after a helper stored that record")
	ruleLostUpdate(r, "T-lost-update")
	r.Rule("E6-pair(order): the order and shard counters are restored by InitGenesis into the keys ExportGenesis read them from (identifiers stay unique across a genesis restart)")
	ruleGenesisPairs(r, "E6-pair", "order")
	r.Rule("T-base(latest): in Store the call is dominated by a test relating the request's base commit to meta.Commit, the model's latest version (equality or containment) — a membership test in the list of all committed versions accepts stale bases")
	r.Rule("T-base: in Store the call is dominated by an EQUALITY between meta.Commit and the base commit taken from the request (containment admits empty or partial ids)")
	r.Rule("T-status-forward: Order.Status is set to a value other than Completed only on an order built in this transaction or one tested Pending on every path and call chain (Complete commits a version exactly when it finds the order not Completed, so an order that falls back from Completed commits its version twice)")
	ruleStatusForward(r, "T-status-forward")
	r.Assume(aDeps)
	r.Assume(aCG)

	for _, kind := range []string{"Order", "Shard"} {
		setter := "order/keeper.Keeper.Set" + kind + "Count"
		getter := "order/keeper.Keeper.Get" + kind + "Count"
		appendF := "order/keeper.Keeper.Append" + kind
		prefix := kind + "/count/"
		// CAP-count: who writes the prefix
		for _, f := range r.P.Funcs {
			for _, e := range r.Eff.Own[f] {
				if e.IsWrite() && eff.StoreOwner(e) == "order" && e.Prefix == prefix {
					key := core.Key("CAP-count", prefix, "written in "+r.P.Name(f))
					if r.P.Name(f) == setter {
						r.Discharge("CAP-count", key, r.P.Pos(e.Instr.Pos()), "the counter key is written by its setter")
					} else {
						r.Violate("CAP-count", key, r.P.Pos(e.Instr.Pos()), fmt.Sprintf("counter %s is written outside %s: identifiers can be reused or skipped", prefix, setter))
					}
				}
			}
		}
		if sf := r.Func("CAP-count", setter); sf != nil {
			for _, caller := range r.P.CG.In[sf] {
				key := core.Key("CAP-count", setter, "called from "+r.P.Name(caller))
				n := r.P.Name(caller)
				if n == appendF || n == "order.InitGenesis" {
					r.Discharge("CAP-count", key, r.P.FuncPos(caller), "allowed caller")
				} else if r.ConsensusFuncs()[caller] {
					r.Violate("CAP-count", key, r.P.FuncPos(caller), fmt.Sprintf("%s is called from %s: only %s and genesis may set the counter", setter, n, appendF))
				}
			}
		}
		// T-count
		af := r.Func("T-count", appendF)
		if af == nil {
			continue
		}
		res := r.Resolver(af)
		cnt := getter + "()"
		// SetCount(count+1)
		okSet := false
		for _, c := range callsIn(r, af, setter) {
			if t := callTerm(res, c); t != nil && len(t.Args) == 1 && t.Args[0].String() == "("+cnt+" + 1)" {
				okSet = true
			}
		}
		key := core.Key("T-count", appendF, "counter := read + 1")
		if okSet {
			r.Discharge("T-count", key, r.P.FuncPos(af), "SetCount("+cnt+" + 1)")
		} else {
			r.Violate("T-count", key, r.P.FuncPos(af), appendF+" does not write back exactly the counter value it read plus one")
		}
		// record stored under the value read, with Id := value read
		okKey, okId, okRet := false, false, false
		for _, e := range r.Eff.Own[af] {
			if e.Kind == "store.set" && e.KeyVal != nil {
				kt := normT(res.Of(e.KeyVal).String())
				if strings.Contains(kt, "IDBytes(#2.Id)") || strings.Contains(kt, "IDBytes("+cnt+")") {
					okKey = true
				}
			}
		}
		// ... or through the record's own setter (keyed by record.Id inside): a call that receives the record and whose
		// only write is one store.set under key IDBytes(<record>.Id)
		if !okKey {
			for _, b := range af.Blocks {
				for _, ins := range b.Instrs {
					c, ok := ins.(ssa.CallInstruction)
					if !ok {
						continue
					}
					h := c.Common().StaticCallee()
					if h == nil || len(h.Blocks) == 0 {
						continue
					}
					takesRecord := false
					recIdx := -1
					for i, a := range c.Common().Args {
						if strings.HasPrefix(normT(res.Of(a).String()), "#2") {
							takesRecord = true
							recIdx = i
						}
					}
					if !takesRecord {
						continue
					}
					hres := r.Resolver(h)
					for _, e := range r.Eff.Own[h] {
						if e.Kind == "store.set" && e.KeyVal != nil {
							kt := normT(hres.Of(e.KeyVal).String())
							if strings.Contains(kt, fmt.Sprintf("IDBytes(#%d.Id)", recIdx)) {
								okKey = true
							}
						}
					}
				}
			}
		}
		for _, b := range af.Blocks {
			for _, ins := range b.Instrs {
				switch x := ins.(type) {
				case *ssa.Store:
					if fa, ok := x.Addr.(*ssa.FieldAddr); ok && fieldNameT(fa.X.Type(), fa.Field) == "Id" && res.Of(x.Val).String() == cnt {
						okId = true
					}
				case *ssa.Return:
					if len(x.Results) == 1 && res.Of(x.Results[0]).String() == cnt {
						okRet = true
					}
				}
			}
		}
		for name, ok := range map[string]bool{"record.Id := counter value read": okId, "stored under key(record.Id)": okKey, "returns the counter value read": okRet} {
			key := core.Key("T-count", appendF, name)
			if ok {
				r.Discharge("T-count", key, r.P.FuncPos(af), name)
			} else {
				r.Violate("T-count", key, r.P.FuncPos(af), appendF+": "+name+" does not hold")
			}
		}
	}

	// G-inflight
	metaComplete := constVal(r, "model/types", "MetaComplete")
	orderCompleted := constVal(r, "order/types", "OrderCompleted")
	evalGuard(r, "G-inflight", "model/keeper.Keeper.UpdateMetaStatusAndCommit", effSel{AllWrites: true}, []clause{
		cl("model-not-already-being-updated", guard.Eq("*"+fGetMeta+"(#2.DataId)#0.Status", metaComplete)),
	}, 1)
	meta := fGetMeta + "(" + msg + ".Proposal.DataId)#0"
	// Renew: the renewal settles into the model's metadata (UpdateMeta sets Status := MetaComplete and OrderId := the
	// renewal), which would erase the in-flight marker of an update that is under way: it must be refused while the
	// model is not complete
	renewMeta := fGetMeta + "(elem(" + msg + ".Proposal.Data))#0"
	evalGuard(r, "G-inflight", "sao/keeper.msgServer.Renew", effSel{Calls: []string{"order/keeper.Keeper.RenewOrder", "model/keeper.Keeper.UpdateMeta"}}, []clause{
		cl("model-not-being-updated", guard.Eq("*"+renewMeta+".Status", metaComplete)),
	}, 1)
	evalGuard(r, "G-inflight", "sao/keeper.msgServer.Store", effSel{Calls: []string{"model/keeper.Keeper.UpdateMetaStatusAndCommit"}}, []clause{
		cl("latest-order-of-the-model-is-completed", guard.Eq(fGetOrder+"("+meta+".OrderId)#0.Status", orderCompleted)),
		cl("latest-order-exists", guard.True(fGetOrder+"("+meta+".OrderId)#1")),
	}, 1)
	ruleForcePushOnce(r)
	// T-base
	evalGuard(r, "T-base", "sao/keeper.msgServer.Store", effSel{Calls: []string{"model/keeper.Keeper.UpdateMetaStatusAndCommit"}}, []clause{
		cl("base-commit-equals-latest-commit", guard.Eq(meta+".Commit", "*CommitId*")),
		// weaker clause that the tree satisfies: the base named by the request is at least tested against the
		// model's LATEST commit (meta.Commit), not against some other committed version
		cl("base-commit-tested-against-the-latest-commit", guard.Eq(meta+".Commit", "*CommitId*"), guard.True("strings.Contains("+meta+".Commit,*CommitId*)")),
	}, 1)
}

// ---------------------------------------------------------------- C08

func checkC08(r *core.Run) {
	r.Explanation = "C08 (structural clauses only): capability — MintCoins is reachable only from the node begin-blocker and BurnCoins from nowhere (a proof over the call graph); counter identity — the cumulative counter is increased only after a successful mint and by the minted coin; minting is dominated by the pledge/reward/zero tests and the baseline replacement is a guarded minimum; settle-before-change — every persisted change of a pledge's capacity is preceded by settling the pending reward at the old capacity and followed by re-basing the debt at the new one; claim — the pledge read and the payee are the signer's, the whole-coin part is paid and the remainder persisted. Halving numerics and the sum bound are not decided."
	r.Rule("CAP-mint: bank.MintCoins only from node.BeginBlock; bank.BurnCoins from no entry point")
	r.Rule("G-mint: MintCoins <= !TotalPledged.IsZero AND !BlockReward.IsZero AND !rewardCoin.IsZero; TotalReward.Add <= mint err == nil, with the minted coin value; baseline replacement <= reward.LT(rewardCoin.Amount)")
	r.Rule("T-settle: store to Pledge.TotalStorage preceded on every path by the settlement store to Reward.Amount (or the TotalStorage > 0 false edge) and followed, before SetPledge, by the RewardDebt.Amount store")
	r.Rule("T-settle-rebase: in ShardPledge, ShardRelease, AddVstorage and RemoveVstorage every path from the settlement (Reward += Acc×TotalStorage − RewardDebt) to SetPledge re-bases RewardDebt := Acc×TotalStorage (a pledge persisted settled-but-not-re-based is paid the same pending reward again)")
	r.Rule("T-couple(pool): Pool.TotalStorage moves with Pledge.TotalStorage by the same term in AddVstorage/RemoveVstorage (sum of provider shares = pool total, so rate x share sums to what was minted)")
	for _, h := range []string{"node/keeper.msgServer.AddVstorage", "node/keeper.msgServer.RemoveVstorage"} {
		coupleSame(r, "T-couple", h, "node/types.Pledge.TotalStorage", "node/types.Pool.TotalStorage", false)
	}
	r.Rule("E6-all(export-unmodified, node): ExportGenesis of x/node does not rewrite pledge/pool records after reading them (a reward exported with the pending share added, while the debt snapshot stays, is claimable twice after import)")
	ruleExportUnmodified(r, "E6-all", "node")
	r.Rule("T-claim: Pledge.Reward := remainder of TruncateDecimal; amount paid is the truncated part")
	r.Assume(aDeps)
	r.Assume(aCG)

	evalCap(r, capRule{
		ID:   "CAP-mint",
		Desc: "coins are created only by the block reward",
		Match: func(e *eff.Effect) (string, bool) {
			if e.Kind == "bank.MintCoins" {
				return "bank.MintCoins", true
			}
			return "", false
		},
		Allowed: set("node.BeginBlock"),
	})
	evalCap(r, capRule{
		ID:   "CAP-burn",
		Desc: "the storage modules never burn coins",
		Match: func(e *eff.Effect) (string, bool) {
			if e.Kind == "bank.BurnCoins" {
				return "bank.BurnCoins", true
			}
			return "", false
		},
		Allowed: set(),
	})
	// the mint goes through Keeper.MintCoins, which mints to the node module
	pool := "node/keeper.Keeper.GetPool()#0"
	params := "node/keeper.Keeper.GetParams()"
	evalGuard(r, "G-mint", "node.BeginBlocker", effSel{Calls: []string{"node/keeper.Keeper.MintCoins"}}, []clause{
		cl("capacity-is-pledged", guard.False("sdk.Coin.IsZero("+pool+".TotalPledged)")),
		cl("reward-configured", guard.False("sdk.Coin.IsZero("+params+".BlockReward)")),
		cl("reward-non-zero", guard.False("sdk.Coin.IsZero(*)")),
		cl("pool-exists", guard.True("node/keeper.Keeper.GetPool()#1")),
	}, 1)
	if fn := r.Func("G-mint", "node.BeginBlocker"); fn != nil {
		res := r.Resolver(fn)
		ck := &guard.Checker{P: r.P, Fn: fn, Res: res}
		// TotalReward store: dominated by mint success, adds the minted coin (the store may sit in a helper that
		// receives a pointer to the pool: every frame is searched, terms in BeginBlocker's vocabulary)
		n := 0
		minted := ""
		for _, fr := range frames(r, fn) {
			for _, c := range callsIn(r, fr.Fn, "sdk.NewCoins") {
				if call, ok := c.(*ssa.Call); ok {
					if sl, ok := call.Call.Args[0].(*ssa.Slice); ok {
						if al, ok := sl.X.(*ssa.Alloc); ok {
							for _, ref := range *al.Referrers() {
								if ia, ok := ref.(*ssa.IndexAddr); ok {
									for _, r2 := range *ia.Referrers() {
										if s2, ok := r2.(*ssa.Store); ok {
											minted = fr.T(r, s2.Val)
										}
									}
								}
							}
						}
					}
				}
			}
		}
		for _, fr := range frames(r, fn) {
			for _, b := range fr.Fn.Blocks {
				for _, ins := range b.Instrs {
					st, ok := ins.(*ssa.Store)
					if !ok {
						continue
					}
					fa, ok := st.Addr.(*ssa.FieldAddr)
					if !ok || shortTypeName(fa.X.Type())+"."+fieldNameT(fa.X.Type(), fa.Field) != "node/types.Pool.TotalReward" {
						continue
					}
					n++
					key := core.Key("G-mint", "node.BeginBlocker", "store Pool.TotalReward")
					okp, w := mustPassDeep(r, fn, effSite{Ins: st, Chain: fr.Chain}, []guard.Atom{guard.Eq("node/keeper.Keeper.MintCoins(*)", "nil")})
					vt := fr.T(r, st.Val)
					// value must be TotalReward.Add(<coin minted>): the coin added is the one placed in the minted Coins
					sameCoin := strings.HasPrefix(vt, "sdk.Coin.Add(") && minted != "" && strings.HasSuffix(vt, ","+minted+")") && strings.HasSuffix(strings.TrimSuffix(vt, ","+minted+")"), ".TotalReward")
					switch {
					case !okp:
						r.Violate("G-mint", key+"|after-successful-mint", r.P.Pos(st.Pos()), "the cumulative reward counter is increased on a path where the mint did not (provably) succeed", w...)
					default:
						r.Discharge("G-mint", key+"|after-successful-mint", r.P.Pos(st.Pos()), "counter updated only on the mint err == nil edge")
					}
					if sameCoin {
						r.Discharge("G-mint", key+"|by-the-minted-coin", r.P.Pos(st.Pos()), "TotalReward := TotalReward.Add(coin) with coin the value handed to MintCoins")
					} else {
						r.Violate("G-mint", key+"|by-the-minted-coin", r.P.Pos(st.Pos()), fmt.Sprintf("the counter is not increased by exactly the coin that was minted (stored %s, minted %s)", shorten(vt), shorten(minted)))
					}
				}
			}
		}
		if n == 0 {
			r.Undecide("G-mint", "G-mint|node.BeginBlocker|store Pool.TotalReward|sites", r.P.FuncPos(fn), "vacuous: no store to Pool.TotalReward")
		}
		// baseline: rewardCoin replaced only under reward < rewardCoin.Amount (a guarded minimum)
		nb := 0
		anchorFn, anchorRes, anchorCk := fn, res, ck
		for _, fr := range frames(r, anchorFn) {
			fn := fr.Fn
			res := r.Resolver(fn)
			ck := &guard.Checker{P: r.P, Fn: fn, Res: res}
			_, _, _ = anchorRes, anchorCk, anchorFn
			for _, b := range fn.Blocks {
				for _, ins := range b.Instrs {
					st, ok := ins.(*ssa.Store)
					if !ok {
						continue
					}
					al, ok := st.Addr.(*ssa.Alloc)
					if !ok || !strings.HasSuffix(al.Type().String(), "types.Coin") {
						continue
					}
					vt := res.Of(st.Val).String()
					if !strings.Contains(vt, "AnnualPercentageYield") {
						continue // the initial assignment from the halving schedule
					}
					if vc, isCall := st.Val.(*ssa.Call); !isCall || vc.Call.StaticCallee() == nil || vc.Call.StaticCallee().Name() != "NewCoin" {
						continue // the result of a helper that decides the reward: the clause is evaluated inside that helper
					}
					nb++
					key := core.Key("G-mint", "node.BeginBlocker", "baseline replacement is a minimum")
					// the comparison must be against the amount of the very coin being replaced: LT(x, load(&rewardCoin.Amount))
					cmp := ""
					for _, bb := range fn.Blocks {
						if iff := lastIfOf(bb); iff != nil {
							if c, ok := iff.Cond.(*ssa.Call); ok && c.Call.StaticCallee() != nil && c.Call.StaticCallee().Name() == "LT" && len(c.Call.Args) == 2 {
								if ld, ok := c.Call.Args[1].(*ssa.UnOp); ok {
									if fa, ok := ld.X.(*ssa.FieldAddr); ok && fa.X == al {
										cmp = guard.Exact(res.Of(c).String())
									}
								}
							}
						}
					}
					if cmp == "" {
						r.Violate("G-mint", key, r.P.Pos(st.Pos()), "the APY-based reward replaces the scheduled reward without being compared with the scheduled (halved) reward itself: more than the block reward for the current halving age can be minted")
						continue
					}
					if okp, w := ck.MustPass(b, []guard.Atom{guard.True(cmp)}); okp {
						r.Discharge("G-mint", key, r.P.Pos(st.Pos()), "the APY-based reward replaces the scheduled reward only when it is smaller")
					} else {
						r.Violate("G-mint", key, r.P.Pos(st.Pos()), "the APY-based reward can replace the scheduled block reward even when it is larger: more than the configured block reward could be minted", w...)
					}
				}
			}
		}
		// the same clause when the reward coin is an SSA value (not address-taken): minted := φ(scheduled, baseline)
		for _, fr := range frames(r, anchorFn) {
			g := fr.Fn
			gres := r.Resolver(g)
			gck := &guard.Checker{P: r.P, Fn: g, Res: gres}
			for _, b := range g.Blocks {
				for _, ins := range b.Instrs {
					bc, ok := ins.(*ssa.Call)
					if !ok || bc.Call.StaticCallee() == nil || bc.Call.StaticCallee().Name() != "NewCoin" {
						continue
					}
					if !strings.Contains(gres.Of(bc).String(), "AnnualPercentageYield") {
						continue
					}
					// merged with the scheduled coin in a φ?
					var others []ssa.Value
					for _, ref := range *bc.Referrers() {
						if phi, ok := ref.(*ssa.Phi); ok {
							for _, e := range phi.Edges {
								if e != ssa.Value(bc) {
									others = append(others, e)
								}
							}
						}
					}
					if len(others) == 0 {
						continue // the address-taken form is handled above
					}
					nb++
					key := core.Key("G-mint", "node.BeginBlocker", "baseline replacement is a minimum")
					cmp := ""
					for _, bb := range g.Blocks {
						if iff := lastIfOf(bb); iff != nil {
							if c, ok := iff.Cond.(*ssa.Call); ok && c.Call.StaticCallee() != nil && c.Call.StaticCallee().Name() == "LT" && len(c.Call.Args) == 2 {
								if fl, ok := c.Call.Args[1].(*ssa.Field); ok {
									for _, o := range others {
										if fl.X == o {
											cmp = guard.Exact(gres.Of(c).String())
										}
									}
								}
							}
						}
					}
					if cmp == "" {
						r.Violate("G-mint", key, r.P.Pos(bc.Pos()), "the APY-based reward replaces the scheduled reward without being compared with the scheduled (halved) reward itself: more than the block reward for the current halving age can be minted")
						continue
					}
					if okp, w := gck.MustPass(b, []guard.Atom{guard.True(cmp)}); okp {
						r.Discharge("G-mint", key, r.P.Pos(bc.Pos()), "the APY-based reward replaces the scheduled reward only when it is smaller")
					} else {
						r.Violate("G-mint", key, r.P.Pos(bc.Pos()), "the APY-based reward can replace the scheduled block reward even when it is larger: more than the configured block reward could be minted", w...)
					}
				}
			}
		}
		r.Count("baseline_replacements", nb)
	}
	// Keeper.MintCoins mints to the node module only
	evalArgAll(r, "G-mint", "node/keeper.Keeper.MintCoins", "node/types.BankKeeper.MintCoins", 0, []string{"\"node\""}, "minted coins go to the node module account")

	// T-settle
	for _, fnName := range []string{"node/keeper.msgServer.AddVstorage", "node/keeper.msgServer.RemoveVstorage"} {
		checkSettle(r, fnName)
	}
	for _, fnName := range []string{"node/keeper.Keeper.ShardPledge", "node/keeper.Keeper.ShardRelease", "node/keeper.msgServer.AddVstorage", "node/keeper.msgServer.RemoveVstorage"} {
		checkSettleRebase(r, fnName)
	}
	// T-claim
	if fn := r.Func("T-claim", "node/keeper.msgServer.ClaimReward"); fn != nil {
		// typestate walk (through helpers outside the vocabulary):
		//   split   : TruncateDecimal(pledge.Reward) — the point where the reward is divided into the part to pay
		//             (or to write off against debt) and the fractional remainder
		//   assign  : Pledge.Reward := that remainder
		//   persist : SetPledge
		//   success : a success return of ClaimReward
		// after a split, every success return must have passed assign and then persist
		const (
			split = 1 << iota
			assigned
			persisted
		)
		events := func(f *ssa.Function, ins ssa.Instruction, T func(ssa.Value) string) []string {
			switch x := ins.(type) {
			case *ssa.Store:
				if fa, ok := x.Addr.(*ssa.FieldAddr); ok && shortTypeName(fa.X.Type())+"."+fieldNameT(fa.X.Type(), fa.Field) == "node/types.Pledge.Reward" {
					vt := normT(T(x.Val))
					if strings.HasPrefix(vt, "sdk.DecCoin.TruncateDecimal(") && strings.HasSuffix(vt, ".Reward)#1") {
						return []string{"assign"}
					}
					return []string{"otherassign"}
				}
			case ssa.CallInstruction:
				n, _ := r.Resolver(f).CalleeName(x.Common())
				if n == "sdk.DecCoin.TruncateDecimal" && len(x.Common().Args) == 1 && strings.HasSuffix(normT(T(x.Common().Args[0])), ".Reward") {
					return []string{"split"}
				}
				if n == "node/keeper.Keeper.SetPledge" {
					return []string{"persist"}
				}
			case *ssa.Return:
				if f == fn && successReturnIn(r, fn, x.Block()) {
					return []string{"success"}
				}
			}
			return nil
		}
		t := &tsRule{r: r, events: events, step: func(st uint8, ev string) (uint8, string) {
			switch ev {
			case "split":
				return split, ""
			case "assign":
				if st&split != 0 {
					return (st | assigned) &^ persisted, ""
				}
			case "otherassign":
				return st &^ (assigned | persisted), ""
			case "persist":
				if st&assigned != 0 {
					return st | persisted, ""
				}
			case "success":
				if st&split != 0 && (st&assigned == 0 || st&persisted == 0) {
					return st, "unpersisted"
				}
			}
			return st, ""
		}}
		res := t.run(fn, 0)
		key := core.Key("T-claim", "node/keeper.msgServer.ClaimReward", "remainder persisted on every success path")
		if res.counts["split"] > 0 {
			if res.bad == "" {
				r.Discharge("T-claim", key, r.P.FuncPos(fn), "after the reward is split, every success return has passed Pledge.Reward := remainder and then SetPledge")
			} else {
				pos := r.P.FuncPos(fn)
				if res.badAt != nil {
					pos = r.P.Pos(res.badAt.Pos())
				}
				r.Violate("T-claim", key, pos, "ClaimReward can succeed without writing the reduced reward back (the remainder is not assigned, or SetPledge is skipped, on some path after the reward was split — e.g. when the whole-coin part was used up against the provider's collateral debt): the same accrued reward can then be claimed, or written off against debt, again")
			}
		}
		key = core.Key("T-claim", "node/keeper.msgServer.ClaimReward", "remainder persisted")
		if res.counts["assign"] > 0 {
			r.Discharge("T-claim", key, r.P.FuncPos(fn), "Pledge.Reward := TruncateDecimal(pledge.Reward)#1 (the fractional remainder)")
		} else {
			r.Violate("T-claim", key, r.P.FuncPos(fn), "after a claim the pledge does not keep exactly the fractional remainder of its reward: the claimed part could be claimed again")
		}
		evalGuard(r, "T-claim", "node/keeper.msgServer.ClaimReward", effSel{Calls: []string{"node/keeper.Keeper.SetPledge"}}, []clause{
			cl("pledge-exists", guard.True(fGetPledge+"("+msg+".Creator)#1")),
		}, 1)
	}
}

func lastIfOf(b *ssa.BasicBlock) *ssa.If {
	if len(b.Instrs) == 0 {
		return nil
	}
	i, _ := b.Instrs[len(b.Instrs)-1].(*ssa.If)
	return i
}

// ruleForcePushOnce: a force-push drops at most the latest committed version: the shrinking reslice of
// Metadata.Commits is not inside any loop, and happens only in the force-push case.
func ruleForcePushOnce(r *core.Run) {
	n := 0
	for _, f := range r.P.SortedFuncs(r.ConsensusFuncs()) {
		if r.P.IsGenerated(f) {
			continue
		}
		loops := cfgx.Loops(f)
		for _, b := range f.Blocks {
			for _, ins := range b.Instrs {
				st, ok := ins.(*ssa.Store)
				if !ok {
					continue
				}
				if fieldPath(st.Addr) != "model/types.Metadata.Commits" {
					continue
				}
				sl, ok := st.Val.(*ssa.Slice)
				if !ok {
					continue // append / assignment
				}
				n++
				key := core.Key("T-forcepush", r.KeyName(f), "Metadata.Commits shrinks at most once")
				inLoop := false
				for _, l := range loops {
					if l.Body[b] {
						inLoop = true
					}
				}
				_ = sl
				if inLoop {
					r.Violate("T-forcepush", key, r.P.Pos(st.Pos()), "the version history (Metadata.Commits) is shortened inside a loop: a force-push can erase more than the latest committed version")
				} else {
					r.Discharge("T-forcepush", key, r.P.Pos(st.Pos()), "the history is shortened by one entry outside any loop")
				}
			}
		}
	}
	r.Floor("history_shrink_sites", n, 1)
}

// checkSettleRebase (T-settle-rebase): wherever the pending reward is added to Pledge.Reward (settle: Reward +=
// Acc×TotalStorage − RewardDebt), the snapshot RewardDebt must be re-based to Acc×TotalStorage before the pledge is
// persisted — on every path, early returns through new helpers included. A pledge persisted settled-but-not-re-based
// is credited the same pending amount again by the next settlement (claimed + claimable exceeds what was minted).
func checkSettleRebase(r *core.Run, fnName string) {
	const id = "T-settle-rebase"
	fn := r.Func(id, fnName)
	if fn == nil {
		return
	}
	events := func(f *ssa.Function, ins ssa.Instruction, T func(ssa.Value) string) []string {
		switch x := ins.(type) {
		case *ssa.Store:
			at := normT(T(x.Addr))
			vt := normT(T(x.Val))
			switch {
			case strings.HasSuffix(at, ".Reward.Amount"):
				if strings.Contains(vt, ".AccRewardPerByte.Amount") && strings.Contains(vt, ".RewardDebt.Amount") {
					return []string{"settle"}
				}
			case strings.HasSuffix(at, ".RewardDebt.Amount"):
				if strings.Contains(vt, ".AccRewardPerByte.Amount") && strings.Contains(vt, ".TotalStorage") && !strings.Contains(vt, ".RewardDebt.Amount") {
					return []string{"rebase"}
				}
			}
		case ssa.CallInstruction:
			if n, _ := r.Resolver(f).CalleeName(x.Common()); n == "node/keeper.Keeper.SetPledge" {
				return []string{"persist"}
			}
		}
		return nil
	}
	t := &tsRule{r: r, events: events, step: func(st uint8, ev string) (uint8, string) {
		switch ev {
		case "settle":
			return 1, ""
		case "rebase":
			return 0, ""
		case "persist":
			if st == 1 {
				return st, "persisted settled but not re-based"
			}
		}
		return st, ""
	}}
	res := t.run(fn, 0)
	key := core.Key(id, fnName, "settled reward => debt re-based before the pledge is persisted")
	switch {
	case res.counts["settle"] == 0 || res.counts["persist"] == 0:
		r.Undecide(id, key, r.P.FuncPos(fn), fmt.Sprintf("vacuous: expected a settlement and a SetPledge under %s (found %d, %d)", fnName, res.counts["settle"], res.counts["persist"]))
	case res.bad == "":
		r.Discharge(id, key, r.P.FuncPos(fn), "after Reward += pending every path to SetPledge passes RewardDebt := Acc×TotalStorage")
	default:
		pos := r.P.FuncPos(fn)
		if res.badAt != nil && res.badAt.Pos().IsValid() {
			pos = r.P.Pos(res.badAt.Pos())
		}
		r.Violate(id, key, pos, fnName+" persists a pledge whose pending reward was added to Reward while RewardDebt still holds the old snapshot: the next settlement (claim, vstorage change, shard pledge/release) credits the same amount again — claimed plus claimable exceeds what was minted, and another provider's claim fails for lack of funds")
	}
}

// checkSettle: ordering around a change of Pledge.TotalStorage.
func checkSettle(r *core.Run, fnName string) {
	fn := r.Func("T-settle", fnName)
	if fn == nil {
		return
	}
	// An ordering property over four kinds of events, decided by a typestate walk that goes through helpers outside
	// the vocabulary in place (the settlement, the capacity change and the re-basing are often helpers that receive
	// a pointer to the pledge):
	//   settle  : Reward.Amount += Acc*TotalStorage - RewardDebt   (or the edge on which TotalStorage <= 0)
	//   change  : Pledge.TotalStorage +/-= ...
	//   rebase  : RewardDebt.Amount := Acc*TotalStorage
	//   persist : SetPledge
	const (
		settled = 1 << iota
		changed
		rebased
	)
	events := func(f *ssa.Function, ins ssa.Instruction, T func(ssa.Value) string) []string {
		switch x := ins.(type) {
		case *ssa.Store:
			at := normT(T(x.Addr))
			vt := normT(T(x.Val))
			switch {
			case strings.HasSuffix(at, ".TotalStorage") && strings.Contains(at, "GetPledge"):
				if strings.Contains(vt, " + ") || strings.Contains(vt, " - ") {
					return []string{"change"}
				}
			case strings.HasSuffix(at, ".Reward.Amount"):
				if strings.Contains(vt, "sdk.Dec.Sub(sdk.Dec.MulInt64(") && strings.Contains(vt, ".AccRewardPerByte.Amount,") && strings.Contains(vt, ".TotalStorage)") && strings.Contains(vt, ".RewardDebt.Amount)") {
					return []string{"settle"}
				}
			case strings.HasSuffix(at, ".RewardDebt.Amount"):
				if strings.HasPrefix(vt, "sdk.Dec.MulInt64(") && strings.Contains(vt, ".AccRewardPerByte.Amount,") && strings.HasSuffix(vt, ".TotalStorage)") {
					return []string{"rebase"}
				}
			}
		case ssa.CallInstruction:
			if n, _ := r.Resolver(f).CalleeName(x.Common()); n == "node/keeper.Keeper.SetPledge" {
				return []string{"persist"}
			}
		}
		return nil
	}
	edges := func(ck *guard.Checker) map[cfgx.Edge]string {
		m := map[cfgx.Edge]string{}
		for e := range ck.PassEdges([]guard.Atom{guard.Ge("0", "*.TotalStorage")}) {
			m[e] = "zerocap"
		}
		return m
	}
	run := func(clause int) *tsResult {
		t := &tsRule{r: r, events: events, edges: edges, step: func(st uint8, ev string) (uint8, string) {
			switch ev {
			case "settle", "zerocap":
				return st | settled, ""
			case "change":
				msg := ""
				if st&settled == 0 && clause == 1 {
					msg = "unsettled"
				}
				return (st | changed) &^ rebased, msg
			case "rebase":
				return st | rebased, ""
			case "persist":
				if st&changed != 0 && st&rebased == 0 && clause == 2 {
					return st, "not rebased"
				}
			}
			return st, ""
		}}
		return t.run(fn, 0)
	}
	r1, r2 := run(1), run(2)
	if r1.bad == "" && r2.bad == "" && (r1.counts["change"] == 0 || r1.counts["persist"] == 0) {
		r.Undecide("T-settle", core.Key("T-settle", fnName, "sites"), r.P.FuncPos(fn), fmt.Sprintf("expected a change of Pledge.TotalStorage and a SetPledge under %s (found %d, %d)", fnName, r1.counts["change"], r1.counts["persist"]))
		return
	}
	pos := func(x *tsResult) string {
		if x.badAt != nil {
			return r.P.Pos(x.badAt.Pos())
		}
		return r.P.FuncPos(fn)
	}
	key := core.Key("T-settle", fnName, "pending reward settled before the capacity changes")
	if r1.bad == "" && (r1.counts["settle"]+r1.counts["zerocap"] > 0 || r2.bad != "") {
		r.Discharge("T-settle", key, r.P.FuncPos(fn), "Reward.Amount += Acc*TotalStorage − RewardDebt on every path to the change (or the pledge had no capacity)")
	} else {
		r.Violate("T-settle", key, pos(r1), "Pledge.TotalStorage is changed on a path that has not first settled the pending reward at the old capacity (Reward += Acc×TotalStorage − RewardDebt): the provider's accrued share is computed with the wrong capacity")
	}
	key2 := core.Key("T-settle", fnName, "reward debt re-based after the capacity changes")
	if r2.bad == "" && (r2.counts["rebase"] > 0 || r1.bad != "") {
		r.Discharge("T-settle", key2, r.P.FuncPos(fn), "RewardDebt.Amount := Acc*TotalStorage' between the change and SetPledge")
	} else {
		r.Violate("T-settle", key2, pos(r2), "after Pledge.TotalStorage changes the reward debt is not re-based (RewardDebt := Acc×TotalStorage') before the pledge is persisted: later settlements pay for capacity that was not pledged (or withhold what was)")
	}
}

// rulePersisted (T-persist): a change made to a local copy of a stored record in
// a function that does persist that copy on other paths is persisted on every
// success path (an early `return nil` between the field assignments and the
// setter silently drops e.g. the in-flight marker of a data model).
func rulePersisted(r *core.Run, id string, typeNames ...string) {
	tn := set(typeNames...)
	n, scanned := 0, 0
	for _, f := range r.P.SortedFuncs(r.ConsensusFuncs()) {
		if r.P.IsGenerated(f) {
			continue
		}
		scanned++
		seen := map[string]bool{}
		for _, u := range unpersisted(r, f, tn) {
			key := core.Key(id, r.KeyName(f), u.Field)
			if seen[key] {
				continue
			}
			seen[key] = true
			n++
			r.Violate(id, key, r.P.Pos(u.Store.Pos()), fmt.Sprintf("%s assigns %s on its local copy of a stored record and can then return success without persisting that copy (it does persist it on other paths): the change is silently dropped", r.P.Name(f), u.Field), pathDesc(r, u.Path))
		}
	}
	r.Discharge(id, core.Key(id, "scope"), "", fmt.Sprintf("%d functions scanned for modified-but-unpersisted local records of %v, %d found", scanned, typeNames, n))
	r.Count("persist_functions_scanned", scanned)
}

// ruleStatusForward (T-status-forward): Complete decides "this is the first completion of the order: commit its
// version, move its price to the market escrow" by finding Order.Status != Completed. That is sound only if a
// Completed order never goes back: every assignment of another status to an order record must hit an order that was
// built in this transaction (a literal), or one that a test found Pending — in the assigning function, or at every
// call site up the chain (the record is followed through pointer parameters).
func ruleStatusForward(r *core.Run, id string) {
	completed := constVal(r, "order/types", "OrderCompleted")
	pending := constVal(r, "order/types", "OrderPending")
	atoms := []guard.Atom{guard.Eq("*"+fGetOrder+"(*)#0.Status", pending)}
	cons := r.ConsensusFuncs()
	var okAt func(f *ssa.Function, blk *ssa.BasicBlock, rec ssa.Value, depth int) (bool, string)
	okAt = func(f *ssa.Function, blk *ssa.BasicBlock, rec ssa.Value, depth int) (bool, string) {
		for _, fr := range frames(r, f) {
			if len(fr.Chain) == 0 {
				if ok, _ := mustPassDeep(r, f, effSite{Ins: blk.Instrs[len(blk.Instrs)-1]}, atoms); ok {
					return true, ""
				}
			}
		}
		ck := &guard.Checker{P: r.P, Fn: f, Res: r.Resolver(f)}
		if ok, _ := ck.MustPass(blk, atoms); ok {
			return true, ""
		}
		// the record itself
		base := rec
		for {
			switch x := base.(type) {
			case *ssa.FieldAddr:
				base = x.X
				continue
			case *ssa.UnOp:
				if x.Op == token.MUL {
					if _, isPtr := x.Type().Underlying().(*types.Pointer); !isPtr {
						base = x.X
						continue
					}
				}
			}
			break
		}
		switch x := base.(type) {
		case *ssa.Alloc:
			// built here: no whole value from the store is ever put into it
			fromStore := false
			for _, ref := range *x.Referrers() {
				if st, ok := ref.(*ssa.Store); ok && st.Addr == ssa.Value(x) {
					if p, isParam := st.Val.(*ssa.Parameter); isParam {
						return okParam(r, f, p, depth, okAt, cons)
					}
					if strings.Contains(r.Resolver(f).Of(st.Val).String(), "GetOrder") {
						fromStore = true
					}
				}
			}
			if !fromStore {
				return true, ""
			}
			return false, "the order comes from the store and is not tested Pending in " + r.P.Name(f)
		case *ssa.Parameter:
			return okParam(r, f, x, depth, okAt, cons)
		}
		return false, "the record written cannot be traced to a fresh order or a tested one in " + r.P.Name(f)
	}
	n := 0
	for _, f := range r.P.SortedFuncs(cons) {
		if r.P.IsGenerated(f) {
			continue
		}
		k := 0
		for _, b := range f.Blocks {
			for _, ins := range b.Instrs {
				st, ok := ins.(*ssa.Store)
				if !ok {
					continue
				}
				fa, ok := st.Addr.(*ssa.FieldAddr)
				if !ok || shortTypeName(fa.X.Type())+"."+fieldNameT(fa.X.Type(), fa.Field) != "order/types.Order.Status" {
					continue
				}
				vt := r.Resolver(f).Of(st.Val).String()
				if vt == completed {
					continue
				}
				n++
				k++
				key := core.Key(id, r.KeyName(f), fmt.Sprintf("store Order.Status := %s#%d", shorten(vt), k))
				if ok2, why := okAt(f, b, fa.X, 0); ok2 {
					r.Discharge(id, key, r.P.Pos(st.Pos()), "the order whose status is set is built in this transaction or was tested Pending on every path / call chain")
				} else {
					r.Violate(id, key, r.P.Pos(st.Pos()), "Order.Status is set to a value other than Completed on an order that may already be Completed ("+why+"): Complete then treats the next shard completion as the first one — the version is committed again (history [v1 v2 v1]) and the price is deposited a second time")
				}
			}
		}
	}
	r.Floor("order_status_assignments", n, 1)
}

func okParam(r *core.Run, f *ssa.Function, p *ssa.Parameter, depth int, okAt func(*ssa.Function, *ssa.BasicBlock, ssa.Value, int) (bool, string), cons map[*ssa.Function]bool) (bool, string) {
	if depth >= 4 {
		return false, "call-chain depth bound reached in " + r.P.Name(f)
	}
	idx := -1
	for i, q := range f.Params {
		if q == p {
			idx = i
		}
	}
	nSites := 0
	for _, caller := range r.P.CG.In[f] {
		if !cons[caller] {
			continue
		}
		for _, s := range r.P.CG.Sites[caller] {
			for _, c := range s.Callees {
				if c != f {
					continue
				}
				args := s.Instr.Common().Args
				ai := idx
				if s.Instr.Common().IsInvoke() {
					ai = idx - 1
				}
				if ai < 0 || ai >= len(args) {
					return false, "argument not found at " + r.P.Pos(s.Instr.Pos())
				}
				nSites++
				if ok, why := okAt(caller, s.Instr.Block(), args[ai], depth+1); !ok {
					return false, why + " (reached through " + r.P.Name(f) + " called at " + r.P.Pos(s.Instr.Pos()) + ")"
				}
			}
		}
	}
	if nSites == 0 {
		return false, "no caller of " + r.P.Name(f) + " found"
	}
	return true, ""
}
