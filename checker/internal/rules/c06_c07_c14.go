package rules

import (
	"fmt"
	"go/token"
	"go/types"
	"regexp"
	"strings"

	"golang.org/x/tools/go/ssa"

	"saoverif/internal/cfgx"
	"saoverif/internal/core"
	"saoverif/internal/guard"
)

func init() {
	register("C06", checkC06)
	register("C07", checkC07)
	register("C14", checkC14)
}

// ---------------------------------------------------------------- deltas

type delta struct {
	Field string // "node/types.Pledge.UsedStorage"
	Sign  int    // +1, -1, 0 = plain assignment
	Term  string // the amount added/subtracted (or assigned), parameters renamed by type ($Shard, $Order, ...)
	Raw   string // same, but keeping the memory-instability markers (~)
	Ins   *ssa.Store
	Top   ssa.Instruction // where it happens in the anchor: the store itself, or the call that leads to the helper holding it
}

var reParamTok = regexp.MustCompile(`(^|[^)\w])#([0-9]+)`)

// byTypeParams renames #i to $<TypeName> for record-typed parameters so that sibling functions can be compared.
func byTypeParams(fn *ssa.Function, s string) string {
	return reParamTok.ReplaceAllStringFunc(s, func(m string) string {
		sm := reParamTok.FindStringSubmatch(m)
		var i int
		fmt.Sscanf(sm[2], "%d", &i)
		if i < len(fn.Params) {
			t := fn.Params[i].Type()
			if p, ok := t.(*types.Pointer); ok {
				t = p.Elem()
			}
			if n, ok := t.(*types.Named); ok {
				return sm[1] + "$" + n.Obj().Name()
			}
		}
		return m
	})
}

// fieldPath: "pkg.Type.F1.F2" for a (nested) field address.
func fieldPath(v ssa.Value) string {
	var parts []string
	for {
		fa, ok := v.(*ssa.FieldAddr)
		if !ok {
			break
		}
		parts = append([]string{fieldNameT(fa.X.Type(), fa.Field)}, parts...)
		if _, inner := fa.X.(*ssa.FieldAddr); !inner {
			return shortTypeName(fa.X.Type()) + "." + strings.Join(parts, ".")
		}
		v = fa.X
	}
	return ""
}

func deltasOf(r *core.Run, fn *ssa.Function) []delta {
	var out []delta
	for _, fr := range frames(r, fn) {
		out = append(out, deltasOfFrame(r, fn, fr)...)
	}
	return out
}

// deltasOfFrame: field updates in one frame, amounts expressed in the anchor's vocabulary.
func deltasOfFrame(r *core.Run, anchor *ssa.Function, fr frame) []delta {
	var out []delta
	for _, b := range fr.Fn.Blocks {
		for _, ins := range b.Instrs {
			st, ok := ins.(*ssa.Store)
			if !ok {
				continue
			}
			fp := fieldPath(st.Addr)
			if fp == "" {
				continue
			}
			base := fr.T(r, st.Addr)
			v := fr.T(r, st.Val)
			rawV := fr.Raw(r, st.Val)
			d := delta{Field: fp, Ins: st, Top: st}
			if len(fr.Chain) > 0 {
				d.Top = fr.Chain[0].(ssa.Instruction)
			}
			for _, pat := range []struct {
				pre  string
				sign int
			}{
				{"(" + base + " + ", +1}, {"(" + base + " - ", -1},
				{"sdk.Coin.Add(" + base + ",", +1}, {"sdk.Coin.Sub(" + base + ",", -1},
				{"sdk.Dec.Add(" + base + ",", +1}, {"sdk.Dec.Sub(" + base + ",", -1},
				{"math.Int.Add(" + base + ",", +1}, {"math.Int.Sub(" + base + ",", -1},
				{"sdk.DecCoin.Add(" + base + ",", +1}, {"sdk.DecCoin.Sub(" + base + ",", -1},
			} {
				if strings.HasPrefix(v, pat.pre) && strings.HasSuffix(v, ")") {
					d.Sign = pat.sign
					d.Term = byTypeParams(anchor, v[len(pat.pre):len(v)-1])
					if i := strings.LastIndex(rawV, ","); i >= 0 && strings.HasSuffix(rawV, ")") {
						d.Raw = byTypeParams(anchor, rawV[i+1:len(rawV)-1])
					}
				}
			}
			if d.Sign == 0 {
				d.Term = byTypeParams(anchor, v)
			}
			out = append(out, d)
		}
	}
	return out
}

func findDelta(ds []delta, field string) []delta {
	var out []delta
	for _, d := range ds {
		if d.Field == field {
			out = append(out, d)
		}
	}
	return collapseAlternatives(out)
}

// collapseAlternatives: the same update (same field, sign and amount) written on two paths that exclude each other —
// an early-return branch moved into a helper and the ordinary path — is one update, not two.
func collapseAlternatives(ds []delta) []delta {
	reach := func(a, b *ssa.BasicBlock) bool {
		seen := map[*ssa.BasicBlock]bool{a: true}
		q := []*ssa.BasicBlock{a}
		for len(q) > 0 {
			x := q[0]
			q = q[1:]
			for _, sc := range x.Succs {
				if sc == b {
					return true
				}
				if !seen[sc] {
					seen[sc] = true
					q = append(q, sc)
				}
			}
		}
		return false
	}
	exclusive := func(x, y delta) bool {
		if x.Top == nil || y.Top == nil || x.Top.Block() == nil || y.Top.Block() == nil {
			return false
		}
		bx, by := x.Top.Block(), y.Top.Block()
		if bx == by || bx.Parent() != by.Parent() {
			return false
		}
		return !reach(bx, by) && !reach(by, bx)
	}
	var out []delta
	for _, d := range ds {
		dup := false
		for _, o := range out {
			if o.Field == d.Field && o.Sign == d.Sign && o.Term == d.Term && exclusive(o, d) {
				dup = true
			}
		}
		if !dup {
			out = append(out, d)
		}
	}
	return out
}

// amountOf rewrites NewCoin(d,a) to a (the Int amount of a coin term).
func amountOf(t string) string {
	if strings.HasPrefix(t, "sdk.NewCoin(") && strings.HasSuffix(t, ")") {
		in := t[len("sdk.NewCoin(") : len(t)-1]
		// split at the top-level comma
		depth := 0
		for i := 0; i < len(in); i++ {
			switch in[i] {
			case '(', '[':
				depth++
			case ')', ']':
				depth--
			case ',':
				if depth == 0 {
					return in[i+1:]
				}
			}
		}
	}
	return t + ".Amount"
}

// coupleSiblings: +term in fnA and -term in fnB on the same field (after renaming parameters by type).
func coupleSiblings(r *core.Run, id, field, fnA, fnB string) {
	a, b := r.Func(id, fnA), r.Func(id, fnB)
	if a == nil || b == nil {
		return
	}
	nz := func(xs []delta) []delta {
		var o []delta
		for _, x := range xs {
			if x.Sign != 0 {
				o = append(o, x)
			}
		}
		return o
	}
	da, db := nz(findDelta(deltasOf(r, a), field)), nz(findDelta(deltasOf(r, b), field))
	key := core.Key(id, field, fnA+" / "+fnB)
	if len(da) != 1 || len(db) != 1 {
		r.Undecide(id, key, "", fmt.Sprintf("expected exactly one update of %s in each of %s and %s (found %d, %d)", field, fnA, fnB, len(da), len(db)))
		return
	}
	if da[0].Sign == +1 && db[0].Sign == -1 && da[0].Term == db[0].Term {
		r.Discharge(id, key, r.P.Pos(da[0].Ins.Pos()), fmt.Sprintf("%s: +%s on append, −%s on release", field, da[0].Term, db[0].Term))
	} else {
		r.Violate(id, key, r.P.Pos(db[0].Ins.Pos()), fmt.Sprintf("%s is changed by %+d×(%s) in %s but by %+d×(%s) in %s: what is added when a shard starts is not what is taken away when it ends", field, da[0].Sign, shorten(da[0].Term), fnA, db[0].Sign, shorten(db[0].Term), fnB))
	}
}

// coupleSame: in fn, field1 and field2 move by the same amount (optionally comparing a coin with its Int amount).
func coupleSame(r *core.Run, id, fnName, field1, field2 string, coinVsAmount bool) {
	fn := r.Func(id, fnName)
	if fn == nil {
		return
	}
	ds := deltasOf(r, fn)
	d1, d2 := findDelta(ds, field1), findDelta(ds, field2)
	// ignore plain initialisations (assignments of literals in a "not found" branch)
	filter := func(xs []delta) []delta {
		var o []delta
		for _, x := range xs {
			if x.Sign != 0 {
				o = append(o, x)
			}
		}
		return o
	}
	d1, d2 = filter(d1), filter(d2)
	key := core.Key(id, fnName, field1+" <-> "+field2)
	if len(d1) != 1 || len(d2) != 1 {
		r.Violate(id, key, r.P.FuncPos(fn), fmt.Sprintf("%s updates %s %d time(s) and %s %d time(s): the two aggregates are not changed together", fnName, field1, len(d1), field2, len(d2)))
		return
	}
	t1, t2 := d1[0].Term, d2[0].Term
	if coinVsAmount {
		t1 = amountOf(t1)
	}
	if d1[0].Sign == d2[0].Sign && t1 == t2 {
		r.Discharge(id, key, r.P.Pos(d1[0].Ins.Pos()), fmt.Sprintf("both move by %+d×(%s)", d1[0].Sign, shorten(t2)))
	} else {
		r.Violate(id, key, r.P.Pos(d2[0].Ins.Pos()), fmt.Sprintf("in %s, %s moves by %+d×(%s) but %s moves by %+d×(%s)", fnName, field1, d1[0].Sign, shorten(t1), field2, d2[0].Sign, shorten(t2)))
	}
}

// ruleShardPledgeBooked: every persisted assignment Shard.Pledge := v comes with TotalShardPledged moving by v (or v − old).
func ruleShardPledgeBooked(r *core.Run) {
	n := 0
	for _, f := range r.P.SortedFuncs(r.ConsensusFuncs()) {
		if r.P.IsGenerated(f) {
			continue
		}
		if r.P.Transparent(f) {
			continue // a helper outside the vocabulary is judged as part of the functions it belongs to (frames)
		}
		ds := deltasOf(r, f)
		sp := findDelta(ds, "order/types.Shard.Pledge")
		if len(sp) == 0 {
			continue
		}
		// only functions that persist the shard
		if len(deepCalls(r, f, "order/keeper.Keeper.SetShard")) == 0 {
			continue
		}
		for i, d := range sp {
			n++
			key := core.Key("T-couple", r.KeyName(f), fmt.Sprintf("Shard.Pledge assignment#%d <-> Pledge.TotalShardPledged", i+1))
			tot := findDelta(ds, "node/types.Pledge.TotalShardPledged")
			ok := false
			for _, t := range tot {
				if t.Sign == +1 && (t.Term == d.Term || strings.HasPrefix(t.Term, "sdk.Coin.Sub("+d.Term+",")) {
					ok = true
				}
			}
			if ok {
				r.Discharge("T-couple", key, r.P.Pos(d.Ins.Pos()), "the provider's total shard collateral moves by the amount stored as the shard's collateral")
			} else {
				other := ""
				for _, t := range ds {
					if strings.HasPrefix(t.Field, "node/types.Pledge.") && t.Sign != 0 && strings.Contains(t.Field, "Pledged") {
						other = " (it updates " + t.Field + " instead)"
					}
				}
				r.Violate("T-couple", key, r.P.Pos(d.Ins.Pos()), fmt.Sprintf("%s persists Shard.Pledge := %s without moving Pledge.TotalShardPledged by the same amount%s: releasing the shard later subtracts more than was ever added", r.P.Name(f), shorten(d.Term), other))
			}
		}
	}
	r.Floor("shard_pledge_assignments", n, 2)
}

// ---------------------------------------------------------------- C14

func checkC14(r *core.Run) {
	r.Explanation = "C14 (coupled-delta clauses only): each aggregate the statement names is changed only together with, and by the same term as, the quantity it sums: used capacity and market storage/income by the shard's size and price on both the append and the release side (sibling agreement); provider and pool capacity/pledge totals by the same amount in the same handler; the provider's total shard collateral by exactly what is stored as the shard's collateral. Decides agreement of the update terms, not the equalities themselves on reachable states."
	r.Rule("T-couple(sibling): Pledge.UsedStorage ± int64(shard.Size_) in ShardPledge/ShardRelease; Worker.Storage ± shard.Size_ and Worker.IncomePerSecond.Amount ± UnitPrice×Size_ in WorkerAppend/WorkerRelease")
	r.Rule("T-couple(same function): Pledge.TotalStorage <-> Pool.TotalStorage and Pledge.TotalStoragePledged <-> Pool.TotalPledged.Amount in AddVstorage/RemoveVstorage")
	r.Rule("T-couple(Shard.Pledge): every persisted Shard.Pledge := v moves Pledge.TotalShardPledged by v (or v − old)")
	r.Rule("E6-pair(order): the order and shard id counters are restored by InitGenesis from the keys ExportGenesis read them from (an id handed out twice overwrites a live shard: its provider keeps UsedStorage, TotalShardPledged and Worker.Storage for a shard that no longer exists, and nothing can release them)")
	ruleGenesisPairs(r, "E6-pair", "order")
	r.Assume(aDeps)
	coupleSiblings(r, "T-couple", "node/types.Pledge.UsedStorage", "node/keeper.Keeper.ShardPledge", "node/keeper.Keeper.ShardRelease")
	coupleSiblings(r, "T-couple", "market/types.Worker.Storage", "market/keeper.Keeper.WorkerAppend", "market/keeper.Keeper.WorkerRelease")
	coupleSiblings(r, "T-couple", "market/types.Worker.IncomePerSecond.Amount", "market/keeper.Keeper.WorkerAppend", "market/keeper.Keeper.WorkerRelease")
	for _, h := range []string{"node/keeper.msgServer.AddVstorage", "node/keeper.msgServer.RemoveVstorage"} {
		coupleSame(r, "T-couple", h, "node/types.Pledge.TotalStorage", "node/types.Pool.TotalStorage", false)
		coupleSame(r, "T-couple", h, "node/types.Pledge.TotalStoragePledged", "node/types.Pool.TotalPledged.Amount", true)
	}
	ruleShardPledgeBooked(r)
	ruleReleaseTerm(r)
	r.Rule("G-release-own (sibling agreement, shared with C07): when an order is settled, the shard's market booking (WorkerRelease in market.Withdraw) and its capacity/collateral (ShardRelease in model.TerminateOrder) are released under the same condition — the shard is completed AND in the period of the order being settled (shard.OrderId == order.Id); a renewal order lists the same shard, and a weaker test on one side releases the booking once per order while the capacity is released once")
	ownClauses := []clause{
		cl("shard-is-completed", guard.Eq("*order/keeper.Keeper.GetShard(*)#0.Status", constVal(r, "order/types", "ShardCompleted"))),
		cl("shard-is-in-this-order's-period", guard.Eq("*order/keeper.Keeper.GetShard(*)#0.OrderId", "#2.Id")),
	}
	evalGuard(r, "G-release-own", "market/keeper.Keeper.Withdraw", effSel{Calls: []string{"market/keeper.Keeper.WorkerRelease"}}, ownClauses, 1)
	evalGuard(r, "G-release-own", "model/keeper.Keeper.TerminateOrder", effSel{Calls: []string{"node/keeper.Keeper.ShardRelease", "model/types.NodeKeeper.ShardRelease"}}, ownClauses, 1)
	r.Rule("T-settle-then-remove: shard records are removed only after the loop that settles all orders of the model (Terminate, force-push)")
	ruleRemoveAfterSettle(r, "T-settle-then-remove")
	r.Rule("T-lost-update: no stale local copy of a record is written back after a helper stored that record")
	ruleLostUpdate(r, "T-lost-update")
	r.Rule("T-accum-scope: in Renew the pool's total is moved by a per-data-model total that is reset for every data model (not carried across the data-model loop)")
	ruleAccumScope(r, "T-accum-scope", "sao/keeper.msgServer.Renew")
	r.Rule("T-book-pair: a shard is booked on a market worker (WorkerAppend) only as a first booking (its status is not yet completed) or after a WorkerRelease on every path (re-booking / hand-over): no shard is counted twice")
	ruleBookPair(r, "market/keeper.Keeper.WorkerAppend", "market/keeper.Keeper.WorkerRelease", 3)
}

// ruleBookPair: every call site of the booking function in consensus code is
// either preceded on every path by a call of the un-booking function, or guarded
// by "the shard is not completed yet" (first booking).
func ruleBookPair(r *core.Run, appendFn, releaseFn string, minSites int) {
	af, rf := r.Func("T-book-pair", appendFn), r.Func("T-book-pair", releaseFn)
	if af == nil || rf == nil {
		return
	}
	resolvesTo := func(fn *ssa.Function, c ssa.CallInstruction, g *ssa.Function) bool {
		_, cs := r.Resolver(fn).CalleeName(c.Common())
		for _, x := range cs {
			if x == g {
				return true
			}
		}
		return false
	}
	isRelease := func(fn *ssa.Function) func(ssa.CallInstruction) bool {
		return func(c ssa.CallInstruction) bool { return resolvesTo(fn, c, rf) }
	}
	n := 0
	cnts := map[*ssa.Function]int{}
	anchorFrames(r, func(f *ssa.Function, fr frame) {
		{
			fns := fr.Fns(f)
			for _, b := range fr.Fn.Blocks {
				for _, ins := range b.Instrs {
					c, ok := ins.(ssa.CallInstruction)
					if !ok || !resolvesTo(fr.Fn, c, af) {
						continue
					}
					n++
					cnts[f]++
					key := core.Key("T-book-pair", r.P.Name(f), fmt.Sprintf("%s#%d", af.Name(), cnts[f]))
					pos := r.P.Pos(c.Pos())
					// released on every path to the booking, in the function that books or in an enclosing frame
					released := false
					for lvl := len(fr.Chain); lvl >= 0 && !released; lvl-- {
						var at ssa.Instruction = c
						if lvl < len(fr.Chain) {
							at = fr.Chain[lvl]
						}
						released = precededByCall(fns[lvl], at, isRelease(fns[lvl]))
					}
					if released {
						r.Discharge("T-book-pair", key, pos, "every path to this booking passes "+rf.Name()+" first (re-booking or hand-over)")
						continue
					}
					// first booking: the shard argument is not completed
					args := c.Common().Args
					t := strings.TrimPrefix(strings.TrimPrefix(fr.Raw(r, args[len(args)-1]), "~"), "&")
					t = guard.DropNilPhi(t) // a shard handed back by a helper as (shard | nil, err): past the error test it is the shard
					ok2, w := mustPassDeep(r, f, effSite{Ins: c, Chain: fr.Chain}, []guard.Atom{guard.Ne("*"+guard.Exact(t)+".Status", constVal(r, "order/types", "ShardCompleted"))})
					if ok2 {
						r.Discharge("T-book-pair", key, pos, "first booking: every path to it establishes that the shard's status is not completed")
					} else {
						r.Violate("T-book-pair", key, pos, fmt.Sprintf("%s books the shard on its provider's market worker (%s) on a path with no preceding %s and without establishing that the shard is not completed yet: a shard that is already booked is counted a second time (Worker.Storage and income rate exceed the provider's live shards)", r.P.Name(f), af.Name(), rf.Name()), append([]string{"path (branch decisions):"}, w...)...)
					}
				}
			}
		}
	})
	r.Floor("booking_sites", n, minSites)
}

// precededByCall: every path from fn's entry to the instruction passes a call accepted by is.
func precededByCall(fn *ssa.Function, at ssa.Instruction, is func(ssa.CallInstruction) bool) bool {
	blocked := map[*ssa.BasicBlock]bool{}
	B := at.Block()
	for _, b := range fn.Blocks {
		for _, ins := range b.Instrs {
			if b == B && ins == at {
				break
			}
			if c, ok := ins.(ssa.CallInstruction); ok && is(c) {
				if b == B {
					return true
				}
				blocked[b] = true
			}
		}
	}
	delete(blocked, B)
	return len(blocked) > 0 && forwardAvoid(fn.Blocks[0], blocked, nil, func(b *ssa.BasicBlock) bool { return b == B }) == nil
}

// ---------------------------------------------------------------- C06

func checkC06(r *core.Run) {
	r.Explanation = "C06 (three necessary clauses): every module account named in a bank call is registered in app.maccPerms with the permission the call needs (otherwise the bank panics and the payout the records entitle someone to cannot happen); the error of every bank call in consensus code is consumed (otherwise records are updated for a transfer that failed); the set of money flows is the closed table (no unaccounted outflow). The inequality balance >= sum owed is not decided."
	r.Rule("CAP-macc: constant module names at bank call sites ∈ app.maccPerms; MintCoins needs Minter, BurnCoins Burner")
	r.Rule("T-bankerr: the error result of every bank mutator call is tested, stored or returned")
	r.Rule("T-booked: in ShardPledge the collateral persisted in the shard equals the coins taken (or balance taken + debt recorded)")
	r.Rule("E7-flow: every bank mutator call site matches a row of the closed flow table (modules, counter-party term, amount form)")
	r.Rule("T-remaining-term: at the hand-over of a migrating shard the replacement's Duration is computed from the replaced shard's own CreatedAt and Duration (the worker must stop earning when the paid period ends)")
	ruleRemainingTerm(r, "T-remaining-term")
	r.Rule("T-couple(release): ShardRelease lowers Pledge.TotalShardPledged by the shard's recorded collateral, read before anything can write it (the coin handed to RepayPledgeDebt is a copy)")
	ruleReleaseTerm(r)
	r.Assume(aDeps)
	r.Assume(aCG)
	r.Assume("A-bank: bank.SendCoinsFromModuleToModule/ToAccount panic when a named module account is not registered (cosmos-sdk v0.46 x/bank keeper)")
	ruleMacc(r)
	ruleBankErr(r)
	ruleFlows(r, "C06")
	ruleBooked(r)
	r.Rule("T-couple(pool): in AddVstorage/RemoveVstorage the pool's byte and coin totals move by the same terms as the provider's own (the per-byte reward rate is reward / Pool.TotalStorage and each provider is credited rate x its own TotalStorage: a pool total below the sum over providers credits more than was minted)")
	for _, h := range []string{"node/keeper.msgServer.AddVstorage", "node/keeper.msgServer.RemoveVstorage"} {
		coupleSame(r, "T-couple", h, "node/types.Pledge.TotalStorage", "node/types.Pool.TotalStorage", false)
		coupleSame(r, "T-couple", h, "node/types.Pledge.TotalStoragePledged", "node/types.Pool.TotalPledged.Amount", true)
	}
	r.Rule("T-replica-dec: the give-up branch of the timeout handler lowers Order.Replica by the count of shards still waiting (the refund out of the market escrow is price x size x duration per given-up replica)")
	ruleReplicaGiveUp(r)
	r.Rule("T-refund-class: in market.Withdraw the full-duration price leaves the market escrow only for a waiting shard, the remaining-term price only for a completed shard of this order (no payout without a matching booked entitlement)")
	ruleWithdrawClass(r)
	r.Rule("T-accrual-clock: a worker's accrued income (rate x (height - LastRewardAt)) is added to Worker.Reward and stored only together with LastRewardAt := current height (no interval is accrued twice)")
	ruleAccrualClock(r, "T-accrual-clock")
}

// ---------------------------------------------------------------- C07

func checkC07(r *core.Run) {
	r.Explanation = "C07 (structural clauses only): collateral leaves the node escrow only through the tabled flows, whose recipients are the signer (capacity withdrawal, claim) or the provider recorded in the released shard (checked at every ShardRelease call site); the amount released is shard.Pledge after debt repayment; capacity withdrawal is dominated by size <= total − used and the used-capacity increment by the free-capacity test; the collateral stored in a shard is what the provider's total moves by. Rounding asymmetry and non-negativity as numeric facts are not decided."
	r.Rule("E7-flow (node rows) + E7-release: recipient of ShardRelease is MustAcc(shard.Sp) of the same shard value, or the key used to look the shard up")
	r.Rule("G-rmv: RemoveVstorage outflow <= size <= TotalStorage − UsedStorage; G-used: ShardPledge UsedStorage += <= free-capacity test")
	r.Rule("T-release-amount: ShardRelease pays shard.Pledge after RepayPledgeDebt(shard.Sp, …) on that same coin; T-couple(Shard.Pledge) shared with C14")
	r.Rule("T-debt-repay: RepayPledgeDebt lowers the debt record wherever it consumes a coin against it")
	ruleDebtRepay(r, "T-debt-repay")
	r.Assume(aDeps)
	r.Assume(aCG)
	ruleFlows(r, "C07")
	r.Rule("G-release-own: model.TerminateOrder releases a shard's collateral only if the shard is completed AND is in the period of the order being terminated (shard.OrderId == order.Id): a renewal order lists the same shard, and without the equality the collateral is paid back once per order")
	evalGuard(r, "G-release-own", "model/keeper.Keeper.TerminateOrder", effSel{Calls: []string{"node/keeper.Keeper.ShardRelease", "model/types.NodeKeeper.ShardRelease"}}, []clause{
		cl("shard-is-completed", guard.Eq("*order/keeper.Keeper.GetShard(*)#0.Status", constVal(r, "order/types", "ShardCompleted"))),
		cl("shard-is-in-this-order's-period", guard.Eq("*order/keeper.Keeper.GetShard(*)#0.OrderId", "#2.Id")),
	}, 1)
	ruleShardReleaseCallers(r)
	pl := fGetPledge + "(" + msg + ".Creator)#0"
	evalGuard(r, "G-rmv", "node/keeper.msgServer.RemoveVstorage", effSel{Calls: []string{"node/types.BankKeeper.SendCoinsFromModuleToAccount", "node/keeper.Keeper.SetPledge"}}, []clause{
		cl("withdrawn-capacity-is-free", guard.Ge("(*"+pl+".TotalStorage - *"+pl+".UsedStorage)", "math.Int.Int64(*)")),
		cl("pledge-exists", guard.True(fGetPledge+"("+msg+".Creator)#1")),
	}, 2)
	evalGuard(r, "G-used", "node/keeper.Keeper.ShardPledge", effSel{Calls: []string{"node/keeper.Keeper.SetPledge", "order/keeper.Keeper.SetShard"}}, []clause{
		cl("free-capacity>=shard-size", guard.Ge("uint64((*TotalStorage - *UsedStorage))", "#2.Size_")),
		cl("pledge-exists", guard.True(fGetPledge+"(#2.Sp)#1")),
	}, 2)
	// ShardRelease: debt repaid from the very coin that is then paid out, for the shard's own provider
	if fn := r.Func("T-release-amount", "node/keeper.Keeper.ShardRelease"); fn != nil {
		okRepay := false
		for _, dc := range deepCalls(r, fn, "node/keeper.Keeper.RepayPledgeDebt") {
			if ts := dc.ArgTerms(r); len(ts) == 2 && ts[0] == "#3.Sp" {
				okRepay = true
			}
		}
		key := core.Key("T-release-amount", "node/keeper.Keeper.ShardRelease", "debt repaid for shard.Sp before payout")
		pay := deepCalls(r, fn, "node/types.BankKeeper.SendCoinsFromModuleToAccount")
		okOrder := len(pay) > 0
		for _, p := range pay {
			if !precededDeep(r, fn, p, "node/keeper.Keeper.RepayPledgeDebt") {
				okOrder = false
			}
		}
		if okRepay && okOrder {
			r.Discharge("T-release-amount", key, r.P.FuncPos(fn), "RepayPledgeDebt(shard.Sp, {&shardPledge}) lies on every path to the payout of shardPledge")
		} else {
			r.Violate("T-release-amount", key, r.P.FuncPos(fn), "ShardRelease can pay out a shard's collateral without first netting the debt recorded against that shard's provider")
		}
	}
	ruleShardPledgeBooked(r)
	ruleReleaseTerm(r)
	ruleBooked(r)
}

// ruleBooked: ShardPledge — the collateral stored equals the coin moved (or moved + recorded debt).
func ruleBooked(r *core.Run) {
	if fn := r.Func("T-booked", "node/keeper.Keeper.ShardPledge"); fn != nil {
		ds := findDelta(deltasOf(r, fn), "order/types.Shard.Pledge")
		key := core.Key("T-booked", "node/keeper.Keeper.ShardPledge", "Shard.Pledge == coins taken (+ debt recorded)")
		_ = r.Resolver(fn)
		okB := len(ds) == 1
		if okB {
			v := ds[0].Term
			nsend := 0
			for _, dc := range deepCalls(r, fn, "node/types.BankKeeper.SendCoinsFromAccountToModule") {
				targs := dc.ArgTerms(r)
				if len(targs) != 3 {
					okB = false
					continue
				}
				nsend++
				amt := byTypeParams(fn, targs[2])
				full := amt == "sdk.Coins.Add(sdk.NewCoins(nil),["+v+"])"
				partial := strings.HasPrefix(amt, "[node/types.BankKeeper.GetBalance(")
				if !full && !partial {
					okB = false
				}
				if partial {
					// the shortfall must be recorded as debt: Debt := ... Sub(v, balance)
					nDebt := 0
					for _, d := range deltasOf(r, fn) {
						if d.Field == "node/types.PledgeDebt.Debt" {
							nDebt++
							if !strings.Contains(d.Term, "sdk.Coin.Sub("+v+",") {
								okB = false
							}
						}
					}
					if nDebt == 0 {
						okB = false
					}
				}
			}
			if nsend == 0 {
				okB = false
			}
		}
		if okB {
			r.Discharge("T-booked", key, r.P.FuncPos(fn), "the coin persisted as Shard.Pledge is the coin transferred, or the balance transferred plus a debt of (pledge − balance)")
		} else {
			r.Violate("T-booked", key, r.P.FuncPos(fn), "ShardPledge persists a collateral amount that differs from the coins it takes (plus the debt it records)")
		}
	}
	// path clause: no success return of ShardPledge is reachable without a transfer into the node escrow
	if fn := r.Func("T-booked", "node/keeper.Keeper.ShardPledge"); fn != nil {
		take := blocksCallingDeep(r, fn, "node/types.BankKeeper.SendCoinsFromAccountToModule", 0)
		succ := successBlocks(r, fn)
		key := core.Key("T-booked", "node/keeper.Keeper.ShardPledge", "collateral taken on every success path")
		var bad []*ssa.BasicBlock
		if len(take) > 0 {
			bad = forwardAvoid(fn.Blocks[0], take, nil, func(b *ssa.BasicBlock) bool { return succ[b] })
		}
		if len(take) > 0 && bad == nil {
			r.Discharge("T-booked", key, r.P.FuncPos(fn), "every success return of ShardPledge lies after a SendCoinsFromAccountToModule into the node escrow")
		} else {
			r.Violate("T-booked", key, r.P.FuncPos(fn), "ShardPledge can succeed (recording Shard.Pledge and raising TotalShardPledged) on a path that takes no coins from the provider and books no debt: when the shard ends the recorded collateral is paid out of escrow although it was never paid in", pathDesc(r, bad))
		}
	}
}

// ruleReleaseTerm: ShardRelease lowers the provider's total shard collateral by exactly shard.Pledge (the
// amount ShardPledge added for that shard), not by a locally adjusted figure.
func ruleReleaseTerm(r *core.Run) {
	fn := r.Func("T-couple", "node/keeper.Keeper.ShardRelease")
	if fn == nil {
		return
	}
	key := core.Key("T-couple", "node/keeper.Keeper.ShardRelease", "Pledge.TotalShardPledged -= shard.Pledge")
	ds := findDelta(deltasOf(r, fn), "node/types.Pledge.TotalShardPledged")
	if len(ds) == 1 && ds[0].Sign == -1 && ds[0].Raw == "$Shard.Pledge" {
		r.Discharge("T-couple", key, r.P.Pos(ds[0].Ins.Pos()), "the total is lowered by the released shard's recorded collateral")
	} else {
		got := "no single subtraction found"
		if len(ds) == 1 {
			got = fmt.Sprintf("%+d×(%s)", ds[0].Sign, shorten(ds[0].Raw))
		}
		r.Violate("T-couple", key, r.P.FuncPos(fn), "ShardRelease does not lower Pledge.TotalShardPledged by exactly shard.Pledge ("+got+"): after debt repayment the total stays above the sum over the provider's live shards")
	}
}

// ruleAppendFresh (T-append-fresh): WorkerAppend credits the provider with
// price x size x (current height - shard.CreatedAt) of back-pay, so at every
// booking the shard's CreatedAt must have been set to the current height in the
// same transaction, on every path, before the call. A booking that still sees
// the start of an earlier (already settled) period pays that period twice out
// of the shared market escrow.
func ruleAppendFresh(r *core.Run, prop string) {
	const id = "T-append-fresh"
	af := r.Func(id, "market/keeper.Keeper.WorkerAppend")
	if af == nil {
		return
	}
	n := 0
	var check func(f *ssa.Function, call ssa.CallInstruction, shard ssa.Value, depth int, label string)
	check = func(f *ssa.Function, call ssa.CallInstruction, shard ssa.Value, depth int, label string) {
		res := r.Resolver(f)
		base := shard
		for {
			switch x := base.(type) {
			case *ssa.UnOp:
				if _, isLoadOfAlloc := x.X.(*ssa.Alloc); isLoadOfAlloc {
					base = x.X
					continue
				}
				if _, isPtr := x.Type().Underlying().(*types.Pointer); isPtr || x.Op != token.MUL {
					break // a pointer read from somewhere (a field of a record): that pointer is the shard
				}
				base = x.X // *ptr: the record behind the pointer; stores go through FieldAddr(ptr, ...)
				continue
			case *ssa.MakeInterface:
				base = x.X
				continue
			}
			break
		}
		// a by-value parameter spilled to a local: the caller decides, unless the field is written here
		var param *ssa.Parameter
		if al, ok := base.(*ssa.Alloc); ok {
			for _, ref := range *al.Referrers() {
				if st, ok := ref.(*ssa.Store); ok && st.Addr == al {
					if p, ok := st.Val.(*ssa.Parameter); ok {
						param = p
					}
				}
			}
		} else if p, ok := base.(*ssa.Parameter); ok {
			param = p
		}
		storesHere := false
		for _, b := range f.Blocks {
			for _, ins := range b.Instrs {
				if st, ok := ins.(*ssa.Store); ok {
					if fa, ok := st.Addr.(*ssa.FieldAddr); ok && fa.X == base && fieldNameT(fa.X.Type(), fa.Field) == "CreatedAt" {
						storesHere = true
					}
				}
			}
		}
		if p := param; p != nil && depth < 4 && !storesHere {
			idx := -1
			for i, q := range f.Params {
				if q == p {
					idx = i
				}
			}
			found := false
			for _, caller := range r.P.CG.In[f] {
				if !r.ConsensusFuncs()[caller] {
					continue
				}
				for _, site := range r.P.CG.Sites[caller] {
					for _, c := range site.Callees {
						if c != f {
							continue
						}
						args := site.Instr.Common().Args
						ai := idx
						if site.Instr.Common().IsInvoke() {
							ai = idx - 1
						}
						if ai >= 0 && ai < len(args) {
							found = true
							check(caller, site.Instr, args[ai], depth+1, label+" <- "+r.P.Name(caller))
						}
					}
				}
			}
			if found {
				return
			}
		}
		n++
		key := core.Key(id, label)
		want := "uint64(sdk.Context.BlockHeight())"
		blocks := map[*ssa.BasicBlock]bool{}
		sameBlockBefore := false
		for _, b := range f.Blocks {
			for _, ins := range b.Instrs {
				if ins == call.(ssa.Instruction) {
					break
				}
				if hc, isCall := ins.(ssa.CallInstruction); isCall && setsFreshInHelper(r, hc, base, want) {
					if b == call.Block() {
						sameBlockBefore = true
					} else {
						blocks[b] = true
					}
					continue
				}
				st, ok := ins.(*ssa.Store)
				if !ok {
					continue
				}
				fa, ok := st.Addr.(*ssa.FieldAddr)
				if !ok || fa.X != base || fieldNameT(fa.X.Type(), fa.Field) != "CreatedAt" {
					continue
				}
				if normT(res.Of(st.Val).String()) != want {
					continue
				}
				if b == call.Block() {
					sameBlockBefore = true
				} else {
					blocks[b] = true
				}
			}
		}
		ok := sameBlockBefore
		if !ok && len(blocks) > 0 {
			ok = forwardAvoid(f.Blocks[0], blocks, nil, func(x *ssa.BasicBlock) bool { return x == call.Block() }) == nil
		}
		if ok {
			r.Discharge(id, key, r.P.Pos(call.Pos()), "the shard's CreatedAt is set to the current height on every path before it is booked (no back-pay)")
		} else {
			r.Violate(id, key, r.P.Pos(call.Pos()), "a shard is booked on its provider's market worker although its CreatedAt was not set to the current height on every path before the call: WorkerAppend credits price x size x (height - CreatedAt) of back-pay, i.e. a period that was already settled (or never served) is paid again from the shared market escrow, so income + refunds exceed what the order was charged")
		}
	}
	for _, f := range r.P.SortedFuncs(r.ConsensusFuncs()) {
		res := r.Resolver(f)
		cnt := 0
		for _, b := range f.Blocks {
			for _, ins := range b.Instrs {
				c, ok := ins.(ssa.CallInstruction)
				if !ok {
					continue
				}
				_, cs := res.CalleeName(c.Common())
				for _, g := range cs {
					if g == af {
						cnt++
						args := c.Common().Args
						check(f, c, args[len(args)-1], 0, fmt.Sprintf("%s|WorkerAppend#%d", r.KeyName(f), cnt))
					}
				}
			}
		}
	}
	_ = prop
	r.Floor("append_fresh_sites", n, 3)
}

// ruleAccumScope (T-accum-scope): a running total that is added to a persisted
// aggregate inside a loop must not itself be carried around that same loop
// (accumulated across its iterations without being reset): otherwise the
// contributions of earlier iterations are added to the aggregate again in every
// later iteration. Recognised form: store X.f := Add(X.f', acc) inside loop L
// where acc is a φ at the header of a loop that contains the store.
func ruleAccumScope(r *core.Run, id string, fnNames ...string) {
	n := 0
	for _, name := range fnNames {
		anchor := r.Func(id, name)
		if anchor == nil {
			continue
		}
		cnt := 0
		// the update may sit in a helper called from inside the loop: every frame is searched; the loops that
		// contain the update are those of the helper around the store and those of the enclosing frames around
		// the calls that lead there; a helper's parameter is followed to the caller's argument
		for _, fr := range frames(r, anchor) {
			f := fr.Fn
			fns := fr.Fns(anchor)
			res := r.Resolver(f)
			for _, b := range f.Blocks {
				for _, ins := range b.Instrs {
					st, ok := ins.(*ssa.Store)
					if !ok {
						continue
					}
					fa, ok := st.Addr.(*ssa.FieldAddr)
					if !ok {
						continue
					}
					call, ok := st.Val.(*ssa.Call)
					if !ok {
						continue
					}
					cn, _ := res.CalleeName(&call.Call)
					if !strings.HasSuffix(cn, ".Add") && !strings.HasSuffix(cn, ".AddAmount") && !strings.HasSuffix(cn, ".Sub") && !strings.HasSuffix(cn, ".SubAmount") {
						continue
					}
					inLoops := make([][]*cfgx.Loop, len(fns))
					any := false
					for lvl := range fns {
						at := fr.At(lvl, st)
						for _, l := range cfgx.Loops(fns[lvl]) {
							if l.Body[at.Block()] {
								inLoops[lvl] = append(inLoops[lvl], l)
								any = true
							}
						}
					}
					if !any {
						continue
					}
					n++
					cnt++
					field := fieldPath(fa)
					key := core.Key(id, name, fmt.Sprintf("%s update in loop#%d", field, cnt))
					// operands (one nested level through conversions / field reads of the operand)
					var bad *ssa.Phi
					var visit func(v ssa.Value, lvl, d int)
					visit = func(v ssa.Value, lvl, d int) {
						if d > 5 || bad != nil {
							return
						}
						switch x := v.(type) {
						case *ssa.Phi:
							for _, l := range inLoops[lvl] {
								if x.Block() == l.Header {
									// carried around a loop that contains the update
									bad = x
								}
							}
							if bad == nil {
								// the value leaving an inner accumulation loop: look at what it was started from
								for _, e := range x.Edges {
									if _, isPhi := e.(*ssa.Phi); isPhi {
										visit(e, lvl, d+1)
									}
								}
							}
						case *ssa.Parameter:
							if lvl > 0 {
								args := fr.Chain[lvl-1].Common().Args
								for k, q := range fns[lvl].Params {
									if q == x && k < len(args) {
										visit(args[k], lvl-1, d+1)
									}
								}
							}
						case *ssa.Field:
							visit(x.X, lvl, d+1)
						case *ssa.ChangeType:
							visit(x.X, lvl, d+1)
						case *ssa.Convert:
							visit(x.X, lvl, d+1)
						case *ssa.Call:
							for _, a := range x.Call.Args {
								visit(a, lvl, d+1)
							}
						}
					}
					args := call.Call.Args
					for k, a := range args {
						if k == 0 {
							continue // receiver: the aggregate's previous value
						}
						visit(a, len(fns)-1, 0)
					}
					if bad == nil {
						r.Discharge(id, key, r.P.Pos(st.Pos()), "the amount added inside the loop is not a total carried around that loop")
					} else {
						r.Violate(id, key, r.P.Pos(st.Pos()), fmt.Sprintf("%s adds a running total (%s) to %s inside a loop around which that total is itself carried without being reset: what earlier iterations contributed is added again in every later iteration, so the aggregate exceeds the sum of the individual changes", name, bad.Comment, field))
					}
				}
			}
		}
	}
	r.Floor("aggregate_updates_in_loops", n, 1)
}

// setsFreshInHelper: the call hands the shard (pointer) to a module helper that stores the current height into
// its CreatedAt on every path (a "start period" helper).
func setsFreshInHelper(r *core.Run, c ssa.CallInstruction, base ssa.Value, want string) bool {
	res := r.Resolver(c.Parent())
	_, cs := res.CalleeName(c.Common())
	if len(cs) != 1 || len(cs[0].Blocks) == 0 {
		return false
	}
	h := cs[0]
	args := c.Common().Args
	off := 0
	if c.Common().IsInvoke() {
		off = 1
	}
	for i, a := range args {
		if a != base || i+off >= len(h.Params) {
			continue
		}
		p := h.Params[i+off]
		hres := r.Resolver(h)
		blocks := map[*ssa.BasicBlock]bool{}
		for _, b := range h.Blocks {
			for _, ins := range b.Instrs {
				if st, ok := ins.(*ssa.Store); ok {
					if fa, ok := st.Addr.(*ssa.FieldAddr); ok && fa.X == ssa.Value(p) && fieldNameT(fa.X.Type(), fa.Field) == "CreatedAt" && normT(hres.Of(st.Val).String()) == want {
						blocks[b] = true
					}
				}
			}
		}
		if len(blocks) > 0 && forwardAvoid(h.Blocks[0], blocks, nil, isReturnBlock) == nil {
			return true
		}
	}
	return false
}

// ruleRemoveAfterSettle (T-settle-then-remove): where the orders of a data model
// are settled one after the other (a loop calling model.TerminateOrder), shard
// records are removed only after that loop: an order and its renewal orders
// list the same shard ids, and TerminateOrder releases a shard (capacity,
// collateral, worker booking) only for the order whose period the shard is in —
// a shard deleted while a later-settled order still lists it is never released.
func ruleRemoveAfterSettle(r *core.Run, id string) {
	n := 0
	for _, fnName := range []string{"sao/keeper.msgServer.Terminate", "model/keeper.Keeper.UpdateMeta"} {
		anchor := r.Func(id, fnName)
		if anchor == nil {
			continue
		}
		cnt := 0
		// the settlement loop may sit in a helper extracted from the function: every frame is searched; a call of a
		// helper that (somewhere) settles / removes counts as doing so
		for _, fr := range frames(r, anchor) {
			fn := fr.Fn
			term := blocksReaching(r, fn, "model/keeper.Keeper.TerminateOrder", "sao/types.ModelKeeper.TerminateOrder")
			rem := blocksReaching(r, fn, "order/keeper.Keeper.RemoveShard", "model/types.OrderKeeper.RemoveShard", "sao/types.OrderKeeper.RemoveShard")
			for _, l := range cfgx.Loops(fn) {
				has := false
				for b := range term {
					if l.Body[b] {
						has = true
					}
				}
				if !has {
					continue
				}
				n++
				cnt++
				key := core.Key(id, fnName, fmt.Sprintf("settlement loop#%d", cnt))
				var bad *ssa.BasicBlock
				for b := range rem {
					if l.Body[b] {
						bad = b
					}
				}
				if bad == nil {
					r.Discharge(id, key, r.P.FuncPos(fn), "no shard record is removed inside the loop that settles the model's orders")
				} else {
					pos := r.P.FuncPos(fn)
					for _, ins := range bad.Instrs {
						if c, ok := ins.(ssa.CallInstruction); ok && c.Pos().IsValid() {
							pos = r.P.Pos(c.Pos())
						}
					}
					r.Violate(id, key, pos, fnName+" removes shard records inside the loop that settles the model's orders one by one: an order and its renewal orders list the same shards, the renewal order (settled first) skips them because they are still in the older order's period, and when the older order is settled the records are gone — their capacity, collateral and worker bookings are never released")
				}
			}
		}
	}
	r.Floor("settlement_loops", n, 2)
}

// blocksReaching: blocks of fn with a call of one of the named callees — directly, through a module wrapper that always
// calls it, or through a transparent helper that contains such a call anywhere.
func blocksReaching(r *core.Run, fn *ssa.Function, names ...string) map[*ssa.BasicBlock]bool {
	out := map[*ssa.BasicBlock]bool{}
	for _, nm := range names {
		for b := range blocksCallingDeep(r, fn, nm, 0) {
			out[b] = true
		}
	}
	for _, b := range fn.Blocks {
		for _, ins := range b.Instrs {
			c, ok := ins.(ssa.CallInstruction)
			if !ok {
				continue
			}
			h := c.Common().StaticCallee()
			if h == nil || h == fn || !r.P.Transparent(h) {
				continue
			}
			for _, g := range transparentClosure(r, h) {
				for _, nm := range names {
					if len(callsIn(r, g, nm)) > 0 {
						out[b] = true
					}
				}
			}
		}
	}
	return out
}
