// Package rules holds the per-property rule tables and checkers.
package rules

import (
	"go/types"
	"strings"

	"golang.org/x/tools/go/ssa"

	"saoverif/internal/core"
)

// Check is one property's checker: it registers obligations on the run.
type Check func(r *core.Run)

var Registry = map[string]Check{}

func register(id string, c Check) {
	Registry[id] = func(r *core.Run) {
		memo := map[string]string{}
		r.Opaque = func(name string) string {
			if w, ok := memo[name]; ok {
				return w
			}
			w := ""
			for _, seg := range strings.Split(name, " <- ") {
				fn := r.P.Func(strings.TrimSpace(seg))
				if fn == nil {
					continue
				}
				if r.P.Transparent(fn) {
					for _, o := range r.Owners(fn) {
						if w == "" {
							w = heapVeiled(r, r.P.Name(o))
						}
					}
				} else if w == "" {
					w = heapVeiled(r, seg)
				}
			}
			memo[name] = w
			return w
		}
		c(r)
	}
}

// heapVeiled: the named known function has been restructured around a record that one helper (outside the rule
// vocabulary) builds on the heap and hands back, and that further helpers read: "validate, return a request object,
// execute on it". What the first helper established about the values it stored in the record is not tracked through
// the record (field reads of a heap object are not tied to the writes), so rules about such a function can neither
// be discharged nor asserted.
func heapVeiled(r *core.Run, name string) string {
	fn := r.P.Func(name)
	if fn == nil || len(fn.Blocks) == 0 || r.P.Transparent(fn) {
		return ""
	}
	for _, b := range fn.Blocks {
		for _, ins := range b.Instrs {
			c, ok := ins.(*ssa.Call)
			if !ok || c.Call.IsInvoke() {
				continue
			}
			h := c.Call.StaticCallee()
			if h == nil || !r.P.Transparent(h) || len(h.Blocks) == 0 {
				continue
			}
			// h returns a pointer to a struct it allocates
			idx := -1
			for _, hb := range h.Blocks {
				ret, ok := hb.Instrs[len(hb.Instrs)-1].(*ssa.Return)
				if !ok {
					continue
				}
				for i, rv := range ret.Results {
					if al, ok := rv.(*ssa.Alloc); ok && al.Heap && localStruct(r, al.Type()) != nil {
						idx = i
					}
				}
			}
			if idx < 0 {
				// ... or hands back, by value, a record some of whose fields are assigned only on some of its paths
				if w := pathDependentRecord(r, fn, c, h); w != "" {
					return w
				}
				continue
			}
			// ... and the caller hands that record on to other helpers outside the vocabulary
			var rec ssa.Value = c
			if _, isTup := c.Type().(*types.Tuple); isTup {
				rec = nil
				for _, ref := range *c.Referrers() {
					if ex, ok := ref.(*ssa.Extract); ok && ex.Index == idx {
						rec = ex
					}
				}
			}
			if rec == nil {
				continue
			}
			for _, ref := range *rec.Referrers() {
				if c2, ok := ref.(ssa.CallInstruction); ok && !c2.Common().IsInvoke() {
					if h2 := c2.Common().StaticCallee(); h2 != nil && r.P.Transparent(h2) {
						return r.P.Name(fn) + " is built around a record that " + r.P.Name(h) + " allocates and hands back and that " + r.P.Name(h2) + " works on (" + r.P.Pos(c.Pos()) + "): values carried through that heap record are not tracked"
					}
				}
			}
		}
	}
	return ""
}

// pathDependentRecord: helper h (outside the vocabulary) hands back to fn, by value, a record — a struct of a
// hand-written module type filled in field by field — in which some field is assigned only on some of h's paths or
// more than once, and fn hands that record (or its address) on to further helpers outside the vocabulary. Which of
// the alternatives such a field holds is tied to the path h took (for example "a payment address is present exactly
// when the sponsor check ran"); that tie is not carried through the record, so rules about fn are left undecided.
func pathDependentRecord(r *core.Run, fn *ssa.Function, c *ssa.Call, h *ssa.Function) string {
	res := r.Resolver(h)
	for idx := 0; idx < h.Signature.Results().Len(); idx++ {
		isRec, clean := res.RecordStatus(h, idx)
		if !isRec || clean {
			continue
		}
		var rec ssa.Value = c
		if _, isTup := c.Type().(*types.Tuple); isTup {
			rec = nil
			for _, ref := range *c.Referrers() {
				if ex, ok := ref.(*ssa.Extract); ok && ex.Index == idx {
					rec = ex
				}
			}
		}
		if rec == nil {
			continue
		}
		handedTo := func(v ssa.Value) *ssa.Function {
			for _, ref := range *v.Referrers() {
				if c2, ok := ref.(ssa.CallInstruction); ok && !c2.Common().IsInvoke() {
					if h2 := c2.Common().StaticCallee(); h2 != nil && h2 != h && r.P.Transparent(h2) {
						return h2
					}
				}
			}
			return nil
		}
		h2 := handedTo(rec)
		for _, ref := range *rec.Referrers() {
			st, ok := ref.(*ssa.Store)
			if !ok || st.Val != rec || h2 != nil {
				continue
			}
			al, ok := st.Addr.(*ssa.Alloc)
			if !ok {
				continue
			}
			if h2 = handedTo(al); h2 != nil {
				break
			}
			for _, ar := range *al.Referrers() {
				if u, ok := ar.(*ssa.UnOp); ok && h2 == nil {
					h2 = handedTo(u)
				}
			}
		}
		if h2 != nil {
			return r.P.Name(fn) + " is built around a record that " + r.P.Name(h) + " fills in differently on different paths and hands back, and that " + r.P.Name(h2) + " works on (" + r.P.Pos(c.Pos()) + "): which alternative a field holds is tied to the path taken, and that tie is not tracked through the record"
		}
	}
	return ""
}
