// Package rules holds the per-property rule tables and checkers.
package rules

import "saoverif/internal/core"

// Check is one property's checker: it registers obligations on the run.
type Check func(r *core.Run)

var Registry = map[string]Check{}

func register(id string, c Check) { Registry[id] = c }
