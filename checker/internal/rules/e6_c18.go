package rules

import (
	"fmt"
	"go/constant"
	"go/types"
	"regexp"
	"sort"
	"strings"

	"golang.org/x/tools/go/ssa"

	"saoverif/internal/cfgx"
	"saoverif/internal/core"
	"saoverif/internal/eff"
	"saoverif/internal/prog"
)

func init() { register("C18", checkC18) }

// checkC18: genesis writer/reader table agreement (E6).
func checkC18(r *core.Run) {
	r.Explanation = "C18 (structural clauses only): for each storage module, every constant store prefix that consensus code writes is read by that module's ExportGenesis and written by its InitGenesis; every field of GenesisState is assigned on export and consumed on import. A prefix missing from either table is state that a genesis round trip silently drops. Decides table agreement, not Validate(), JSON fidelity or continuation equivalence."
	r.Rule("E6-prefix: W(module) = constant prefixes with Set/Delete effects reachable from message handlers, block hooks, staking hooks, migrations, upgrade handlers; X = prefixes iterated/read from ExportGenesis; I = prefixes written from InitGenesis; require W ⊆ X and W ⊆ I")
	r.Rule("E6-field: every field of each module's GenesisState is stored by ExportGenesis and read by InitGenesis")
	r.Rule("E6-all: every list field of GenesisState is exported as the unmodified result of a keeper getter whose iterator loop appends every record, and imported by a loop that persists every element")
	r.Rule("E6-param: every parameter key registered in ParamSetPairs is read by the keeper's GetParams (exported) — InitGenesis imports through SetParamSet")
	r.Rule("T-validate-map: each duplicate-index loop of a GenesisState.Validate consults the map it fills (a module must accept the state it exports)")
	ruleValidateMaps(r, "T-validate-map")
	r.Assume(aDeps)
	r.Assume(aCG)
	mods := []string{"did", "market", "model", "node", "order", "sao"}
	W := map[string]map[string][]string{} // module -> prefix -> writer roots
	unresolved := 0
	for _, rt := range r.Roots {
		if !rt.Consensus() || rt.Kind == "initgenesis" {
			continue
		}
		for _, e := range r.Eff.Reach(rt.Fn) {
			if !e.IsWrite() {
				continue
			}
			owner := eff.StoreOwner(e)
			if e.Prefix == "?" || owner == "?" || strings.Contains(owner, ".") {
				unresolved++
				r.Undecide("E6-prefix", core.Key("E6-prefix", "unresolved", r.P.Name(e.Fn)), r.P.Pos(e.Instr.Pos()), "store write with unresolved key prefix or store key on a consensus path (root "+rt.Name+")")
				continue
			}
			if W[owner] == nil {
				W[owner] = map[string][]string{}
			}
			ws := W[owner][e.Prefix]
			found := false
			for _, x := range ws {
				if x == rt.Name {
					found = true
				}
			}
			if !found {
				W[owner][e.Prefix] = append(ws, rt.Name)
			}
		}
	}
	total := 0
	for _, m := range mods {
		exp := r.Root(m + ".ExportGenesis")
		imp := r.Root(m + ".InitGenesis")
		if exp == nil || imp == nil {
			r.Undecide("E6-prefix", core.Key("E6-prefix", "roots", m), "", "ExportGenesis/InitGenesis of module "+m+" not found")
			continue
		}
		X := map[string]bool{}
		for _, e := range r.Eff.Reach(exp.Fn) {
			if (e.Kind == "store.iter" || e.Kind == "store.get") && eff.StoreOwner(e) == m {
				X[e.Prefix] = true
			}
		}
		I := map[string]bool{}
		for _, e := range r.Eff.Reach(imp.Fn) {
			if e.Kind == "store.set" && eff.StoreOwner(e) == m {
				I[e.Prefix] = true
			}
		}
		var prefixes []string
		for p := range W[m] {
			prefixes = append(prefixes, p)
		}
		sort.Strings(prefixes)
		for _, p := range prefixes {
			total++
			writers := W[m][p]
			sort.Strings(writers)
			wl := strings.Join(writers, ", ")
			if len(wl) > 160 {
				wl = wl[:160] + "…"
			}
			kx := core.Key("E6-prefix", m+":"+p, "export")
			if X[p] {
				r.Discharge("E6-prefix", kx, r.P.FuncPos(exp.Fn), "prefix read by "+m+".ExportGenesis; written by "+wl)
			} else {
				r.Violate("E6-prefix", kx, r.P.FuncPos(exp.Fn), fmt.Sprintf("store prefix %q of module %s is written by consensus code (%s) but never read by %s.ExportGenesis: the records are dropped by a genesis export", p, m, wl, m))
			}
			ki := core.Key("E6-prefix", m+":"+p, "import")
			if I[p] {
				r.Discharge("E6-prefix", ki, r.P.FuncPos(imp.Fn), "prefix written by "+m+".InitGenesis")
			} else {
				r.Violate("E6-prefix", ki, r.P.FuncPos(imp.Fn), fmt.Sprintf("store prefix %q of module %s is written by consensus code (%s) but never written by %s.InitGenesis: the records cannot be restored from a genesis file", p, m, wl, m))
			}
		}
		checkGenesisFields(r, m)
		checkParamKeys(r, m)
		ruleExportUnmodified(r, "E6-all", m)
		ruleGenesisPairs(r, "E6-pair", m)
	}
	r.Floor("written_prefixes", total, 26)
	r.Floor("genesis_modules", len(mods), 6)
}

// genesisFuncs: the package-level ExportGenesis/InitGenesis of module m.
func genesisFunc(r *core.Run, m, name string) *ssa.Function {
	return r.P.Func(m + "." + name)
}

func checkGenesisFields(r *core.Run, m string) {
	gs := r.P.LookupType(prog.ModulePath+"/x/"+m+"/types", "GenesisState")
	if gs == nil {
		r.Undecide("E6-field", core.Key("E6-field", m, "GenesisState"), "", "type GenesisState of module "+m+" not found")
		return
	}
	st, ok := gs.Underlying().(*types.Struct)
	if !ok {
		return
	}
	exp := genesisFunc(r, m, "ExportGenesis")
	imp := genesisFunc(r, m, "InitGenesis")
	if exp == nil || imp == nil {
		r.Undecide("E6-field", core.Key("E6-field", m, "funcs"), "", "functions "+m+".ExportGenesis/InitGenesis not found")
		return
	}
	written := map[int]bool{}
	read := map[int]bool{}
	scan := func(f *ssa.Function, onStore, onLoad func(int)) {
		for _, b := range f.Blocks {
			for _, ins := range b.Instrs {
				switch x := ins.(type) {
				case *ssa.FieldAddr:
					if namedIs(x.X.Type(), gs) {
						for _, ref := range *x.Referrers() {
							switch y := ref.(type) {
							case *ssa.Store:
								if y.Addr == x {
									onStore(x.Field)
								}
							case *ssa.UnOp:
								onLoad(x.Field)
							default:
								onLoad(x.Field)
							}
						}
					}
				case *ssa.Field:
					if namedIs(x.X.Type(), gs) {
						onLoad(x.Field)
					}
				}
			}
		}
	}
	for _, f := range transparentClosure(r, exp) {
		scan(f, func(i int) { written[i] = true }, func(int) {})
	}
	impFuncs := transparentClosure(r, imp)
	for _, f := range impFuncs {
		scan(f, func(int) {}, func(i int) { read[i] = true })
	}
	n := 0
	for i := 0; i < st.NumFields(); i++ {
		fn := st.Field(i).Name()
		if strings.HasPrefix(fn, "XXX_") {
			continue
		}
		n++
		ke := core.Key("E6-field", m+".GenesisState."+fn, "export")
		if written[i] {
			r.Discharge("E6-field", ke, r.P.FuncPos(exp), "assigned in ExportGenesis")
		} else {
			r.Violate("E6-field", ke, r.P.FuncPos(exp), fmt.Sprintf("GenesisState.%s of module %s is never assigned by ExportGenesis (exported genesis carries only the default)", fn, m))
		}
		ki := core.Key("E6-field", m+".GenesisState."+fn, "import")
		if read[i] {
			r.Discharge("E6-field", ki, r.P.FuncPos(imp), "read in InitGenesis")
		} else {
			r.Violate("E6-field", ki, r.P.FuncPos(imp), fmt.Sprintf("GenesisState.%s of module %s is never read by InitGenesis (imported state ignores it)", fn, m))
		}
	}
	r.Count("genesis_fields", n)
	checkUnfiltered(r, m, gs, st, exp, imp)
}

// transparentClosure: f and the transparent helpers (functions outside the rule vocabulary) it calls, to depth 3.
func transparentClosure(r *core.Run, f *ssa.Function) []*ssa.Function {
	out := []*ssa.Function{f}
	seen := map[*ssa.Function]bool{f: true}
	for i := 0; i < len(out) && i < 40; i++ {
		for _, b := range out[i].Blocks {
			for _, ins := range b.Instrs {
				if c, ok := ins.(ssa.CallInstruction); ok {
					if h := c.Common().StaticCallee(); h != nil && !seen[h] && r.P.Transparent(h) {
						seen[h] = true
						out = append(out, h)
					}
				}
			}
		}
	}
	return out
}

// checkUnfiltered: list fields are exported as the direct result of a keeper getter that appends every
// stored record, and imported by a loop that persists every element (no filter on either side).
func checkUnfiltered(r *core.Run, m string, gs *types.Named, st *types.Struct, exp, imp *ssa.Function) {
	resE := r.Resolver(exp)
	for i := 0; i < st.NumFields(); i++ {
		fn := st.Field(i).Name()
		if _, isSlice := st.Field(i).Type().Underlying().(*types.Slice); !isSlice || strings.HasPrefix(fn, "XXX_") {
			continue
		}
		// export side
		var val ssa.Value
		nst := 0
		for _, b := range exp.Blocks {
			for _, ins := range b.Instrs {
				if sto, ok := ins.(*ssa.Store); ok {
					if fa, ok := sto.Addr.(*ssa.FieldAddr); ok && namedIs(fa.X.Type(), gs) && fa.Field == i {
						val = sto.Val
						nst++
					}
				}
			}
		}
		key := core.Key("E6-all", m+".GenesisState."+fn, "export-unfiltered")
		if nst == 1 {
			c, isCall := val.(*ssa.Call)
			var getter *ssa.Function
			if isCall {
				_, cs := resE.CalleeName(&c.Call)
				if len(cs) == 1 {
					getter = cs[0]
				}
			}
			switch {
			case getter == nil:
				r.Violate("E6-all", key, r.P.FuncPos(exp), fmt.Sprintf("ExportGenesis of %s does not assign GenesisState.%s directly from a keeper getter (value %s): records can be filtered or rewritten on export", m, fn, shorten(resE.Of(val).String())))
			default:
				if why := getterExportsAll(r, getter); why != "" {
					r.Violate("E6-all", key, r.P.FuncPos(getter), fmt.Sprintf("%s, which feeds GenesisState.%s, does not return every stored record: %s", r.P.Name(getter), fn, why))
				} else {
					r.Discharge("E6-all", key, r.P.FuncPos(getter), r.P.Name(getter)+" iterates the prefix and appends every record; ExportGenesis assigns its result unmodified")
				}
			}
		} else if nst > 1 {
			r.Violate("E6-all", key, r.P.FuncPos(exp), fmt.Sprintf("GenesisState.%s is assigned %d times in ExportGenesis", fn, nst))
		}
		// import side: a range loop over genState.<fn> in which every iteration persists the element
		keyI := core.Key("E6-all", m+".GenesisState."+fn, "import-all")
		okLoop := false
		reLen := regexp.MustCompile(`builtin\.len\(#[0-9]+\.` + regexp.QuoteMeta(fn) + `\)`)
		for _, impF := range transparentClosure(r, imp) {
			resI := r.Resolver(impF)
			for _, l := range cfgx.Loops(impF) {
				iff := cfgx.IfOf(l.Header)
				if iff == nil {
					continue
				}
				ct := resI.Of(iff.Cond).String()
				if !reLen.MatchString(ct) {
					continue
				}
				setB := map[*ssa.BasicBlock]bool{}
				for b := range l.Body {
					for _, ins := range b.Instrs {
						if c, ok := ins.(ssa.CallInstruction); ok {
							_, cs := resI.CalleeName(c.Common())
							if len(cs) > 0 && hasWrites(r, cs) {
								setB[b] = true
							}
						}
					}
				}
				if len(setB) > 0 && cutsAllCycles(l, setB) {
					okLoop = true
				}
			}
		}
		if !okLoop {
			// the loop may be a helper that receives the list and the setter:  forEach(ctx, genState.<fn>, k.SetX)
			okLoop = importViaHelper(r, imp, fn)
		}
		if okLoop {
			r.Discharge("E6-all", keyI, r.P.FuncPos(imp), "InitGenesis ranges over the list and persists every element")
		} else {
			r.Violate("E6-all", keyI, r.P.FuncPos(imp), fmt.Sprintf("InitGenesis of %s does not persist every element of GenesisState.%s (no range loop over it whose every iteration writes the store)", m, fn))
		}
	}
}

// getterExportsAll: "" when the getter returns every stored record: either a
// store-iterator loop that appends on every cycle, or the SDK Iterate+callback
// idiom (a helper with such a loop that calls the callback on every cycle, and a
// closure that appends its argument and never asks to stop). In both forms the
// record must be decoded into a variable that is fresh in every iteration.
func getterExportsAll(r *core.Run, g *ssa.Function) string {
	return getterExportsAllCtx(r, g, nil)
}

// getterExportsAllCtx: alwaysTrue lists parameters of g that, at the call under consideration, are bound to a
// predicate that accepts everything (a function literal all of whose returns are the constant true): a test of such
// a predicate skips nothing.
func getterExportsAllCtx(r *core.Run, g *ssa.Function, alwaysTrue map[*ssa.Parameter]bool) string {
	// a paginated walk is never complete: query.Paginate turns a nil / zero-limit page request into DefaultLimit (100)
	for f := range r.P.CG.Reach(g) {
		res := r.Resolver(f)
		for _, b := range f.Blocks {
			for _, ins := range b.Instrs {
				if c, ok := ins.(ssa.CallInstruction); ok {
					if name, _ := res.CalleeName(c.Common()); name == "cosmos/types/query.Paginate" || name == "cosmos/types/query.FilteredPaginate" {
						return "it walks the store through " + name + " (" + r.P.Pos(c.Pos()) + "), which stops after the page limit — DefaultLimit = 100 records when no page request is given — so records beyond the first page are not exported"
					}
				}
			}
		}
	}
	loops := cfgx.Loops(g)
	if len(loops) == 0 {
		// the walk may be delegated to a helper outside the vocabulary whose result is returned as it is
		if h, call := returnsResultOfCall(r, g); h != nil {
			at := map[*ssa.Parameter]bool{}
			for i, a := range call.Call.Args {
				if i < len(h.Params) && acceptsEverything(r, a) {
					at[h.Params[i]] = true
				}
			}
			return getterExportsAllCtx(r, h, at)
		}
		return getterViaCallback(r, g)
	}
	if len(loops) != 1 {
		return fmt.Sprintf("expected exactly one iterator loop, found %d loops", len(loops))
	}
	l := loops[0]
	if cl := classifyLoop(r, g, l); cl.Kind != "iterator" {
		return "its loop is not a store-iterator loop (" + cl.Kind + ")"
	}
	app := map[*ssa.BasicBlock]bool{}
	for b := range l.Body {
		for _, ins := range b.Instrs {
			if c, ok := ins.(*ssa.Call); ok {
				if bi, ok := c.Call.Value.(*ssa.Builtin); ok && bi.Name() == "append" {
					app[b] = true
				}
			}
		}
	}
	// the false edge of a test of an accept-everything predicate is never taken
	skip := map[cfgx.Edge]bool{}
	for b := range l.Body {
		if iff := cfgx.IfOf(b); iff != nil && len(b.Succs) == 2 {
			if c, ok := iff.Cond.(*ssa.Call); ok {
				if p, ok := c.Call.Value.(*ssa.Parameter); ok && alwaysTrue[p] {
					skip[cfgx.Edge{From: b, To: b.Succs[1]}] = true
				}
			}
		}
	}
	if len(app) == 0 || !cutsAllCyclesE(l, app, skip) {
		return "some iteration of its loop does not append the record (a filter or continue skips it)"
	}
	return staleDecode(r, g, l)
}

// staleDecode: a codec Unmarshal inside the loop whose target variable is
// allocated outside the loop. gogoproto's generated Unmarshal merges into the
// existing value (repeated fields are appended to, fields absent from the wire
// keep the previous record's value), so every record after the first is polluted.
func staleDecode(r *core.Run, f *ssa.Function, l *cfgx.Loop) string {
	res := r.Resolver(f)
	for b := range l.Body {
		for _, ins := range b.Instrs {
			c, ok := ins.(ssa.CallInstruction)
			if !ok {
				continue
			}
			name, _ := res.CalleeName(c.Common())
			if !strings.HasSuffix(name, "Unmarshal") && !strings.HasSuffix(name, "UnmarshalLengthPrefixed") {
				continue
			}
			for _, a := range c.Common().Args {
				root := a
				for {
					switch x := root.(type) {
					case *ssa.MakeInterface:
						root = x.X
						continue
					case *ssa.ChangeType:
						root = x.X
						continue
					case *ssa.FieldAddr:
						root = x.X
						continue
					}
					break
				}
				al, ok := root.(*ssa.Alloc)
				if !ok {
					continue
				}
				if _, isPtrToStruct := al.Type().Underlying().(*types.Pointer).Elem().Underlying().(*types.Struct); !isPtrToStruct {
					continue
				}
				if !l.Body[al.Block()] {
					return fmt.Sprintf("the record is decoded by %s into a variable declared outside the loop (%s): the generated Unmarshal merges into the previous record (repeated fields accumulate, absent fields keep stale values)", name, r.P.Pos(al.Pos()))
				}
			}
		}
	}
	return ""
}

// getterViaCallback recognises   k.Iterate(ctx, func(x T) bool { list = append(list, x); return false }); return list
func getterViaCallback(r *core.Run, g *ssa.Function) string {
	res := r.Resolver(g)
	var helper *ssa.Function
	var clo *ssa.Function
	cbIdx := -1
	for _, b := range g.Blocks {
		for _, ins := range b.Instrs {
			c, ok := ins.(ssa.CallInstruction)
			if !ok {
				continue
			}
			for ai, a := range c.Common().Args {
				mc, ok := a.(*ssa.MakeClosure)
				if !ok {
					continue
				}
				_, cs := res.CalleeName(c.Common())
				if len(cs) != 1 || helper != nil {
					return "no iterator loop, and the callback form is not a single call of one module iterator helper"
				}
				helper, clo = cs[0], mc.Fn.(*ssa.Function)
				cbIdx = ai
				if c.Common().IsInvoke() {
					cbIdx = ai + 1
				} else if helper.Signature.Recv() != nil {
					cbIdx = ai
				}
			}
		}
	}
	if helper == nil {
		return "expected exactly one iterator loop, found 0 loops (and no iterator helper called with a callback)"
	}
	// the closure: no loops, appends on every path, always returns false
	if len(cfgx.Loops(clo)) != 0 {
		return "callback of " + r.P.Name(helper) + " contains a loop"
	}
	appB := map[*ssa.BasicBlock]bool{}
	for _, b := range clo.Blocks {
		for _, ins := range b.Instrs {
			if c, ok := ins.(*ssa.Call); ok {
				if bi, ok := c.Call.Value.(*ssa.Builtin); ok && bi.Name() == "append" {
					appB[b] = true
				}
			}
		}
	}
	for _, b := range clo.Blocks {
		ret, ok := b.Instrs[len(b.Instrs)-1].(*ssa.Return)
		if !ok {
			continue
		}
		dom := false
		for x := b; x != nil; x = x.Idom() {
			if appB[x] {
				dom = true
			}
		}
		if !dom {
			return "the callback does not append the record on every path (a filter skips it)"
		}
		for _, v := range ret.Results {
			if cst, ok := v.(*ssa.Const); !ok || cst.Value == nil || cst.Value.String() != "false" {
				return "the callback can ask the iteration to stop (returns a non-constant or true)"
			}
		}
	}
	// the helper: one iterator loop, fresh decode, callback invoked on every cycle
	hl := cfgx.Loops(helper)
	if len(hl) != 1 {
		return fmt.Sprintf("iterator helper %s: expected exactly one iterator loop, found %d", r.P.Name(helper), len(hl))
	}
	l := hl[0]
	if cl := classifyLoop(r, helper, l); cl.Kind != "iterator" {
		return "iterator helper " + r.P.Name(helper) + ": its loop is not a store-iterator loop (" + cl.Kind + ")"
	}
	if cbIdx < 0 || cbIdx >= len(helper.Params) {
		return "iterator helper " + r.P.Name(helper) + ": callback parameter not identified"
	}
	cbParam := helper.Params[cbIdx]
	callB := map[*ssa.BasicBlock]bool{}
	for b := range l.Body {
		for _, ins := range b.Instrs {
			if c, ok := ins.(*ssa.Call); ok && c.Call.Value == cbParam {
				callB[b] = true
			}
		}
	}
	if len(callB) == 0 || !cutsAllCycles(l, callB) {
		return "iterator helper " + r.P.Name(helper) + " does not hand every record to the callback (a filter or continue skips it)"
	}
	// early exits of the loop (other than the iterator test in the header) must come after the callback
	for b := range l.Body {
		if b == l.Header {
			continue
		}
		for _, sx := range b.Succs {
			if l.Body[sx] {
				continue
			}
			after := false
			for x := b; x != nil && l.Body[x]; x = x.Idom() {
				if callB[x] {
					after = true
				}
			}
			if !after {
				return "iterator helper " + r.P.Name(helper) + " can leave its loop before handing a record to the callback"
			}
		}
	}
	return staleDecode(r, helper, l)
}

func namedIs(t types.Type, n *types.Named) bool {
	for {
		if p, ok := t.(*types.Pointer); ok {
			t = p.Elem()
			continue
		}
		break
	}
	nn, ok := t.(*types.Named)
	return ok && nn.Obj() == n.Obj()
}

// checkParamKeys: keys registered in ParamSetPairs vs keys read by the keeper's GetParams closure.
func checkParamKeys(r *core.Run, m string) {
	psp := r.P.Func(m + "/types.Params.ParamSetPairs")
	get := r.P.Func(m + "/keeper.Keeper.GetParams")
	if psp == nil || get == nil {
		r.Undecide("E6-param", core.Key("E6-param", m, "funcs"), "", "ParamSetPairs/GetParams of module "+m+" not found")
		return
	}
	keyGlobals := func(f *ssa.Function, callee string, argIdx int) map[string]bool {
		out := map[string]bool{}
		for fn := range r.P.CG.Reach(f) {
			for _, b := range fn.Blocks {
				for _, ins := range b.Instrs {
					c, ok := ins.(ssa.CallInstruction)
					if !ok {
						continue
					}
					name, _ := r.Resolver(fn).CalleeName(c.Common())
					if name != callee || len(c.Common().Args) <= argIdx {
						continue
					}
					if u, ok := c.Common().Args[argIdx].(*ssa.UnOp); ok {
						if g, ok := u.X.(*ssa.Global); ok {
							out[g.Name()] = true
						}
					}
				}
			}
		}
		return out
	}
	reg := keyGlobals(psp, "cosmos/x/params/types.NewParamSetPair", 0)
	rd := keyGlobals(get, "cosmos/x/params/types.Subspace.Get", 2)
	var names []string
	for k := range reg {
		names = append(names, k)
	}
	sort.Strings(names)
	for _, k := range names {
		key := core.Key("E6-param", m, k)
		if rd[k] {
			r.Discharge("E6-param", key, r.P.FuncPos(get), "registered key is read by GetParams")
		} else {
			r.Violate("E6-param", key, r.P.FuncPos(get), fmt.Sprintf("parameter key %s of module %s is registered in ParamSetPairs but GetParams never reads it: ExportGenesis exports the zero value", k, m))
		}
	}
	r.Count("param_keys", len(names))
}

// ruleExportUnmodified (E6-all, clause export-unmodified): ExportGenesis does
// not write through a GenesisState list after it has been read from the store:
// no store whose address is reached from a load of a GenesisState field (or
// from the getter's result) through index/field steps. A rewritten record is a
// state the chain never had (e.g. a reward with the pending share added while
// the debt snapshot stays: after import the share is claimable twice).
func ruleExportUnmodified(r *core.Run, id, m string) {
	gs := r.P.LookupType(prog.ModulePath+"/x/"+m+"/types", "GenesisState")
	exp := genesisFunc(r, m, "ExportGenesis")
	if gs == nil || exp == nil {
		r.Undecide(id, core.Key(id, m, "export-unmodified", "anchor"), "", "GenesisState / ExportGenesis of module "+m+" not found")
		return
	}
	st, _ := gs.Underlying().(*types.Struct)
	n := 0
	bad := map[string]string{}
	for _, b := range exp.Blocks {
		for _, ins := range b.Instrs {
			sto, ok := ins.(*ssa.Store)
			if !ok {
				continue
			}
			// walk the address towards its root; a direct store to the GenesisState field itself is the assignment, not a rewrite
			v := sto.Addr
			steps := 0
			for {
				switch x := v.(type) {
				case *ssa.FieldAddr:
					if steps > 0 || !namedIs(x.X.Type(), gs) {
						v = x.X
						steps++
						continue
					}
				case *ssa.IndexAddr:
					v = x.X
					steps++
					continue
				case *ssa.UnOp:
					if fa, ok := x.X.(*ssa.FieldAddr); ok && namedIs(fa.X.Type(), gs) && steps > 0 && st != nil {
						bad[st.Field(fa.Field).Name()] = r.P.Pos(sto.Pos())
					}
				case *ssa.Call:
					if steps > 0 {
						// element of a slice returned by a getter that feeds a genesis field
						for _, ref := range *x.Referrers() {
							if s2, ok := ref.(*ssa.Store); ok {
								if fa, ok := s2.Addr.(*ssa.FieldAddr); ok && namedIs(fa.X.Type(), gs) && st != nil {
									bad[st.Field(fa.Field).Name()] = r.P.Pos(sto.Pos())
								}
							}
						}
					}
				}
				break
			}
			n++
		}
	}
	if st != nil {
		for i := 0; i < st.NumFields(); i++ {
			fn := st.Field(i).Name()
			if _, isSlice := st.Field(i).Type().Underlying().(*types.Slice); !isSlice || strings.HasPrefix(fn, "XXX_") {
				continue
			}
			key := core.Key(id, m+".GenesisState."+fn, "export-unmodified")
			if pos, isBad := bad[fn]; isBad {
				r.Violate(id, key, pos, fmt.Sprintf("ExportGenesis of %s writes into the elements of GenesisState.%s after reading them from the store: the exported records differ from the chain's records (a state the chain never had is imported)", m, fn))
			} else {
				r.Discharge(id, key, r.P.FuncPos(exp), "no store through GenesisState."+fn+" in ExportGenesis")
			}
		}
	}
	r.Count("export_stores_scanned", n)
}

// ruleGenesisPairs (E6-pair): for every scalar (non-list) GenesisState field F
// that ExportGenesis assigns from a keeper getter, InitGenesis hands
// genState.F to a setter that writes the very store prefix the getter reads.
// A counter restored from the wrong field (or two fields swapped) passes every
// presence check but restarts the chain with a wrong counter.
func ruleGenesisPairs(r *core.Run, id, m string) {
	gs := r.P.LookupType(prog.ModulePath+"/x/"+m+"/types", "GenesisState")
	exp := genesisFunc(r, m, "ExportGenesis")
	imp := genesisFunc(r, m, "InitGenesis")
	if gs == nil || exp == nil || imp == nil {
		r.Undecide(id, core.Key(id, m, "anchor"), "", "GenesisState / ExportGenesis / InitGenesis of module "+m+" not found")
		return
	}
	st, _ := gs.Underlying().(*types.Struct)
	if st == nil {
		return
	}
	resE, resI := r.Resolver(exp), r.Resolver(imp)
	prefixes := func(fs []*ssa.Function, write bool) map[string]bool {
		out := map[string]bool{}
		for _, e := range r.Eff.Reach(fs...) {
			if !strings.HasPrefix(e.Kind, "store.") {
				continue
			}
			if write == e.IsWrite() {
				out[eff.StoreOwner(e)+":"+e.Prefix] = true
			}
		}
		return out
	}
	n := 0
	for i := 0; i < st.NumFields(); i++ {
		fn := st.Field(i).Name()
		if strings.HasPrefix(fn, "XXX_") || fn == "Params" {
			continue
		}
		if _, isSlice := st.Field(i).Type().Underlying().(*types.Slice); isSlice {
			continue
		}
		// export: genesis.F = getter(ctx)
		var getter []*ssa.Function
		for _, b := range exp.Blocks {
			for _, ins := range b.Instrs {
				if sto, ok := ins.(*ssa.Store); ok {
					if fa, ok := sto.Addr.(*ssa.FieldAddr); ok && namedIs(fa.X.Type(), gs) && fa.Field == i {
						v := sto.Val
						if ex, ok := v.(*ssa.Extract); ok {
							v = ex.Tuple
						}
						if c, ok := v.(*ssa.Call); ok {
							_, cs := resE.CalleeName(&c.Call)
							getter = cs
						}
					}
				}
			}
		}
		if len(getter) == 0 {
			continue // not a stored scalar (e.g. PortId handled by E6-field only)
		}
		R := prefixes(getter, false)
		// import: calls receiving genState.F
		W := map[string]bool{}
		var setters []string
		for _, b := range imp.Blocks {
			for _, ins := range b.Instrs {
				c, ok := ins.(ssa.CallInstruction)
				if !ok {
					continue
				}
				uses := false
				for _, a := range c.Common().Args {
					v := a
					if u, ok := v.(*ssa.UnOp); ok {
						v = u.X
					}
					switch x := v.(type) {
					case *ssa.FieldAddr:
						if namedIs(x.X.Type(), gs) && x.Field == i {
							uses = true
						}
					case *ssa.Field:
						if namedIs(x.X.Type(), gs) && x.Field == i {
							uses = true
						}
					}
				}
				if !uses {
					continue
				}
				name, cs := resI.CalleeName(c.Common())
				setters = append(setters, name)
				for p := range prefixes(cs, true) {
					W[p] = true
				}
			}
		}
		// other writers of the same prefix inside InitGenesis (they overwrite what was restored, whatever the order)
		var others []string
		for _, b := range imp.Blocks {
			for _, ins := range b.Instrs {
				c, ok := ins.(ssa.CallInstruction)
				if !ok {
					continue
				}
				name, cs := resI.CalleeName(c.Common())
				isSetter := false
				for _, sn := range setters {
					if sn == name {
						isSetter = true
					}
				}
				if isSetter || len(cs) == 0 {
					continue
				}
				wp := prefixes(cs, true)
				for p := range R {
					if wp[p] {
						others = append(others, name)
					}
				}
			}
		}
		if len(others) > 0 {
			r.Violate(id, core.Key(id, m+".GenesisState."+fn, "not overwritten during import"), r.P.FuncPos(imp), fmt.Sprintf("InitGenesis of %s restores GenesisState.%s but also calls %s, which writes the same record: the imported value is replaced by a derived one (e.g. last id + 1 instead of the exported counter), so a re-export differs and identifiers already handed out are reused", m, fn, strings.Join(dedupe(others), ", ")))
		} else {
			r.Discharge(id, core.Key(id, m+".GenesisState."+fn, "not overwritten during import"), r.P.FuncPos(imp), "no other call in InitGenesis writes that record")
		}
		n++
		key := core.Key(id, m+".GenesisState."+fn, "restored to the key it was read from")
		common := ""
		for p := range R {
			if W[p] {
				common = p
			}
		}
		var rl []string
		for p := range R {
			rl = append(rl, p)
		}
		sort.Strings(rl)
		switch {
		case len(R) == 0:
			continue
		case common != "":
			r.Discharge(id, key, r.P.FuncPos(imp), fmt.Sprintf("exported from %s, imported through %s into the same prefix %s", strings.Join(rl, ","), strings.Join(setters, ","), common))
		default:
			r.Violate(id, key, r.P.FuncPos(imp), fmt.Sprintf("GenesisState.%s of module %s is exported from store prefix %s, but InitGenesis never hands genState.%s to a setter of that prefix (it is passed to: %s): after a genesis restart that record holds another field's value", fn, m, strings.Join(rl, ","), fn, strings.Join(setters, ",")))
		}
	}
	r.Count("genesis_scalar_pairs_"+m, n)
}

// cutsAllCyclesE: like cutsAllCycles, never following the given edges.
func cutsAllCyclesE(l *cfgx.Loop, removed map[*ssa.BasicBlock]bool, skip map[cfgx.Edge]bool) bool {
	if len(skip) == 0 {
		return cutsAllCycles(l, removed)
	}
	if removed[l.Header] {
		return true
	}
	seen := map[*ssa.BasicBlock]bool{}
	var st []*ssa.BasicBlock
	push := func(from *ssa.BasicBlock) {
		for _, s := range from.Succs {
			if l.Body[s] && !removed[s] && !skip[cfgx.Edge{From: from, To: s}] {
				st = append(st, s)
			}
		}
	}
	push(l.Header)
	for len(st) > 0 {
		b := st[len(st)-1]
		st = st[:len(st)-1]
		if b == l.Header {
			return false
		}
		if seen[b] {
			continue
		}
		seen[b] = true
		push(b)
	}
	return true
}

// acceptsEverything: the value is a function literal (or function) all of whose returns are the constant true.
func acceptsEverything(r *core.Run, v ssa.Value) bool {
	f := funcOfValue(r, v)
	if f == nil || len(f.Blocks) == 0 {
		return false
	}
	n := 0
	for _, b := range f.Blocks {
		if ret, ok := b.Instrs[len(b.Instrs)-1].(*ssa.Return); ok {
			if len(ret.Results) != 1 {
				return false
			}
			c, isC := ret.Results[0].(*ssa.Const)
			if !isC || c.Value == nil || c.Value.Kind() != constant.Bool || !constant.BoolVal(c.Value) {
				return false
			}
			n++
		}
	}
	return n > 0
}

// returnsResultOfCall: like returnsResultOf, also handing back the call.
func returnsResultOfCall(r *core.Run, g *ssa.Function) (*ssa.Function, *ssa.Call) {
	var h *ssa.Function
	var call *ssa.Call
	for _, b := range g.Blocks {
		ret, ok := b.Instrs[len(b.Instrs)-1].(*ssa.Return)
		if !ok {
			continue
		}
		if len(ret.Results) != 1 {
			return nil, nil
		}
		c, ok := ret.Results[0].(*ssa.Call)
		if !ok {
			return nil, nil
		}
		f := c.Call.StaticCallee()
		if f == nil || f == g || !r.P.Transparent(f) || len(f.Blocks) == 0 || (h != nil && h != f) {
			return nil, nil
		}
		h, call = f, c
	}
	return h, call
}

// returnsResultOf: every return of g hands back, unmodified, the result of one call of a transparent helper.
func returnsResultOf(r *core.Run, g *ssa.Function) *ssa.Function {
	var h *ssa.Function
	for _, b := range g.Blocks {
		ret, ok := b.Instrs[len(b.Instrs)-1].(*ssa.Return)
		if !ok {
			continue
		}
		if len(ret.Results) != 1 {
			return nil
		}
		c, ok := ret.Results[0].(*ssa.Call)
		if !ok {
			return nil
		}
		f := c.Call.StaticCallee()
		if f == nil || f == g || !r.P.Transparent(f) || len(f.Blocks) == 0 || (h != nil && h != f) {
			return nil
		}
		h = f
	}
	return h
}

// importViaHelper: InitGenesis (or a helper under it) calls a helper h with genState.<field> and a function value;
// h ranges over that list parameter and calls that function parameter on every iteration; the function value is a
// (method) value that writes the store.
func importViaHelper(r *core.Run, imp *ssa.Function, field string) bool {
	for _, f := range transparentClosure(r, imp) {
		res := r.Resolver(f)
		for _, b := range f.Blocks {
			for _, ins := range b.Instrs {
				call, ok := ins.(ssa.CallInstruction)
				if !ok || call.Common().IsInvoke() {
					continue
				}
				h := call.Common().StaticCallee()
				if h == nil || !r.P.Transparent(h) || len(h.Blocks) == 0 {
					continue
				}
				args := call.Common().Args
				li, fi := -1, -1
				for i, a := range args {
					if strings.HasSuffix(normT(res.Of(a).String()), "."+field) {
						li = i
					}
					if _, isSig := a.Type().Underlying().(*types.Signature); isSig {
						if w := funcOfValue(r, a); w != nil && hasWrites(r, []*ssa.Function{w}) {
							fi = i
						}
					}
				}
				if li < 0 || fi < 0 || li >= len(h.Params) || fi >= len(h.Params) {
					continue
				}
				// h: a loop over parameter li calling parameter fi in every iteration
				for _, l := range cfgx.Loops(h) {
					iff := cfgx.IfOf(l.Header)
					if iff == nil {
						continue
					}
					bo, ok := iff.Cond.(*ssa.BinOp)
					if !ok {
						continue
					}
					lc, ok := bo.Y.(*ssa.Call)
					if !ok || len(lc.Call.Args) != 1 || lc.Call.Args[0] != ssa.Value(h.Params[li]) {
						continue
					}
					callB := map[*ssa.BasicBlock]bool{}
					for hb := range l.Body {
						for _, hi := range hb.Instrs {
							if c2, ok := hi.(ssa.CallInstruction); ok && c2.Common().Value == ssa.Value(h.Params[fi]) {
								callB[hb] = true
							}
						}
					}
					if len(callB) > 0 && cutsAllCycles(l, callB) {
						return true
					}
				}
			}
		}
	}
	return false
}

// funcOfValue: the function a function value denotes — a function, a closure, or a bound method value.
func funcOfValue(r *core.Run, v ssa.Value) *ssa.Function {
	switch x := v.(type) {
	case *ssa.Function:
		return x
	case *ssa.MakeClosure:
		f, _ := x.Fn.(*ssa.Function)
		if f != nil && f.Synthetic != "" {
			// bound method wrapper: the method itself
			if m, ok := f.Object().(*types.Func); ok {
				if t := r.P.SSA.FuncValue(m); t != nil {
					return t
				}
			}
		}
		return f
	case *ssa.ChangeType:
		return funcOfValue(r, x.X)
	}
	return nil
}
