package rules

import (
	"golang.org/x/tools/go/ssa"

	"saoverif/internal/core"
	"saoverif/internal/guard"
)

func init() { register("C10", checkC10) }

// canonical names used by several rule files
const (
	fGetOrder    = "order/keeper.Keeper.GetOrder"
	fGetShard    = "order/keeper.Keeper.GetShard"
	fGetNode     = "node/keeper.Keeper.GetNode"
	fGetPledge   = "node/keeper.Keeper.GetPledge"
	fShardBySP   = "order/keeper.Keeper.GetOrderShardBySP"
	fGetMeta     = "model/keeper.Keeper.GetMetadata"
	fVerifySig   = "sao/keeper.Keeper.verifySignature"
	fPayAddr     = "did/keeper.Keeper.GetCosmosPaymentAddress"
	fBound       = "did/keeper.Keeper.CreatorIsBoundToDid"
	fShardRel    = "node/keeper.Keeper.ShardRelease"
	fRemoveShard = "order/keeper.Keeper.RemoveShard"
	fCancelOrder = "model/keeper.Keeper.CancelOrder"
	fSetOrder    = "order/keeper.Keeper.SetOrder"
	msg          = "#2" // handler signature: (receiver, goCtx, msg)
)

// providerAtoms: "the signer acts for the provider named in the message".
func providerAtoms() []guard.Atom {
	return []guard.Atom{
		guard.Eq(msg+".Provider", msg+".Creator"),
		guard.Eq("elem("+fGetNode+"("+msg+".Provider)#0.TxAddresses)", msg+".Creator"),
	}
}

func checkC10(r *core.Run) {
	r.Explanation = "C10 (structural clauses only): in every handler that takes a creator/provider pair, every state-changing effect is dominated, on all paths, by the comparisons that tie the signer to the actor it claims to be; boolean flags (isProvider, isCreator) are expanded to the comparisons that can set them. Node handlers key every record and counter-party by the signer. Decides which comparisons guard which effects, for all paths; it does not decide that TxAddresses lists are themselves honest. An account is added to an existing DID's bound accounts only when the submitter is already bound to that DID (G-bound)."
	r.Rule("G-complete: every state-changing call in sao Complete <= (msg.Provider == msg.Creator OR msg.Creator in TxAddresses(GetNode(msg.Provider))) AND GetOrderShardBySP(order, msg.Provider) != nil AND shard.Status != Completed")
	r.Rule("G-cancel: ShardRelease/RemoveShard/CancelOrder in sao Cancel <= order.Creator == msg.Creator OR order.Creator in TxAddresses of the ORDER's provider (not of a provider the message merely names)")
	r.Rule("G-ready / G-migrate / G-payer: same scheme, see DESIGN A.2")
	r.Rule("G-node-*: in node Create/Reset/AddVstorage/RemoveVstorage/ClaimReward every keyed record access and bank counter-party is msg.Creator / GetSigners()[0], and GetSigners returns the address of Creator")
	r.Rule("G-renew (shared with C09): every effect of Renew, including the charge to the model owner's payment address, is dominated by 'the verified signer is the model OWNER' (not merely a read-write grantee)")
	ruleRenewOwner(r)
	r.Rule("T-loopvar: in the sao and did message handlers no address of a per-loop variable is stored into a slice/field inside its loop (revoking several accounts in one MsgUpdate must unbind each of them, since CreatorIsBoundToDid reads those bindings)")
	ruleLoopVarAddr(r, "T-loopvar", "sao/keeper.msgServer.", "did/keeper.msgServer.")
	r.Rule("G-bound: an account becomes 'bound to' an existing sid DID (the relation under which Store charges the owner's payment address for a signer, and under which Update / UpdatePaymentAddress accept a submitter) only on a path where the submitter of the binding is itself already bound to that DID; a binding to a DID that does not exist yet requires the recomputed document id. The account's own consent (its proof) is not the owner's authorisation")
	ruleBoundSubmitter(r, "G-bound")
	r.Rule("G-pay: UpdatePaymentAddress makes an account the payment address of a sid DID only if that account is bound to that very DID (it signed a binding proof for it) and the submitter is bound to it too; of a key DID only the address itself, once — otherwise a stranger's account is charged for orders it never signed")
	ruleSigOwner(r)
	r.Rule("T-decode-fresh: every record decoded inside a loop is decoded into a variable that is fresh per iteration (Unmarshal appends to repeated fields: with a hoisted variable a node inherits the TxAddresses other nodes declared, and the handlers trust that list)")
	ruleDecodeFresh(r, "T-decode-fresh")
	r.Assume(aDeps)
	r.Assume(aCG)

	order := fGetOrder + "(" + msg + ".OrderId)#0"
	shardCompleted := constVal(r, "order/types", "ShardCompleted")

	// ---- Complete
	shardT := fShardBySP + "(&*" + fGetOrder + "(" + msg + ".OrderId)#0," + msg + ".Provider)"
	evalGuard(r, "G-complete", "sao/keeper.msgServer.Complete", effSel{AllWrites: true}, []clause{
		cl("signer-acts-for-provider", providerAtoms()...),
		cl("provider-holds-a-shard-of-the-order", guard.Ne(shardT, "nil")),
		cl("shard-not-yet-completed", guard.Ne("*"+fShardBySP+"(*"+msg+".Provider).Status", shardCompleted)),
	}, 10)

	// ---- Cancel
	txOfNamed := guard.Eq(order+".Creator", "elem("+fGetNode+"("+msg+".Provider)#0.TxAddresses)").With([]guard.Atom{guard.Eq(msg+".Provider", order+".Provider")})
	isCreator := guard.Eq(order+".Creator", msg+".Creator")
	evalGuard(r, "G-cancel", "sao/keeper.msgServer.Cancel", effSel{Calls: []string{fShardRel, fRemoveShard, fCancelOrder}}, []clause{
		cl("order-creator-or-an-address-registered-by-the-ORDER's-gateway (not by a node the message merely names)",
			isCreator,
			guard.Eq(order+".Creator", "elem("+fGetNode+"("+order+".Provider)#0.TxAddresses)"),
			txOfNamed,
		),
		cl("signer-is-the-creator-or-acts-for-the-order's-gateway",
			isCreator, guard.Eq(order+".Provider", msg+".Creator"), guard.Eq(order+".Provider", msg+".Provider")),
		cl("signer-is-the-creator-or-acts-for-the-named-provider", append([]guard.Atom{isCreator}, providerAtoms()...)...),
	}, 3)

	// ---- Ready
	evalGuard(r, "G-ready", "sao/keeper.msgServer.Ready", effSel{AllWrites: true}, []clause{
		cl("acts-for-the-order's-provider", guard.Eq(order+".Provider", msg+".Creator"), guard.Eq(order+".Provider", msg+".Provider")),
		cl("signer-acts-for-provider", providerAtoms()...),
	}, 3)

	// ---- Migrate
	evalGuard(r, "G-migrate", "sao/keeper.msgServer.Migrate", effSel{AllWrites: true}, []clause{
		cl("signer-acts-for-provider", providerAtoms()...),
	}, 2)
	evalGuard(r, "G-migrate", "sao/keeper.msgServer.Migrate", effSel{Calls: []string{"order/keeper.Keeper.MigrateShard", fSetOrder}}, []clause{
		cl("provider-holds-a-shard-of-the-order", guard.Ne(fShardBySP+"(*,"+msg+".Provider)", "nil")),
	}, 2)

	// ---- Store: who may be charged
	node := fGetNode + "(*" + msg + ".Proposal.Provider)#0"
	sponsor := guard.Eq("sdk.AccAddress.String("+fPayAddr+"("+msg+".Proposal.PaymentDid)#0)", msg+".Creator")
	bound := guard.Eq(fBound+"("+msg+".Creator,"+msg+".Proposal.Owner)", "nil")
	evalGuard(r, "G-payer", "sao/keeper.msgServer.Store", effSel{Calls: []string{"sao/types.BankKeeper.SendCoinsFromAccountToModule"}}, []clause{
		cl("payer-consented(sponsor submits itself | owner-bound account | gateway named in the signed proposal)",
			sponsor, bound, guard.Eq(node+".Creator", msg+".Creator"), guard.Eq(node+".Creator", msg+".Provider")),
		cl("signer-is-that-gateway-or-its-registered-address",
			sponsor, bound, guard.Eq(msg+".Provider", msg+".Creator"), guard.Eq("elem("+fGetNode+"("+msg+".Provider)#0.TxAddresses)", msg+".Creator")),
	}, 1)

	// ---- who can be made the payer of a DID's orders
	rulePayGuards(r)

	// ---- node handlers: keys and counter-parties are the signer
	creator := []string{msg + ".Creator"}
	for _, h := range []struct{ fn, msgT string }{
		{"node/keeper.msgServer.AddVstorage", "MsgAddVstorage"},
		{"node/keeper.msgServer.RemoveVstorage", "MsgRemoveVstorage"},
		{"node/keeper.msgServer.ClaimReward", "MsgClaimReward"},
		{"node/keeper.msgServer.Reset", "MsgReset"},
		{"node/keeper.msgServer.Create", "MsgCreate"},
	} {
		signer := "node/types." + h.msgT + ".GetSigners(" + msg + ")[0]"
		evalArgAll(r, "G-node", h.fn, fGetNode, 0, creator, "node record key is the signer")
		evalArgAll(r, "G-node", h.fn, fGetPledge, 0, creator, "pledge record key is the signer")
		evalArgAll(r, "G-node", h.fn, "node/keeper.Keeper.SetPledge", 0, []string{fGetPledge + "(" + msg + ".Creator)#0"}, "persisted pledge is the signer's pledge")
		evalArgAll(r, "G-node", h.fn, "node/keeper.Keeper.CheckNodeShare", 1, creator, "delegations inspected are the signer's")
		evalArgAll(r, "G-node", h.fn, "market/keeper.Keeper.Claim", 1, creator, "worker income claimed is the signer's")
		evalArgAll(r, "G-node", h.fn, "node/keeper.Keeper.RepayPledgeDebt", 0, creator, "debt repaid is the signer's")
		evalArgAll(r, "G-node", h.fn, fShardRel, 0, []string{signer}, "pledge settled is the signer's")
		evalArgAll(r, "G-node", h.fn, "node/types.BankKeeper.SendCoinsFromAccountToModule", 0, []string{signer}, "coins are taken from the signer")
		evalArgAll(r, "G-node", h.fn, "node/types.BankKeeper.SendCoinsFromModuleToAccount", 1, []string{signer}, "coins are paid to the signer")
		if h.msgT != "MsgCreate" {
			evalArgAll(r, "G-node", h.fn, "node/keeper.Keeper.SetNode", 0, []string{fGetNode + "(" + msg + ".Creator)#0"}, "persisted node is the signer's node")
		}
		// GetSigners returns the address of Creator
		gs := "node/types." + h.msgT + ".GetSigners"
		if f := r.Func("G-node", gs); f != nil {
			ok := signerIsCreator(r, f)
			key := core.Key("G-node", gs, "returns-creator")
			if ok {
				r.Discharge("G-node", key, r.P.FuncPos(f), "GetSigners returns [AccAddressFromBech32(msg.Creator)]")
			} else {
				r.Violate("G-node", key, r.P.FuncPos(f), "GetSigners does not return the address parsed from Creator: the transaction signer and the account the handler acts for can differ")
			}
		}
	}
	r.Floor("node_handler_arg_sites", r.Counters["arg_sites_G-node"], 20)
}

// signerIsCreator: the function returns a one-element slice holding AccAddressFromBech32(recv.Creator).
func signerIsCreator(r *core.Run, f *ssa.Function) bool {
	res := r.Resolver(f)
	stored := false
	for _, b := range f.Blocks {
		for _, ins := range b.Instrs {
			if st, ok := ins.(*ssa.Store); ok {
				if res.Of(st.Val).String() == "sdk.AccAddressFromBech32(#0.Creator)#0" {
					if ia, ok := st.Addr.(*ssa.IndexAddr); ok {
						if _, ok := ia.X.(*ssa.Alloc); ok {
							stored = true
						}
					}
				}
			}
		}
	}
	if !stored {
		return false
	}
	nret := 0
	for _, b := range f.Blocks {
		if ret, ok := b.Instrs[len(b.Instrs)-1].(*ssa.Return); ok {
			nret++
			if len(ret.Results) != 1 {
				return false
			}
			if _, ok := ret.Results[0].(*ssa.Slice); !ok {
				return false
			}
		}
	}
	return nret > 0
}
