package rules

import (
	"fmt"
	"go/token"
	"go/types"
	"sort"
	"strings"

	"golang.org/x/tools/go/ssa"

	"saoverif/internal/cfgx"
	"saoverif/internal/core"
	"saoverif/internal/guard"
	"saoverif/internal/prog"
)

// ---------------------------------------------------------------- provenance of list values
//
// A list examined by a rule (the ignore list handed to RandomSP, the shards removed by the timeout handler, the
// list an order's Shards is overwritten with) is usually a local slice grown by append in the function that uses
// it. Hand-written code may equally collect it in a helper and hand it back, alone or as a field of a local
// result struct. listOriginOf follows a list value to the append calls that feed it, across those forms.

// listSite: one append feeding a list, with the function that holds it.
type listSite struct {
	Fn  *ssa.Function
	App *ssa.Call
}

type listOrigin struct {
	Sites  []listSite
	Opaque []string // sources that are neither appends nor empty lists
}

// Fn: the single function holding every append (nil when there is none or several).
func (o listOrigin) Fn() *ssa.Function {
	var f *ssa.Function
	for _, s := range o.Sites {
		if f != nil && s.Fn != f {
			return nil
		}
		f = s.Fn
	}
	return f
}

func (o listOrigin) Blocks() map[*ssa.BasicBlock]bool {
	m := map[*ssa.BasicBlock]bool{}
	for _, s := range o.Sites {
		m[s.App.Block()] = true
	}
	return m
}

func isAppend(c *ssa.Call) bool {
	bi, ok := c.Call.Value.(*ssa.Builtin)
	return ok && bi.Name() == "append"
}

// localStruct: a hand-written struct type of the module that is not a chain-state record (those are generated):
// its fields are written only by the code that builds it, so a field is followed to its stores.
func localStruct(r *core.Run, t types.Type) *types.Named {
	if p, ok := t.Underlying().(*types.Pointer); ok {
		t = p.Elem()
	}
	n, ok := t.(*types.Named)
	if !ok {
		return nil
	}
	if _, ok := n.Underlying().(*types.Struct); !ok {
		return nil
	}
	o := n.Obj()
	if o.Pkg() == nil || !prog.InModule(o.Pkg().Path()) || r.P.IsGeneratedPos(o.Pos()) {
		return nil
	}
	return n
}

func listOriginOf(r *core.Run, fn *ssa.Function, v ssa.Value) listOrigin {
	var o listOrigin
	seenV := map[ssa.Value]bool{}
	seenF := map[string]bool{}
	seenSite := map[*ssa.Call]bool{}
	var walk func(fn *ssa.Function, v ssa.Value, depth int)
	followField := func(n *types.Named, idx int, depth int) {
		key := fmt.Sprintf("%s.%d", n.String(), idx)
		if seenF[key] {
			return
		}
		seenF[key] = true
		for _, g := range r.P.SortedFuncs(r.ConsensusFuncs()) {
			for _, b := range g.Blocks {
				for _, ins := range b.Instrs {
					st, ok := ins.(*ssa.Store)
					if !ok {
						continue
					}
					fa, ok := st.Addr.(*ssa.FieldAddr)
					if !ok || fa.Field != idx {
						continue
					}
					if m := localStruct(r, fa.X.Type()); m == nil || !types.Identical(m, n) {
						continue
					}
					walk(g, st.Val, depth+1)
				}
			}
		}
	}
	retsOf := func(h *ssa.Function, idx int, depth int) {
		for _, b := range h.Blocks {
			if ret, ok := b.Instrs[len(b.Instrs)-1].(*ssa.Return); ok && idx < len(ret.Results) {
				walk(h, ret.Results[idx], depth+1)
			}
		}
	}
	walk = func(fn *ssa.Function, v ssa.Value, depth int) {
		if depth > 6 {
			o.Opaque = append(o.Opaque, "nesting too deep")
			return
		}
		for x := range phiWeb(v) {
			if seenV[x] {
				continue
			}
			seenV[x] = true
			switch y := x.(type) {
			case *ssa.Phi:
			case *ssa.BinOp:
			case *ssa.Const:
				if y.Value != nil {
					o.Opaque = append(o.Opaque, "constant")
				}
			case *ssa.MakeSlice:
				if c, ok := y.Len.(*ssa.Const); !ok || c.Int64() != 0 {
					o.Opaque = append(o.Opaque, "make with a length")
				}
			case *ssa.Call:
				if isAppend(y) {
					if !seenSite[y] {
						seenSite[y] = true
						o.Sites = append(o.Sites, listSite{fn, y})
					}
					continue
				}
				if h := y.Call.StaticCallee(); h != nil && r.P.Transparent(h) && len(h.Blocks) > 0 && h.Signature.Results().Len() == 1 {
					retsOf(h, 0, depth)
					continue
				}
				o.Opaque = append(o.Opaque, "result of a call")
			case *ssa.Extract:
				if c, ok := y.Tuple.(*ssa.Call); ok {
					if h := c.Call.StaticCallee(); h != nil && r.P.Transparent(h) && len(h.Blocks) > 0 {
						retsOf(h, y.Index, depth)
						continue
					}
				}
				o.Opaque = append(o.Opaque, "result of a call")
			case *ssa.UnOp:
				if y.Op != token.MUL {
					o.Opaque = append(o.Opaque, "operator")
					continue
				}
				switch a := y.X.(type) {
				case *ssa.FieldAddr:
					if n := localStruct(r, a.X.Type()); n != nil {
						followField(n, a.Field, depth)
						continue
					}
					o.Opaque = append(o.Opaque, "field of a record")
				case *ssa.Alloc:
					for _, ref := range *a.Referrers() {
						if st, ok := ref.(*ssa.Store); ok && st.Addr == a {
							walk(fn, st.Val, depth+1)
						}
					}
				default:
					o.Opaque = append(o.Opaque, "memory read")
				}
			case *ssa.Field:
				if n := localStruct(r, y.X.Type()); n != nil {
					followField(n, y.Field, depth)
					continue
				}
				o.Opaque = append(o.Opaque, "field of a record")
			default:
				o.Opaque = append(o.Opaque, fmt.Sprintf("%T", x))
			}
		}
	}
	walk(fn, v, 0)
	sort.Slice(o.Sites, func(i, j int) bool { return o.Sites[i].App.Pos() < o.Sites[j].App.Pos() })
	sort.Strings(o.Opaque)
	return o
}

// isCollected: the value is a list built up by the code under analysis (a local slice variable or a field of a
// local result struct), as opposed to a list read from a record.
func isCollected(r *core.Run, v ssa.Value) bool {
	switch y := v.(type) {
	case *ssa.Phi:
		return true
	case *ssa.UnOp:
		if fa, ok := y.X.(*ssa.FieldAddr); ok {
			return localStruct(r, fa.X.Type()) != nil
		}
	case *ssa.Field:
		return localStruct(r, y.X.Type()) != nil
	}
	return false
}

// listFedOnlyUnderV: every element of the list is appended at a place dominated by the atom (on the element),
// and the list has no other source.
func listFedOnlyUnderV(r *core.Run, fn *ssa.Function, listV ssa.Value, atom guard.Atom) bool {
	o := listOriginOf(r, fn, listV)
	if len(o.Opaque) > 0 || len(o.Sites) == 0 {
		return false
	}
	for _, s := range o.Sites {
		ck := &guard.Checker{P: r.P, Fn: s.Fn, Res: r.Resolver(s.Fn)}
		if ok, _ := ck.MustPass(s.App.Block(), []guard.Atom{atom}); !ok {
			return false
		}
	}
	return true
}

// rangedListOf: the list ranged over by the innermost loop of fn that contains the instruction.
func rangedListOf(fn *ssa.Function, at ssa.Instruction) ssa.Value {
	var listV ssa.Value
	best := -1
	for _, l := range cfgx.Loops(fn) {
		if !l.Body[at.Block()] {
			continue
		}
		if best >= 0 && len(l.Body) >= best {
			continue
		}
		if iff := cfgx.IfOf(l.Header); iff != nil {
			if bo, ok := iff.Cond.(*ssa.BinOp); ok {
				if lc, ok := bo.Y.(*ssa.Call); ok && len(lc.Call.Args) == 1 {
					if bi, ok := lc.Call.Value.(*ssa.Builtin); ok && bi.Name() == "len" {
						listV = lc.Call.Args[0]
						best = len(l.Body)
					}
				}
			}
		}
	}
	return listV
}

// removal: a list (value of Fn) every element of which is handed to RemoveShard by a loop.
type removal struct {
	Fn   *ssa.Function
	List ssa.Value // nil: a RemoveShard call outside any range loop
}

// removalsAt: the lists whose elements the call removes — the call is RemoveShard itself (inside a range loop), or
// a transparent helper that runs such loops over its parameters (mapped back to the arguments) or its own lists.
func removalsAt(r *core.Run, fn *ssa.Function, c ssa.CallInstruction, depth int) []removal {
	name, _ := r.Resolver(fn).CalleeName(c.Common())
	if name == fRemoveShard {
		return []removal{{fn, rangedListOf(fn, c)}}
	}
	h := c.Common().StaticCallee()
	if h == nil || h == fn || !r.P.Transparent(h) || depth > 2 {
		return nil
	}
	var out []removal
	for _, b := range h.Blocks {
		for _, ins := range b.Instrs {
			c2, ok := ins.(ssa.CallInstruction)
			if !ok {
				continue
			}
			for _, rm := range removalsAt(r, h, c2, depth+1) {
				if p, ok := rm.List.(*ssa.Parameter); ok && rm.Fn == h {
					for j, q := range h.Params {
						if q == p && j < len(c.Common().Args) {
							rm = removal{fn, c.Common().Args[j]}
						}
					}
				}
				out = append(out, rm)
			}
		}
	}
	return out
}

// waitingTests: the conditions of fn that compare the number of waiting shards with zero — a counter (φ) or the
// length of a list that collects only shards in waiting status. Returns the atoms "count == 0" and the counted values.
func waitingTests(r *core.Run, fn *ssa.Function) ([]guard.Atom, map[ssa.Value]bool) {
	atoms := []guard.Atom{guard.Eq("phi(*)", "0")}
	vals := map[ssa.Value]bool{}
	res := r.Resolver(fn)
	waiting := guard.Eq("*.Status", constVal(r, "order/types", "ShardWaiting"))
	for _, b := range fn.Blocks {
		iff := cfgx.IfOf(b)
		if iff == nil {
			continue
		}
		bo, ok := iff.Cond.(*ssa.BinOp)
		if !ok {
			continue
		}
		if _, ok := bo.X.(*ssa.Phi); ok {
			vals[bo.X] = true
			continue
		}
		lc, ok := bo.X.(*ssa.Call)
		if !ok || len(lc.Call.Args) != 1 {
			continue
		}
		if bi, ok := lc.Call.Value.(*ssa.Builtin); !ok || bi.Name() != "len" {
			continue
		}
		if c, ok := bo.Y.(*ssa.Const); !ok || c.Value == nil || c.Int64() != 0 {
			continue
		}
		if !isCollected(r, lc.Call.Args[0]) || !listFedOnlyUnderV(r, fn, lc.Call.Args[0], waiting) {
			continue
		}
		vals[bo.X] = true
		atoms = append(atoms, guard.Eq(guard.Exact(res.Of(bo.X).String()), "0"))
	}
	return atoms, vals
}

// ---------------------------------------------------------------- accrual clocks
//
// ruleAccrualClock (T-accrual-clock): a market worker accrues income as rate x (height - LastRewardAt). Whenever a
// function adds such an accrual to Worker.Reward and then stores the worker, it must have moved the clock
// (LastRewardAt := current height) before that store on every path: a stored reward that already contains the
// interval, with the old clock, is accrued a second time by the next settlement (claim, release, append), so the
// rewards recorded exceed what the orders paid into the market escrow.
func ruleAccrualClock(r *core.Run, id string) {
	const rewardField = "market/types.Worker.Reward.Amount"
	const clockField = "market/types.Worker.LastRewardAt"
	// An interprocedural typestate walk: state "pending" = an accrual has been added to the reward and the clock has
	// not been moved since. Helpers outside the vocabulary are walked in the context of each call (a parameter is
	// "hot" when the argument handed in contains the elapsed-interval expression).
	type sumKey struct {
		fn      *ssa.Function
		pending bool
		hot     string
	}
	type summary struct {
		outs map[bool]bool
		bad  ssa.Instruction
		acc  int
	}
	memo := map[sumKey]*summary{}
	var walk func(f *ssa.Function, pending bool, hot map[int]bool, depth int) *summary
	walk = func(f *ssa.Function, pending bool, hot map[int]bool, depth int) *summary {
		hk := ""
		for i := range f.Params {
			if hot[i] {
				hk += fmt.Sprintf("%d,", i)
			}
		}
		key := sumKey{f, pending, hk}
		if s, ok := memo[key]; ok {
			return s
		}
		sum := &summary{outs: map[bool]bool{}}
		memo[key] = sum
		res := r.Resolver(f)
		isHot := func(v ssa.Value) bool {
			t := res.Of(v).String()
			if strings.Contains(t, ".LastRewardAt") {
				return true
			}
			for i := range f.Params {
				if hot[i] && strings.Contains(t, fmt.Sprintf("#%d", i)) {
					// crude but sound enough: the value mentions a hot parameter
					rest := t
					tok := fmt.Sprintf("#%d", i)
					for {
						k := strings.Index(rest, tok)
						if k < 0 {
							break
						}
						end := k + len(tok)
						if end >= len(rest) || rest[end] < '0' || rest[end] > '9' {
							return true
						}
						rest = rest[end:]
					}
				}
			}
			return false
		}
		type st struct {
			b       *ssa.BasicBlock
			pending bool
		}
		seen := map[st]bool{}
		q := []st{{f.Blocks[0], pending}}
		seen[q[0]] = true
		for len(q) > 0 && sum.bad == nil {
			cur := q[0]
			q = q[1:]
			pend := []bool{cur.pending}
			for _, ins := range cur.b.Instrs {
				if sum.bad != nil {
					break
				}
				switch x := ins.(type) {
				case *ssa.Store:
					switch fieldPath(x.Addr) {
					case rewardField:
						if isHot(x.Val) {
							sum.acc++
							for k := range pend {
								pend[k] = true
							}
						}
					case clockField:
						if tt := normT(res.Of(x.Val).String()); tt == "sdk.Context.BlockHeight()" || isHeightParam(r, f, x.Val, hot) {
							for k := range pend {
								pend[k] = false
							}
						}
					}
				case ssa.CallInstruction:
					_, cs := res.CalleeName(x.Common())
					if len(cs) > 0 && persistsRecord(r, cs, "market/types.Worker") {
						uses := false
						for _, a := range x.Common().Args {
							if shortTypeName(a.Type()) == "market/types.Worker" {
								uses = true
							}
						}
						if uses {
							for _, pv := range pend {
								if pv {
									sum.bad = ins
								}
							}
						}
						continue
					}
					h := x.Common().StaticCallee()
					if h == nil || h == f || !r.P.Transparent(h) || depth >= 3 || x.Common().IsInvoke() {
						continue
					}
					// only helpers that can touch a worker matter
					touches := false
					for _, a := range x.Common().Args {
						tn := shortTypeName(a.Type())
						if tn == "market/types.Worker" {
							touches = true
						}
					}
					if !touches {
						continue
					}
					hh := map[int]bool{}
					for ai, a := range x.Common().Args {
						if ai < len(h.Params) && isHot(a) {
							hh[ai] = true
						}
					}
					var next []bool
					nm := map[bool]bool{}
					for _, pv := range pend {
						hs := walk(h, pv, hh, depth+1)
						sum.acc += hs.acc
						if hs.bad != nil && sum.bad == nil {
							sum.bad = hs.bad
						}
						for o := range hs.outs {
							if !nm[o] {
								nm[o] = true
								next = append(next, o)
							}
						}
					}
					if len(next) > 0 {
						pend = next
					}
				}
			}
			if _, isRet := cur.b.Instrs[len(cur.b.Instrs)-1].(*ssa.Return); isRet {
				for _, pv := range pend {
					sum.outs[pv] = true
				}
			}
			for _, nx := range cur.b.Succs {
				for _, pv := range pend {
					s2 := st{nx, pv}
					if !seen[s2] {
						seen[s2] = true
						q = append(q, s2)
					}
				}
			}
		}
		return sum
	}
	n := 0
	for _, f := range r.P.SortedFuncs(r.ConsensusFuncs()) {
		if r.P.IsGenerated(f) || len(f.Blocks) == 0 || (r.P.Transparent(f) && len(r.Owners(f)) > 0) {
			continue
		}
		sum := walk(f, false, nil, 0)
		if sum.acc == 0 {
			continue
		}
		n += sum.acc
		key := core.Key(id, r.P.Name(f), "accruals")
		if sum.bad == nil {
			r.Discharge(id, key, r.P.FuncPos(f), "every store of the worker after an accrual is preceded by LastRewardAt := current height")
		} else {
			r.Violate(id, key, r.P.Pos(sum.bad.Pos()), r.P.Name(f)+" adds the income accrued since Worker.LastRewardAt to Worker.Reward and stores the worker on a path that does not set LastRewardAt to the current height first: the next settlement accrues the same interval again, so recorded rewards (paid from the market escrow) exceed what the orders deposited")
		}
	}
	r.Floor("worker_accruals", n, 3)
}

// isHeightParam: the value is a parameter of a helper that receives the current block height (the caller passes
// ctx.BlockHeight(), or a local holding it) — decided at the helper's call sites.
func isHeightParam(r *core.Run, f *ssa.Function, v ssa.Value, _ map[int]bool) bool {
	p, ok := v.(*ssa.Parameter)
	if !ok {
		return false
	}
	idx := -1
	for i, q := range f.Params {
		if q == p {
			idx = i
		}
	}
	if idx < 0 {
		return false
	}
	n := 0
	for _, caller := range r.P.CG.In[f] {
		for _, site := range r.P.CG.Sites[caller] {
			for _, c := range site.Callees {
				if c != f || site.Instr.Common().IsInvoke() {
					continue
				}
				args := site.Instr.Common().Args
				if idx >= len(args) {
					return false
				}
				n++
				if normT(r.Resolver(caller).Of(args[idx]).String()) != "sdk.Context.BlockHeight()" {
					return false
				}
			}
		}
	}
	return n > 0
}

// ---------------------------------------------------------------- settled orders lose their shards
//
// ruleSettledShardsRemoved (T-settled-shards): model.TerminateOrder removes the order. Where the orders of a data
// model are settled that way (Terminate, force push), every success path that continues after such a call runs a
// loop that removes the collected shard records to its end: an exit that skips that loop leaves shards stored whose
// order no longer exists (they name a missing order, stay assigned to their providers and are never released).
func ruleSettledShardsRemoved(r *core.Run, id string, anchors ...string) {
	n := 0
	term := []string{"model/keeper.Keeper.TerminateOrder", "sao/types.ModelKeeper.TerminateOrder"}
	rem := []string{"order/keeper.Keeper.RemoveShard", "model/types.OrderKeeper.RemoveShard", "sao/types.OrderKeeper.RemoveShard"}
	// exitsOfRemovalLoops: exit edges of the loops of g that call RemoveShard in every iteration
	exitsOfRemovalLoops := func(g *ssa.Function) map[cfgx.Edge]bool {
		out := map[cfgx.Edge]bool{}
		rb := blocksReaching(r, g, rem...)
		for _, l := range cfgx.Loops(g) {
			in := map[*ssa.BasicBlock]bool{}
			for b := range rb {
				if l.Body[b] {
					in[b] = true
				}
			}
			if len(in) == 0 || !cutsAllCycles(l, in) || len(l.Header.Succs) != 2 {
				continue
			}
			for _, s := range l.Header.Succs {
				if !l.Body[s] {
					out[cfgx.Edge{From: l.Header, To: s}] = true
				}
			}
		}
		return out
	}
	for _, name := range anchors {
		anchor := r.Func(id, name)
		if anchor == nil {
			continue
		}
		cnt := 0
		for _, fr := range frames(r, anchor) {
			g := fr.Fn
			fns := fr.Fns(anchor)
			for _, tn := range term {
				for _, c := range callsIn(r, g, tn) {
					n++
					cnt++
					key := core.Key(id, name, fmt.Sprintf("TerminateOrder#%d", cnt))
					ok := false
					var bad []*ssa.BasicBlock
					for lvl := len(fr.Chain); lvl >= 0 && !ok; lvl-- {
						h := fns[lvl]
						at := fr.At(lvl, c)
						exits := exitsOfRemovalLoops(h)
						if len(exits) == 0 {
							continue
						}
						ok = true
						for _, b := range h.Blocks {
							if !isReturnBlock(b) || !successReturnIn(r, h, b) {
								continue
							}
							if p := cfgx.PathAvoiding(at.Block(), b, exits); p != nil {
								ok = false
								if bad == nil {
									bad = p
								}
							}
						}
					}
					if ok {
						r.Discharge(id, key, r.P.Pos(c.Pos()), "every success path after the order is settled (and removed) runs the shard-removal loop to its end")
					} else {
						r.Violate(id, key, r.P.Pos(c.Pos()), r.P.Name(anchor)+" settles an order with TerminateOrder (which removes the order) and can then succeed without running the loop that removes the collected shard records: the shards stay stored, name an order that no longer exists, and are never released", pathDesc(r, bad))
					}
				}
			}
		}
	}
	r.Floor("settled_order_sites", n, 2)
}

// ---------------------------------------------------------------- unbinding is complete
//
// ruleUnbindAll (T-unbind-all): MsgUpdate removes, for every account DID in msg.RemoveAccountDid, the AccountId,
// AccountAuth and account-list entries in loops over that list, and the reverse index Did[accountId] in a loop over a
// second list of account ids collected beforehand. That second list must receive one id for every element of the
// first (every iteration of the collecting loop appends, or leaves the handler with an error): an element that is
// skipped loses its forward records but keeps Did[accountId] -> did, so the account still resolves to a DID whose
// account list no longer contains it, and can never be bound again.
func ruleUnbindAll(r *core.Run, id, anchorName string) {
	anchor := r.Func(id, anchorName)
	if anchor == nil {
		return
	}
	// the list whose elements lose their forward records
	fwd := ""
	for _, dc := range deepCalls(r, anchor, "did/keeper.Keeper.RemoveAccountId") {
		if l := rangedListOf(dc.Fr.Fn, dc.Call); l != nil {
			fwd = normT(dc.Fr.Sub(r.Resolver(dc.Fr.Fn).Of(l).String()))
		}
	}
	n := 0
	for _, dc := range deepCalls(r, anchor, "did/keeper.Keeper.RemoveDid") {
		n++
		key := core.Key(id, anchorName, fmt.Sprintf("RemoveDid#%d", n))
		pos := r.P.Pos(dc.Call.Pos())
		l := rangedListOf(dc.Fr.Fn, dc.Call)
		if l == nil || fwd == "" {
			r.Undecide(id, key, pos, "the lists ranged over by the RemoveDid / RemoveAccountId loops were not identified")
			continue
		}
		ok, why, g, loop := accumulatesAllL(r, dc.Fr.Fn, l)
		over := ""
		if loop != nil {
			over = rangedOver(r, g, loop)
			// express the helper's parameter in the handler's vocabulary
			for _, fr := range frames(r, anchor) {
				if fr.Fn == g {
					over = normT(fr.Sub(over))
				}
			}
		}
		switch {
		case ok && over == fwd:
			r.Discharge(id, key, pos, "the account ids whose reverse index is removed are collected one per element of the list whose forward records are removed ("+shorten(fwd)+")")
		case ok:
			r.Violate(id, key, pos, "the account ids whose reverse index Did[accountId] is removed are collected from "+shorten(over)+", not from the list whose forward records are removed ("+shorten(fwd)+"): the two can disagree, leaving Did[accountId] entries for accounts that are no longer in the DID's account list")
		default:
			r.Violate(id, key, pos, "MsgUpdate removes AccountId/AccountAuth/account-list entries for every element of "+shorten(fwd)+" but collects the account ids whose reverse index Did[accountId] is removed selectively: "+why+". A skipped account keeps Did[accountId] -> did although it left the DID's account list, and can never be bound again")
		}
	}
	r.Floor("unbind_reverse_index_sites", n, 1)
}

// ---------------------------------------------------------------- the candidate list is used only through the ignore filter
//
// ruleFilterUse (T-filter-use): RandomSP reads the eligible normal nodes and removes the providers on the ignore
// list from that list before anything is chosen from it. The unfiltered list value may therefore be used only by
// the filter itself (the loop over the ignore list, or a helper that receives the list together with the ignore
// list): any other use — returned, prepended to, sorted, indexed — hands out providers that already hold (or timed
// out on) a shard of the order. In-place filtering makes this easy to get wrong: the old slice header still spans
// the removed elements.
func ruleFilterUse(r *core.Run, id, anchorName, queryName string) {
	anchor := r.Func(id, anchorName)
	if anchor == nil {
		return
	}
	n := 0
	for _, fr := range frames(r, anchor) {
		g := fr.Fn
		res := r.Resolver(g)
		// the ignore list in this frame: a []string parameter (of the anchor: the ignore argument)
		var ignore []ssa.Value
		for _, p := range g.Params {
			if p.Type().String() == "[]string" {
				ignore = append(ignore, p)
			}
		}
		isIgnore := func(v ssa.Value) bool {
			for _, x := range ignore {
				if x == v {
					return true
				}
			}
			return false
		}
		// filter loops: loops of g ranging over the ignore list
		filterBody := map[*ssa.BasicBlock]bool{}
		filterHeader := map[*ssa.BasicBlock]bool{}
		for _, l := range cfgx.Loops(g) {
			iff := cfgx.IfOf(l.Header)
			if iff == nil {
				continue
			}
			bo, ok := iff.Cond.(*ssa.BinOp)
			if !ok {
				continue
			}
			lc, ok := bo.Y.(*ssa.Call)
			if !ok || len(lc.Call.Args) != 1 || !isIgnore(lc.Call.Args[0]) {
				continue
			}
			filterHeader[l.Header] = true
			for b := range l.Body {
				filterBody[b] = true
			}
		}
		// ... and loops that walk a list and consult the ignore list for every element (a filter that builds a new list)
		for _, l := range cfgx.Loops(g) {
			if filterHeader[l.Header] {
				continue
			}
			consults := false
			for b := range l.Body {
				if filterHeader[b] {
					consults = true
				}
				for _, ins := range b.Instrs {
					if c, ok := ins.(ssa.CallInstruction); ok {
						for _, a := range c.Common().Args {
							if isIgnore(a) {
								if _, isBuiltin := c.Common().Value.(*ssa.Builtin); !isBuiltin {
									consults = true
								}
							}
						}
					}
				}
			}
			if consults {
				for b := range l.Body {
					filterBody[b] = true
				}
			}
		}
		for _, c := range callsIn(r, g, queryName) {
			q, ok := c.(*ssa.Call)
			if !ok {
				continue
			}
			n++
			key := core.Key(id, anchorName, fmt.Sprintf("candidates#%d", n))
			var bad ssa.Instruction
			seen := map[ssa.Value]bool{}
			var visit func(v ssa.Value)
			visit = func(v ssa.Value) {
				if seen[v] || bad != nil {
					return
				}
				seen[v] = true
				for _, u := range *v.Referrers() {
					if bad != nil {
						return
					}
					if u.Block() != nil && filterBody[u.Block()] {
						continue // inside the filter loop
					}
					switch x := u.(type) {
					case *ssa.Phi:
						if filterHeader[x.Block()] {
							continue // the filtered list, as seen after the loop
						}
						visit(x) // a plain merge: still unfiltered
					case *ssa.DebugRef:
					case *ssa.Call:
						if bi, ok := x.Call.Value.(*ssa.Builtin); ok && bi.Name() == "len" {
							continue
						}
						// handed to a helper together with the ignore list: that helper is the filter
						h := x.Call.StaticCallee()
						withIgnore := false
						for _, a := range x.Call.Args {
							if isIgnore(a) {
								withIgnore = true
							}
						}
						if h != nil && r.P.Transparent(h) && withIgnore {
							continue
						}
						bad = u
					default:
						bad = u
					}
				}
			}
			visit(q)
			if bad == nil {
				r.Discharge(id, key, r.P.Pos(q.Pos()), "the unfiltered candidate list is used only by the ignore filter")
			} else {
				r.Violate(id, key, r.P.Pos(bad.Pos()), "RandomSP uses the list of eligible nodes as read from the store ("+shorten(normT(res.Of(q).String()))+") outside the ignore filter: providers on the ignore list (they already hold, or timed out on, a shard of this order) — or, after in-place filtering, duplicated trailing entries — can be handed out, so two replicas of one order land on the same provider")
			}
		}
	}
	r.Floor("candidate_queries", n, 1)
}

// ---------------------------------------------------------------- sources of a value, with the place where each is chosen

type valSrc struct {
	Fr  frame
	Val ssa.Value
	At  *ssa.BasicBlock // control is here when this source is chosen (φ: the predecessor; helper: the return block)
}

func childFrame(r *core.Run, anchor *ssa.Function, fr frame, call ssa.CallInstruction) *frame {
	for _, c := range frames(r, anchor) {
		if len(c.Chain) != len(fr.Chain)+1 || c.Chain[len(c.Chain)-1] != call {
			continue
		}
		same := true
		for i := range fr.Chain {
			if c.Chain[i] != fr.Chain[i] {
				same = false
			}
		}
		if same {
			x := c
			return &x
		}
	}
	return nil
}

// valueSources follows a value through φs and through the results of helpers outside the vocabulary to the
// expressions it can stand for.
func valueSources(r *core.Run, anchor *ssa.Function, fr frame, v ssa.Value, at *ssa.BasicBlock, depth int, seen map[ssa.Value]bool) []valSrc {
	if seen[v] || depth > 8 {
		return nil
	}
	seen[v] = true
	switch x := v.(type) {
	case *ssa.Phi:
		var out []valSrc
		for i, e := range x.Edges {
			out = append(out, valueSources(r, anchor, fr, e, x.Block().Preds[i], depth+1, seen)...)
		}
		return out
	case *ssa.Parameter:
		// a helper's parameter: the argument at the call that leads into this frame
		if len(fr.Chain) > 0 {
			call := fr.Chain[len(fr.Chain)-1]
			if pf := parentFrame(r, anchor, fr); pf != nil {
				for i, q := range fr.Fn.Params {
					if q == x && i < len(call.Common().Args) && !call.Common().IsInvoke() {
						return valueSources(r, anchor, *pf, call.Common().Args[i], call.Block(), depth+1, seen)
					}
				}
			}
		}
	case *ssa.Call:
		if h := x.Call.StaticCallee(); h != nil && r.P.Transparent(h) && len(h.Blocks) > 0 && h.Signature.Results().Len() == 1 {
			if cf := childFrame(r, anchor, fr, x); cf != nil {
				var out []valSrc
				for _, b := range h.Blocks {
					if ret, ok := b.Instrs[len(b.Instrs)-1].(*ssa.Return); ok && len(ret.Results) == 1 {
						out = append(out, valueSources(r, anchor, *cf, ret.Results[0], b, depth+1, seen)...)
					}
				}
				return out
			}
		}
	}
	return []valSrc{{fr, v, at}}
}

// ruleSharesToSub (T-shares-sub): the staking hooks run before the validator's share total reflects an unbonding,
// so verifySuperStorageNodes hands CheckDelegationShare the shares still to be subtracted. That amount may be
// non-zero only when the delegator's shares went down (sharesBeforeModified > current shares) or the delegation is
// being removed: on a top-up the validator total already contains the new shares, and subtracting them again judges
// every node of the validator against the total from before the top-up.
func ruleSharesToSub(r *core.Run, id, anchorName string) {
	anchor := r.Func(id, anchorName)
	if anchor == nil {
		return
	}
	n := 0
	for _, dc := range deepCalls(r, anchor, "node/keeper.Keeper.CheckDelegationShare") {
		args := dc.Call.Common().Args
		if len(args) < 2 {
			continue
		}
		v := args[len(args)-1]
		srcs := valueSources(r, anchor, dc.Fr, v, dc.Call.Block(), 0, map[ssa.Value]bool{})
		for _, s := range srcs {
			t := normT(r.Resolver(s.Fr.Fn).Of(s.Val).String())
			if t == "sdk.NewDec(0)" || t == "sdk.ZeroDec()" {
				continue
			}
			n++
			key := core.Key(id, anchorName, fmt.Sprintf("sharesToSub source#%d", n))
			ck := frameChecker(r, anchor, s.Fr.Chain, len(s.Fr.Chain))
			// the removal flag is the handler's last parameter
			flag := fmt.Sprintf("#%d", len(anchor.Params)-1)
			ok, w := ck.MustPass(s.At, []guard.Atom{
				guard.True("sdk.Dec.GT(*sharesBeforeModified,*GetShares(*))"),
				guard.True(flag),
			})
			pos := r.P.Pos(s.Val.Pos())
			if !s.Val.Pos().IsValid() {
				pos = r.P.Pos(dc.Call.Pos())
			}
			if ok {
				r.Discharge(id, key, pos, "a non-zero amount to subtract is chosen only when the delegator's shares decreased or the delegation is being removed")
			} else {
				r.Violate(id, key, pos, "the shares handed to CheckDelegationShare for subtraction from the validator total ("+shorten(t)+") can be non-zero although the delegator's shares did not decrease and the delegation is not being removed (e.g. a top-up of an existing delegation): the validator total already contains the new shares, so every node of that validator is judged against a too small total — diluted super nodes keep the role and a node is promoted below the threshold", append([]string{"path (branch decisions):"}, w...)...)
			}
		}
	}
	r.Floor("shares_to_sub_sources", n, 2)
}
