package rules

import (
	"fmt"
	"go/token"
	"go/types"
	"sort"

	"golang.org/x/tools/go/ssa"

	"saoverif/internal/cfgx"
	"saoverif/internal/core"
	"saoverif/internal/guard"
	"saoverif/internal/prog"
)

// ---------------------------------------------------------------- provenance of list values
//
// A list examined by a rule (the ignore list handed to RandomSP, the shards removed by the timeout handler, the
// list an order's Shards is overwritten with) is usually a local slice grown by append in the function that uses
// it. Hand-written code may equally collect it in a helper and hand it back, alone or as a field of a local
// result struct. listOriginOf follows a list value to the append calls that feed it, across those forms.

// listSite: one append feeding a list, with the function that holds it.
type listSite struct {
	Fn  *ssa.Function
	App *ssa.Call
}

type listOrigin struct {
	Sites  []listSite
	Opaque []string // sources that are neither appends nor empty lists
}

// Fn: the single function holding every append (nil when there is none or several).
func (o listOrigin) Fn() *ssa.Function {
	var f *ssa.Function
	for _, s := range o.Sites {
		if f != nil && s.Fn != f {
			return nil
		}
		f = s.Fn
	}
	return f
}

func (o listOrigin) Blocks() map[*ssa.BasicBlock]bool {
	m := map[*ssa.BasicBlock]bool{}
	for _, s := range o.Sites {
		m[s.App.Block()] = true
	}
	return m
}

func isAppend(c *ssa.Call) bool {
	bi, ok := c.Call.Value.(*ssa.Builtin)
	return ok && bi.Name() == "append"
}

// localStruct: a hand-written struct type of the module that is not a chain-state record (those are generated):
// its fields are written only by the code that builds it, so a field is followed to its stores.
func localStruct(r *core.Run, t types.Type) *types.Named {
	if p, ok := t.Underlying().(*types.Pointer); ok {
		t = p.Elem()
	}
	n, ok := t.(*types.Named)
	if !ok {
		return nil
	}
	if _, ok := n.Underlying().(*types.Struct); !ok {
		return nil
	}
	o := n.Obj()
	if o.Pkg() == nil || !prog.InModule(o.Pkg().Path()) || r.P.IsGeneratedPos(o.Pos()) {
		return nil
	}
	return n
}

func listOriginOf(r *core.Run, fn *ssa.Function, v ssa.Value) listOrigin {
	var o listOrigin
	seenV := map[ssa.Value]bool{}
	seenF := map[string]bool{}
	seenSite := map[*ssa.Call]bool{}
	var walk func(fn *ssa.Function, v ssa.Value, depth int)
	followField := func(n *types.Named, idx int, depth int) {
		key := fmt.Sprintf("%s.%d", n.String(), idx)
		if seenF[key] {
			return
		}
		seenF[key] = true
		for _, g := range r.P.SortedFuncs(r.ConsensusFuncs()) {
			for _, b := range g.Blocks {
				for _, ins := range b.Instrs {
					st, ok := ins.(*ssa.Store)
					if !ok {
						continue
					}
					fa, ok := st.Addr.(*ssa.FieldAddr)
					if !ok || fa.Field != idx {
						continue
					}
					if m := localStruct(r, fa.X.Type()); m == nil || !types.Identical(m, n) {
						continue
					}
					walk(g, st.Val, depth+1)
				}
			}
		}
	}
	retsOf := func(h *ssa.Function, idx int, depth int) {
		for _, b := range h.Blocks {
			if ret, ok := b.Instrs[len(b.Instrs)-1].(*ssa.Return); ok && idx < len(ret.Results) {
				walk(h, ret.Results[idx], depth+1)
			}
		}
	}
	walk = func(fn *ssa.Function, v ssa.Value, depth int) {
		if depth > 6 {
			o.Opaque = append(o.Opaque, "nesting too deep")
			return
		}
		for x := range phiWeb(v) {
			if seenV[x] {
				continue
			}
			seenV[x] = true
			switch y := x.(type) {
			case *ssa.Phi:
			case *ssa.BinOp:
			case *ssa.Const:
				if y.Value != nil {
					o.Opaque = append(o.Opaque, "constant")
				}
			case *ssa.MakeSlice:
				if c, ok := y.Len.(*ssa.Const); !ok || c.Int64() != 0 {
					o.Opaque = append(o.Opaque, "make with a length")
				}
			case *ssa.Call:
				if isAppend(y) {
					if !seenSite[y] {
						seenSite[y] = true
						o.Sites = append(o.Sites, listSite{fn, y})
					}
					continue
				}
				if h := y.Call.StaticCallee(); h != nil && r.P.Transparent(h) && len(h.Blocks) > 0 && h.Signature.Results().Len() == 1 {
					retsOf(h, 0, depth)
					continue
				}
				o.Opaque = append(o.Opaque, "result of a call")
			case *ssa.Extract:
				if c, ok := y.Tuple.(*ssa.Call); ok {
					if h := c.Call.StaticCallee(); h != nil && r.P.Transparent(h) && len(h.Blocks) > 0 {
						retsOf(h, y.Index, depth)
						continue
					}
				}
				o.Opaque = append(o.Opaque, "result of a call")
			case *ssa.UnOp:
				if y.Op != token.MUL {
					o.Opaque = append(o.Opaque, "operator")
					continue
				}
				switch a := y.X.(type) {
				case *ssa.FieldAddr:
					if n := localStruct(r, a.X.Type()); n != nil {
						followField(n, a.Field, depth)
						continue
					}
					o.Opaque = append(o.Opaque, "field of a record")
				case *ssa.Alloc:
					for _, ref := range *a.Referrers() {
						if st, ok := ref.(*ssa.Store); ok && st.Addr == a {
							walk(fn, st.Val, depth+1)
						}
					}
				default:
					o.Opaque = append(o.Opaque, "memory read")
				}
			case *ssa.Field:
				if n := localStruct(r, y.X.Type()); n != nil {
					followField(n, y.Field, depth)
					continue
				}
				o.Opaque = append(o.Opaque, "field of a record")
			default:
				o.Opaque = append(o.Opaque, fmt.Sprintf("%T", x))
			}
		}
	}
	walk(fn, v, 0)
	sort.Slice(o.Sites, func(i, j int) bool { return o.Sites[i].App.Pos() < o.Sites[j].App.Pos() })
	sort.Strings(o.Opaque)
	return o
}

// isCollected: the value is a list built up by the code under analysis (a local slice variable or a field of a
// local result struct), as opposed to a list read from a record.
func isCollected(r *core.Run, v ssa.Value) bool {
	switch y := v.(type) {
	case *ssa.Phi:
		return true
	case *ssa.UnOp:
		if fa, ok := y.X.(*ssa.FieldAddr); ok {
			return localStruct(r, fa.X.Type()) != nil
		}
	case *ssa.Field:
		return localStruct(r, y.X.Type()) != nil
	}
	return false
}

// listFedOnlyUnderV: every element of the list is appended at a place dominated by the atom (on the element),
// and the list has no other source.
func listFedOnlyUnderV(r *core.Run, fn *ssa.Function, listV ssa.Value, atom guard.Atom) bool {
	o := listOriginOf(r, fn, listV)
	if len(o.Opaque) > 0 || len(o.Sites) == 0 {
		return false
	}
	for _, s := range o.Sites {
		ck := &guard.Checker{P: r.P, Fn: s.Fn, Res: r.Resolver(s.Fn)}
		if ok, _ := ck.MustPass(s.App.Block(), []guard.Atom{atom}); !ok {
			return false
		}
	}
	return true
}

// rangedListOf: the list ranged over by the innermost loop of fn that contains the instruction.
func rangedListOf(fn *ssa.Function, at ssa.Instruction) ssa.Value {
	var listV ssa.Value
	best := -1
	for _, l := range cfgx.Loops(fn) {
		if !l.Body[at.Block()] {
			continue
		}
		if best >= 0 && len(l.Body) >= best {
			continue
		}
		if iff := cfgx.IfOf(l.Header); iff != nil {
			if bo, ok := iff.Cond.(*ssa.BinOp); ok {
				if lc, ok := bo.Y.(*ssa.Call); ok && len(lc.Call.Args) == 1 {
					if bi, ok := lc.Call.Value.(*ssa.Builtin); ok && bi.Name() == "len" {
						listV = lc.Call.Args[0]
						best = len(l.Body)
					}
				}
			}
		}
	}
	return listV
}

// removal: a list (value of Fn) every element of which is handed to RemoveShard by a loop.
type removal struct {
	Fn   *ssa.Function
	List ssa.Value // nil: a RemoveShard call outside any range loop
}

// removalsAt: the lists whose elements the call removes — the call is RemoveShard itself (inside a range loop), or
// a transparent helper that runs such loops over its parameters (mapped back to the arguments) or its own lists.
func removalsAt(r *core.Run, fn *ssa.Function, c ssa.CallInstruction, depth int) []removal {
	name, _ := r.Resolver(fn).CalleeName(c.Common())
	if name == fRemoveShard {
		return []removal{{fn, rangedListOf(fn, c)}}
	}
	h := c.Common().StaticCallee()
	if h == nil || h == fn || !r.P.Transparent(h) || depth > 2 {
		return nil
	}
	var out []removal
	for _, b := range h.Blocks {
		for _, ins := range b.Instrs {
			c2, ok := ins.(ssa.CallInstruction)
			if !ok {
				continue
			}
			for _, rm := range removalsAt(r, h, c2, depth+1) {
				if p, ok := rm.List.(*ssa.Parameter); ok && rm.Fn == h {
					for j, q := range h.Params {
						if q == p && j < len(c.Common().Args) {
							rm = removal{fn, c.Common().Args[j]}
						}
					}
				}
				out = append(out, rm)
			}
		}
	}
	return out
}

// waitingTests: the conditions of fn that compare the number of waiting shards with zero — a counter (φ) or the
// length of a list that collects only shards in waiting status. Returns the atoms "count == 0" and the counted values.
func waitingTests(r *core.Run, fn *ssa.Function) ([]guard.Atom, map[ssa.Value]bool) {
	atoms := []guard.Atom{guard.Eq("phi(*)", "0")}
	vals := map[ssa.Value]bool{}
	res := r.Resolver(fn)
	waiting := guard.Eq("*.Status", constVal(r, "order/types", "ShardWaiting"))
	for _, b := range fn.Blocks {
		iff := cfgx.IfOf(b)
		if iff == nil {
			continue
		}
		bo, ok := iff.Cond.(*ssa.BinOp)
		if !ok {
			continue
		}
		if _, ok := bo.X.(*ssa.Phi); ok {
			vals[bo.X] = true
			continue
		}
		lc, ok := bo.X.(*ssa.Call)
		if !ok || len(lc.Call.Args) != 1 {
			continue
		}
		if bi, ok := lc.Call.Value.(*ssa.Builtin); !ok || bi.Name() != "len" {
			continue
		}
		if c, ok := bo.Y.(*ssa.Const); !ok || c.Value == nil || c.Int64() != 0 {
			continue
		}
		if !isCollected(r, lc.Call.Args[0]) || !listFedOnlyUnderV(r, fn, lc.Call.Args[0], waiting) {
			continue
		}
		vals[bo.X] = true
		atoms = append(atoms, guard.Eq(guard.Exact(res.Of(bo.X).String()), "0"))
	}
	return atoms, vals
}
