package rules

import (
	"fmt"

	"saoverif/internal/core"
)

const (
	aDeps = "A-deps: dependencies (cosmos-sdk, tendermint, sao-did, ...) are deterministic and behave as documented; rules look at module code and at its call sites into dependencies, never inside them"
	aCG   = "A-cg: no reflection/unsafe/plugin call edges exist in module code; interface calls on keeper interfaces resolve to the module's implementations (checked by class hierarchy over module types; thorough tier cross-checks with whole-program VTA)"
	aGen  = "A-gen: protoc-generated files (*.pb.go, *.pb.gw.go) are trusted like dependencies"
)

func init() {
	register("C01", checkC01)
	register("C03", checkC03)
}

func checkC01(r *core.Run) {
	D3Mods = r.Mods
	r.Explanation = "C01 (structural clauses only): consensus-reachable module code contains no read of wall clock/entropy/host state that influences state (D1), no order-sensitive map iteration (D2), no write to process-resident state (D3), no concurrency (D4), no fusable float expression (D5). Decides these necessary conditions, not replica equality itself."
	r.Rule("D1: every call to time.Now/Since/Until, math/rand, crypto/rand, os.*, runtime.Num*, uuid V1/V4, reflect MapKeys/MapRange in consensus-reachable code may only feed telemetry/logging")
	r.Rule("D2: every `range` over a map in consensus-reachable code has an order-insensitive body (per-key store access keyed by the range key, map inserts, integer/bool accumulation; no append, events, bank, early exit, constant-key writes)")
	r.Rule("D3: no store/map update/in-place mutator rooted at a package-level variable or at a field of a long-lived pointer receiver")
	r.Rule("D1-dep: module code never sets DidDocumentMetadata.NextUpdate/Updated, the only inputs under which the DID library's VerifyJWS consults time.Now() (exception to A-deps found by reading sao-did v0.0.12)")
	r.Rule("D4: no go/chan/select; D5: no float x*y±z without explicit conversion")
	r.Rule("T-get-immutable: the bytes a KVStore / iterator hands back (Get, Value, Key) are never written in place in consensus-reachable module code (the cache layers hand back the slice they hold: a write changes this process's copy of committed state even when the transaction is dropped)")
	ruleNoInPlace(r, "T-get-immutable", "store")
	r.Assume(aDeps)
	r.Assume(aCG)
	r.Assume(aGen)
	r.Assume("A-gas: store operations inside an order-insensitive map body cost the same gas for every key (out-of-gas mid-loop is not modelled)")
	scope := e5Scope(r)
	d1sites, d2sites := 0, 0
	nD1, nD2, nD4, nD5 := 0, 0, 0, 0
	for _, f := range scope {
		hs, s := scanD1(r.P, f)
		d1sites += s
		nD1 += bad(hs)
		applyHits(r, "D1", hs)
		hs2, s2 := scanD2(r, f)
		d2sites += s2
		nD2 += bad(hs2)
		applyHits(r, "D2", hs2)
		h4 := scanD4(r.P, f)
		nD4 += len(h4)
		applyHits(r, "D4", h4)
		h5 := scanD5(r.P, f)
		nD5 += len(h5)
		applyHits(r, "D5", h5)
	}
	r.Discharge("D1", "D1|scope", "", fmt.Sprintf("%d functions scanned; %d nondeterministic-source call sites, %d of them feed only telemetry/logging", len(scope), d1sites, d1sites-nD1))
	r.Discharge("D2", "D2|scope", "", fmt.Sprintf("%d map-range sites in consensus-reachable code, %d order-insensitive", d2sites, d2sites-nD2))
	r.Discharge("D4", "D4|scope", "", fmt.Sprintf("%d concurrency constructs", nD4))
	r.Discharge("D5", "D5|scope", "", fmt.Sprintf("%d fusable float expressions", nD5))
	r.Floor("functions_in_scope", len(scope), 150)
	r.Floor("nondet_source_sites", d1sites, 1) // the telemetry time.Now in node.BeginBlocker
	r.Floor("map_range_sites", d2sites, 3)     // Terminate, UpdateMeta force-push, DoPenalty
	ruleD3(r)
	ruleD1Dep(r)
}

func checkC03(r *core.Run) {
	D3Mods = r.Mods
	r.Explanation = "C03 (structural clauses only): module code reachable from consensus entry points (and therefore from CheckTx/simulation, which run the same handlers and hooks) never writes process-resident state: package-level variables, fields of long-lived keeper/server/hook values, memory or transient stores. If that holds, module code is a function of (committed stores, message), which is what restart equivalence needs from it. Decides this necessary condition, not SDK/IAVL restart behaviour."
	r.Rule("D3: no store/map update/in-place mutator rooted at a package-level variable or at a field of a long-lived pointer receiver (Keeper, msgServer, Hooks, AppModule, App, Migrator)")
	r.Rule("D3-mem: no module function opens a KV store through a mem/transient key")
	r.Rule("T-get-immutable: the bytes a KVStore / iterator hands back (Get, Value, Key) are never written in place (such a write survives the rollback of a failed or simulated transaction as process-local residue in the store's caches)")
	ruleNoInPlace(r, "T-get-immutable", "store")
	r.Assume(aDeps)
	r.Assume(aCG)
	r.Assume(aGen)
	ruleD3(r)
	r.Rule("D3-startup: app.New (run at every process start) reaches no committed-store write and creates no out-of-block sdk.Context")
	ruleStartupWrites(r)
	r.Floor("functions_in_scope", len(e5Scope(r)), 150)
}

func bad(hs []hit) int {
	n := 0
	for _, h := range hs {
		if len(h.Detail) < 4 || h.Detail[:4] != "OK: " {
			n++
		}
	}
	return n
}
