package rules

import (
	"fmt"
	"go/constant"
	"go/token"
	"strings"

	"golang.org/x/tools/go/ssa"

	"saoverif/internal/core"
	"saoverif/internal/eff"
	"saoverif/internal/guard"
	"saoverif/internal/term"
)

func init() { register("C17", checkC17) }

func checkC17(r *core.Run) {
	r.Explanation = "C17 (structural clauses only): every write of Binding, Update and UpdatePaymentAddress is dominated on all paths by the tests the statement names (account unbound, no existing auth, proof verified, fresh, submitter bound once the DID exists, document id recomputed; all accounts handled and the payment account never unbound; sid payment address only for an account bound to that DID, key payment address only once, only by the address itself and only if the address has no key DID yet); the binding tables are written only from those handlers, genesis and the v2 migration; the bytes a binding proof signs must depend on the DID and timestamp it claims. Decides guard dominance, capability and data dependence; whole-table agreement is not decided. A binding proof is accepted only behind an exact string equality of the proven address with the address part of the account id under which the records are keyed (G-proof-addr)."
	r.Rule("G-bind / G-upd / G-pay: guard rows of DESIGN A.2 evaluated path-sensitively; for-all requirements are recognised as range loops whose every iteration passes the inner test")
	r.Rule("T-paykey: in UpdatePaymentAddress the PaymentAddress/Kid records are written under msg.Did (or the bound DID tested equal to it) and the parsed account address, i.e. the same keys the guards looked up")
	r.Rule("G-proof-addr: every success return of verifyBindingProof lies behind the equal side of an exact string comparison (==) between a value and the address part of the account id being bound (the registry is keyed by the raw account-id string, so the proof must be checked for exactly that spelling)")
	r.Rule("T-payload: in verifyBindingProof the message passed to signature verification/recovery must data-depend on proof.Did and proof.Timestamp")
	r.Rule("CAP-did: the nine binding/payment prefixes of module did are written only from {Binding, Update, UpdatePaymentAddress, did genesis, did v2 migration}")
	r.Rule("T-anchored: identifier-validation patterns (the CAIP-10 account id pattern) are constants anchored with ^ and $")
	ruleAnchoredPatterns(r, "T-anchored")
	r.Rule("T-unbind-all: in MsgUpdate the account ids whose reverse index (Did) is removed are collected one per element of the list whose forward records (AccountId, AccountAuth, account list) are removed")
	ruleUnbindAll(r, "T-unbind-all", "did/keeper.msgServer.Update")
	r.Rule("T-loopvar: in the did message handlers no address of a per-loop variable is stored into a slice/field inside its loop")
	ruleLoopVarAddr(r, "T-loopvar", "did/keeper.msgServer.")
	r.Rule("T-splice-skip: no loop in module did removes the element at its upward-counting index from a list and carries on with the next index (the neighbour of a removed element would be skipped and stay listed although its records are removed)")
	ruleSpliceSkip(r, "T-splice-skip", "did/keeper.")
	r.Assume(aDeps)
	r.Assume(aCG)

	proof := "did/types.MsgBinding.GetProof(" + msg + ")"
	accID := "did/types.MsgBinding.GetAccountId(" + msg + ")"
	now := "uint64(time.Time.Unix(sdk.Context.BlockTime()))"
	k := "did/keeper.Keeper."
	versions := k + "GetSidDocumentVersion(" + msg + ".RootDocId)#1"
	docID := "did/keeper.CalculateDocId(" + msg + ".Keys," + proof + ".Timestamp)#0"
	evalGuard(r, "G-bind", "did/keeper.msgServer.Binding", effSel{AllWrites: true}, []clause{
		cl("account-not-yet-bound", guard.False(k+"GetDid("+accID+")#1")),
		cl("no-existing-account-auth", guard.False(k+"GetAccountAuth(\\*"+msg+".AccountAuth.AccountDid)#1")),
		cl("binding-proof-verified", guard.Eq(k+"verifyBindingProof(did/keeper.parseAcccountId("+accID+")#0,"+proof+")", "nil")),
		cl("proof-is-fresh", guard.Ge("("+proof+".Timestamp + 900)", now)),
		cl("root-doc-id-matches-did", guard.Eq("(\"did:sid:\" + "+msg+".RootDocId)", proof+".Did")),
		cl("existing-did-requires-bound-submitter", guard.False(versions), guard.Eq(k+"CreatorIsBoundToDid("+msg+".Creator,"+proof+".Did)", "nil")),
		cl("new-did-requires-recomputed-doc-id", guard.True(versions), guard.Eq(docID, msg+".RootDocId")),
	}, 6)
	evalStoreVal(r, "G-bind", "did/keeper.msgServer.Binding", "did/types.Did.AccountId", []string{accID}, "binding is recorded for the proven account")
	evalStoreVal(r, "G-bind", "did/keeper.msgServer.Binding", "did/types.Did.Did", []string{proof + ".Did"}, "binding is recorded for the DID named in the proof")
	evalStoreVal(r, "G-bind", "did/keeper.msgServer.Binding", "did/types.PaymentAddress.Address", []string{"did/keeper.parseAcccountId(" + accID + ")#0.Address"}, "first payment address is the proven account")

	// ---- Update
	acct := "*" + k + "GetAccountList(" + msg + ".Did)#0.AccountDids"
	rem := "elem(" + msg + ".RemoveAccountDid)"
	// the account record may be looked up inline or through a helper that maps the message's list to records
	parsed := "did/keeper.parseAcccountId(*.AccountId)#0"
	_ = rem
	evalGuard(r, "G-upd", "did/keeper.msgServer.Update", effSel{AllWrites: true}, []clause{
		cl("submitter-bound-to-did", guard.Eq(k+"CreatorIsBoundToDid("+msg+".Creator,"+msg+".Did)", "nil")),
		cl("request-is-fresh", guard.Ge("("+msg+".Timestamp + 900)", now)),
		cl("payment-address-is-set", guard.True(k+"GetPaymentAddress("+msg+".Did)#1")),
		cl("every-listed-account-is-kept-or-removed", guard.ForAll(acct,
			guard.True("did/keeper.inList(elem("+acct+"),"+msg+".RemoveAccountDid)"),
			guard.True("did/keeper.inUpdateList(elem("+acct+"),"+msg+".UpdateAccountAuth)"))),
		cl("payment-account-is-not-unbound", guard.ForAll("*"+msg+".RemoveAccountDid*",
			guard.Ne(parsed+".Address", k+"GetPaymentAddress("+msg+".Did)#0.Address"),
			guard.Ne(parsed+".Network", "\"cosmos\""),
			guard.Ne(parsed+".Chain", "sdk.Context.ChainID()"))),
		cl("remove/update-lists-name-exactly-the-did's-own-accounts",
			guard.Eq("builtin.len("+acct+")", "(builtin.len("+msg+".RemoveAccountDid) + builtin.len("+msg+".UpdateAccountAuth))"),
			guard.ForAll(msg+".RemoveAccountDid", guard.True("did/keeper.inList("+rem+","+acct+")"))),
		cl("new-document-id-recomputed", guard.Eq(msg+".NewDocId", "did/keeper.CalculateDocId("+msg+".Keys,"+msg+".Timestamp)#0")),
	}, 8)

	// ---- UpdatePaymentAddress
	rulePayGuards(r)
	acc2 := "did/types.MsgUpdatePaymentAddress.GetAccountId(" + msg + ")"
	caip := "did/keeper.parseAcccountId(" + acc2 + ")#0"
	// the records are written under the very DID string the guards looked up (msg.Did, or the bound DID proven equal to it)
	upa := "did/keeper.msgServer.UpdatePaymentAddress"
	evalStoreVal(r, "T-paykey", upa, "did/types.PaymentAddress.Did", []string{msg + ".Did", k + "GetDid(*)#0.Did"}, "the payment-address record is keyed by the DID string the immutability/ownership guards read (a normalised or otherwise derived key is not covered by them)")
	evalStoreVal(r, "T-paykey", upa, "did/types.Kid.Kid", []string{msg + ".Did"}, "the address->key-DID link names the DID string the guards read")
	evalStoreVal(r, "T-paykey", upa, "did/types.PaymentAddress.Address", []string{caip + ".Address"}, "the payment address is the address of the parsed account id that the guards compared")
	evalStoreVal(r, "T-paykey", upa, "did/types.Kid.Address", []string{caip + ".Address"}, "the linked address is the address of the parsed account id that the guards compared")

	// ---- G-proof-addr: the key under which the account is registered is the key the proof was checked for
	if f := r.Func("G-proof-addr", "did/keeper.Keeper.verifyBindingProof"); f != nil {
		ck := &guard.Checker{P: r.P, Fn: f, Res: r.Resolver(f)}
		succ := successBlocks(r, f)
		if len(succ) == 0 {
			r.Undecide("G-proof-addr", core.Key("G-proof-addr", r.KeyName(f), "no success return"), r.P.FuncPos(f), "verifyBindingProof has no recognisable success return")
		}
		for b := range succ {
			key := core.Key("G-proof-addr", r.KeyName(f), fmt.Sprintf("success#%d", succIndex(f, b)), "address-equals-account-id")
			atoms := []guard.Atom{guard.Eq("*", "#2.Address")}
			ok, w := ck.MustPass(b, atoms)
			if !ok {
				// the branch was moved into a helper:  return verifyXxxProof(..., caip10, ...)  succeeds exactly when the helper does
				if ret, isRet := b.Instrs[len(b.Instrs)-1].(*ssa.Return); isRet && len(ret.Results) == 1 {
					if cl, isCall := ret.Results[0].(*ssa.Call); isCall && ck.NilResultImplies(cl, atoms) {
						ok = true
					}
				}
			}
			if ok {
				r.Discharge("G-proof-addr", key, r.P.Pos(lastInstrPos(b)), "the proof is accepted only on the equal side of an exact comparison with the address part of the account id")
			} else {
				r.Violate("G-proof-addr", key, r.P.Pos(lastInstrPos(b)), "verifyBindingProof accepts a proof on a path that does not pass an exact string equality with the address part of the account id (caip10.Address): the registry tables are keyed by the raw account-id string, so a looser comparison (case-insensitive, prefix, normalised copy) lets one key be bound under several spellings, i.e. to several DIDs", w...)
			}
		}
	}

	// ---- T-payload
	if f := r.Func("T-payload", "did/keeper.Keeper.verifyBindingProof"); f != nil {
		n := 0
		for _, fr := range frames(r, f) {
			for _, b := range fr.Fn.Blocks {
				for _, ins := range b.Instrs {
					c, ok := ins.(*ssa.Call)
					if !ok {
						continue
					}
					name, _ := term.CalleeName(r.P, &c.Call)
					idx := -1
					switch {
					case strings.HasSuffix(name, ".VerifySignature"):
						idx = 1
					case strings.HasSuffix(name, "crypto.SigToPub"), strings.HasSuffix(name, "crypto.Ecrecover"), strings.HasSuffix(name, "crypto.VerifySignature"):
						idx = 0
					}
					if idx < 0 {
						continue
					}
					n++
					ats := deepCall{Fr: fr, Call: c}.ArgTerms(r)
					if idx >= len(ats) {
						continue
					}
					mt := ats[idx]
					for _, fld := range []string{"Did", "Timestamp"} {
						key := core.Key("T-payload", r.KeyName(f), name, "depends-on-proof."+fld)
						if strings.Contains(mt, "#3."+fld) {
							r.Discharge("T-payload", key, r.P.Pos(c.Pos()), "signed payload depends on proof."+fld)
						} else {
							r.Violate("T-payload", key, r.P.Pos(c.Pos()), fmt.Sprintf("the bytes whose signature is checked (%s) do not depend on proof.%s: any message ever signed by the account is accepted as a proof for any DID / at any time", shorten(mt), fld))
						}
					}
				}
			}
		}
		r.Floor("signature_checks_in_verifyBindingProof", n, 2)
	}

	// ---- capability
	evalCap(r, capRule{
		ID:   "CAP-did",
		Desc: "DID binding tables change only through the DID handlers",
		Match: func(e *eff.Effect) (string, bool) {
			if e.IsWrite() && eff.StoreOwner(e) == "did" && e.Prefix != "DidBalances/value/" {
				return e.Kind + " did:" + e.Prefix, true
			}
			return "", false
		},
		Allowed: set("did.Binding", "did.Update", "did.UpdatePaymentAddress", "did.InitGenesis", "did.migration.Migrate1to2"),
	})
}

// ruleAnchoredPatterns (T-anchored): every regular expression that module code
// on a consensus path uses to validate an identifier is a constant anchored at
// both ends (^…$). The account id validated by parseAcccountId is afterwards
// used verbatim as the key of the account->DID binding while its parsed triple
// is what the proof is checked against: an unanchored pattern lets
// "cosmos:chain:addr:suffix" verify as addr but bind under a different key, so
// one account can be bound twice.
func ruleAnchoredPatterns(r *core.Run, id string) {
	n := 0
	for _, f := range r.P.SortedFuncs(r.ConsensusFuncs()) {
		if r.P.IsGenerated(f) {
			continue
		}
		for _, g := range append([]*ssa.Function{f}, f.AnonFuncs...) {
			scanPatterns(r, id, g, &n)
		}
	}
	// package initialisers (patterns compiled once at package level)
	for _, pk := range r.P.Pkgs {
		if sp := r.P.SSA.Package(pk.Types); sp != nil {
			if init := sp.Func("init"); init != nil {
				scanPatterns(r, id, init, &n)
			}
		}
	}
	r.Floor("validation_patterns", n, 1)
}

func scanPatterns(r *core.Run, id string, f *ssa.Function, n *int) {
	res := r.Resolver(f)
	cnt := 0
	for _, b := range f.Blocks {
		for _, ins := range b.Instrs {
			c, ok := ins.(ssa.CallInstruction)
			if !ok {
				continue
			}
			name, _ := res.CalleeName(c.Common())
			if name != "regexp.MatchString" && name != "regexp.MustCompile" && name != "regexp.Compile" && name != "regexp.Match" {
				continue
			}
			*n++
			cnt++
			key := core.Key(id, r.KeyName(f), fmt.Sprintf("%s#%d", name, cnt))
			k, isC := c.Common().Args[0].(*ssa.Const)
			if !isC || k.Value == nil {
				r.Violate(id, key, r.P.Pos(c.Pos()), "validation pattern is not a constant")
				continue
			}
			pat := constant.StringVal(k.Value)
			if strings.HasPrefix(pat, "^") && strings.HasSuffix(pat, "$") && !strings.HasSuffix(pat, `\$`) {
				r.Discharge(id, key, r.P.Pos(c.Pos()), "pattern anchored at both ends: "+pat)
			} else {
				r.Violate(id, key, r.P.Pos(c.Pos()), fmt.Sprintf("the validation pattern %q is not anchored at both ends: an identifier with extra leading/trailing text passes validation; the account id is then used verbatim as the binding key while only its first three fields are parsed and proof-checked, so \"<ns>:<chain>:<addr>:x\" binds an already bound account a second time", pat))
			}
		}
	}
}

// rulePayGuards (G-pay): who may become the account that pays for a DID's orders — shared by C17 (registry
// integrity) and C10 (payers act only for themselves: Store charges GetCosmosPaymentAddress(owner), so an account is
// charged for a DID's orders exactly when this handler made it that DID's payment address).
func rulePayGuards(r *core.Run) {
	k := "did/keeper.Keeper."
	acc2 := "did/types.MsgUpdatePaymentAddress.GetAccountId(" + msg + ")"
	caip := "did/keeper.parseAcccountId(" + acc2 + ")#0"
	method := "github.com/SaoNetwork/sao-did/parser.Parse(" + msg + ".Did)#0.Method"
	onChain := []clause{
		cl("account-is-on-this-chain", guard.Eq(caip+".Chain", "sdk.Context.ChainID()")),
		cl("account-is-a-cosmos-account", guard.Eq(caip+".Network", "\"cosmos\"")),
	}
	evalGuard(r, "G-pay", "did/keeper.msgServer.UpdatePaymentAddress", effSel{AllWrites: true}, onChain, 3)
	// sid branch: the first SetPaymentAddress (dominated by Method == "sid")
	sidClauses := []clause{
		cl("submitter-bound-to-did", guard.Eq(k+"CreatorIsBoundToDid("+msg+".Creator,"+msg+".Did)", "nil")),
		cl("account-is-bound", guard.True(k+"GetDid("+acc2+")#1")),
		cl("account-is-bound-to-this-did", guard.Eq(msg+".Did", k+"GetDid("+acc2+")#0.Did")),
	}
	keyClauses := []clause{
		cl("key-did-payment-address-never-changes", guard.False(k+"GetPaymentAddress("+msg+".Did)#1")),
		cl("only-the-address-itself-sets-it", guard.Eq(caip+".Address", msg+".Creator")),
		cl("address-has-no-key-did-yet", guard.False(k+"GetKid("+caip+".Address)#1")),
	}
	evalGuardBranch(r, "G-pay", "did/keeper.msgServer.UpdatePaymentAddress", guard.Eq(method, "\"sid\""), "sid", sidClauses)
	evalGuardBranch(r, "G-pay", "did/keeper.msgServer.UpdatePaymentAddress", guard.Eq(method, "\"key\""), "key", keyClauses)
}


// succIndex: ordinal of block b among the function's blocks (stable key for a return site).
func succIndex(f *ssa.Function, b *ssa.BasicBlock) int {
	n := 0
	for _, x := range f.Blocks {
		if x == b {
			return n
		}
		if _, ok := x.Instrs[len(x.Instrs)-1].(*ssa.Return); ok {
			n++
		}
	}
	return -1
}

func lastInstrPos(b *ssa.BasicBlock) token.Pos {
	for i := len(b.Instrs) - 1; i >= 0; i-- {
		if p := b.Instrs[i].Pos(); p.IsValid() {
			return p
		}
	}
	return b.Parent().Pos()
}


// ruleBoundSubmitter (G-bound, C10): the clause of G-bind that decides who may extend the set of accounts acting for
// an existing DID, evaluated for every write of MsgBinding.
func ruleBoundSubmitter(r *core.Run, id string) {
	proof := "did/types.MsgBinding.GetProof(" + msg + ")"
	k := "did/keeper.Keeper."
	versions := k + "GetSidDocumentVersion(" + msg + ".RootDocId)#1"
	evalGuard(r, id, "did/keeper.msgServer.Binding", effSel{AllWrites: true}, []clause{
		cl("existing-did-requires-bound-submitter", guard.False(versions), guard.Eq(k+"CreatorIsBoundToDid("+msg+".Creator,"+proof+".Did)", "nil")),
	}, 6)
}
