package rules

import "saoverif/internal/core"

// runPositives analyses the tiny positive examples under testdata and fails
// the run (undecided) when a rule that should fire on them stays silent. It
// keeps rules whose expected count on the tree is zero from passing vacuously.
func runPositives(r *core.Run, rules ...string) {
	// filled in by positives_impl.go
	positivesImpl(r, rules)
}
