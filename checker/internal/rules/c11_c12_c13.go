package rules

import (
	"fmt"
	"strings"

	"golang.org/x/tools/go/ssa"

	"saoverif/internal/cfgx"
	"saoverif/internal/core"
	"saoverif/internal/eff"
	"saoverif/internal/guard"
	"saoverif/internal/prog"
	"saoverif/internal/term"
)

func init() {
	register("C11", checkC11)
	register("C12", checkC12)
	register("C13", checkC13)
}

const (
	fSetExpShard = "sao/keeper.Keeper.SetExpiredShardBlock"
	fSetTimeout  = "sao/keeper.Keeper.SetTimeoutOrderBlock"
	fExtendMeta  = "model/keeper.Keeper.ExtendMetaDuration"
)

// ruleSchedShard: wherever a shard's paid period is (re)started — a store to Shard.CreatedAt / Shard.Duration —
// every success path goes on to schedule its release at CreatedAt+Duration of that same shard.
func ruleSchedShard(r *core.Run) {
	n := 0
	// helpers that (re)start a period through a pointer parameter and leave the scheduling to their caller
	periodStores := func(f *ssa.Function) (all []ssa.Instruction, viaParam bool) {
		viaParam = true
		for _, b := range f.Blocks {
			for _, ins := range b.Instrs {
				if st, ok := ins.(*ssa.Store); ok {
					fp := fieldPath(st.Addr)
					if fp == "order/types.Shard.CreatedAt" || fp == "order/types.Shard.Duration" {
						all = append(all, st)
						if fa, ok := st.Addr.(*ssa.FieldAddr); !ok {
							viaParam = false
						} else if _, isParam := fa.X.(*ssa.Parameter); !isParam {
							viaParam = false
						}
					}
				}
			}
		}
		return
	}
	helpers := map[*ssa.Function]bool{}
	for _, f := range r.P.SortedFuncs(r.ConsensusFuncs()) {
		if r.P.IsGenerated(f) {
			continue
		}
		if all, viaParam := periodStores(f); len(all) > 0 && viaParam && len(blocksCalling(r, f, fSetExpShard)) == 0 {
			hasCaller := false
			for _, c := range r.P.CG.In[f] {
				if r.ConsensusFuncs()[c] {
					hasCaller = true
				}
			}
			if hasCaller {
				helpers[f] = true
			}
		}
	}
	for _, f := range r.P.SortedFuncs(r.ConsensusFuncs()) {
		if r.P.IsGenerated(f) || helpers[f] || len(f.Blocks) == 0 {
			continue
		}
		if r.P.Transparent(f) && len(r.Owners(f)) > 0 {
			continue // walked in place under the known functions that call it
		}
		res := r.Resolver(f)
		// typestate walk (through helpers outside the vocabulary, wherever the period store and the scheduling call
		// have ended up): after a period start, every success return of f has passed SetExpiredShardBlock
		anchor := f
		t := &tsRule{r: r,
			events: func(g *ssa.Function, ins ssa.Instruction, T func(ssa.Value) string) []string {
				switch x := ins.(type) {
				case *ssa.Store:
					if fp := fieldPath(x.Addr); fp == "order/types.Shard.CreatedAt" || fp == "order/types.Shard.Duration" {
						return []string{"start"}
					}
				case ssa.CallInstruction:
					name, cs := r.Resolver(g).CalleeName(x.Common())
					if name == fSetExpShard {
						return []string{"sched"}
					}
					var ev []string
					for _, h := range cs {
						if helpers[h] {
							ev = append(ev, "start")
						} else if h != g && !r.P.Transparent(h) && alwaysCalls(r, h, fSetExpShard, 0) {
							ev = append(ev, "sched")
						}
					}
					return ev
				case *ssa.Return:
					if g == anchor && successReturnIn(r, anchor, x.Block()) {
						return []string{"success"}
					}
				}
				return nil
			},
			step: func(st uint8, ev string) (uint8, string) {
				switch ev {
				case "start":
					return 1, ""
				case "sched":
					return 0, ""
				case "success":
					if st == 1 {
						return st, "unscheduled"
					}
				}
				return st, ""
			}}
		tr := t.run(f, 0)
		if tr.counts["start"] == 0 {
			continue
		}
		n++
		key := core.Key("T-sched-shard", r.P.Name(f), "period (re)started => release scheduled")
		if tr.bad == "" {
			r.Discharge("T-sched-shard", key, r.P.FuncPos(f), "every success path after the shard's CreatedAt/Duration are set passes SetExpiredShardBlock")
		} else {
			pos := r.P.FuncPos(f)
			if tr.badAt != nil && tr.badAt.Pos().IsValid() {
				pos = r.P.Pos(tr.badAt.Pos())
			}
			r.Violate("T-sched-shard", key, pos, r.P.Name(f)+" sets a shard's CreatedAt/Duration and can succeed without scheduling its release: the shard, its collateral and its income never end")
		}
		// the scheduled height is the end of that shard's own period
		for i, c := range callsIn(r, f, fSetExpShard) {
			t := callTerm(res, c)
			key := core.Key("T-sched-shard", r.KeyName(f), fmt.Sprintf("SetExpiredShardBlock#%d at own end height", i+1))
			if t == nil || len(t.Args) != 2 {
				continue
			}
			id, at := normT(t.Args[0].String()), normT(t.Args[1].String())
			base := strings.TrimSuffix(id, ".Id")
			if strings.HasSuffix(id, ".Id") && at == "("+base+".CreatedAt + "+base+".Duration)" {
				r.Discharge("T-sched-shard", key, r.P.Pos(c.Pos()), "scheduled at shard.CreatedAt + shard.Duration of the shard whose id is scheduled")
			} else {
				r.Violate("T-sched-shard", key, r.P.Pos(c.Pos()), fmt.Sprintf("release of shard %s is scheduled at %s, which is not CreatedAt+Duration of that same shard", shorten(id), shorten(at)))
			}
		}
	}
	r.Floor("shard_period_starts", n, 3)
}

// ---------------------------------------------------------------- C11

func checkC11(r *core.Run) {
	r.Explanation = "C11 (structural clauses only): schedule coupling — wherever a shard's paid period starts or is rotated, every success path schedules its release at that shard's own CreatedAt+Duration; release capability — completed shards are released/removed only from the expiry handler, the timeout handler (non-completed shards), Terminate, Complete (migration, force-push), Cancel and the v2 migration (Renew appears only through the path-insensitive call graph and is tabled with that reason); the model is deleted only by Terminate and the model end-blocker; the schedule consumers process every listed id and then drop the entry; the model's lifetime is extended to the same end height that is scheduled for the shard; an order and its model version are dropped by CancelOrder only while the order is not Completed. 'Exactly that many blocks later' and exactly-once as temporal facts are not decided."
	r.Rule("G-retain: model.CancelOrder (removes the order, rolls the data model back or deletes it) is reached only under order.Status != Completed / == Pending — once a shard has been completed for a paid term the order and its model are not dropped by a cancellation or by the timeout handler")
	ruleRetainCompleted(r, "G-retain")
	r.Rule("T-sched-shard: store to Shard.CreatedAt/Duration => SetExpiredShardBlock(s.Id, s.CreatedAt+s.Duration) on every success path")
	r.Rule("CAP-release: deletes on order:Shard/value/ and ShardRelease(non-nil) only from the tabled entry points; CAP-delmeta: DeleteMeta only from Terminate and model.EndBlocker")
	r.Rule("T-consume: sao/model end-blockers call the handler for every listed id (for-all range) and remove the consumed entry")
	r.Rule("T-takeover: when a migration completes, the new shard takes over the old shard's current paid period at that moment: OrderId and RenewInfos are copied from the old shard (looked up by shard.From in this transaction) on every path to the market hand-over")
	r.Rule("T-lifetime: in Complete the model is extended to the height scheduled for the shard; in Renew every persisted renewal is followed by ExtendMetaDuration")
	r.Rule("T-sched-meta (shared with C05/C13)")
	r.Rule("T-remaining-term: at the hand-over of a migrating shard the replacement's Duration is computed from the replaced shard's own CreatedAt and Duration (its release is scheduled at the end of the paid period)")
	ruleRemainingTerm(r, "T-remaining-term")
	r.Rule("T-extend-meta: in Complete every path that schedules the shard's expiry (SetExpiredShardBlock) and succeeds also extends the model's lifetime to that height (ExtendMetaDuration), for every shard and not only the one that completes the order")
	ruleExtendMeta(r, "T-extend-meta")
	r.Rule("T-unschedule: removeDataExpireBlock writes back a list without the id being dropped")
	ruleUnschedule(r, "T-unschedule")
	r.Rule("E6-pair(order): the order and shard id counters are restored by InitGenesis from the keys ExportGenesis read them from (a re-issued shard id inherits the stale expiry entries of the removed shard that held it: a paid, unexpired shard is released at the dead shard's height)")
	ruleGenesisPairs(r, "E6-pair", "order")
	r.Assume(aDeps)
	r.Assume(aCG)
	ruleSchedShard(r)
	evalCap(r, capRule{
		ID:   "CAP-release",
		Desc: "shards are removed / collateral released only by the tabled operations",
		Match: func(e *eff.Effect) (string, bool) {
			if e.Kind == "store.delete" && eff.StoreOwner(e) == "order" && e.Prefix == "Shard/value/" {
				return "delete order:Shard/value/", true
			}
			return "", false
		},
		Allowed: set("sao.EndBlock", "pseudo:HandleExpiredShard", "pseudo:HandleTimeoutOrder", "sao.Terminate", "sao.Complete", "sao.Cancel", "order.migration.Migrate1to2",
			"sao.Renew" /* only through UpdateMeta's force-push case in the path-insensitive graph: Renew passes Operation 3 */),
	})
	// ShardRelease with a non-nil shard: callers
	for _, f := range r.P.SortedFuncs(r.ConsensusFuncs()) {
		for i, c := range callsIn(r, f, fShardRel) {
			t := callTerm(r.Resolver(f), c)
			if t == nil || len(t.Args) != 2 || t.Args[1].String() == "nil" {
				continue
			}
			key := core.Key("CAP-release", "ShardRelease(non-nil) in "+r.KeyName(f), fmt.Sprint(i+1))
			switch r.KeyName(f) {
			case "sao/keeper.Keeper.HandleExpiredShard", "sao/keeper.msgServer.Cancel", "sao/keeper.msgServer.Complete", "model/keeper.Keeper.TerminateOrder":
				r.Discharge("CAP-release", key, r.P.Pos(c.Pos()), "tabled release site")
			default:
				r.Violate("CAP-release", key, r.P.Pos(c.Pos()), "a shard's collateral is released from "+r.P.Name(f)+", which is not one of the operations that end a shard's paid period")
			}
		}
	}
	if dm := r.Func("CAP-delmeta", "model/keeper.Keeper.DeleteMeta"); dm != nil {
		for _, caller := range r.P.CG.In[dm] {
			if !r.ConsensusFuncs()[caller] {
				continue
			}
			key := core.Key("CAP-delmeta", "DeleteMeta called from "+r.KeyName(caller))
			tabled := func(n string) bool { return n == "sao/keeper.msgServer.Terminate" || n == "model.EndBlocker" }
			okCaller := tabled(r.P.Name(caller))
			if !okCaller && r.P.Transparent(caller) {
				// a helper extracted from a tabled caller: every known function it is reached from must be tabled
				os := r.Owners(caller)
				okCaller = len(os) > 0
				for _, o := range os {
					if !tabled(r.P.Name(o)) {
						okCaller = false
					}
				}
			}
			switch {
			case okCaller:
				r.Discharge("CAP-delmeta", key, r.P.FuncPos(caller), "tabled caller")
			default:
				r.Violate("CAP-delmeta", key, r.P.FuncPos(caller), "a data model can be deleted from "+r.P.Name(caller)+": models may disappear other than by owner termination or at the end of their paid lifetime")
			}
		}
	}
	// T-consume
	for _, c := range []struct{ fn, list, handler, remove string }{
		{"sao.EndBlocker", "ShardList", "sao/keeper.Keeper.HandleExpiredShard", "sao/keeper.Keeper.RemoveExpiredShard"},
		{"sao.EndBlocker", "OrderList", "sao/keeper.Keeper.HandleTimeoutOrder", "sao/keeper.Keeper.RemoveTimeoutOrder"},
		{"model.EndBlocker", "Data", "model/keeper.Keeper.DeleteMeta", "model/keeper.Keeper.RemoveExpiredData"},
	} {
		fn := r.Func("T-consume", c.fn)
		if fn == nil {
			continue
		}
		key := core.Key("T-consume", c.fn, c.list)
		ok := false
		// the loop may sit in a helper extracted from the end-blocker: every frame is searched; the entry is removed
		// after the loop in that helper, or after the call that leads there in an enclosing frame
		for _, fr := range frames(r, fn) {
			g := fr.Fn
			fns := fr.Fns(fn)
			for _, l := range cfgx.Loops(g) {
				ro := normT(fr.Sub(rangedOver(r, g, l)))
				if ro == "" || !strings.HasSuffix(ro, "."+c.list) || strings.HasPrefix(ro, "phi(") || strings.HasPrefix(ro, "builtin.append(") {
					continue
				}
				hb := map[*ssa.BasicBlock]bool{}
				for b := range blocksReaching(r, g, c.handler) {
					if l.Body[b] {
						hb[b] = true
					}
				}
				if len(hb) == 0 || !cutsAllCycles(l, hb) {
					continue
				}
				exitB := l.Header.Succs[1]
				if l.Body[exitB] {
					exitB = l.Header.Succs[0]
				}
				for lvl := len(fr.Chain); lvl >= 0 && !ok; lvl-- {
					rm := blocksCalling(r, fns[lvl], c.remove)
					if len(rm) == 0 {
						continue
					}
					from := exitB
					if lvl < len(fr.Chain) {
						from = fr.Chain[lvl].Block()
						// the removal must come after the call in its block, or on every path from it to a return
						after := false
						seenCall := false
						for _, ins := range from.Instrs {
							if ins == ssa.Instruction(fr.Chain[lvl]) {
								seenCall = true
								continue
							}
							if ci, isC := ins.(ssa.CallInstruction); isC && seenCall {
								if n, _ := r.Resolver(fns[lvl]).CalleeName(ci.Common()); n == c.remove {
									after = true
								}
							}
						}
						if after {
							ok = true
							continue
						}
						delete(rm, from)
						if len(rm) > 0 && forwardAvoid(from, rm, nil, isReturnBlock) == nil {
							ok = true
						}
						continue
					}
					if rm[from] || forwardAvoid(from, rm, nil, isReturnBlock) == nil {
						ok = true
					}
				}
			}
		}
		if ok {
			r.Discharge("T-consume", key, r.P.FuncPos(fn), "every id in the height's list is handled and the entry is then removed")
		} else {
			r.Violate("T-consume", key, r.P.FuncPos(fn), fmt.Sprintf("%s does not handle every element of %s (or does not drop the consumed entry): scheduled releases/expiries can be skipped", c.fn, c.list))
		}
		// the entry consumed is the one of the current height
		evalArgFirst(r, "T-consume", c.fn, strings.Replace(c.remove, "Remove", "Get", 1), 0, []string{"uint64(sdk.Context.BlockHeight())"}, "the schedule entry read is the current height's")
	}
	// T-takeover
	ruleTakeover(r)
	r.Rule("T-lost-update: no function writes back a stale local copy of a Metadata / Shard / Order record after calling a helper that itself loaded, changed and stored that record")
	ruleLostUpdate(r, "T-lost-update")
	r.Rule("CAP-sched-delete: release-schedule buckets are deleted only by the consuming end-blocker")
	ruleSchedDelete(r)
	// T-lifetime
	if fn := r.Func("T-lifetime", "sao/keeper.msgServer.Complete"); fn != nil {
		// both calls may sit in a helper extracted from Complete: their arguments are compared in Complete's vocabulary
		var sched, ext string
		for _, dc := range deepCalls(r, fn, fSetExpShard) {
			if at := dc.ArgTerms(r); len(at) == 2 {
				sched = at[1]
			}
		}
		for _, dc := range deepCalls(r, fn, fExtendMeta) {
			if at := dc.ArgTerms(r); len(at) == 2 {
				ext = at[1]
			}
		}
		key := core.Key("T-lifetime", "sao/keeper.msgServer.Complete", "model extended to the shard's scheduled end")
		if sched != "" && sched == ext {
			r.Discharge("T-lifetime", key, r.P.FuncPos(fn), "ExtendMetaDuration and SetExpiredShardBlock receive the same end height")
		} else {
			r.Violate("T-lifetime", key, r.P.FuncPos(fn), "on completion the data model is not extended to the end height scheduled for the shard: the model can be deleted while a paid shard of it remains")
		}
	}
	if anchor := r.Func("T-lifetime", "sao/keeper.msgServer.Renew"); anchor != nil {
		// typestate walk (through helpers outside the vocabulary): after a shard's renewal is persisted (SetShard),
		// the data model's lifetime is extended (ExtendMetaDuration) before the iteration over the data ids moves on
		// or Renew succeeds
		dataIter := map[ssa.Instruction]bool{}
		for _, g := range transparentClosure(r, anchor) {
			for _, l := range cfgx.Loops(g) {
				if ro := rangedOver(r, g, l); strings.HasSuffix(ro, ".Data") && len(l.Header.Instrs) > 0 {
					// the first non-φ instruction of the header
					for _, ins := range l.Header.Instrs {
						if _, isPhi := ins.(*ssa.Phi); !isPhi {
							dataIter[ins] = true
							break
						}
					}
				}
			}
		}
		t := &tsRule{r: r,
			events: func(f *ssa.Function, ins ssa.Instruction, T func(ssa.Value) string) []string {
				var ev []string
				if dataIter[ins] {
					ev = append(ev, "nextdata")
				}
				switch x := ins.(type) {
				case ssa.CallInstruction:
					n, cs := r.Resolver(f).CalleeName(x.Common())
					if n == "order/keeper.Keeper.SetShard" {
						ev = append(ev, "setshard")
					}
					if n == fExtendMeta {
						ev = append(ev, "extend")
					} else {
						for _, h := range cs {
							if h != f && !r.P.Transparent(h) && alwaysCalls(r, h, fExtendMeta, 0) {
								ev = append(ev, "extend")
							}
						}
					}
				case *ssa.Return:
					if f == anchor && successReturnIn(r, anchor, x.Block()) {
						ev = append(ev, "success")
					}
				}
				return ev
			},
			step: func(st uint8, ev string) (uint8, string) {
				switch ev {
				case "setshard":
					return 1, ""
				case "extend":
					return 0, ""
				case "nextdata", "success":
					if st == 1 {
						return st, "renewal persisted, lifetime not extended"
					}
				}
				return st, ""
			}}
		res := t.run(anchor, 0)
		key := core.Key("T-lifetime", "sao/keeper.msgServer.Renew", "renewal persisted => model lifetime extended")
		if res.counts["setshard"] > 0 && res.bad == "" && res.counts["extend"] > 0 {
			r.Discharge("T-lifetime", key, r.P.FuncPos(anchor), "after a shard's renewal info is persisted the data-id iteration passes ExtendMetaDuration before it ends")
		} else {
			pos := r.P.FuncPos(anchor)
			if res.badAt != nil {
				pos = r.P.Pos(res.badAt.Pos())
			}
			r.Violate("T-lifetime", key, pos, "Renew can persist a shard's renewal without extending the data model's lifetime: the model is deleted at the old end height although paid shards remain")
		}
	}
	rulePaidEnd(r)
	ruleSchedMeta(r)
}

// rulePaidEnd: renewed periods run one after another: wherever a shard's paid end is computed by ranging over
// its RenewInfos and adding Duration, every element is added (no conditional skip) — the computations in Renew
// and ResetMetaDuration must agree with the one-by-one rotation in HandleExpiredShard.
func rulePaidEnd(r *core.Run) {
	n := 0
	for _, f := range r.P.SortedFuncs(r.ConsensusFuncs()) {
		if r.P.IsGenerated(f) {
			continue
		}
		res := r.Resolver(f)
		for _, l := range cfgx.Loops(f) {
			if !rangesField(r, f, l, "RenewInfos") {
				continue
			}
			// blocks adding elem.Duration
			add := map[*ssa.BasicBlock]bool{}
			for b := range l.Body {
				for _, ins := range b.Instrs {
					if bo, ok := ins.(*ssa.BinOp); ok && bo.Op.String() == "+" {
						t := res.Of(bo).String()
						if strings.Contains(t, ".RenewInfos).Duration") {
							add[b] = true
						}
					}
				}
			}
			if len(add) == 0 {
				continue // a loop over RenewInfos that does not compute an end height (e.g. pledge maximum)
			}
			n++
			key := core.Key("T-paid-end", r.KeyName(f), fmt.Sprintf("sum over RenewInfos#%d", n))
			if cutsAllCycles(l, add) {
				r.Discharge("T-paid-end", key, r.P.Pos(lastPos(l.Header)), "every queued renewal's Duration is added to the shard's paid end")
			} else {
				r.Violate("T-paid-end", key, r.P.Pos(lastPos(l.Header)), r.P.Name(f)+" computes a shard's paid end from its RenewInfos but skips some of them: renewed periods run one after another, so the end height (and with it the data model's lifetime) comes out too early")
			}
		}
	}
	// every consensus function that reads RenewInfos to derive a height must use such a loop: a helper that takes
	// the renew info of one order only is reported through its caller's loop above; floor keeps the rule alive
	r.Floor("paid_end_computations", n, 2)
}

// evalArgFirst: like evalArgAll but only requires the first call site (getter then used for the loop).
func evalArgFirst(r *core.Run, id, fnName, callee string, idx int, allowed []string, what string) {
	evalArgAll(r, id, fnName, callee, idx, allowed, what)
}

// ---------------------------------------------------------------- C12

func checkC12(r *core.Run) {
	r.Explanation = "C12 (structural clauses only): hand-over implies a scheduled re-examination — in Store, Ready and the timeout handler every success path after providers have been selected for waiting shards passes SetTimeoutOrderBlock for that order (path-sensitive in the isProvider flag); every exit of the timeout handler is either rescheduled or classified by a dominating fact the statement allows (order gone, pending => cancelled, end-of-life cut-off, nothing waiting, give-up after MaxTries => cancelled or replica-reduced); the 'nothing waiting' branch moves no coins and removes only shards that are not completed; the end-blocker hands every listed order to the handler. Eventual completion and the ten-interval bound as arithmetic are not decided."
	r.Rule("T-timeout: provider selection feeding waiting shards => SetTimeoutOrderBlock(order, …) before every success exit")
	r.Rule("T-timeout-height: the height handed to SetTimeoutOrderBlock is current height + timeout, or CreatedAt + timeout only where the order was created in the same transaction (NewOrder on every path before)")
	r.Rule("T-exits: every return of HandleTimeoutOrder passed SetTimeoutOrderBlock or is dominated by an allowed classification")
	r.Rule("T-nowait: the timeoutCount == 0 branch has no bank effect and its RemoveShard loop ranges over a list fed only under shard.Status != Completed")
	r.Rule("T-replace: in the timeout handler a stalled shard is closed (status := timeout) only together with a replacement shard task in the same loop iteration; a stalled shard without a replacement stays waiting and is counted again at the next check")
	r.Rule("T-refund-booked: when the timeout handler drops the unfinished replicas of a partly stored order, the refund of their price lowers Order.Amount by the refunded coin and the order is persisted in the same function (the unfinished part is cancelled AND its price refunded)")
	ruleRefundBooked(r)
	r.Assume(aDeps)
	r.Assume(aCG)
	ruleReplacePaired(r)
	r.Rule("CAP-sched-delete: timeout-check buckets are deleted only by the consuming end-blocker")
	ruleSchedDelete(r)
	r.Rule("G-elig-2 / T-ignore (shared with C15): the selection never returns a provider on the ignore list, and the timeout handler's ignore list holds the provider of every shard of the order — a stalled shard goes to ANOTHER provider, and the give-up branch is reachable when none is left")
	ruleElig2(r)
	checkIgnoreLists(r)

	for _, s := range []struct{ fn, trigger string }{
		{"sao/keeper.msgServer.Store", "sao/keeper.Keeper.GetSps"},
		{"sao/keeper.msgServer.Ready", "sao/keeper.Keeper.GetSps"},
		{"sao/keeper.Keeper.HandleTimeoutOrder", "order/keeper.Keeper.NewShardTask"},
	} {
		fn := r.Func("T-timeout", s.fn)
		if fn == nil {
			continue
		}
		ck := &guard.Checker{P: r.P, Fn: fn, Res: r.Resolver(fn)}
		resp := blocksCallingDeep(r, fn, fSetTimeout, 0)
		succ := map[*ssa.BasicBlock]bool{}
		for _, b := range fn.Blocks {
			if isReturnBlock(b) && successReturnIn(r, fn, b) {
				succ[b] = true
			}
		}
		trig := deepCalls(r, fn, s.trigger)
		if len(trig) == 0 {
			r.Undecide("T-timeout", core.Key("T-timeout", s.fn, "trigger"), r.P.FuncPos(fn), "vacuous: no call of "+s.trigger)
			continue
		}
		for i, dc := range trig {
			t := dc.Call
			key := core.Key("T-timeout", s.fn, fmt.Sprintf("%s#%d => timeout scheduled", s.trigger, i+1))
			// a hand-over inside an extracted helper: scheduled before the helper returns (on every path), or by
			// one of the enclosing frames after the call that leads there
			ok, w := false, []string(nil)
			fns := dc.Fr.Fns(fn)
			for lvl := len(dc.Fr.Chain); lvl >= 0 && !ok; lvl-- {
				at := dc.Fr.At(lvl, t)
				if lvl == 0 {
					ok, w = ck.MustRespond(at.Block(), succ, resp, nil)
					break
				}
				g := fns[lvl]
				rets := map[*ssa.BasicBlock]bool{}
				for _, b := range g.Blocks {
					if isReturnBlock(b) {
						rets[b] = true
					}
				}
				gck := &guard.Checker{P: r.P, Fn: g, Res: r.Resolver(g)}
				ok, _ = gck.MustRespond(at.Block(), rets, blocksCallingDeep(r, g, fSetTimeout, 0), nil)
			}
			if ok {
				r.Discharge("T-timeout", key, r.P.Pos(t.Pos()), "every success path after the hand-over passes SetTimeoutOrderBlock")
			} else {
				r.Violate("T-timeout", key, r.P.Pos(t.Pos()), s.fn+" can hand shards to providers and succeed without scheduling the order's timeout check: an unresponsive provider leaves the order (and the payment) unresolved forever", w...)
			}
		}
		// the order scheduled is the one handed over
		evalArgAll(r, "T-timeout", s.fn, fSetTimeout, 0, []string{"*"}, "order scheduled for re-examination")
	}

	ruleTimeoutHeight(r)

	// ---- exits of the timeout handler
	hto := "sao/keeper.Keeper.HandleTimeoutOrder"
	if fn := r.Func("T-exits", hto); fn != nil {
		res := r.Resolver(fn)
		ck := &guard.Checker{P: r.P, Fn: fn, Res: res}
		order := fGetOrder + "(#2)"
		pending := constVal(r, "order/types", "OrderPending")
		sched := blocksCalling(r, fn, fSetTimeout)
		zero, zeroVals := waitingTests(r, fn) // timeoutCount == 0: nothing waiting
		allowed := []guard.Atom{
			guard.False(order + "#1"), // order gone
			guard.Eq("*"+order+"#0.Status", pending),
			guard.Ge("(uint64(sdk.Context.BlockHeight()) + *"+order+"#0.Timeout)", "(*"+order+"#0.CreatedAt + *"+order+"#0.Duration)"), // end-of-life cut-off
			guard.Lt("(*Timeout * 10)", "(uint64(sdk.Context.BlockHeight()) - *"+order+"#0.CreatedAt)"),                                // give-up after MaxTries
			guard.Lt("(10 * *Timeout)", "(uint64(sdk.Context.BlockHeight()) - *"+order+"#0.CreatedAt)"),
		}
		allowed = append(allowed, zero...)
		n := 0
		for _, b := range fn.Blocks {
			if !isReturnBlock(b) {
				continue
			}
			n++
			key := core.Key("T-exits", hto, fmt.Sprintf("return#%d", n))
			// either rescheduled on every path to this return, or classified
			if sched[b] || forwardAvoid(fn.Blocks[0], sched, ck.PassEdges(allowed), func(x *ssa.BasicBlock) bool { return x == b }) == nil {
				r.Discharge("T-exits", key, r.P.Pos(lastPos(b)), "the exit is rescheduled or dominated by: order gone | pending (cancelled) | end-of-life | nothing waiting | give-up after MaxTries")
			} else {
				p := forwardAvoid(fn.Blocks[0], sched, ck.PassEdges(allowed), func(x *ssa.BasicBlock) bool { return x == b })
				r.Violate("T-exits", key, r.P.Pos(lastPos(b)), "the timeout handler can return without rescheduling the order and without one of the allowed reasons: the order is never examined again", ck.RenderPath(p)...)
			}
		}
		r.Floor("timeout_handler_returns", n, 4)
		// give-up branch resolves the unfinished part: cancel or replica reduction persisted
		evalGuard(r, "T-exits", hto, effSel{Calls: []string{"model/keeper.Keeper.CancelOrder"}}, []clause{
			cl("pending-or-give-up", guard.Eq("*"+order+"#0.Status", pending), guard.Lt("(*Timeout * 10)", "*"), guard.Lt("(10 * *Timeout)", "*")),
		}, 2)

		// ---- nothing-waiting branch
		zedges := ck.PassEdges(zero)
		var zb *ssa.BasicBlock
		for e := range zedges {
			if iff := cfgx.IfOf(e.From); iff != nil {
				if bo, ok := iff.Cond.(*ssa.BinOp); ok && zeroVals[bo.X] {
					zb = e.To
				}
			}
		}
		key := core.Key("T-nowait", hto, "no coins moved, only non-completed shards removed")
		if zb == nil {
			r.Undecide("T-nowait", key, r.P.FuncPos(fn), "the timeoutCount == 0 test was not found")
		} else {
			// blocks of the branch: reachable from zb without leaving through a return
			seen := map[*ssa.BasicBlock]bool{}
			st := []*ssa.BasicBlock{zb}
			bad := ""
			for len(st) > 0 {
				b := st[len(st)-1]
				st = st[:len(st)-1]
				if seen[b] {
					continue
				}
				seen[b] = true
				for _, ins := range b.Instrs {
					if c, ok := ins.(ssa.CallInstruction); ok {
						n2, callees := res.CalleeName(c.Common())
						for _, e := range r.Eff.Reach(callees...) {
							if strings.HasPrefix(e.Kind, "bank.") {
								bad = "calls " + n2 + ", which moves coins"
							}
						}
						for _, e := range r.Eff.Own[fn] {
							if e.Instr == c && strings.HasPrefix(e.Kind, "bank.") {
								bad = "moves coins (" + e.Kind + ")"
							}
						}
						if n2 == "model/keeper.Keeper.CancelOrder" {
							bad = "cancels the order"
						}
						if h := c.Common().StaticCallee(); h != nil && r.P.Transparent(h) {
							for _, g := range transparentClosure(r, h) {
								if len(callsIn(r, g, "model/keeper.Keeper.CancelOrder")) > 0 {
									bad = "cancels the order (in " + r.P.Name(g) + ")"
								}
							}
						}
						// the lists whose shards are removed must be fed only under Status != Completed
						for _, rm := range removalsAt(r, fn, c, 0) {
							if rm.List == nil || !listFedOnlyUnderV(r, rm.Fn, rm.List, guard.Ne("*.Status", constVal(r, "order/types", "ShardCompleted"))) {
								bad = "removes shards from a list that may contain completed shards"
							}
						}
					}
				}
				st = append(st, b.Succs...)
			}
			if bad == "" {
				r.Discharge("T-nowait", key, r.P.Pos(lastPos(zb)), "the branch taken when no shard is waiting moves no coins, does not cancel, and removes only shards collected under Status != Completed")
			} else {
				r.Violate("T-nowait", key, r.P.Pos(lastPos(zb)), "after an order is fully stored (no waiting shard) the timeout handler "+bad)
			}
		}
	}
	// end-blocker hands every listed order to the handler (shared form with C11)
	if fn := r.Func("T-consume", "sao.EndBlocker"); fn != nil {
		res := r.Resolver(fn)
		ok := false
		for _, l := range cfgx.Loops(fn) {
			if !rangesField(r, fn, l, "OrderList") {
				continue
			}
			hb := map[*ssa.BasicBlock]bool{}
			for b := range l.Body {
				for _, ins := range b.Instrs {
					if ci, isC := ins.(ssa.CallInstruction); isC {
						if n, _ := res.CalleeName(ci.Common()); n == "sao/keeper.Keeper.HandleTimeoutOrder" {
							hb[b] = true
						}
					}
				}
			}
			if len(hb) > 0 && cutsAllCycles(l, hb) {
				ok = true
			}
		}
		key := core.Key("T-consume", "sao.EndBlocker", "OrderList")
		if ok {
			r.Discharge("T-consume", key, r.P.FuncPos(fn), "every order listed for the current height is handed to HandleTimeoutOrder")
		} else {
			r.Violate("T-consume", key, r.P.FuncPos(fn), "the end-blocker does not hand every order listed for the current height to the timeout handler")
		}
		evalArgAll(r, "T-consume", "sao.EndBlocker", "sao/keeper.Keeper.GetTimeoutOrder", 0, []string{"uint64(sdk.Context.BlockHeight())"}, "the timeout entry read is the current height's")
	}
}

// listFedOnlyUnder: the call's argument is the element of a ranged list; every append feeding that list is
// dominated by the atom.
func listFedOnlyUnder(r *core.Run, fn *ssa.Function, call ssa.CallInstruction, atom guard.Atom) bool {
	listV := rangedListOf(fn, call)
	if listV == nil {
		return false
	}
	return listFedOnlyUnderV(r, fn, listV, atom)
}

// ---------------------------------------------------------------- C13

func checkC13(r *core.Run) {
	r.Explanation = "C13 (creation / alias / schedule sides only): every newly created shard id is appended to an order's shard list and that order is persisted on every success path (in the creating function or, for helpers that append to a caller's order, in every caller); a data model and its alias entry are created together and removed together, the alias key being derived from the same metadata; every (re)started shard period schedules its release (shared with C11); removing a model removes its schedule entry (shared with C05). Deletion-side list maintenance across shared renew orders and whole-state agreement are not decided."
	r.Rule("T-listed: NewShardTask/MigrateShard result id appended to <order>.Shards and SetOrder(<order>) before every success exit (callers of GenerateShards/NewOrder persist)")
	r.Rule("T-alias: SetMetadata of a new id <=> SetModel; RemoveMetadata <=> RemoveModel(key of that metadata's Owner, Alias, GroupId)")
	r.Rule("T-sched-shard, T-sched-meta (shared)")
	r.Rule("G-alias-free: NewMeta writes the alias entry and the metadata only when no alias entry exists under that (owner, alias, group) key and no metadata under that data id (unconditionally: an existing entry is never overwritten)")
	r.Rule("T-loopvar: in the storage handlers no address of a variable re-assigned per loop iteration is stored into a slice/field inside its loop (every order whose shard list is rewritten at a hand-over must be its own record)")
	ruleLoopVarAddr(r, "T-loopvar", "sao/keeper.msgServer.")
	r.Rule("T-shard-owner: a shard record is created naming the order it is created for (OrderId = Id of the *Order handed to the creating function, the order whose Shards the caller extends)")
	ruleShardOwner(r, "T-shard-owner")
	r.Rule("G-renew-shards: in Renew the renewal order (which copies the latest order's Shards list verbatim) is created only if EVERY shard of that list was found and is Completed or Migrating (a list entry that is skipped instead — a timed-out shard the timeout sweep will delete — stays listed by the renewal order for good)")
	{
		ord := fGetOrder + "(*)#0"
		sh := "order/keeper.Keeper.GetShard(elem(*" + ord + ".Shards))"
		// the for-all is decided where the per-shard loop sits in Renew itself; moved into nested helpers or a function
		// value it is not followed: not decided rather than asserted either way
		prevOpaque := r.Opaque
		if rf := r.Func("G-renew-shards", "sao/keeper.msgServer.Renew"); rf != nil && len(callsIn(r, rf, "order/keeper.Keeper.GetShard")) == 0 {
			r.Opaque = func(string) string {
				return "the per-shard validation is not in Renew's own body (it was moved into helpers or a function value): a for-all established two helper levels down, or behind a variable, is not followed"
			}
		}
		evalGuard(r, "G-renew-shards", "sao/keeper.msgServer.Renew", effSel{Calls: []string{"order/keeper.Keeper.RenewOrder"}}, []clause{
			cl("every-listed-shard-is-completed-or-migrating", guard.ForAll("*"+ord+".Shards",
				guard.Eq("*"+sh+"#0.Status", constVal(r, "order/types", "ShardCompleted")),
				guard.Eq("*"+sh+"#0.Status", constVal(r, "order/types", "ShardMigrating")))),
		}, 1)
		r.Opaque = prevOpaque
	}
	r.Assume(aDeps)
	r.Assume(aCG)
	aliasKey := "*"
	if fn := r.P.Func("model/keeper.Keeper.NewMeta"); fn != nil {
		// the key under which the alias entry is written (Model.Key := K): the emptiness test must read the same key
		res := r.Resolver(fn)
		for _, b := range fn.Blocks {
			for _, ins := range b.Instrs {
				if st, ok := ins.(*ssa.Store); ok {
					if fa, ok := st.Addr.(*ssa.FieldAddr); ok && shortTypeName(fa.X.Type())+"."+fieldNameT(fa.X.Type(), fa.Field) == "model/types.Model.Key" {
						aliasKey = guard.Exact(normT(res.Of(st.Val).String()))
					}
				}
			}
		}
	}
	evalGuard(r, "G-alias-free", "model/keeper.Keeper.NewMeta", effSel{Calls: []string{"model/keeper.Keeper.SetModel", "model/keeper.Keeper.SetMetadata"}}, []clause{
		cl("alias-key-unused", guard.False("*model/keeper.Keeper.GetModel("+aliasKey+")#1")),
		cl("data-id-unused", guard.False("*model/keeper.Keeper.GetMetadata(#3.DataId)#1")),
	}, 2)

	r.Rule("CAP-sched-delete: the height-keyed schedule buckets sao:ExpiredShard / sao:TimeoutOrder are deleted only from the sao end-blocker (after consuming all entries)")
	ruleSchedDelete(r)
	r.Rule("T-settled-shards: where a data model's orders are settled with TerminateOrder (Terminate, force push), every success path after such a call runs the shard-removal loop to its end")
	ruleSettledShardsRemoved(r, "T-settled-shards", "sao/keeper.msgServer.Terminate", "model/keeper.Keeper.UpdateMeta")
	r.Rule("T-aliaskey: SetModel / GetModel / RemoveModel sites all build the alias-index key by the same expression of the model's Owner, Alias, GroupId")
	ruleAliasKeyShape(r, "T-aliaskey")

	// ---- T-listed
	nCreate := 0
	for _, f := range r.P.SortedFuncs(r.ConsensusFuncs()) {
		if r.P.IsGenerated(f) {
			continue
		}
		res := r.Resolver(f)
		for _, creator := range []string{"order/keeper.Keeper.NewShardTask", "order/keeper.Keeper.MigrateShard"} {
			for i, c := range callsIn(r, f, creator) {
				call, ok := c.(*ssa.Call)
				if !ok {
					continue
				}
				nCreate++
				key := core.Key("T-listed", r.KeyName(f), fmt.Sprintf("%s#%d", creator, i+1))
				newID := normT(res.Of(call).String()) + ".Id"
				// 1. the id is appended to some <order>.Shards
				var listStore *ssa.Store
				for _, b := range f.Blocks {
					for _, ins := range b.Instrs {
						if st, ok := ins.(*ssa.Store); ok && strings.HasSuffix(fieldPath(st.Addr), "order/types.Order.Shards") {
							if strings.Contains(normT(res.Of(st.Val).String()), "["+newID+"]") {
								listStore = st
							}
						}
					}
				}
				if listStore == nil {
					r.Violate("T-listed", key+"|listed", r.P.Pos(call.Pos()), "a shard is created but its id is not appended to any order's shard list: the shard exists without an order that lists it")
					continue
				}
				hdr := innermostLoopHeader(f, call.Block())
				stop := func(b *ssa.BasicBlock) bool {
					if hdr != nil {
						return b == hdr
					}
					return isReturnBlock(b)
				}
				if listStore.Block() != call.Block() && forwardAvoid(call.Block(), map[*ssa.BasicBlock]bool{listStore.Block(): true}, nil, stop) != nil {
					r.Violate("T-listed", key+"|listed", r.P.Pos(call.Pos()), "a path continues after the shard is created without appending its id to the order's shard list")
				} else {
					r.Discharge("T-listed", key+"|listed", r.P.Pos(listStore.Pos()), "the new shard's id is appended to the order's Shards")
				}
				// 2. that order is persisted: SetOrder after, in this function, or by every caller when the order is a pointer parameter
				persistedHere := false
				setB := blocksCalling(r, f, fSetOrder)
				if len(setB) > 0 {
					succ := map[*ssa.BasicBlock]bool{}
					for _, b := range f.Blocks {
						if isReturnBlock(b) && successReturnIn(r, f, b) {
							succ[b] = true
						}
					}
					ck := &guard.Checker{P: r.P, Fn: f, Res: res}
					if ok, _ := ck.MustRespond(listStore.Block(), succ, setB, nil); ok {
						persistedHere = true
					}
				}
				if persistedHere {
					r.Discharge("T-listed", key+"|order persisted", r.P.Pos(call.Pos()), "SetOrder follows on every success path")
					continue
				}
				// pointer-parameter order: callers must persist
				ownerParam := -1
				if fa, ok := listStore.Addr.(*ssa.FieldAddr); ok {
					for pi, par := range f.Params {
						if fa.X == par {
							ownerParam = pi
						}
					}
				}
				if ownerParam < 0 {
					r.Violate("T-listed", key+"|order persisted", r.P.Pos(call.Pos()), "the order whose shard list was extended is not persisted on every success path")
					continue
				}
				if ok, why := callersPersist(r, f, 0); ok {
					r.Discharge("T-listed", key+"|order persisted", r.P.Pos(call.Pos()), "the order is a pointer parameter; "+why)
				} else {
					r.Violate("T-listed", key+"|order persisted", r.P.Pos(call.Pos()), "the order whose shard list was extended is a parameter and "+why)
				}
			}
		}
	}
	r.Floor("shard_creation_sites", nCreate, 3)

	// ---- T-alias
	for _, p := range []struct{ fn, a, b, what string }{
		{"model/keeper.Keeper.NewMeta", "model/keeper.Keeper.SetMetadata", "model/keeper.Keeper.SetModel", "created"},
		{"model/keeper.Keeper.DeleteMeta", "model/keeper.Keeper.RemoveMetadata", "model/keeper.Keeper.RemoveModel", "removed"},
		{"model/keeper.Keeper.RollbackMeta", "model/keeper.Keeper.RemoveMetadata", "model/keeper.Keeper.RemoveModel", "removed"},
	} {
		fn := r.Func("T-alias", p.fn)
		if fn == nil {
			continue
		}
		key := core.Key("T-alias", p.fn, "model and alias "+p.what+" together")
		ab, bb := blocksCallingDeep(r, fn, p.a, 0), blocksCallingDeep(r, fn, p.b, 0)
		ok := len(ab) > 0 && len(bb) > 0
		for blk := range ab {
			if !bb[blk] && forwardAvoid(blk, bb, nil, isReturnBlock) != nil && forwardAvoid(fn.Blocks[0], bb, nil, func(x *ssa.BasicBlock) bool { return x == blk }) != nil {
				ok = false
			}
		}
		for blk := range bb {
			if !ab[blk] && forwardAvoid(blk, ab, nil, isReturnBlock) != nil && forwardAvoid(fn.Blocks[0], ab, nil, func(x *ssa.BasicBlock) bool { return x == blk }) != nil {
				ok = false
			}
		}
		if ok {
			r.Discharge("T-alias", key, r.P.FuncPos(fn), p.a+" and "+p.b+" lie on the same paths")
		} else {
			r.Violate("T-alias", key, r.P.FuncPos(fn), fmt.Sprintf("in %s a data model record and its alias entry are not %s together: a model without alias, or an alias pointing at nothing, results", p.fn, p.what))
		}
		// alias key derived from the same metadata
		res := r.Resolver(fn)
		for _, c := range callsIn(r, fn, "model/keeper.Keeper.RemoveModel") {
			t := callTerm(res, c)
			k2 := core.Key("T-alias", p.fn, "alias key from the same metadata")
			if t != nil && len(t.Args) == 1 {
				at := normT(t.Args[0].String())
				// the key is computed from the very record that is being removed (the expression itself is compared
				// across all alias-index sites by T-aliaskey)
				if strings.Contains(at, fGetMeta+"(") && !strings.Contains(at, "#3") {
					r.Discharge("T-alias", k2, r.P.Pos(c.Pos()), "RemoveModel key is derived from the metadata record being removed")
					continue
				}
				r.Violate("T-alias", k2, r.P.Pos(c.Pos()), "the alias entry removed is not keyed by fields of the metadata record that is removed: "+shorten(at))
			}
		}
	}
	ruleSchedShard(r)
	ruleSchedMeta(r)
	rulePartition(r)
}

// rulePartition: where an order's shard list is overwritten with a filtered list while the rest is removed, every
// shard of the order must land in the kept list or in the removed list.
func rulePartition(r *core.Run) {
	fnName := "sao/keeper.Keeper.HandleTimeoutOrder"
	fn := r.Func("T-partition", fnName)
	if fn == nil {
		return
	}
	res := r.Resolver(fn)
	// the kept list: value stored to Order.Shards that is not an append to it
	type keptV struct {
		fn *ssa.Function
		v  ssa.Value
	}
	var kept []keptV
	for _, fr := range frames(r, fn) {
		for _, b := range fr.Fn.Blocks {
			for _, ins := range b.Instrs {
				if st, ok := ins.(*ssa.Store); ok && fieldPath(st.Addr) == "order/types.Order.Shards" {
					if isCollected(r, st.Val) {
						kept = append(kept, keptV{fr.Fn, st.Val})
					}
				}
			}
		}
	}
	// the removed lists: collected slices every element of which is handed to RemoveShard (by a loop here or in a helper)
	type fv struct {
		fn *ssa.Function
		v  ssa.Value
	}
	var removed []fv
	for _, b := range fn.Blocks {
		for _, ins := range b.Instrs {
			if c, ok := ins.(ssa.CallInstruction); ok {
				for _, rm := range removalsAt(r, fn, c, 0) {
					if rm.List != nil && isCollected(r, rm.List) {
						removed = append(removed, fv{rm.Fn, rm.List})
					}
				}
			}
		}
	}
	_ = res
	key := core.Key("T-partition", fnName, "every shard is kept or removed")
	if len(kept) == 0 || len(removed) == 0 {
		r.Undecide("T-partition", key, r.P.FuncPos(fn), fmt.Sprintf("kept/removed lists not identified (%d, %d)", len(kept), len(removed)))
		return
	}
	app := map[*ssa.BasicBlock]bool{}
	var classFn *ssa.Function
	spread := false
	note := func(o listOrigin) {
		for _, s := range o.Sites {
			if classFn != nil && s.Fn != classFn {
				spread = true
			}
			classFn = s.Fn
			app[s.App.Block()] = true
		}
	}
	for _, kv := range kept {
		note(listOriginOf(r, kv.fn, kv.v))
	}
	for _, x := range removed {
		note(listOriginOf(r, x.fn, x.v))
	}
	if classFn == nil || spread {
		r.Undecide("T-partition", key, r.P.FuncPos(fn), "the appends feeding the kept and removed lists are not in one function")
		return
	}
	// the classification loop: the range over order.Shards containing those appends (in the handler or in the
	// helper that collects the lists)
	handler := fn
	fn = classFn
	var classFr *frame
	for _, fr := range frames(r, handler) {
		if fr.Fn == classFn {
			x := fr
			classFr = &x
			break
		}
	}
	for _, l := range cfgx.Loops(fn) {
		ro := rangedOver(r, fn, l)
		if classFr != nil {
			ro = normT(classFr.Sub(ro)) // the list may be handed to the helper as a parameter
		}
		if ro == "" || !strings.HasSuffix(ro, ".Shards") || strings.HasPrefix(ro, "phi(") || strings.HasPrefix(ro, "builtin.append(") {
			continue
		}
		inside := false
		for b := range app {
			if l.Body[b] {
				inside = true
			}
		}
		if !inside {
			continue
		}
		skip := map[cfgx.Edge]bool{}
		for b := range l.Body {
			if i2 := cfgx.IfOf(b); i2 != nil {
				if ex, ok := i2.Cond.(*ssa.Extract); ok && ex.Index == 1 {
					skip[cfgx.Edge{From: b, To: b.Succs[1]}] = true
				}
			}
		}
		seen := map[*ssa.BasicBlock]bool{}
		st := []*ssa.BasicBlock{}
		for _, s := range l.Header.Succs {
			if l.Body[s] {
				st = append(st, s)
			}
		}
		cyc := false
		for len(st) > 0 {
			b := st[len(st)-1]
			st = st[:len(st)-1]
			if b == l.Header {
				cyc = true
				break
			}
			if seen[b] || app[b] {
				continue
			}
			seen[b] = true
			for _, s := range b.Succs {
				if l.Body[s] && !skip[cfgx.Edge{From: b, To: s}] {
					st = append(st, s)
				}
			}
		}
		if cyc {
			r.Violate("T-partition", key, r.P.Pos(lastPos(l.Header)), "the timeout handler overwrites order.Shards with the completed shards and removes the collected uncompleted ones, but some shard of the order is put in neither list: it stays in the store, names the order, and the order no longer lists it")
		} else {
			r.Discharge("T-partition", key, r.P.Pos(lastPos(l.Header)), "every found shard of the order is appended to the kept (completed) or to the removed (uncompleted) list")
		}
		return
	}
	r.Undecide("T-partition", key, r.P.FuncPos(fn), "classification loop over order.Shards not found")
}

// ruleTimeoutHeight: see checkC12.
func ruleTimeoutHeight(r *core.Run) {
	n := 0
	var check func(f *ssa.Function, depth int) (bool, string)
	createdHere := func(f *ssa.Function, call ssa.CallInstruction) bool {
		nb := blocksCalling(r, f, "order/keeper.Keeper.NewOrder")
		if len(nb) == 0 {
			return false
		}
		return nb[call.Block()] || forwardAvoid(f.Blocks[0], nb, nil, func(b *ssa.BasicBlock) bool { return b == call.Block() }) == nil
	}
	check = func(f *ssa.Function, depth int) (bool, string) { return false, "" }
	_ = check
	for _, f := range r.P.SortedFuncs(r.ConsensusFuncs()) {
		res := r.Resolver(f)
		for i, c := range callsIn(r, f, fSetTimeout) {
			t := callTerm(res, c)
			if t == nil || len(t.Args) != 2 {
				continue
			}
			n++
			key := core.Key("T-timeout-height", r.KeyName(f), fmt.Sprintf("SetTimeoutOrderBlock#%d height", i+1))
			h := normT(t.Args[1].String())
			switch {
			case strings.HasPrefix(h, "(uint64(sdk.Context.BlockHeight()) + ") && strings.Contains(h, ".Timeout)"):
				r.Discharge("T-timeout-height", key, r.P.Pos(c.Pos()), "scheduled at current height + timeout")
			case strings.Contains(h, ".CreatedAt + ") && strings.Contains(h, ".Timeout)"):
				// only where the order was created in this very transaction
				ok := createdHere(f, c)
				if !ok {
					// a helper: every consensus call site must have created the order before
					ok = true
					sites := 0
					for _, caller := range r.P.CG.In[f] {
						if !r.ConsensusFuncs()[caller] {
							continue
						}
						for _, cs := range callsIn(r, caller, r.P.Name(f)) {
							sites++
							if !createdHere(caller, cs) {
								ok = false
							}
						}
					}
					if sites == 0 {
						ok = false
					}
				}
				if ok {
					r.Discharge("T-timeout-height", key, r.P.Pos(c.Pos()), "scheduled at CreatedAt + timeout of an order created in the same transaction (CreatedAt is the current height)")
				} else {
					r.Violate("T-timeout-height", key, r.P.Pos(c.Pos()), "the timeout check is scheduled at order.CreatedAt + Timeout for an order that was not created in this transaction: when the hand-over happens later than one timeout after creation the height is already past and the order is never examined")
				}
			default:
				r.Violate("T-timeout-height", key, r.P.Pos(c.Pos()), "the height handed to SetTimeoutOrderBlock ("+shorten(h)+") is neither current height + timeout nor CreatedAt + timeout of a freshly created order")
			}
		}
	}
	r.Floor("settimeout_sites", n, 3)
}

// callersPersist: every consensus caller of f (a helper that appends to its order parameter) calls SetOrder on
// every success path after calling f — directly or through its own callers when it also only forwards a pointer.
func callersPersist(r *core.Run, f *ssa.Function, depth int) (bool, string) {
	if depth > 3 {
		return false, "call chain too deep"
	}
	n := 0
	for _, caller := range r.P.CG.In[f] {
		if !r.ConsensusFuncs()[caller] {
			continue
		}
		for i, c := range callsIn(r, caller, r.P.Name(f)) {
			n++
			setB := blocksCalling(r, caller, fSetOrder)
			succ := map[*ssa.BasicBlock]bool{}
			for _, b := range caller.Blocks {
				if isReturnBlock(b) && successReturnIn(r, caller, b) {
					succ[b] = true
				}
			}
			ck := &guard.Checker{P: r.P, Fn: caller, Res: r.Resolver(caller)}
			okHere := false
			if len(setB) > 0 {
				if ok, _ := ck.MustRespond(c.Block(), succ, setB, nil); ok {
					okHere = true
				}
			}
			if !okHere {
				// the caller may itself forward a pointer parameter
				if ok, _ := callersPersist(r, caller, depth+1); !ok {
					return false, fmt.Sprintf("caller %s (call #%d) does not persist the order on every success path", r.P.Name(caller), i+1)
				}
			}
		}
	}
	if n == 0 {
		return false, "it has no caller that persists it"
	}
	return true, fmt.Sprintf("every one of its %d call sites is followed by SetOrder on all success paths", n)
}

// ruleReplacePaired (T-replace): every store Shard.Status := ShardTimeout in the
// timeout handler is followed, before the current loop iteration ends (or before
// any return, outside loops), by a NewShardTask call.
func ruleReplacePaired(r *core.Run) {
	const id = "T-replace"
	fnName := "sao/keeper.Keeper.HandleTimeoutOrder"
	fn := r.Func(id, fnName)
	if fn == nil {
		return
	}
	tmo := constVal(r, "order/types", "ShardTimeout")
	// followedInIteration: after the instruction, a NewShardTask call comes before the current loop iteration of g
	// ends (or before any return, outside loops)
	followedInIteration := func(g *ssa.Function, at ssa.Instruction) (bool, []*ssa.BasicBlock) {
		b := at.Block()
		after := false
		for _, ins := range b.Instrs {
			if ins == at {
				after = true
				continue
			}
			if !after {
				continue
			}
			if c, ok := ins.(ssa.CallInstruction); ok {
				if n, cs := r.Resolver(g).CalleeName(c.Common()); n == "order/keeper.Keeper.NewShardTask" {
					return true, nil
				} else {
					for _, h := range cs {
						if h != g && alwaysCalls(r, h, "order/keeper.Keeper.NewShardTask", 0) {
							return true, nil
						}
					}
				}
			}
		}
		blocked := blocksCallingDeep(r, g, "order/keeper.Keeper.NewShardTask", 0)
		delete(blocked, b)
		hdr := innermostLoopHeader(g, b)
		start := true
		bad := forwardAvoid(b, blocked, nil, func(x *ssa.BasicBlock) bool {
			if start && x == b {
				start = false
				return false
			}
			return x == hdr || isReturnBlock(x)
		})
		return bad == nil, bad
	}
	n := 0
	// the close and its replacement may sit in a helper extracted from the handler: every frame is searched, and
	// the replacement may follow in the helper or after the call that leads there
	for _, fr := range frames(r, fn) {
		res := r.Resolver(fr.Fn)
		fns := fr.Fns(fn)
		for _, b := range fr.Fn.Blocks {
			for _, ins := range b.Instrs {
				st, ok := ins.(*ssa.Store)
				if !ok {
					continue
				}
				fa, ok := st.Addr.(*ssa.FieldAddr)
				if !ok || shortTypeName(fa.X.Type())+"."+fieldNameT(fa.X.Type(), fa.Field) != "order/types.Shard.Status" {
					continue
				}
				if res.Of(st.Val).String() != tmo {
					continue
				}
				n++
				key := core.Key(id, fnName, fmt.Sprintf("close#%d", n))
				ok2 := false
				var bad []*ssa.BasicBlock
				for lvl := len(fr.Chain); lvl >= 0 && !ok2; lvl-- {
					var w []*ssa.BasicBlock
					ok2, w = followedInIteration(fns[lvl], fr.At(lvl, st))
					if bad == nil {
						bad = w
					}
				}
				if ok2 {
					r.Discharge(id, key, r.P.Pos(st.Pos()), "closing the stalled shard is followed by NewShardTask in the same iteration")
				} else {
					r.Violate(id, key, r.P.Pos(st.Pos()), "the timeout handler closes a stalled shard (Status := ShardTimeout) on a path that does not create a replacement shard task in the same iteration: when fewer replacement providers are found than shards stalled, the surplus shards are closed with no replacement, later checks (which count only waiting shards) forget the missing replica, and the payer is neither served nor refunded", pathDesc(r, bad))
				}
			}
		}
	}
	r.Floor("shard_close_sites", n, 1)
}

// ruleTakeover (T-takeover): in Complete, every path to market.Migrate (the
// hand-over of a migrating shard) passes stores newShard.OrderId :=
// oldShard.OrderId and newShard.RenewInfos := oldShard.RenewInfos, where
// oldShard is read in this transaction (GetOrderShardBySP(order, shard.From)).
// HandleExpiredShard finds the order to settle through Shard.OrderId; an id
// captured earlier (at MsgMigrate) is stale once the old shard has rolled over
// into a renewal, and the shard is then never released.
func ruleTakeover(r *core.Run) {
	const id = "T-takeover"
	fnName := "sao/keeper.msgServer.Complete"
	anchor := r.Func(id, fnName)
	if anchor == nil {
		return
	}
	// the hand-over may live in a helper extracted from Complete: the rule is evaluated where the call is
	fn := anchor
	var mig []ssa.CallInstruction
	for _, g := range transparentClosure(r, anchor) {
		m := callsIn(r, g, "market/keeper.Keeper.Migrate")
		if len(m) == 0 {
			m = callsIn(r, g, "sao/types.MarketKeeper.Migrate")
		}
		if len(m) > 0 {
			fn, mig = g, m
			break
		}
	}
	res := r.Resolver(fn)
	if len(mig) == 0 {
		r.Undecide(id, core.Key(id, fnName, "hand-over"), r.P.FuncPos(fn), "vacuous: no call of market Migrate in Complete")
		return
	}
	for _, field := range []string{"OrderId", "RenewInfos"} {
		blocks := map[*ssa.BasicBlock]bool{}
		for _, b := range fn.Blocks {
			for _, ins := range b.Instrs {
				st, ok := ins.(*ssa.Store)
				if !ok {
					continue
				}
				fa, ok := st.Addr.(*ssa.FieldAddr)
				if !ok || shortTypeName(fa.X.Type())+"."+fieldNameT(fa.X.Type(), fa.Field) != "order/types.Shard."+field {
					continue
				}
				vt := normT(res.Of(st.Val).String())
				if guard.Glob("order/keeper.Keeper.GetOrderShardBySP(*.From)." + field).MatchString(vt) {
					blocks[b] = true
				}
			}
		}
		for i, c := range mig {
			key := core.Key(id, fnName, fmt.Sprintf("Migrate#%d", i+1), "new shard takes over "+field)
			B := c.Block()
			ok := blocks[B] // same block: stores precede the call in source order (checked below)
			if ok {
				ok = false
				for _, ins := range B.Instrs {
					if st, isSt := ins.(*ssa.Store); isSt {
						if fa, isFa := st.Addr.(*ssa.FieldAddr); isFa && fieldNameT(fa.X.Type(), fa.Field) == field {
							ok = true
						}
					}
					if ins == c.(ssa.Instruction) {
						break
					}
				}
			}
			if !ok && len(blocks) > 0 {
				bl := map[*ssa.BasicBlock]bool{}
				for b := range blocks {
					if b != B {
						bl[b] = true
					}
				}
				ok = len(bl) > 0 && forwardAvoid(fn.Blocks[0], bl, nil, func(x *ssa.BasicBlock) bool { return x == B }) == nil
			}
			if ok {
				r.Discharge(id, key, r.P.Pos(c.Pos()), "every path to the hand-over copies "+field+" from the old shard read in this transaction")
			} else {
				r.Violate(id, key, r.P.Pos(c.Pos()), "Complete hands a migrating shard over without copying "+field+" from the old shard as it is now (GetOrderShardBySP(order, shard.From)."+field+"): a value captured earlier (when MsgMigrate was sent) is stale once the old shard has rolled over into a renewal, HandleExpiredShard then cannot find the shard's order at the end of its term, and the shard is never released")
			}
		}
	}
}

// ruleAliasKeyShape (T-aliaskey): every place that writes, tests or removes an
// alias-index entry computes its key by the same expression of the model's
// (Owner, Alias, GroupId); a site that builds the key differently addresses a
// different entry (the alias of a removed model survives, or another model's
// alias is removed).
func ruleAliasKeyShape(r *core.Run, id string) {
	type site struct {
		fn, what, shape, pos string
	}
	var sites []site
	// skeleton of the key expression: calls, literals and field names are kept, the record the fields are read
	// from is abstracted to $ (so the same expression over differently named records compares equal)
	var skel func(t *term.Term, d int) string
	skel = func(t *term.Term, d int) string {
		if t == nil || d > 8 {
			return "$"
		}
		switch t.Op {
		case "call":
			// a module helper that only wraps an expression is looked through (modelKey(m) == Sprintf(...m.Owner...))
			if c, ok := t.V.(*ssa.Call); ok && d < 4 {
				if _, cs := term.CalleeName(r.P, &c.Call); len(cs) == 1 && len(cs[0].Blocks) > 0 && prog.InModule(pkgPathOf(cs[0])) {
					h := cs[0]
					hres := r.Resolver(h)
					shape, same := "", true
					for _, hb := range h.Blocks {
						if ret, ok := hb.Instrs[len(hb.Instrs)-1].(*ssa.Return); ok && len(ret.Results) == 1 {
							s2 := skel(hres.Of(ret.Results[0]), d+1)
							if shape == "" {
								shape = s2
							} else if shape != s2 {
								same = false
							}
						}
					}
					if same && shape != "" && shape != "$" {
						return shape
					}
				}
			}
			var as []string
			for _, a := range t.Args {
				as = append(as, skel(a, d+1))
			}
			return t.Name + "(" + strings.Join(as, ",") + ")"
		case "lit", "slice":
			var as []string
			for _, a := range t.Args {
				as = append(as, skel(a, d+1))
			}
			return "[" + strings.Join(as, ",") + "]"
		case "field":
			return "$." + t.Name
		case "const":
			return t.Name
		case "conv", "un":
			if len(t.Args) > 0 {
				return skel(t.Args[0], d+1)
			}
		}
		return "$" // parameters, results of getters, locals: the record itself
	}
	norm := func(t *term.Term) string { return skel(t, 0) }
	for _, f := range r.P.SortedFuncs(r.ConsensusFuncs()) {
		if r.P.IsGenerated(f) {
			continue
		}
		res := r.Resolver(f)
		for _, b := range f.Blocks {
			for _, ins := range b.Instrs {
				switch x := ins.(type) {
				case *ssa.Store:
					if fa, ok := x.Addr.(*ssa.FieldAddr); ok && shortTypeName(fa.X.Type())+"."+fieldNameT(fa.X.Type(), fa.Field) == "model/types.Model.Key" {
						sites = append(sites, site{r.P.Name(f), "Model.Key :=", norm(res.Of(x.Val)), r.P.Pos(x.Pos())})
					}
				case ssa.CallInstruction:
					name, _ := res.CalleeName(x.Common())
					if name == "model/keeper.Keeper.RemoveModel" || name == "model/keeper.Keeper.GetModel" {
						args := x.Common().Args
						sites = append(sites, site{r.P.Name(f), strings.TrimPrefix(name, "model/keeper.Keeper."), norm(res.Of(args[len(args)-1])), r.P.Pos(x.Pos())})
					}
				}
			}
		}
	}
	shapes := map[string]int{}
	for _, s := range sites {
		if s.shape != "$" {
			shapes[s.shape]++
		}
	}
	// majority shape = reference
	ref, best := "", 0
	for sh, c := range shapes {
		if c > best || (c == best && sh < ref) {
			ref, best = sh, c
		}
	}
	cnt := map[string]int{}
	for _, s := range sites {
		if s.shape == "$" {
			continue // key handed in from elsewhere (a parameter)
		}
		cnt[s.fn+s.what]++
		key := core.Key(id, s.fn, fmt.Sprintf("%s#%d", s.what, cnt[s.fn+s.what]))
		if s.shape == ref {
			r.Discharge(id, key, s.pos, "alias-index key built as "+shorten(ref))
		} else {
			r.Violate(id, key, s.pos, fmt.Sprintf("%s addresses the alias index with key %s while the other %d sites use %s: entry written under one key is tested/removed under another (a removed model's alias survives and blocks its data id, or another model's alias is removed)", s.fn, shorten(s.shape), best, shorten(ref)))
		}
	}
	r.Floor("alias_key_sites", len(sites), 4)
}

// ruleSchedDelete (CAP-sched-delete): a schedule bucket (all shard releases /
// all order timeout checks of one height) is deleted only by the end-blocker
// that has just consumed every entry of it. The buckets are keyed by height,
// not by shard or order: a handler that deletes "its" entry by height drops
// every other shard's (order's) entry scheduled for the same height, and those
// are then never released (never re-examined).
func ruleSchedDelete(r *core.Run) {
	evalCap(r, capRule{
		ID:   "CAP-sched-delete",
		Desc: "height-keyed schedule buckets are deleted only by the consuming end-blocker",
		Match: func(e *eff.Effect) (string, bool) {
			if e.Kind == "store.delete" && eff.StoreOwner(e) == "sao" && (e.Prefix == "ExpiredShard/value/" || e.Prefix == "TimeoutOrder/value/") {
				return "delete sao:" + e.Prefix, true
			}
			return "", false
		},
		Allowed: set("sao.EndBlock"),
		Skip:    set("pseudo:HandleExpiredShard", "pseudo:HandleTimeoutOrder"),
	})
}

// ruleLostUpdate (T-lost-update): list sites where a stale local copy of a
// record is written back after a helper updated the stored record.
func ruleLostUpdate(r *core.Run, id string, prefixes ...string) {
	want := set(prefixes...)
	n, scanned := 0, 0
	for _, f := range r.P.SortedFuncs(r.ConsensusFuncs()) {
		if r.P.IsGenerated(f) {
			continue
		}
		scanned++
		seen := map[string]bool{}
		for _, lu := range lostUpdates(r, f) {
			if len(want) > 0 && !want[lu.Prefix] {
				continue
			}
			res := r.Resolver(f)
			mn, _ := res.CalleeName(lu.Mid.Common())
			bn, _ := res.CalleeName(lu.Back.Common())
			k := core.Key(id, r.KeyName(f), lu.Prefix, mn+" then "+bn)
			if seen[k] {
				continue
			}
			seen[k] = true
			n++
			r.Violate(id, k, r.P.Pos(lu.Back.Pos()), fmt.Sprintf("%s reads a record of %s into a local, then calls %s (which loads, changes and stores that record itself), then writes its own stale copy back with %s: the helper's update (e.g. the enlarged duration) is lost while its side effects (e.g. the moved expiry-schedule entry) stay", r.P.Name(f), lu.Prefix, mn, bn))
		}
	}
	r.Discharge(id, core.Key(id, "scope"), "", fmt.Sprintf("%d functions scanned for read / helper-writes-same-prefix / stale write-back sequences, %d found", scanned, n))
	r.Count("lost_update_functions_scanned", scanned)
}
