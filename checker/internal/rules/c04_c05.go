package rules

import (
	"fmt"
	"go/token"
	"go/types"
	"saoverif/internal/prog"
	"sort"
	"strings"

	"golang.org/x/tools/go/ssa"

	"saoverif/internal/cfgx"
	"saoverif/internal/core"
	"saoverif/internal/eff"
	"saoverif/internal/guard"
)

func init() {
	register("C04", checkC04)
	register("C05", checkC05)
}

func successBlocks(r *core.Run, fn *ssa.Function) map[*ssa.BasicBlock]bool {
	m := map[*ssa.BasicBlock]bool{}
	for _, b := range fn.Blocks {
		if successReturnIn(r, fn, b) {
			m[b] = true
		}
	}
	return m
}

// ---------------------------------------------------------------- C04

func checkC04(r *core.Run) {
	r.Explanation = "C04 (topology and identity clauses only): charge-once identity — in Store and RenewOrder exactly one charge lies on every success path, outside loops, its amount is the value persisted as Order.Amount and it precedes the order's persistence; escrow topology — every bank call site matches the closed table of flows: order escrow pays only the market escrow (the whole order amount), the owner's/payer's payment address or the DID ledger; market escrow pays only order escrow, the claiming provider (its own worker account) or the owner's payment address. Price formula, income accrual, refund arithmetic and the sum identity are runtime quantities and are not decided."
	r.Rule("T-charge: one SendCoinsFromAccountToModule per success path, not in a loop, amount ≡ persisted Order.Amount, charge on every path to the order's persistence")
	r.Rule("E7-flow: closed table of money flows (modules, counter-party, amount form) — any new or altered outflow is reported")
	r.Rule("T-refund-booked: a refund paid from the market escrow for an order that stays alive lowers Order.Amount by the refunded coin and the order is persisted, in the same function")
	r.Rule("T-loopvar: in the storage handlers no address of a variable re-assigned per loop iteration is stored into a slice/field inside its loop (the orders collected for the shard hand-over must be distinct records: an aliased list rewrites one order twice and leaves the others pointing at a removed shard, which is never refunded or released)")
	ruleLoopVarAddr(r, "T-loopvar", "sao/keeper.msgServer.")
	r.Rule("T-fresh-if-missing: in the market keeper a freshly built Worker / Pool record replaces the stored one only when none was found (the stored worker holds the provider's unclaimed income)")
	ruleFreshOnlyIfMissing(r, "T-fresh-if-missing", "market/keeper.")
	r.Assume(aDeps)
	r.Assume(aCG)
	ruleFlows(r, "C04")
	ruleRefundBooked(r)
	r.Rule("T-refund-class: in market.Withdraw the full-duration price is refunded only for a waiting shard, the remaining-term price only for a completed shard of this order; no other shard state contributes")
	ruleWithdrawClass(r)
	r.Rule("T-append-fresh: at every WorkerAppend the shard's CreatedAt was set to the current height on every path before (the booking pays price x size x (height - CreatedAt) of back-pay)")
	ruleAppendFresh(r, "C04")
	r.Rule("T-replica-dec: replica reduction refunds exactly the replicas that are still waiting")
	ruleReplicaGiveUp(r)
	r.Rule("T-price-dur: an order record's Amount is a product containing the Duration (and Replica, Size) stored in the same record")
	rulePriceDuration(r, "sao/keeper.msgServer.Store", "sao/keeper.msgServer.Renew")

	// ---- Store
	if fn := r.Func("T-charge", "sao/keeper.msgServer.Store"); fn != nil {
		res := r.Resolver(fn)
		ck := &guard.Checker{P: r.P, Fn: fn, Res: res}
		// the charge may sit in a helper extracted from Store: every frame is searched; `ch` is the instruction of
		// Store that leads to it (the charge itself, or the call of the helper)
		charges := deepCalls(r, fn, "sao/types.BankKeeper.SendCoinsFromAccountToModule")
		key := core.Key("T-charge", "sao/keeper.msgServer.Store")
		if len(charges) != 1 {
			r.Violate("T-charge", key+"|exactly one charge site", r.P.FuncPos(fn), fmt.Sprintf("Store has %d charge sites, expected exactly one", len(charges)))
		} else {
			dc := charges[0]
			bank := dc.Call.(*ssa.Call)
			fns := dc.Fr.Fns(fn)
			ch, _ := dc.Fr.At(0, bank).(*ssa.Call)
			if ch == nil {
				r.Undecide("T-charge", key+"|exactly one charge site", r.P.Pos(bank.Pos()), "the instruction of Store leading to the charge is not a plain call")
				return
			}
			r.Discharge("T-charge", key+"|exactly one charge site", r.P.Pos(bank.Pos()), "one SendCoinsFromAccountToModule under Store")
			// not in a loop, at any level
			inLoop := false
			for lvl := range fns {
				if innermostLoopHeader(fns[lvl], dc.Fr.At(lvl, bank).Block()) != nil {
					inLoop = true
				}
			}
			if inLoop {
				r.Violate("T-charge", key+"|charge outside loops", r.P.Pos(bank.Pos()), "the charge lies inside a loop: the payer can be charged several times for one order")
			} else {
				r.Discharge("T-charge", key+"|charge outside loops", r.P.Pos(bank.Pos()), "the charge is not inside any loop")
			}
			// a helper that holds the charge performs it on every one of its own success paths
			okS := true
			for lvl := 1; lvl < len(fns); lvl++ {
				h := fns[lvl]
				hb := map[*ssa.BasicBlock]bool{dc.Fr.At(lvl, bank).Block(): true}
				for _, b := range h.Blocks {
					if isReturnBlock(b) && successReturnIn(r, h, b) && forwardAvoid(h.Blocks[0], hb, nil, func(x *ssa.BasicBlock) bool { return x == b }) != nil {
						okS = false
					}
				}
			}
			// on every success path and before persistence
			chB := map[*ssa.BasicBlock]bool{ch.Block(): true}
			for b := range successBlocks(r, fn) {
				if forwardAvoid(fn.Blocks[0], chB, nil, func(x *ssa.BasicBlock) bool { return x == b }) != nil {
					okS = false
				}
			}
			if okS {
				r.Discharge("T-charge", key+"|charge on every success path", r.P.Pos(ch.Pos()), "no success return is reachable without passing the charge")
			} else {
				r.Violate("T-charge", key+"|charge on every success path", r.P.Pos(ch.Pos()), "Store can succeed without charging the payer")
			}
			// charge succeeded
			for b := range successBlocks(r, fn) {
				if ok, w := ck.MustPass(b, []guard.Atom{guard.Eq("sao/types.BankKeeper.SendCoinsFromAccountToModule(*)", "nil")}); !ok {
					r.Violate("T-charge", key+"|charge succeeded", r.P.Pos(ch.Pos()), "Store can succeed although the charge returned an error", w...)
				}
			}
			r.Discharge("T-charge", key+"|charge succeeded|checked", r.P.Pos(ch.Pos()), "success returns are dominated by the charge's err == nil edge")
			for _, pz := range callsIn(r, fn, "order/keeper.Keeper.NewOrder") {
				k2 := key + "|charge precedes the order's persistence"
				if forwardAvoid(fn.Blocks[0], chB, nil, func(x *ssa.BasicBlock) bool { return x == pz.Block() }) != nil {
					r.Violate("T-charge", k2, r.P.Pos(pz.Pos()), "the order can be persisted (NewOrder) on a path that has not charged the payer")
				} else {
					r.Discharge("T-charge", k2, r.P.Pos(pz.Pos()), "the charge lies on every path to NewOrder")
				}
			}
			// amount identity: Order.Amount := the very coin charged, with no write to it in between
			amt := ""
			if at := dc.ArgTerms(r); len(at) == 3 {
				amt = at[2]
			}
			okId := false
			var amtAlloc *ssa.Alloc
			for _, b := range fn.Blocks {
				for _, ins := range b.Instrs {
					if st, ok := ins.(*ssa.Store); ok && fieldPath(st.Addr) == "order/types.Order.Amount" {
						if "["+normT(res.Of(st.Val).String())+"]" == amt {
							okId = true
							if ld, ok := st.Val.(*ssa.UnOp); ok {
								amtAlloc, _ = ld.X.(*ssa.Alloc)
							}
						}
					}
				}
			}
			// no store to the amount variable is reachable after the charge
			if okId && amtAlloc != nil {
				for _, ref := range *amtAlloc.Referrers() {
					if st, ok := ref.(*ssa.Store); ok && st.Addr == amtAlloc {
						if st.Block() == ch.Block() || forwardAvoid(ch.Block(), nil, nil, func(x *ssa.BasicBlock) bool { return x == st.Block() }) != nil && st.Block() != ch.Block() {
							// a store reachable from the charge block
							after := false
							if st.Block() == ch.Block() {
								for _, ins := range ch.Block().Instrs {
									if ins == ch {
										after = true
									}
									if ins == st && after {
										okId = false
									}
								}
							} else {
								okId = false
							}
						}
					}
				}
			}
			if okId {
				r.Discharge("T-charge", key+"|amount charged ≡ Order.Amount", r.P.Pos(ch.Pos()), "Order.Amount is assigned the same value that was charged, and that variable is not written after the charge")
			} else {
				r.Violate("T-charge", key+"|amount charged ≡ Order.Amount", r.P.Pos(ch.Pos()), "the amount recorded as Order.Amount is not (provably) the amount that was charged: refunds and income are computed from a different figure than what the payer paid")
			}
		}
	}
	// ---- RenewOrder
	if fn := r.Func("T-charge", "order/keeper.Keeper.RenewOrder"); fn != nil {
		res := r.Resolver(fn)
		key := core.Key("T-charge", "order/keeper.Keeper.RenewOrder")
		charges := callsIn(r, fn, "order/types.BankKeeper.SendCoinsFromAccountToModule")
		if len(charges) != 1 {
			r.Violate("T-charge", key+"|exactly one charge site", r.P.FuncPos(fn), fmt.Sprintf("RenewOrder has %d charge sites", len(charges)))
		} else {
			ch := charges[0].(*ssa.Call)
			chB := map[*ssa.BasicBlock]bool{ch.Block(): true}
			ok := innermostLoopHeader(fn, ch.Block()) == nil
			for b := range successBlocks(r, fn) {
				if forwardAvoid(fn.Blocks[0], chB, nil, func(x *ssa.BasicBlock) bool { return x == b }) != nil {
					ok = false
				}
			}
			for _, name := range []string{"order/keeper.Keeper.AppendOrder", "order/keeper.Keeper.SetOrder"} {
				for _, pz := range callsIn(r, fn, name) {
					if forwardAvoid(fn.Blocks[0], chB, nil, func(x *ssa.BasicBlock) bool { return x == pz.Block() }) != nil {
						ok = false
					}
				}
			}
			// no write to order.Amount in the function: what is persisted is what was charged
			for _, d := range deltasOf(r, fn) {
				if d.Field == "order/types.Order.Amount" {
					ok = false
				}
			}
			t := res.Of(ch)
			if len(t.Args) != 3 || normT(t.Args[2].String()) != "[#2.Amount]" {
				ok = false
			}
			if ok {
				r.Discharge("T-charge", key+"|one charge of order.Amount before persistence", r.P.Pos(ch.Pos()), "RenewOrder charges exactly order.Amount once, before AppendOrder/SetOrder persist the same record")
			} else {
				r.Violate("T-charge", key+"|one charge of order.Amount before persistence", r.P.Pos(ch.Pos()), "RenewOrder does not charge exactly the persisted order.Amount once on every success path before persisting the order")
			}
		}
	}
	// the renewal order's Amount is computed once and handed to RenewOrder unchanged
	evalArgAll(r, "T-charge", "sao/keeper.msgServer.Renew", "order/keeper.Keeper.RenewOrder", 0, []string{"*"}, "renewal order handed to RenewOrder")
	// Deposit moves exactly order.Amount (row in the flow table); Complete calls Deposit at most once per order: guarded by Status != Completed
	evalGuard(r, "T-charge", "sao/keeper.msgServer.Complete", effSel{Calls: []string{"market/keeper.Keeper.Deposit"}}, []clause{
		cl("deposit-only-on-first-completion", guard.Ne("*"+fGetOrder+"("+msg+".OrderId)#0.Status", constVal(r, "order/types", "OrderCompleted"))),
	}, 1)
}

// ---------------------------------------------------------------- C05

func checkC05(r *core.Run) {
	r.Explanation = "C05 (structural clauses only): cancellation — every success path of CancelOrder refunds (RefundOrder succeeded), rolls the model back and removes the order, in that order, and the refund is exactly the recorded order amount from order escrow to the payer's address; every caller removes all of the order's shards first, or is on the pending branch where the order has none; a full refund is only issued before the first completion; nothing is reserved before completion — the operations that only assign providers cannot write pledge records nor take coins from a provider; rollback pairing — removing a data model also removes its expiry-schedule entry unless the schedule consumer is the caller; every field of the stored model that the in-flight marker (UpdateMetaStatusAndCommit) overwrites is assigned again by RollbackMeta (field sets only, not the restored values). The payer's balance delta and reassignment histories are not decided."
	r.Rule("T-cancel: CancelOrder success => RefundOrder == nil, then RollbackMeta, then RemoveOrder; refund row of the flow table")
	r.Rule("T-cancel-pre: every call of model.CancelOrder is preceded by a for-all RemoveShard over the order's shards, or dominated by order.Status == Pending; G-refund-state: and by order.Status != Completed")
	r.Rule("CAP-reserve: {Store, Ready, timeout handler} have no write on node:Pledge/value/ and no bank inflow into the node module")
	r.Rule("T-sched-meta: RemoveMetadata(d) is accompanied by removeDataExpireBlock(d, ...) unless every caller is the schedule consumer (model end-blocker)")
	r.Rule("T-rollback: RollbackMeta restores OrderId from the last element of the model's own Orders list and Commit from the last element of its own Commits list (index len(same list)-1); status back to complete")
	r.Rule("T-rollback-fields: every field of the stored data-model record that UpdateMetaStatusAndCommit (the step that marks a model in flight for an update order) overwrites is assigned again by RollbackMeta — a field the forward step changes and the rollback never touches keeps the value of the order that was never stored")
	r.Rule("T-unschedule: removeDataExpireBlock writes back, when other ids remain at that height, a list collected only from ids tested unequal to the one being dropped (the rollback of a cancelled order leaves no expiry entry behind)")
	ruleUnschedule(r, "T-unschedule")
	r.Assume(aDeps)
	r.Assume(aCG)
	ruleFlows(r, "C05")
	r.Rule("T-persist (shared with C16): what a rollback (or any other function) assigns on its local copy of a stored data-model record — directly or through a helper that receives a pointer to it — is written back on every success path")
	rulePersisted(r, "T-persist", "model/types.Metadata")
	r.Rule("T-aliaskey: the alias entry removed on rollback/deletion is addressed by the same key expression under which NewMeta wrote it")
	ruleAliasKeyShape(r, "T-aliaskey")
	rb := "model/keeper.Keeper.RollbackMeta"
	evalStoreVal(r, "T-rollback", rb, "model/types.Metadata.OrderId", []string{"*.Orders[last]"}, "the previously committed version's order is the last entry of the model's Orders list (Orders and Commits are not parallel: a renewal appends an order without a commit)")
	evalStoreVal(r, "T-rollback", rb, "model/types.Metadata.Commit", []string{"*.Commits[last]*"}, "the previously committed version is the last entry of the model's Commits list")
	evalStoreVal(r, "T-rollback", rb, "model/types.Metadata.Status", []string{constVal(r, "model/types", "MetaComplete")}, "a rolled-back model is complete again (not left locked in progress)")

	// ---- T-rollback-fields: what the in-flight marker overwrites, the rollback restores
	ruleRollbackFields(r, "T-rollback-fields", "model/keeper.Keeper.UpdateMetaStatusAndCommit", rb, "model/types.Metadata")

	// ---- T-cancel
	co := "model/keeper.Keeper.CancelOrder"
	if fn := r.Func("T-cancel", co); fn != nil {
		ck := &guard.Checker{P: r.P, Fn: fn, Res: r.Resolver(fn)}
		refund := blocksCalling(r, fn, "order/keeper.Keeper.RefundOrder")
		roll := blocksCalling(r, fn, "model/keeper.Keeper.RollbackMeta")
		rem := blocksCalling(r, fn, "order/keeper.Keeper.RemoveOrder")
		succ := successBlocks(r, fn)
		check := func(name string, ok bool, detail string) {
			key := core.Key("T-cancel", co, name)
			if ok {
				r.Discharge("T-cancel", key, r.P.FuncPos(fn), detail)
			} else {
				r.Violate("T-cancel", key, r.P.FuncPos(fn), "CancelOrder: "+name+" does not hold on every success path")
			}
		}
		avoidTo := func(blocked map[*ssa.BasicBlock]bool, targets map[*ssa.BasicBlock]bool) bool {
			return forwardAvoid(fn.Blocks[0], blocked, nil, func(x *ssa.BasicBlock) bool { return targets[x] }) == nil
		}
		okRef := len(refund) > 0
		for b := range succ {
			if ok, _ := ck.MustPass(b, []guard.Atom{guard.Eq("order/keeper.Keeper.RefundOrder(#2)", "nil")}); !ok {
				okRef = false
			}
		}
		check("refund succeeded before success", okRef, "every success return is dominated by RefundOrder(orderId) == nil")
		check("model rolled back before success", len(roll) > 0 && avoidTo(roll, succ), "RollbackMeta lies on every success path")
		check("order removed before success", len(rem) > 0 && avoidTo(rem, succ), "RemoveOrder lies on every success path")
		// totality: the only way CancelOrder fails is a failed refund — every return, also an error return, comes
		// after the refund was attempted. Its callers (Cancel, the timeout give-up branch) have already removed the
		// order's shards and do not re-schedule on error, so any earlier exit strands the payer's money.
		allRets := map[*ssa.BasicBlock]bool{}
		for _, b := range fn.Blocks {
			if isReturnBlock(b) {
				allRets[b] = true
			}
		}
		{
			key := core.Key("T-cancel", co, "no exit before the refund is attempted")
			// an exit because the order itself does not exist is harmless (nothing to refund)
			early := func(b *ssa.BasicBlock) bool {
				if !allRets[b] {
					return false
				}
				if ok, _ := ck.MustPass(b, []guard.Atom{guard.False("*" + fGetOrder + "(#2)#1")}); ok {
					return false
				}
				return true
			}
			if len(refund) > 0 && forwardAvoid(fn.Blocks[0], refund, nil, early) == nil {
				r.Discharge("T-cancel", key, r.P.FuncPos(fn), "every return of CancelOrder (success or error) lies after the RefundOrder call")
			} else {
				r.Violate("T-cancel", key, r.P.FuncPos(fn), "CancelOrder can return (with an error) before attempting the refund: its callers have already removed the order's shards and do not retry, so the order stays on chain unrefunded — e.g. when the data model was already deleted (terminated or expired) while a never-started order was still open")
			}
		}
		check("refund precedes rollback and removal", avoidTo(refund, roll) && avoidTo(refund, rem), "nothing is rolled back or removed before the refund was attempted")
		check("rollback precedes removal", avoidTo(roll, rem) || sameBlockOrder(fn, "model/keeper.Keeper.RollbackMeta", "order/keeper.Keeper.RemoveOrder", r), "RollbackMeta comes before RemoveOrder")
		evalArgAll(r, "T-cancel", co, "order/keeper.Keeper.RefundOrder", 0, []string{"#2"}, "the order refunded is the one being cancelled")
		evalArgAll(r, "T-cancel", co, "order/keeper.Keeper.RemoveOrder", 0, []string{"#2"}, "the order removed is the one being cancelled")
		evalArgAll(r, "T-cancel", co, "model/keeper.Keeper.RollbackMeta", 0, []string{fGetOrder + "(#2)#0.DataId"}, "the model rolled back is the cancelled order's")
	}

	// ---- T-cancel-pre and G-refund-state at every call site
	pending := constVal(r, "order/types", "OrderPending")
	completed := constVal(r, "order/types", "OrderCompleted")
	nSites := 0
	perAnchor := map[*ssa.Function]int{}
	// call sites in helpers outside the vocabulary are judged in the vocabulary of the known function they belong to
	anchorFrames(r, func(f *ssa.Function, fr frame) {
		for _, c := range callsIn(r, fr.Fn, co) {
			nSites++
			perAnchor[f]++
			key := core.Key("T-cancel-pre", r.P.Name(f), fmt.Sprintf("CancelOrder#%d", perAnchor[f]))
			site := effSite{Ins: c, Chain: fr.Chain}
			ordStatus := "*" + fGetOrder + "(*)#0.Status"
			isPending, _ := mustPassDeep(r, f, site, []guard.Atom{guard.Eq(ordStatus, pending)})
			shardsGone := allShardsRemovedBefore(r, fr.Fn, c)
			for lvl := len(fr.Chain) - 1; lvl >= 0 && !shardsGone; lvl-- {
				shardsGone = allShardsRemovedBefore(r, fr.Fns(f)[lvl], fr.Chain[lvl])
			}
			if isPending || shardsGone {
				why := "all shards of the order are removed first (for-all RemoveShard over order.Shards)"
				if isPending {
					why = "the order is still Pending (no provider has been assigned shards)"
				}
				r.Discharge("T-cancel-pre", key+"|shards gone first", r.P.Pos(c.Pos()), why)
			} else {
				r.Violate("T-cancel-pre", key+"|shards gone first", r.P.Pos(c.Pos()), "the order is cancelled (and removed) while its shards may still exist: shards without an order stay assigned to providers forever")
			}
			if ok, w := mustPassDeep(r, f, site, []guard.Atom{guard.Ne(ordStatus, completed), guard.Eq(ordStatus, pending)}); ok {
				r.Discharge("G-refund-state", key+"|not completed", r.P.Pos(c.Pos()), "a full refund is issued only while the order is not Completed")
			} else {
				r.Violate("G-refund-state", key+"|not completed", r.P.Pos(c.Pos()), "CancelOrder (full refund) can be reached for an order that is already Completed: the payer is refunded in full although providers have been paid/are earning", w...)
			}
		}
	})
	r.Floor("cancelorder_call_sites", nSites, 3)

	// ---- CAP-reserve
	evalCapOnly(r, "CAP-reserve", "assigning providers reserves no capacity or collateral", []string{"sao.Store", "sao.Ready", "pseudo:HandleTimeoutOrder"}, func(e *eff.Effect) (string, bool) {
		if e.IsWrite() && eff.StoreOwner(e) == "node" && e.Prefix == "Pledge/value/" {
			return "write node:Pledge/value/", true
		}
		if e.Kind == "bank.SendCoinsFromAccountToModule" && len(e.Args) >= 2 && e.Args[1].String() == `"node"` {
			return "bank inflow into the node module", true
		}
		return "", false
	})
	ruleSchedMeta(r)
}

// sameBlockOrder: both callees are called in one block, a before b.
func sameBlockOrder(fn *ssa.Function, a, b string, r *core.Run) bool {
	for _, blk := range fn.Blocks {
		ia, ib := -1, -1
		for i, ins := range blk.Instrs {
			if c, ok := ins.(ssa.CallInstruction); ok {
				n, _ := r.Resolver(fn).CalleeName(c.Common())
				if n == a && ia < 0 {
					ia = i
				}
				if n == b && ib < 0 {
					ib = i
				}
			}
		}
		if ia >= 0 && ib >= 0 {
			return ia < ib
		}
	}
	return false
}

// allShardsRemovedBefore: a range loop over <x>.Shards whose every iteration calls RemoveShard (or leaves the
// function), and whose normal exit lies on every path to the call.
func allShardsRemovedBefore(r *core.Run, f *ssa.Function, call ssa.CallInstruction) bool {
	isShards := func(t string) bool {
		return t != "" && strings.HasSuffix(t, ".Shards") && !strings.HasPrefix(t, "phi(") && !strings.HasPrefix(t, "builtin.append(")
	}
	return removesAllBefore(r, f, call, isShards, 0)
}

// removesAllBefore: on every path to the instruction, a loop over a list accepted by isList has run to its exit
// with a RemoveShard in every iteration — in f itself, or in a transparent helper that f calls with such a list
// and that does so with its parameter on every path to a success return (f continuing only when it succeeded).
func removesAllBefore(r *core.Run, f *ssa.Function, at ssa.Instruction, isList func(string) bool, depth int) bool {
	res := r.Resolver(f)
	for _, l := range cfgx.Loops(f) {
		if !isList(rangedOver(r, f, l)) {
			continue
		}
		rm := map[*ssa.BasicBlock]bool{}
		for b := range l.Body {
			for _, ins := range b.Instrs {
				if c, ok := ins.(ssa.CallInstruction); ok {
					if n, _ := res.CalleeName(c.Common()); n == fRemoveShard {
						rm[b] = true
					}
				}
			}
		}
		if len(rm) == 0 || !cutsAllCycles(l, rm) {
			continue
		}
		// loop exit on every path to the instruction
		exit := cfgx.Edge{From: l.Header, To: l.Header.Succs[1]}
		if l.Body[l.Header.Succs[1]] {
			exit = cfgx.Edge{From: l.Header, To: l.Header.Succs[0]}
		}
		if cfgx.PathAvoiding(f.Blocks[0], at.Block(), map[cfgx.Edge]bool{exit: true}) == nil {
			return true
		}
	}
	if depth >= 2 {
		return false
	}
	ck := &guard.Checker{P: r.P, Fn: f, Res: res}
	for _, b := range f.Blocks {
		for _, ins := range b.Instrs {
			if ins == at {
				break
			}
			hc, ok := ins.(ssa.CallInstruction)
			if !ok {
				continue
			}
			h := hc.Common().StaticCallee()
			if h == nil || h == f || !r.P.Transparent(h) || len(h.Blocks) == 0 {
				continue
			}
			// the helper call lies on every path to the instruction
			if b != at.Block() && forwardAvoid(f.Blocks[0], map[*ssa.BasicBlock]bool{b: true}, nil, func(x *ssa.BasicBlock) bool { return x == at.Block() }) != nil {
				continue
			}
			for j, a := range hc.Common().Args {
				if j >= len(h.Params) {
					continue
				}
				pj := fmt.Sprintf("#%d", j)
				argT := normT(res.Of(a).String())
				var isOrder bool
				// the helper ranges over its parameter, or over a field of it (it receives the record that holds the list)
				hList := func(t string) bool {
					if !strings.HasPrefix(t, pj) {
						return false
					}
					rest := t[len(pj):]
					if rest == "" {
						return isList(argT)
					}
					// the Shards of the order record the helper was handed
					return rest == ".Shards" && isOrder
				}
				isOrder = shortTypeName(a.Type()) == "order/types.Order"
				if !isList(argT) && !isOrder {
					continue
				}
				all := true
				nret := 0
				for _, hb := range h.Blocks {
					if !isReturnBlock(hb) || !successReturnIn(r, h, hb) {
						continue
					}
					nret++
					ret := hb.Instrs[len(hb.Instrs)-1]
					if !removesAllBefore(r, h, ret, hList, depth+1) {
						all = false
					}
				}
				if !all || nret == 0 {
					continue
				}
				// a helper that can fail: f goes on to the instruction only after it returned nil
				sig := h.Signature.Results()
				if sig.Len() > 0 && isErrorType(sig.At(sig.Len()-1).Type()) {
					v, isVal := hc.(ssa.Value)
					if !isVal || sig.Len() != 1 {
						continue
					}
					if ok, _ := ck.MustPass(at.Block(), []guard.Atom{guard.Eq(guard.Exact(res.Of(v).String()), "nil")}); !ok {
						continue
					}
				}
				return true
			}
		}
	}
	return false
}

// evalCapOnly: the listed roots must have no matching effect.
func evalCapOnly(r *core.Run, id, desc string, roots []string, match func(e *eff.Effect) (string, bool)) {
	byName := map[string]capRoot{}
	for _, rt := range capRoots(r) {
		byName[rt.Name] = rt
	}
	for _, name := range roots {
		rt, ok := byName[name]
		if !ok {
			r.Undecide(id, core.Key(id, name), "", "unresolved anchor: root "+name)
			continue
		}
		hits := map[string]*eff.Effect{}
		for _, e := range r.Eff.Reach(rt.Fn) {
			if s, ok := match(e); ok {
				if _, dup := hits[s]; !dup {
					hits[s] = e
				}
			}
		}
		if len(hits) == 0 {
			r.Discharge(id, core.Key(id, name), r.P.FuncPos(rt.Fn), desc+": capability absent")
			continue
		}
		for s, e := range hits {
			r.Violate(id, core.Key(id, name, s), r.P.Pos(e.Instr.Pos()), fmt.Sprintf("%s: %s can reach %s", desc, name, s), "call path: "+strings.Join(r.P.CG.Path(rt.Fn, e.Fn), " -> "))
		}
	}
}

// ruleSchedMeta: removal of a data model is paired with removal of its expiry-schedule entry.
func ruleSchedMeta(r *core.Run) {
	rmMeta := "model/keeper.Keeper.RemoveMetadata"
	rmSched := "model/keeper.Keeper.removeDataExpireBlock"
	consumer := "model.EndBlocker"
	n := 0
	for _, f := range r.P.SortedFuncs(r.ConsensusFuncs()) {
		calls := callsIn(r, f, rmMeta)
		if len(calls) == 0 || r.P.Name(f) == rmMeta {
			continue
		}
		for i, c := range calls {
			n++
			key := core.Key("T-sched-meta", r.KeyName(f), fmt.Sprintf("RemoveMetadata#%d", i+1))
			sched := blocksCalling(r, f, rmSched)
			paired := false
			if len(sched) > 0 {
				// on every path to the removal, or after it before any return
				before := forwardAvoid(f.Blocks[0], sched, nil, func(x *ssa.BasicBlock) bool { return x == c.Block() }) == nil
				after := forwardAvoid(c.Block(), sched, nil, isReturnBlock) == nil
				paired = before || after || sched[c.Block()]
			}
			if paired {
				r.Discharge("T-sched-meta", key, r.P.Pos(c.Pos()), "the expiry-schedule entry is removed together with the model")
				continue
			}
			// exempt when every consensus caller of f is the schedule consumer (which deletes the whole entry)
			allConsumer := true
			callers := 0
			for _, caller := range r.P.CG.In[f] {
				if !r.ConsensusFuncs()[caller] {
					continue
				}
				callers++
				if r.P.Name(caller) != consumer {
					allConsumer = false
				}
			}
			if callers > 0 && allConsumer {
				r.Discharge("T-sched-meta", key, r.P.Pos(c.Pos()), "only the schedule consumer calls this function; it removes the whole schedule entry itself")
			} else {
				r.Violate("T-sched-meta", key, r.P.Pos(c.Pos()), fmt.Sprintf("%s removes a data model without removing its ExpiredData schedule entry: when the same data id is created again, the stale entry deletes the new model at the old height", r.P.Name(f)))
			}
		}
	}
	r.Floor("removemetadata_sites", n, 2)
}

// ruleRefundBooked: a refund paid out of the market escrow for an order that stays alive (replica reduction)
// must be booked on that order: the same function lowers Order.Amount by the refunded coin and persists the
// order on every path after the payout — otherwise a later termination refunds the same money again.
func ruleRefundBooked(r *core.Run) {
	n := 0
	anchorFrames(r, func(f *ssa.Function, fr frame) {
		for _, e := range r.Eff.Own[fr.Fn] {
			if e.Kind != "bank.SendCoinsFromModuleToAccount" || len(e.Args) != 3 || e.Args[0].String() != `"market"` {
				continue
			}
			if !strings.Contains(e.Args[1].String(), fPayAddr) {
				continue // payout to the claiming provider, not an order refund
			}
			n++
			key := core.Key("T-refund-booked", r.P.Name(f), "market refund lowers Order.Amount and is persisted")
			amt := normT(fr.Sub(e.Args[2].String()))
			coin := byTypeParams(f, strings.TrimSuffix(strings.TrimPrefix(amt, "["), "]"))
			// one function (the paying one or an enclosing frame) both lowers the recorded Amount by the refunded coin
			// and persists the order after the payout on every path: a copy lowered in a helper is not what is saved
			okDelta, okSet := false, false
			fns := fr.Fns(f)
			all := frames(r, f)
			for lvl := len(fr.Chain); lvl >= 0 && !(okDelta && okSet); lvl-- {
				okDelta, okSet = false, false
				for _, fl := range all {
					if fl.Fn != fns[lvl] || len(fl.Chain) != lvl {
						continue
					}
					same := true
					for i := range fl.Chain {
						if fl.Chain[i] != fr.Chain[i] {
							same = false
						}
					}
					if !same {
						continue
					}
					for _, d := range deltasOfFrame(r, f, fl) {
						if d.Field == "order/types.Order.Amount" && d.Sign == -1 && d.Term != "" && d.Term == coin {
							okDelta = true
						}
					}
				}
				// a deeper frame that lowers the amount through a POINTER to the record changes the caller's record
				for _, fl := range all {
					if len(fl.Chain) <= lvl || len(fl.Chain) > len(fr.Chain) {
						continue
					}
					pre := true
					for i := range fl.Chain {
						if fl.Chain[i] != fr.Chain[i] {
							pre = false
						}
					}
					if !pre {
						continue
					}
					for _, d := range deltasOfFrame(r, f, fl) {
						if d.Field != "order/types.Order.Amount" || d.Sign != -1 || d.Term != coin || d.Term == "" {
							continue
						}
						root := d.Ins.Addr
						for {
							if fa, ok := root.(*ssa.FieldAddr); ok {
								root = fa.X
								continue
							}
							break
						}
						if p, ok := root.(*ssa.Parameter); ok {
							if _, isPtr := p.Type().Underlying().(*types.Pointer); isPtr {
								okDelta = true
							}
						}
					}
				}
				at := fr.At(lvl, e.Instr)
				set := blocksCalling(r, fns[lvl], fSetOrder)
				okSet = len(set) > 0 && (set[at.Block()] || forwardAvoid(at.Block(), set, nil, isReturnBlock) == nil)
			}
			if okDelta && okSet {
				r.Discharge("T-refund-booked", key, r.P.Pos(e.Instr.Pos()), "Order.Amount -= refunded coin, and SetOrder follows the payout on every path")
			} else {
				r.Violate("T-refund-booked", key, r.P.Pos(e.Instr.Pos()), fmt.Sprintf("%s pays a refund out of the market escrow but does not lower the order's recorded Amount by it and persist the order: the money can be refunded again when the order is terminated", r.P.Name(f)))
			}
		}
	})
	r.Floor("market_refund_sites", n, 1)
}

// rulePriceDuration (T-price-dur): where an order record is built with both a
// Duration and an Amount, the amount is a product that contains that very
// duration (and the record's replica count and size): the payer is charged for
// the period the order is recorded — and the providers are paid — for.
func rulePriceDuration(r *core.Run, fnNames ...string) {
	const id = "T-price-dur"
	n := 0
	for _, fnName := range fnNames {
		fn := r.Func(id, fnName)
		if fn == nil {
			continue
		}
		res := r.Resolver(fn)
		type rec struct{ dur, amt, rep, size *ssa.Store }
		recs := map[ssa.Value]*rec{}
		for _, b := range fn.Blocks {
			for _, ins := range b.Instrs {
				st, ok := ins.(*ssa.Store)
				if !ok {
					continue
				}
				fa, ok := st.Addr.(*ssa.FieldAddr)
				if !ok || shortTypeName(fa.X.Type()) != "order/types.Order" {
					continue
				}
				x := recs[fa.X]
				if x == nil {
					x = &rec{}
					recs[fa.X] = x
				}
				switch fieldNameT(fa.X.Type(), fa.Field) {
				case "Duration":
					x.dur = st
				case "Amount":
					x.amt = st
				case "Replica":
					x.rep = st
				case "Size_":
					x.size = st
				}
			}
		}
		cnt := 0
		for _, x := range recs {
			if x.dur == nil || x.amt == nil {
				continue
			}
			n++
			cnt++
			amt := normT(res.Of(x.amt.Val).String())
			for _, f := range []struct {
				name string
				st   *ssa.Store
			}{{"Duration", x.dur}} {
				if f.st == nil {
					continue
				}
				t := normT(res.Of(f.st.Val).String())
				key := core.Key(id, fnName, fmt.Sprintf("order record#%d", cnt), "amount multiplies the recorded "+f.name)
				if strings.Contains(amt, "int64("+t+")") || strings.Contains(amt, ","+t+")") {
					r.Discharge(id, key, r.P.Pos(x.amt.Pos()), "Order.Amount is a product containing the value stored as Order."+f.name)
				} else {
					r.Violate(id, key, r.P.Pos(x.amt.Pos()), fmt.Sprintf("%s builds an order whose Amount (%s) does not multiply the value recorded as Order.%s (%s): the payer is charged for a different %s than the order — and the providers' income — is recorded for, so income + refunds no longer equal the charge", fnName, shorten(amt), f.name, shorten(t), strings.ToLower(strings.TrimSuffix(f.name, "_"))))
				}
			}
		}
	}
	r.Floor("priced_order_records", n, 1)
}

// storedFields: the fields of record type typ (short name) that fn, or a helper in one of its frames, assigns.
func storedFields(r *core.Run, fn *ssa.Function, typ string) map[string]token.Pos {
	out := map[string]token.Pos{}
	seen := map[*ssa.Function]bool{}
	var fns []*ssa.Function
	var visit func(f *ssa.Function, d int)
	visit = func(f *ssa.Function, d int) {
		if f == nil || seen[f] || len(f.Blocks) == 0 || d > 3 {
			return
		}
		seen[f] = true
		fns = append(fns, f)
		// module functions that are handed a pointer to the record assign its fields on the caller's behalf
		for _, b := range f.Blocks {
			for _, ins := range b.Instrs {
				c, ok := ins.(*ssa.Call)
				if !ok {
					continue
				}
				h := c.Call.StaticCallee()
				if h == nil || h.Pkg == nil || !prog.InModule(h.Pkg.Pkg.Path()) {
					continue
				}
				for _, a := range c.Call.Args {
					if pt, isPtr := a.Type().Underlying().(*types.Pointer); isPtr && shortTypeName(pt.Elem()) == typ {
						visit(h, d+1)
					}
				}
			}
		}
	}
	for _, fr := range frames(r, fn) {
		visit(fr.Fn, 0)
	}
	for _, f := range fns {
		for _, b := range f.Blocks {
			for _, ins := range b.Instrs {
				st, ok := ins.(*ssa.Store)
				if !ok {
					continue
				}
				fa, ok := st.Addr.(*ssa.FieldAddr)
				if !ok || shortTypeName(fa.X.Type()) != typ {
					continue
				}
				f := fieldNameT(fa.X.Type(), fa.Field)
				if _, seen := out[f]; !seen {
					out[f] = st.Pos()
				}
			}
		}
	}
	return out
}

// ruleRollbackFields: fields(forward writes) ⊆ fields(rollback writes) for the record type typ.
func ruleRollbackFields(r *core.Run, id, fwdName, backName, typ string) {
	fwd := r.Func(id, fwdName)
	back := r.Func(id, backName)
	if fwd == nil || back == nil {
		return
	}
	fw := storedFields(r, fwd, typ)
	bk := storedFields(r, back, typ)
	if len(fw) == 0 || len(bk) == 0 {
		r.Undecide(id, core.Key(id, fwdName, "sites"), r.P.FuncPos(fwd), "vacuous: no field store on "+typ+" found in "+fwdName+" or "+backName)
		return
	}
	var names []string
	for f := range fw {
		names = append(names, f)
	}
	sort.Strings(names)
	for _, f := range names {
		key := core.Key(id, fwdName, typ+"."+f, "restored by "+backName)
		if _, ok := bk[f]; ok {
			r.Discharge(id, key, r.P.Pos(fw[f]), "overwritten while the update is in flight, assigned again by the rollback")
		} else {
			r.Violate(id, key, r.P.Pos(fw[f]), fmt.Sprintf("%s overwrites %s.%s of the stored data model while an update order is in flight, but %s never assigns that field: after a cancel or a timeout the model keeps the value of the order that was never stored instead of returning to its committed version", fwdName, typ, f, backName))
		}
	}
}


// ruleRetainCompleted (G-retain, C11): model.CancelOrder — which removes the order and rolls the data model back or
// deletes it — is reached only while the order is not Completed, i.e. before any shard of it was completed for a
// paid duration. The same guard as G-refund-state (C05), stated for retention.
func ruleRetainCompleted(r *core.Run, id string) {
	co := "model/keeper.Keeper.CancelOrder"
	pending := constVal(r, "order/types", "OrderPending")
	completed := constVal(r, "order/types", "OrderCompleted")
	n := 0
	perAnchor := map[*ssa.Function]int{}
	anchorFrames(r, func(f *ssa.Function, fr frame) {
		for _, c := range callsIn(r, fr.Fn, co) {
			n++
			perAnchor[f]++
			key := core.Key(id, r.P.Name(f), fmt.Sprintf("CancelOrder#%d", perAnchor[f]), "order not completed")
			site := effSite{Ins: c, Chain: fr.Chain}
			ordStatus := "*" + fGetOrder + "(*)#0.Status"
			if ok, w := mustPassDeep(r, f, site, []guard.Atom{guard.Ne(ordStatus, completed), guard.Eq(ordStatus, pending)}); ok {
				r.Discharge(id, key, r.P.Pos(c.Pos()), "the order (and its model version) is dropped only while the order is not Completed: no shard of it has been completed for a paid term")
			} else {
				r.Violate(id, key, r.P.Pos(c.Pos()), "CancelOrder (removes the order and rolls back / deletes the data model) can be reached for an order that is already Completed: shards completed for a paid, unexpired term lose their order and model before their expiry height", w...)
			}
		}
	})
	if n == 0 {
		r.Undecide(id, core.Key(id, co, "sites"), "-", "vacuous: no call site of model.CancelOrder found")
	}
}
