package rules

import (
	"fmt"
	"go/constant"
	"go/token"
	"go/types"
	"strings"

	"golang.org/x/tools/go/ssa"

	"saoverif/internal/cfgx"
	"saoverif/internal/core"
	"saoverif/internal/term"
)

// ---------------------------------------------------------------- E4: loop variants

type loopClass struct {
	Kind string // range-next | counted | iterator | shrinking-slice | none
	Why  string
}

func inLoop(l *cfgx.Loop, v ssa.Value) bool {
	ins, ok := v.(ssa.Instruction)
	if !ok {
		return false // params, consts, globals: loop-invariant
	}
	return l.Body[ins.Block()]
}

// cutsAllCycles: removing the given blocks from the loop leaves no cycle through the header.
func cutsAllCycles(l *cfgx.Loop, removed map[*ssa.BasicBlock]bool) bool {
	if removed[l.Header] {
		return true
	}
	// DFS from header successors inside loop avoiding removed; cycle iff header reachable
	seen := map[*ssa.BasicBlock]bool{}
	st := []*ssa.BasicBlock{}
	for _, s := range l.Header.Succs {
		if l.Body[s] && !removed[s] {
			st = append(st, s)
		}
	}
	for len(st) > 0 {
		b := st[len(st)-1]
		st = st[:len(st)-1]
		if b == l.Header {
			return false
		}
		if seen[b] {
			continue
		}
		seen[b] = true
		for _, s := range b.Succs {
			if l.Body[s] && !removed[s] {
				st = append(st, s)
			}
		}
	}
	return true
}

// stepOf: v == phi + c along all in-loop paths? returns sign of c (+1/-1), 0 if v==phi (no progress), 2 unknown.
func stepOf(l *cfgx.Loop, phi *ssa.Phi, v ssa.Value, depth int, vis map[ssa.Value]bool) []int {
	if depth > 12 {
		return []int{2}
	}
	if v == phi {
		return []int{0}
	}
	if vis[v] {
		return nil
	}
	vis[v] = true
	defer delete(vis, v)
	switch x := v.(type) {
	case *ssa.BinOp:
		if x.Op == token.ADD || x.Op == token.SUB {
			if c, ok := x.Y.(*ssa.Const); ok && c.Value != nil && c.Value.Kind() == constant.Int {
				sgn := constant.Sign(c.Value)
				if x.Op == token.SUB {
					sgn = -sgn
				}
				if sgn == 0 {
					return stepOf(l, phi, x.X, depth+1, vis)
				}
				inner := stepOf(l, phi, x.X, depth+1, vis)
				var out []int
				for _, s := range inner {
					switch {
					case s == 2:
						out = append(out, 2)
					case s == 0 || s == sgn:
						out = append(out, sgn)
					default:
						out = append(out, 2) // mixed directions
					}
				}
				return out
			}
		}
	case *ssa.Phi:
		if !l.Body[x.Block()] {
			return []int{2}
		}
		var out []int
		for _, e := range x.Edges {
			out = append(out, stepOf(l, phi, e, depth+1, vis)...)
		}
		return out
	case *ssa.Convert:
		return stepOf(l, phi, x.X, depth+1, vis)
	}
	return []int{2}
}

// inductionDir: header φ whose every back-edge operand is φ±c with one strict sign.
func inductionDir(l *cfgx.Loop, phi *ssa.Phi) (int, string) {
	dir := 0
	for i, e := range phi.Edges {
		pred := phi.Block().Preds[i]
		if !l.Body[pred] {
			continue // entry edge
		}
		steps := stepOf(l, phi, e, 0, map[ssa.Value]bool{})
		if len(steps) == 0 {
			return 0, "back-edge operand does not derive from the induction variable"
		}
		for _, s := range steps {
			switch s {
			case 2:
				return 0, "back-edge operand is not of the form φ±const"
			case 0:
				return 0, "a back edge carries the variable unchanged (no progress on that path)"
			default:
				if dir != 0 && dir != s {
					return 0, "the variable is incremented on one path and decremented on another"
				}
				dir = s
			}
		}
	}
	if dir == 0 {
		return 0, "no back edge updates the variable"
	}
	return dir, ""
}

// baseInduction: strip ±const and conversions from a comparison operand down to a header φ.
func baseInduction(l *cfgx.Loop, v ssa.Value) *ssa.Phi {
	for i := 0; i < 8; i++ {
		switch x := v.(type) {
		case *ssa.Phi:
			if x.Block() == l.Header {
				return x
			}
			return nil
		case *ssa.BinOp:
			if x.Op == token.ADD || x.Op == token.SUB {
				if _, ok := x.Y.(*ssa.Const); ok {
					v = x.X
					continue
				}
			}
			return nil
		case *ssa.Convert:
			v = x.X
		default:
			return nil
		}
	}
	return nil
}

// loopRes is set by classifyLoop so that invariant() can compare address terms.
var loopRes *term.Resolver
var loopMods *term.Mods

func invariant(l *cfgx.Loop, v ssa.Value, depth int) bool {
	if depth > 6 {
		return false
	}
	if !inLoop(l, v) {
		return true
	}
	switch x := v.(type) {
	case *ssa.UnOp:
		// a load is invariant when its address is invariant and nothing in the loop writes that access path
		if x.Op != token.MUL || loopRes == nil {
			return false
		}
		root := addrRoot(x.X)
		if !invariant(l, root, depth+1) {
			return false
		}
		at := loopRes.Of(x.X).String()
		for b := range l.Body {
			for _, ins := range b.Instrs {
				switch y := ins.(type) {
				case *ssa.Store:
					if loopRes.Of(y.Addr).String() == at || y.Addr == root {
						return false
					}
				case ssa.CallInstruction:
					for _, a := range y.Common().Args {
						if a == root && loopMods != nil && loopMods.CallWrites(y, a) {
							return false
						}
					}
				}
			}
		}
		return true
	case *ssa.FieldAddr:
		return invariant(l, x.X, depth+1)
	case *ssa.BinOp:
		return invariant(l, x.X, depth+1) && invariant(l, x.Y, depth+1)
	case *ssa.Convert:
		return invariant(l, x.X, depth+1)
	case *ssa.Call:
		if b, ok := x.Call.Value.(*ssa.Builtin); ok && (b.Name() == "len" || b.Name() == "cap") {
			return invariant(l, x.Call.Args[0], depth+1)
		}
	}
	return false
}

func classifyLoop(r *core.Run, f *ssa.Function, l *cfgx.Loop) loopClass {
	res := r.Resolver(f)
	loopRes, loopMods = res, r.Mods
	// exit tests: Ifs in the loop with a successor outside
	type exitIf struct {
		b       *ssa.BasicBlock
		iff     *ssa.If
		exitIdx int
	}
	var exits []exitIf
	for b := range l.Body {
		if iff := cfgx.IfOf(b); iff != nil && len(b.Succs) == 2 {
			for i, s := range b.Succs {
				if !l.Body[s] {
					exits = append(exits, exitIf{b, iff, i})
				}
			}
		}
	}
	var reasons []string
	for _, ex := range exits {
		if !cutsAllCycles(l, map[*ssa.BasicBlock]bool{ex.b: true}) {
			reasons = append(reasons, fmt.Sprintf("exit test at %s is not on every cycle", r.P.Pos(ex.iff.Cond.Pos())))
			continue
		}
		cond := ex.iff.Cond
		// (a) range over map/string: ok = extract(next, 0)
		if e, ok := cond.(*ssa.Extract); ok && e.Index == 0 {
			if _, ok := e.Tuple.(*ssa.Next); ok {
				return loopClass{"range-next", "range over map/string: the iterator is finite"}
			}
		}
		// (b) store iterator: Valid() exit, Next() on every cycle
		if c, ok := cond.(*ssa.Call); ok && c.Call.IsInvoke() && c.Call.Method.Name() == "Valid" {
			it := c.Call.Value
			nextBlocks := map[*ssa.BasicBlock]bool{}
			for b := range l.Body {
				for _, ins := range b.Instrs {
					if cc, ok := ins.(ssa.CallInstruction); ok && cc.Common().IsInvoke() && cc.Common().Method.Name() == "Next" && cc.Common().Value == it {
						nextBlocks[b] = true
					}
				}
			}
			if len(nextBlocks) > 0 && cutsAllCycles(l, nextBlocks) {
				return loopClass{"iterator", "store iterator: exit on !Valid(), every cycle passes Next() on the same iterator"}
			}
			reasons = append(reasons, "iterator loop in which some cycle does not call Next()")
			continue
		}
		// (c) counted: compare induction expression with loop-invariant bound
		if bo, ok := cond.(*ssa.BinOp); ok {
			for side := 0; side < 2; side++ {
				iv, bound := bo.X, bo.Y
				op := bo.Op
				if side == 1 {
					iv, bound = bo.Y, bo.X
					switch op {
					case token.LSS:
						op = token.GTR
					case token.GTR:
						op = token.LSS
					case token.LEQ:
						op = token.GEQ
					case token.GEQ:
						op = token.LEQ
					}
				}
				phi := baseInduction(l, iv)
				if phi == nil {
					continue
				}
				if !invariant(l, bound, 0) {
					// an upward count against the length of a list that the loop only ever shortens (elements
					// spliced out, reslices): the distance still shrinks on every cycle
					if d, _ := inductionDir(l, phi); d > 0 && nonIncreasingLen(l, bound) {
						cont := op
						if ex.exitIdx == 0 {
							switch op {
							case token.GEQ:
								cont = token.LSS
							case token.GTR:
								cont = token.LEQ
							default:
								cont = token.ILLEGAL
							}
						}
						if cont == token.LSS || cont == token.LEQ {
							return loopClass{"counted-shrinking", "induction variable moves up by a constant on every back edge and the loop continues only while it is below the length of a list that the loop never lengthens"}
						}
					}
					reasons = append(reasons, fmt.Sprintf("%s: the bound is not loop-invariant", res.Of(cond)))
					continue
				}
				dir, why := inductionDir(l, phi)
				if dir == 0 {
					reasons = append(reasons, fmt.Sprintf("%s: %s", res.Of(cond), why))
					continue
				}
				// continuing condition: cond true continues when exit is the false edge
				contOp := op
				if ex.exitIdx == 0 { // exit on true: continue on negation
					switch op {
					case token.LSS:
						contOp = token.GEQ
					case token.LEQ:
						contOp = token.GTR
					case token.GTR:
						contOp = token.LEQ
					case token.GEQ:
						contOp = token.LSS
					case token.EQL:
						contOp = token.NEQ
					case token.NEQ:
						contOp = token.EQL
					}
				}
				okDir := (dir > 0 && (contOp == token.LSS || contOp == token.LEQ)) || (dir < 0 && (contOp == token.GTR || contOp == token.GEQ))
				if okDir {
					return loopClass{"counted", fmt.Sprintf("induction variable moves by a constant of one sign on every back edge and the loop continues only while it is %s a loop-invariant bound", contOp)}
				}
				reasons = append(reasons, fmt.Sprintf("%s: the test does not bound the direction in which the variable moves (continues while %s, step sign %+d)", res.Of(cond), contOp, dir))
			}
		}
		// (d) shrinking slice held in memory: exit when len(*addr)==0, every cycle stores a strict reslice of its own load
		if ok, why := shrinkingSlice(r, f, l, ex.b, ex.iff, ex.exitIdx); ok {
			return loopClass{"shrinking-slice", why}
		} else if why != "" {
			reasons = append(reasons, why)
		}
	}
	if len(exits) == 0 {
		reasons = append(reasons, "no conditional exit inside the loop")
	}
	return loopClass{"none", strings.Join(dedupe(reasons), "; ")}
}

// nonIncreasingLen: bound is len(L) where L, inside the loop, is only ever itself, its value from before the loop, a
// reslice of itself, or itself with a stretch spliced out (append(L[:a], L[b:]...) with b = a or a + non-negative
// constant).
func nonIncreasingLen(l *cfgx.Loop, bound ssa.Value) bool {
	c, ok := bound.(*ssa.Call)
	if !ok || len(c.Call.Args) != 1 {
		return false
	}
	if b, ok := c.Call.Value.(*ssa.Builtin); !ok || b.Name() != "len" {
		return false
	}
	web := map[ssa.Value]bool{}
	var okAll = true
	var visit func(v ssa.Value, d int)
	visit = func(v ssa.Value, d int) {
		if web[v] || !okAll {
			return
		}
		if d > 12 {
			okAll = false
			return
		}
		if !inLoop(l, v) {
			return // value from before the loop
		}
		web[v] = true
		switch x := v.(type) {
		case *ssa.Phi:
			for _, e := range x.Edges {
				visit(e, d+1)
			}
		case *ssa.Slice:
			if _, isSl := x.X.Type().Underlying().(*types.Slice); !isSl {
				okAll = false
				return
			}
			visit(x.X, d+1)
		case *ssa.Call:
			bi, isB := x.Call.Value.(*ssa.Builtin)
			if !isB || bi.Name() != "append" || len(x.Call.Args) != 2 {
				okAll = false
				return
			}
			s1, ok1 := x.Call.Args[0].(*ssa.Slice)
			s2, ok2 := x.Call.Args[1].(*ssa.Slice)
			if !ok1 || !ok2 || s1.Low != nil || s1.High == nil || s2.High != nil || s2.Low == nil || s1.X != s2.X {
				okAll = false
				return
			}
			a, b := s1.High, s2.Low
			fine := a == b
			if bo, isBo := b.(*ssa.BinOp); isBo && bo.Op == token.ADD {
				if k, isK := bo.Y.(*ssa.Const); isK && bo.X == a && k.Value != nil && constant.Sign(k.Value) >= 0 {
					fine = true
				}
				if k, isK := bo.X.(*ssa.Const); isK && bo.Y == a && k.Value != nil && constant.Sign(k.Value) >= 0 {
					fine = true
				}
			}
			if !fine {
				okAll = false
				return
			}
			visit(s1.X, d+1)
		default:
			okAll = false
		}
	}
	visit(c.Call.Args[0], 0)
	return okAll
}

func dedupe(xs []string) []string {
	seen := map[string]bool{}
	var out []string
	for _, x := range xs {
		if !seen[x] {
			seen[x] = true
			out = append(out, x)
		}
	}
	return out
}

// shrinkingSlice recognises: for { if len(S)==0 {break}; ...; S = S[:len(S)-1] } with S held in a field of a local.
func shrinkingSlice(r *core.Run, f *ssa.Function, l *cfgx.Loop, tb *ssa.BasicBlock, iff *ssa.If, exitIdx int) (bool, string) {
	bo, ok := iff.Cond.(*ssa.BinOp)
	if !ok {
		return false, ""
	}
	var lenCall *ssa.Call
	var other ssa.Value
	if c, ok := bo.X.(*ssa.Call); ok {
		lenCall, other = c, bo.Y
	} else if c, ok := bo.Y.(*ssa.Call); ok {
		lenCall, other = c, bo.X
	}
	if lenCall == nil {
		return false, ""
	}
	if b, ok := lenCall.Call.Value.(*ssa.Builtin); !ok || b.Name() != "len" {
		return false, ""
	}
	k, ok := other.(*ssa.Const)
	if !ok || k.Value == nil || constant.Sign(k.Value) != 0 {
		return false, ""
	}
	// exit must be taken when len == 0
	exitsOnEmpty := (bo.Op == token.EQL && exitIdx == 0) || (bo.Op == token.NEQ && exitIdx == 1) || (bo.Op == token.GTR && exitIdx == 1) || (bo.Op == token.LEQ && exitIdx == 0)
	if !exitsOnEmpty {
		return false, ""
	}
	ld, ok := lenCall.Call.Args[0].(*ssa.UnOp)
	if !ok || ld.Op != token.MUL {
		return false, "emptiness test on a value that is not held in a variable"
	}
	addrT := r.Resolver(f).Of(ld.X).String()
	shr := map[*ssa.BasicBlock]bool{}
	for b := range l.Body {
		for _, ins := range b.Instrs {
			switch x := ins.(type) {
			case *ssa.Store:
				if r.Resolver(f).Of(x.Addr).String() != addrT {
					continue
				}
				sl, ok := x.Val.(*ssa.Slice)
				if !ok {
					return false, fmt.Sprintf("slice %s is assigned something other than a reslice inside the loop (%s)", addrT, r.P.Pos(x.Pos()))
				}
				src, ok := sl.X.(*ssa.UnOp)
				if !ok || r.Resolver(f).Of(src.X).String() != addrT {
					return false, fmt.Sprintf("slice %s is assigned a reslice of a different value", addrT)
				}
				strict := false
				if sl.Low != nil {
					if c, ok := sl.Low.(*ssa.Const); ok && c.Value != nil && constant.Sign(c.Value) > 0 {
						strict = true
					}
				}
				if sl.High != nil {
					if hb, ok := sl.High.(*ssa.BinOp); ok && hb.Op == token.SUB {
						if c, ok := hb.Y.(*ssa.Const); ok && c.Value != nil && constant.Sign(c.Value) > 0 {
							if hc, ok := hb.X.(*ssa.Call); ok {
								if bi, ok := hc.Call.Value.(*ssa.Builtin); ok && bi.Name() == "len" {
									strict = true
								}
							}
						}
					}
				}
				if !strict {
					return false, fmt.Sprintf("reslice of %s is not strictly shorter", addrT)
				}
				shr[b] = true
			case ssa.CallInstruction:
				// the variable must not be written by a callee inside the loop
				root := addrRoot(ld.X)
				for _, a := range x.Common().Args {
					if a == root || a == ld.X {
						if r.Mods.CallWrites(x, a) {
							return false, fmt.Sprintf("%s escapes to a callee that may write it inside the loop", addrT)
						}
					}
				}
			}
		}
	}
	if len(shr) == 0 {
		return false, ""
	}
	if !cutsAllCycles(l, shr) {
		return false, fmt.Sprintf("some cycle does not shorten %s", addrT)
	}
	return true, fmt.Sprintf("slice %s is strictly shortened on every cycle and the loop exits when it is empty", addrT)
}

// ruleL1: every loop of every consensus-reachable hand-written function has a variant; no recursion.
func ruleL1(r *core.Run) {
	scope := e5Scope(r)
	counts := map[string]int{}
	total := 0
	for _, f := range scope {
		if cfgx.HasIrreducible(f) {
			r.Undecide("L1", core.Key("L1", r.KeyName(f), "irreducible"), r.P.FuncPos(f), "irreducible control flow: loops cannot be classified")
			continue
		}
		loops := cfgx.Loops(f)
		for i, l := range loops {
			total++
			cl := classifyLoop(r, f, l)
			counts[cl.Kind]++
			key := core.Key("L1", r.KeyName(f), fmt.Sprintf("loop#%d", i+1))
			pos := r.P.Pos(lastPos(l.Header))
			if cl.Kind == "none" {
				r.Violate("L1", key, pos, "loop without a recognised termination variant: "+cl.Why+" — no gas is consumed inside, so neither DeliverTx nor Begin/EndBlock bounds it")
			} else {
				r.Discharge("L1", key, pos, cl.Kind+": "+cl.Why)
			}
		}
	}
	for k, v := range counts {
		r.Count("loops_"+k, v)
	}
	r.Floor("loops_total", total, 70)
	r.Floor("loops_iterator", counts["iterator"], 5)
	r.Floor("loops_counted", counts["counted"], 40)
	// recursion among consensus-reachable hand-written functions
	inScope := map[*ssa.Function]bool{}
	for _, f := range scope {
		inScope[f] = true
	}
	nrec := 0
	for _, f := range scope {
		// f reaches itself through scope functions?
		seen := map[*ssa.Function]bool{}
		st := []*ssa.Function{}
		for _, c := range r.P.CG.Out[f] {
			if inScope[c] {
				st = append(st, c)
			}
		}
		rec := false
		for len(st) > 0 && !rec {
			x := st[len(st)-1]
			st = st[:len(st)-1]
			if x == f {
				rec = true
				break
			}
			if seen[x] {
				continue
			}
			seen[x] = true
			for _, c := range r.P.CG.Out[x] {
				if inScope[c] {
					st = append(st, c)
				}
			}
		}
		if rec {
			nrec++
			r.Violate("L1-rec", core.Key("L1-rec", r.KeyName(f)), r.P.FuncPos(f), "function takes part in a call cycle (recursion) on a consensus path: no variant is recognised for recursion")
		}
	}
	r.Discharge("L1-rec", "L1-rec|scope", "", fmt.Sprintf("%d functions checked for call cycles, %d recursive", len(scope), nrec))
}

var _ = types.Typ
var _ = term.AllFields

// ruleSpliceSkip (T-splice-skip): a loop that counts an index up by one and, at that index, splices the element out
// of the list (list = append(list[:i], list[i+1:]...)) and then carries on with i+1 never looks at the element that
// moved into slot i: of two neighbouring matches the second one stays in the list. Accepted forms: leave the loop
// after the splice (one match at most), step the index back, count downwards, or build a new list.
func ruleSpliceSkip(r *core.Run, id string, pkgPrefixes ...string) {
	n := 0
	for _, f := range r.P.SortedFuncs(r.ConsensusFuncs()) {
		if r.P.IsGenerated(f) || len(f.Blocks) == 0 {
			continue
		}
		name := r.P.Name(f)
		in := false
		for _, p := range pkgPrefixes {
			if strings.HasPrefix(name, p) {
				in = true
			}
		}
		if !in {
			continue
		}
		for li, l := range cfgx.Loops(f) {
			n++
			for b := range l.Body {
				for _, ins := range b.Instrs {
					c, ok := ins.(*ssa.Call)
					if !ok || len(c.Call.Args) != 2 {
						continue
					}
					if bi, isB := c.Call.Value.(*ssa.Builtin); !isB || bi.Name() != "append" {
						continue
					}
					s1, ok1 := c.Call.Args[0].(*ssa.Slice)
					s2, ok2 := c.Call.Args[1].(*ssa.Slice)
					if !ok1 || !ok2 || s1.Low != nil || s1.High == nil || s2.High != nil || s2.Low == nil || s1.X != s2.X {
						continue
					}
					phi, isPhi := s1.High.(*ssa.Phi)
					if !isPhi || phi.Block() != l.Header {
						continue
					}
					lo, isBo := s2.Low.(*ssa.BinOp)
					if !isBo || lo.Op != token.ADD || lo.X != ssa.Value(phi) {
						continue
					}
					// the index is stepped by +1 from its own value on every back edge (no path steps it back)
					plain := true
					nBack := 0
					for pi, e := range phi.Edges {
						if !l.Body[phi.Block().Preds[pi]] {
							continue
						}
						nBack++
						inc, isInc := e.(*ssa.BinOp)
						if !isInc || inc.Op != token.ADD || inc.X != ssa.Value(phi) {
							plain = false
							continue
						}
						if k, isK := inc.Y.(*ssa.Const); !isK || k.Value == nil || constant.Sign(k.Value) <= 0 {
							plain = false
						}
					}
					if !plain || nBack == 0 {
						continue
					}
					// does the loop go on after the splice?
					seen := map[*ssa.BasicBlock]bool{b: true}
					q := []*ssa.BasicBlock{b}
					goesOn := false
					for len(q) > 0 && !goesOn {
						x := q[0]
						q = q[1:]
						for _, sc := range x.Succs {
							if sc == l.Header {
								goesOn = true
							}
							if l.Body[sc] && !seen[sc] && sc != l.Header {
								seen[sc] = true
								q = append(q, sc)
							}
						}
					}
					key := core.Key(id, r.KeyName(f), fmt.Sprintf("loop#%d splice", li+1))
					if goesOn {
						r.Violate(id, key, r.P.Pos(c.Pos()), "the loop splices the element at its index out of the list and carries on with index+1: the element that moved into the freed slot is never examined, so of two neighbouring matches the second stays in the list (records removed elsewhere for it leave the list and the tables disagreeing)")
					} else {
						r.Discharge(id, key, r.P.Pos(c.Pos()), "the loop is left right after the splice")
					}
				}
			}
		}
	}
	r.Floor("splice_skip_loops_scanned_"+id, n, 3)
}
