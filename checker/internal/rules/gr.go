package rules

import (
	"fmt"
	"go/constant"
	"go/token"
	"go/types"
	"regexp"
	"strings"

	"golang.org/x/tools/go/ssa"

	"saoverif/internal/cfgx"
	"saoverif/internal/core"
	"saoverif/internal/guard"
	"saoverif/internal/prog"
	"saoverif/internal/term"
)

// ---------------------------------------------------------------- guard rules (E2 rows)

type clause struct {
	Name  string
	Atoms []guard.Atom
}

func cl(name string, atoms ...guard.Atom) clause { return clause{name, atoms} }

type effSel struct {
	Calls     []string // canonical callee names
	AllWrites bool     // every call whose callee (transitively) writes a store, moves coins or emits nothing-but-state
	Stores    []string // globs over the address term of Store instructions
	StoreVal  string   // when set: only stores of exactly this value term
	Returns   string   // "success": return instructions whose error result may be nil
}

type effSite struct {
	Ins  ssa.Instruction
	Slot string
	// Chain: when the effect lies inside transparent helpers (functions outside the rule vocabulary, typically
	// extracted from the anchor function): the call instructions leading from the anchor function down to the
	// function that holds Ins (outermost first). Empty for an effect in the anchor function itself.
	Chain []ssa.CallInstruction
}

// frameChecker builds the guard checker for the function holding a (possibly nested) site, with the helper's
// parameters expressed in the vocabulary of the anchor function.
func frameChecker(r *core.Run, anchor *ssa.Function, chain []ssa.CallInstruction, upto int) *guard.Checker {
	fn := anchor
	ck := &guard.Checker{P: r.P, Fn: fn, Res: r.Resolver(fn)}
	var subst []string
	for i := 0; i < upto; i++ {
		call := chain[i]
		h := call.Common().StaticCallee()
		if h == nil {
			break
		}
		res := r.Resolver(fn)
		ns := make([]string, len(h.Params))
		for j, a := range call.Common().Args {
			if j < len(ns) {
				t := normT(res.Of(a).String())
				if len(subst) > 0 {
					t = guard.SubstParams(t, subst)
				}
				ns[j] = t
			}
		}
		var free map[string]string
		if mc, ok := call.Common().Value.(*ssa.MakeClosure); ok {
			free = map[string]string{}
			for j, fv := range h.FreeVars {
				if j < len(mc.Bindings) {
					free[fv.Name()] = strings.TrimPrefix(strings.TrimPrefix(ck.T(mc.Bindings[j]), "~"), "&")
				}
			}
		}
		subst = ns
		fn = h
		ck = &guard.Checker{P: r.P, Fn: fn, Res: r.Resolver(fn), Subst: subst, ArgVals: call.Common().Args, Parent: ck, FreeSubst: free}
	}
	return ck
}

// mustPassDeep: the clause holds at the site if it is established on every path to the site inside the function
// that holds it, or on every path to the call that leads there in one of the enclosing frames.
func mustPassDeep(r *core.Run, anchor *ssa.Function, s effSite, atoms []guard.Atom) (bool, []string) {
	var firstW []string
	for lvl := len(s.Chain); lvl >= 0; lvl-- {
		ck := frameChecker(r, anchor, s.Chain, lvl)
		var blk *ssa.BasicBlock
		if lvl == len(s.Chain) {
			blk = s.Ins.Block()
		} else {
			blk = s.Chain[lvl].Block()
		}
		ok, w := ck.MustPass(blk, atoms)
		if ok {
			return true, nil
		}
		if firstW == nil {
			firstW = w
		}
	}
	return false, firstW
}

// veiled: the effect site is dominated (in the function that holds it or in an enclosing frame) by a branch whose
// outcome is computed by calling function VALUES that are not known statically — a table of predicates, a check
// stored in a field or a slice, a callback that is not a literal at the call under analysis. The guard search cannot
// see which comparisons such a branch stands for. Returns a description, or "" when nothing of the kind dominates.
func veiled(r *core.Run, anchor *ssa.Function, s effSite) string {
	fns := []*ssa.Function{anchor}
	for _, c := range s.Chain {
		if h := c.Common().StaticCallee(); h != nil {
			fns = append(fns, h)
		}
	}
	// dynamicIn: fn (or a helper outside the vocabulary under it) calls a function value that is neither one of its
	// own parameters (resolved at the call site when a closure is passed) nor a literal
	var dynamicIn func(fn *ssa.Function, depth int, seen map[*ssa.Function]bool) string
	dynamicIn = func(fn *ssa.Function, depth int, seen map[*ssa.Function]bool) string {
		if seen[fn] || depth > 3 {
			return ""
		}
		seen[fn] = true
		for _, b := range fn.Blocks {
			for _, ins := range b.Instrs {
				c, ok := ins.(ssa.CallInstruction)
				if !ok || c.Common().IsInvoke() {
					continue
				}
				switch v := c.Common().Value.(type) {
				case *ssa.Function:
					if r.P.Transparent(v) {
						if w := dynamicIn(v, depth+1, seen); w != "" {
							return w
						}
					}
				case *ssa.Builtin, *ssa.MakeClosure:
				case *ssa.Parameter:
					// a callback parameter: fine when every caller passes a literal; treated as resolvable
				default:
					if _, isSig := v.Type().Underlying().(*types.Signature); isSig && !isGlobalFuncVar(v) {
						return "a call of a function value (" + r.P.Pos(c.Pos()) + ") taken from a variable, field or slice"
					}
				}
			}
		}
		return ""
	}
	for lvl := len(fns) - 1; lvl >= 0; lvl-- {
		var at *ssa.BasicBlock
		if lvl == len(s.Chain) {
			at = s.Ins.Block()
		} else if lvl < len(s.Chain) {
			at = s.Chain[lvl].Block()
		}
		for d := at; d != nil; d = d.Idom() {
			iff := cfgx.IfOf(d)
			if iff == nil || d == at {
				continue // the site's own block decides nothing about reaching the site
			}
			v := iff.Cond
			for {
				if u, ok := v.(*ssa.UnOp); ok && u.Op == token.NOT {
					v = u.X
					continue
				}
				break
			}
			var call *ssa.Call
			switch x := v.(type) {
			case *ssa.Call:
				call = x
			case *ssa.Extract:
				call, _ = x.Tuple.(*ssa.Call)
			case *ssa.BinOp:
				if c1, ok := x.X.(*ssa.Call); ok {
					call = c1
				} else if e1, ok := x.X.(*ssa.Extract); ok {
					call, _ = e1.Tuple.(*ssa.Call)
				}
			}
			if call == nil || call.Call.IsInvoke() {
				continue
			}
			switch cv := call.Call.Value.(type) {
			case *ssa.Function:
				if r.P.Transparent(cv) {
					if w := dynamicIn(cv, 0, map[*ssa.Function]bool{}); w != "" {
						return "the branch at " + r.P.Pos(iff.Pos()) + " is decided by " + r.P.Name(cv) + ", which makes " + w
					}
				}
			case *ssa.Builtin, *ssa.MakeClosure, *ssa.Parameter:
			default:
				if _, isSig := cv.Type().Underlying().(*types.Signature); isSig && !isGlobalFuncVar(cv) {
					return "the branch at " + r.P.Pos(iff.Pos()) + " is decided by a call of a function value taken from a variable, field or slice"
				}
			}
		}
	}
	return ""
}

// isGlobalFuncVar: a package-level variable of function type (sdkerrors.Wrapf and the like): in effect a static callee.
func isGlobalFuncVar(v ssa.Value) bool {
	if u, ok := v.(*ssa.UnOp); ok {
		_, isG := u.X.(*ssa.Global)
		return isG
	}
	return false
}

// selectEffects finds the effect instructions of a rule inside fn.
func selectEffects(r *core.Run, fn *ssa.Function, sel effSel) []effSite {
	cnt := map[string]int{}
	return selectEffectsIn(r, fn, sel, nil, cnt, 0)
}

func selectEffectsIn(r *core.Run, fn *ssa.Function, sel effSel, chain []ssa.CallInstruction, cnt map[string]int, depth int) []effSite {
	res := r.Resolver(fn)
	var out []effSite
	add := func(ins ssa.Instruction, slot string) {
		cnt[slot]++
		if cnt[slot] > 1 {
			slot = fmt.Sprintf("%s#%d", slot, cnt[slot])
		}
		out = append(out, effSite{Ins: ins, Slot: slot, Chain: append([]ssa.CallInstruction{}, chain...)})
	}
	// a call of a transparent helper is not an effect by name: its own effects are (in the caller's context)
	descend := func(x ssa.CallInstruction) bool {
		h := x.Common().StaticCallee()
		if h == nil || depth >= 3 || !r.P.Transparent(h) || h == fn {
			return false
		}
		out = append(out, selectEffectsIn(r, h, sel, append(append([]ssa.CallInstruction{}, chain...), x), cnt, depth+1)...)
		return true
	}
	want := set(sel.Calls...)
	var storeGlobs []interface{ MatchString(string) bool }
	for _, g := range sel.Stores {
		storeGlobs = append(storeGlobs, guard.Glob(g))
	}
	for _, b := range fn.Blocks {
		for _, ins := range b.Instrs {
			switch x := ins.(type) {
			case ssa.CallInstruction:
				name, callees := term.CalleeName(r.P, x.Common())
				if want[name] {
					add(ins, "call "+name)
					continue
				}
				if descend(x) {
					continue
				}
				if sel.AllWrites {
					if len(callees) > 0 && hasWrites(r, callees) {
						add(ins, "call "+name)
					} else if len(callees) == 0 {
						for _, e := range r.Eff.Own[fn] {
							if e.Instr == x && (e.IsWrite() || strings.HasPrefix(e.Kind, "bank.")) {
								add(ins, e.Kind)
							}
						}
					}
				}
			case *ssa.Store:
				if len(storeGlobs) > 0 {
					at := res.Of(x.Addr).String()
					// a selector of the form "type:pkg/types.T.Field" picks the stores by the field's type path,
					// whatever the record variable is called or wherever it was built
					tp := "type:" + fieldPath(x.Addr)
					for _, g := range storeGlobs {
						if (g.MatchString(at) || g.MatchString(tp)) && (sel.StoreVal == "" || res.Of(x.Val).String() == sel.StoreVal) {
							slot := "store " + normT(at)
							if sel.StoreVal != "" {
								slot += " := " + sel.StoreVal
							}
							add(ins, slot)
						}
					}
				}
			case *ssa.Return:
				if sel.Returns == "success" && mayReturnNilError(x) {
					add(ins, "success-return")
				}
			}
		}
	}
	return out
}

// mayReturnNilError: the last result is of type error and is not a definitely non-nil value.
func mayReturnNilError(ret *ssa.Return) bool {
	if len(ret.Results) == 0 {
		return true
	}
	last := ret.Results[len(ret.Results)-1]
	if !isErrorType(last.Type()) {
		return true
	}
	return !definitelyNonNil(last, 0)
}

func isErrorType(t types.Type) bool {
	n, ok := t.(*types.Named)
	return ok && n.Obj().Pkg() == nil && n.Obj().Name() == "error"
}

// definitelyNonNil: error values produced by constructors (Wrap/Wrapf/Errorf/New, package-level Err* vars).
func definitelyNonNil(v ssa.Value, d int) bool {
	if d > 4 {
		return false
	}
	switch x := v.(type) {
	case *ssa.Const:
		return x.Value != nil
	case *ssa.Call:
		if sc := x.Call.StaticCallee(); sc != nil {
			n := sc.Name()
			if n == "Errorf" || n == "New" || n == "Error" || n == "Wrap" || n == "Wrapf" {
				// Wrap(nil, ..) returns nil: only with a definitely non-nil first argument
				if (n == "Wrap" || n == "Wrapf") && len(x.Call.Args) > 0 {
					return definitelyNonNil(x.Call.Args[0], d+1)
				}
				return true
			}
		}
		// call through a package-level func var (sdkerrors.Wrapf): same
		if u, ok := x.Call.Value.(*ssa.UnOp); ok {
			if g, ok := u.X.(*ssa.Global); ok && (g.Name() == "Wrap" || g.Name() == "Wrapf") && len(x.Call.Args) > 0 {
				return definitelyNonNil(x.Call.Args[0], d+1)
			}
		}
	case *ssa.UnOp:
		if g, ok := x.X.(*ssa.Global); ok && strings.HasPrefix(g.Name(), "Err") {
			return true
		}
	case *ssa.MakeInterface:
		return true
	case *ssa.ChangeInterface:
		return definitelyNonNil(x.X, d+1)
	}
	return false
}

// evalGuard evaluates one guard row. min is the instance floor for effect sites.
func evalGuard(r *core.Run, id, fnName string, sel effSel, clauses []clause, min int) {
	fn := r.Func(id, fnName)
	if fn == nil {
		return
	}
	sites := selectEffects(r, fn, sel)
	if len(sites) < min && !(r.HasTransparent() && len(sites) > 0) {
		r.Undecide(id, core.Key(id, fnName, "effects"), r.P.FuncPos(fn), fmt.Sprintf("vacuous: rule expects at least %d effect sites in %s, found %d (callee renamed or effect removed): the rule cannot be evaluated", min, fnName, len(sites)))
		return
	}
	for _, s := range sites {
		for _, c := range clauses {
			key := core.Key(id, fnName, s.Slot, c.Name)
			ok, w := mustPassDeep(r, fn, s, c.Atoms)
			var ds []string
			for _, a := range c.Atoms {
				ds = append(ds, a.Desc)
			}
			req := strings.Join(ds, "  OR  ")
			if ok {
				r.Discharge(id, key, r.P.Pos(s.Ins.Pos()), "every path from the entry of "+fnName+" to this effect passes: "+req)
			} else if len(w) == 1 && w[0] == guard.StateBound {
				r.Undecide(id, key, r.P.Pos(s.Ins.Pos()), "abstract-state bound exceeded while searching for a bypass path")
			} else if why := veiled(r, fn, s); why != "" {
				r.Undecide(id, key, r.P.Pos(s.Ins.Pos()), "not decided: "+why+" — the comparisons that may establish `"+c.Name+"` are reached through function values the analysis cannot resolve; this is neither a pass nor a violation")
			} else {
				r.Violate(id, key, r.P.Pos(s.Ins.Pos()), fmt.Sprintf("%s reaches `%s` on a path that does not establish %s: required one of: %s", fnName, s.Slot, c.Name, req), append([]string{"bypass path (branch decisions):"}, w...)...)
			}
		}
	}
	r.Count("guard_sites_"+id, len(sites))
}

// constVal resolves a named constant of a module package to its literal as it appears in terms.
func constVal(r *core.Run, pkg, name string) string {
	pk := r.P.PkgByID[prog.ModulePath+"/x/"+pkg]
	if pk != nil {
		if c, ok := pk.Types.Scope().Lookup(name).(*types.Const); ok {
			if c.Val().Kind() == constant.String {
				return fmt.Sprintf("%q", constant.StringVal(c.Val()))
			}
			return c.Val().ExactString()
		}
	}
	r.Undecide("anchor", core.Key("anchor", "const", pkg+"."+name), "", "unresolved anchor: constant "+pkg+"."+name+" not found")
	return "<unresolved:" + name + ">"
}

// ---------------------------------------------------------------- argument provenance rows (E7)

// evalArg: every call of callee inside fn passes, at argument position idx
// (counted over non-context, non-stateless-receiver arguments as they appear
// in terms), a term matching one of the allowed globs.
func evalArg(r *core.Run, id, fnName, callee string, idx int, allowed []string, what string, min int) {
	fn := r.Func(id, fnName)
	if fn == nil {
		return
	}
	res := r.Resolver(fn)
	n := 0
	for _, b := range fn.Blocks {
		for _, ins := range b.Instrs {
			c, ok := ins.(ssa.CallInstruction)
			if !ok {
				continue
			}
			name, _ := term.CalleeName(r.P, c.Common())
			if name != callee {
				continue
			}
			n++
			var t *term.Term
			if v, ok := ins.(*ssa.Call); ok {
				t = res.Of(v)
			}
			slot := fmt.Sprintf("%s arg%d", callee, idx)
			if n > 1 {
				slot += fmt.Sprintf("#%d", n)
			}
			key := core.Key(id, fnName, slot)
			if t == nil || idx >= len(t.Args) {
				r.Undecide(id, key, r.P.Pos(ins.Pos()), "call has no argument "+fmt.Sprint(idx)+" in term form")
				continue
			}
			at := t.Args[idx].String()
			ok2 := false
			for _, g := range allowed {
				if guard.Glob(g).MatchString(at) {
					ok2 = true
				}
			}
			if ok2 {
				r.Discharge(id, key, r.P.Pos(ins.Pos()), what+": argument is "+at)
			} else {
				r.Violate(id, key, r.P.Pos(ins.Pos()), fmt.Sprintf("%s: %s passes %s to %s, allowed: %s", what, fnName, at, callee, strings.Join(allowed, " | ")))
			}
		}
	}
	if n < min {
		r.Undecide(id, core.Key(id, fnName, callee, "sites"), r.P.FuncPos(fn), fmt.Sprintf("vacuous: expected at least %d calls of %s in %s, found %d", min, callee, fnName, n))
	}
}

func normT(s string) string {
	return strings.NewReplacer("~", "", "&", "").Replace(s)
}

// evalArgAll: like evalArg without a floor; terms are normalised (memory markers removed).
func evalArgAll(r *core.Run, id, fnName, callee string, idx int, allowed []string, what string) {
	fn := r.Func(id, fnName)
	if fn == nil {
		return
	}
	n := 0
	// calls in helpers outside the vocabulary are judged too, their arguments expressed in fn's vocabulary
	for _, dc := range deepCalls(r, fn, callee) {
		ins := dc.Call
		n++
		r.Count("arg_sites_"+id, 1)
		slot := fmt.Sprintf("%s arg%d", callee, idx)
		if n > 1 {
			slot += fmt.Sprintf("#%d", n)
		}
		key := core.Key(id, fnName, slot)
		args := dc.ArgTerms(r)
		if idx >= len(args) {
			r.Undecide(id, key, r.P.Pos(ins.Pos()), "call has no argument "+fmt.Sprint(idx)+" in term form")
			continue
		}
		at := args[idx]
		ok2 := false
		for _, g := range allowed {
			re := guard.Glob(normT(g))
			// a record handed back by a lookup helper that yields the zero value on failure: phi(nil|X) is X
			if re.MatchString(at) || re.MatchString(guard.DropNilPhi(at)) {
				ok2 = true
			}
		}
		if ok2 {
			r.Discharge(id, key, r.P.Pos(ins.Pos()), what+": argument is "+at)
		} else {
			r.Violate(id, key, r.P.Pos(ins.Pos()), fmt.Sprintf("%s: %s passes %s to %s, allowed: %s", what, fnName, at, callee, strings.Join(allowed, " | ")))
		}
	}
}

// callTerm: the term of a call instruction (also for defer/go, whose value is not an ssa.Value).
func callTerm(res *term.Resolver, c ssa.CallInstruction) *term.Term {
	if v, ok := c.(*ssa.Call); ok {
		return res.Of(v)
	}
	return nil
}

// evalStoreConst: guard row whose effect is "field := constant".
func evalStoreConst(r *core.Run, id, fnName, addrGlob, val string, clauses []clause) {
	evalGuard(r, id, fnName, effSel{Stores: []string{addrGlob}, StoreVal: val}, clauses, 1)
}

// shortTypeName: "model/types.Metadata" for a (pointer to) named type.
func shortTypeName(t types.Type) string {
	for {
		if p, ok := t.(*types.Pointer); ok {
			t = p.Elem()
			continue
		}
		break
	}
	if n, ok := t.(*types.Named); ok && n.Obj().Pkg() != nil {
		return prog.Short(n.Obj().Pkg().Path()) + "." + n.Obj().Name()
	}
	return t.String()
}

// evalStoreVal: every store to field typeDotField ("model/types.Metadata.Owner") of a
// local record inside fn assigns a value whose term is among allowed.
func evalStoreVal(r *core.Run, id, fnName, typeDotField string, allowed []string, what string) {
	fn := r.Func(id, fnName)
	if fn == nil {
		return
	}
	n := 0
	for _, fr := range frames(r, fn) {
		for _, b := range fr.Fn.Blocks {
			for _, ins := range b.Instrs {
				st, ok := ins.(*ssa.Store)
				if !ok {
					continue
				}
				fa, ok := st.Addr.(*ssa.FieldAddr)
				if !ok {
					continue
				}
				if shortTypeName(fa.X.Type())+"."+fieldNameT(fa.X.Type(), fa.Field) != typeDotField {
					continue
				}
				n++
				key := core.Key(id, fnName, "store "+typeDotField)
				if n > 1 {
					key += fmt.Sprintf("#%d", n)
				}
				vt := fr.T(r, st.Val)
				ok2 := false
				for _, g := range allowed {
					if guard.Glob(normT(g)).MatchString(vt) {
						ok2 = true
					}
				}
				if ok2 {
					r.Discharge(id, key, r.P.Pos(st.Pos()), what+": value is "+vt)
				} else {
					r.Violate(id, key, r.P.Pos(st.Pos()), fmt.Sprintf("%s: %s assigns %s to %s, allowed: %s", what, fnName, vt, typeDotField, strings.Join(allowed, " | ")))
				}
			}
		}
	}
	if n == 0 {
		r.Undecide(id, core.Key(id, fnName, "store "+typeDotField, "sites"), r.P.FuncPos(fn), "vacuous: no store to "+typeDotField+" found in "+fnName)
	}
}

// evalGuardBranch: the clauses apply to those state-changing effects of fn that lie in the branch
// established by `when` (every path to them passes `when`).
func evalGuardBranch(r *core.Run, id, fnName string, when guard.Atom, branch string, clauses []clause) {
	fn := r.Func(id, fnName)
	if fn == nil {
		return
	}
	n := 0
	for _, s := range selectEffects(r, fn, effSel{AllWrites: true}) {
		if ok, _ := mustPassDeep(r, fn, s, []guard.Atom{when}); !ok {
			continue
		}
		n++
		for _, c := range clauses {
			key := core.Key(id, fnName, branch+" branch: "+s.Slot, c.Name)
			ok, w := mustPassDeep(r, fn, s, c.Atoms)
			var ds []string
			for _, a := range c.Atoms {
				ds = append(ds, a.Desc)
			}
			req := strings.Join(ds, "  OR  ")
			if ok {
				r.Discharge(id, key, r.P.Pos(s.Ins.Pos()), "every path to this effect passes: "+req)
			} else if len(w) == 1 && w[0] == guard.StateBound {
				r.Undecide(id, key, r.P.Pos(s.Ins.Pos()), "abstract-state bound exceeded")
			} else {
				r.Violate(id, key, r.P.Pos(s.Ins.Pos()), fmt.Sprintf("%s (%s branch) reaches `%s` on a path that does not establish %s: required one of: %s", fnName, branch, s.Slot, c.Name, req), append([]string{"bypass path (branch decisions):"}, w...)...)
			}
		}
	}
	if n == 0 {
		r.Undecide(id, core.Key(id, fnName, branch+" branch", "effects"), r.P.FuncPos(fn), "vacuous: no state-changing effect found under "+when.Desc)
	}
}

// ---------------------------------------------------------------- frames: an anchor function and the helpers extracted from it

// frame: the anchor function itself (empty chain) or a transparent helper (a function outside the rule
// vocabulary) reached from it through the given call instructions. Terms computed in a frame are expressed in the
// anchor's vocabulary: the helper's parameters are replaced by the argument terms of the calls that lead to it.
type frame struct {
	Fn    *ssa.Function
	Chain []ssa.CallInstruction
	subst []string
	free  map[string]string // a function literal's captured variables, as terms of the anchor
}

var reFreeTok = regexp.MustCompile(`\*?free:(\w+)`)

func frames(r *core.Run, anchor *ssa.Function) []frame {
	out := []frame{{Fn: anchor}}
	for i := 0; i < len(out) && len(out) < 40; i++ {
		fr := out[i]
		if len(fr.Chain) >= 3 {
			continue
		}
		res := r.Resolver(fr.Fn)
		for _, b := range fr.Fn.Blocks {
			for _, ins := range b.Instrs {
				c, ok := ins.(ssa.CallInstruction)
				if !ok {
					continue
				}
				h := c.Common().StaticCallee()
				if h == nil || h == fr.Fn || !r.P.Transparent(h) {
					continue
				}
				ns := make([]string, len(h.Params))
				for j, a := range c.Common().Args {
					if j < len(ns) {
						t := res.Of(a).String()
						if len(fr.subst) > 0 {
							t = guard.SubstParams(t, fr.subst)
						}
						ns[j] = t
					}
				}
				nf := frame{Fn: h, Chain: append(append([]ssa.CallInstruction{}, fr.Chain...), c), subst: ns}
				if mc, ok := c.Common().Value.(*ssa.MakeClosure); ok {
					nf.free = map[string]string{}
					for i, fv := range h.FreeVars {
						if i < len(mc.Bindings) {
							nf.free[fv.Name()] = strings.TrimPrefix(strings.TrimPrefix(fr.Sub(res.Of(mc.Bindings[i]).String()), "~"), "&")
						}
					}
				}
				out = append(out, nf)
			}
		}
	}
	return out
}

// Raw: the term of v in the anchor's vocabulary, memory markers kept.
func (fr frame) Raw(r *core.Run, v ssa.Value) string {
	return fr.Sub(r.Resolver(fr.Fn).Of(v).String())
}

// T: the normalised term of v in the anchor's vocabulary.
func (fr frame) T(r *core.Run, v ssa.Value) string { return normT(fr.Raw(r, v)) }

// AnchorIns: the instruction of the anchor function through which the frame is reached (the frame's own
// instruction for the anchor frame): the position of a nested site in the anchor's control-flow graph.
func (fr frame) AnchorIns(ins ssa.Instruction) ssa.Instruction {
	if len(fr.Chain) > 0 {
		return fr.Chain[0]
	}
	return ins
}

type deepCall struct {
	Fr   frame
	Call ssa.CallInstruction
}

// deepCalls: calls of the named callee in the anchor function and in the helpers extracted from it.
// Sub expresses a term of the frame's function in the anchor's vocabulary.
func (fr frame) Sub(t string) string {
	if len(fr.subst) > 0 {
		t = guard.SubstParams(t, fr.subst)
	}
	if len(fr.free) > 0 {
		t = reFreeTok.ReplaceAllStringFunc(t, func(m string) string {
			if v, ok := fr.free[reFreeTok.FindStringSubmatch(m)[1]]; ok {
				return v
			}
			return m
		})
	}
	return t
}

// Fns: the functions along the frame's chain, anchor first, the frame's own function last.
func (fr frame) Fns(anchor *ssa.Function) []*ssa.Function {
	fns := []*ssa.Function{anchor}
	for _, c := range fr.Chain {
		fns = append(fns, c.Common().StaticCallee())
	}
	return fns
}

// At: the instruction of level lvl that leads to ins (ins itself at the deepest level).
func (fr frame) At(lvl int, ins ssa.Instruction) ssa.Instruction {
	if lvl < len(fr.Chain) {
		return fr.Chain[lvl]
	}
	return ins
}

// anchorFrames enumerates (anchor, frame) pairs over consensus code: every known (vocabulary) function is an
// anchor, its transparent helpers are visited as frames under it. A transparent function that no anchor's frames
// reach (too deep, or without a known caller) is an anchor of its own, so nothing is skipped.
func anchorFrames(r *core.Run, visit func(anchor *ssa.Function, fr frame)) {
	seen := map[*ssa.Function]bool{}
	var late []*ssa.Function
	for _, f := range r.P.SortedFuncs(r.ConsensusFuncs()) {
		if r.P.Transparent(f) && len(r.Owners(f)) > 0 {
			late = append(late, f)
			continue
		}
		for _, fr := range frames(r, f) {
			seen[fr.Fn] = true
			visit(f, fr)
		}
	}
	for _, f := range late {
		if !seen[f] {
			for _, fr := range frames(r, f) {
				seen[fr.Fn] = true
				visit(f, fr)
			}
		}
	}
}

func deepCalls(r *core.Run, anchor *ssa.Function, callee string) []deepCall {
	var out []deepCall
	for _, fr := range frames(r, anchor) {
		for _, c := range callsIn(r, fr.Fn, callee) {
			out = append(out, deepCall{fr, c})
		}
	}
	return out
}

// Arg: anchor-vocabulary term of the i-th non-context argument as callTerm would list it.
func (d deepCall) ArgTerms(r *core.Run) []string {
	t := callTerm(r.Resolver(d.Fr.Fn), d.Call)
	if t == nil {
		return nil
	}
	var out []string
	for _, a := range t.Args {
		s := a.String()
		if len(d.Fr.subst) > 0 {
			s = guard.SubstParams(s, d.Fr.subst)
		}
		out = append(out, normT(s))
	}
	return out
}

// precededDeep: on every path to the (possibly nested) call site, a call of `callee` has been passed — in the
// function that holds the site, or in one of the enclosing frames before the call that leads to it.
func precededDeep(r *core.Run, anchor *ssa.Function, d deepCall, callee string) bool {
	fns := []*ssa.Function{anchor}
	for _, c := range d.Fr.Chain {
		if h := c.Common().StaticCallee(); h != nil {
			fns = append(fns, h)
		}
	}
	for lvl := len(d.Fr.Chain); lvl >= 0; lvl-- {
		fn := fns[lvl]
		var at ssa.Instruction = d.Call
		if lvl < len(d.Fr.Chain) {
			at = d.Fr.Chain[lvl]
		}
		blk := blocksCallingDeep(r, fn, callee, 0)
		if len(blk) == 0 {
			continue
		}
		if blk[at.Block()] {
			// same block: the callee's call must come first
			for _, ins := range at.Block().Instrs {
				if ins == at {
					break
				}
				if c, ok := ins.(ssa.CallInstruction); ok {
					if n, _ := r.Resolver(fn).CalleeName(c.Common()); n == callee {
						return true
					}
					if h := c.Common().StaticCallee(); h != nil && alwaysCalls(r, h, callee, 1) {
						return true
					}
				}
			}
			continue
		}
		if forwardAvoid(fn.Blocks[0], blk, nil, func(b *ssa.BasicBlock) bool { return b == at.Block() }) == nil {
			return true
		}
	}
	return false
}

// anchorTerm: a term string computed in function f, re-expressed in the vocabulary of the known function(s) f was
// extracted from (identity for functions of the rule vocabulary). When f is reached in several ways that disagree,
// the term is returned unchanged.
func anchorTerm(r *core.Run, f *ssa.Function, s string) string {
	if !r.P.Transparent(f) {
		return s
	}
	out := ""
	for _, o := range r.Owners(f) {
		for _, fr := range frames(r, o) {
			if fr.Fn != f {
				continue
			}
			t := s
			if len(fr.subst) > 0 {
				t = guard.SubstParams(s, fr.subst)
			}
			if out == "" {
				out = t
			} else if out != t {
				return s
			}
		}
	}
	if out == "" {
		return s
	}
	return out
}
