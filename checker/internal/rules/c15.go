package rules

import (
	"fmt"
	"strings"

	"golang.org/x/tools/go/ssa"

	"saoverif/internal/cfgx"
	"saoverif/internal/core"
	"saoverif/internal/guard"
	"saoverif/internal/term"
)

func init() { register("C15", checkC15) }

func checkC15(r *core.Run) {
	r.Explanation = "C15 (structural clauses only): eligibility — the only two producers of selectable nodes return/append a node only on paths that passed the capacity, status-mask, reputation (and role / not-ignored) tests; RandomSP builds its result only from those two producers, the ignore filter and index selection; distinctness — an index is appended only if no earlier index equals it; under-replication — GetSps succeeds only with 0 < Replica <= number selected; ignore-list completeness — at every call of RandomSP the ignore list is nil only where the order has no shards yet, otherwise it accumulates the provider of every shard of the order (or every existing holder). Uniformity, seeds and the count bound as arithmetic are not decided (termination of RandomIndex is C02). No loop of module node splices the element at its upward-counting index out of a list and advances (T-splice-skip)."
	r.Rule("G-elig-1: GetAllNodesByStatusAndReputationAndRole appends n <= pledge found AND free >= size AND status mask AND reputation >= AND role ==")
	r.Rule("G-elig-2: GetNextSuperNodes returns a node <= not in ignore list AND pledge found AND free >= size AND status mask AND reputation >=")
	r.Rule("G-distinct: RandomIndex appends rs only if no element of idx equals rs (must-avoid)")
	r.Rule("G-replica: every success return of GetSps <= Replica > 0 AND Replica <= len(sps)")
	r.Rule("T-provenance: the slices RandomSP returns are built only from GetNextSuperNodes / GetAllNodesByStatusAndReputationAndRole results; T-ignore: ignore argument completeness at the 4 call sites")
	r.Rule("T-permute: the in-place reordering of the candidate slice under SelectNodes (heap sift) only ever swaps two positions, so it is a permutation and distinct drawn indices name distinct providers")
	rulePermute(r, "T-permute", "node/keeper.SelectNodes")
	r.Rule("T-splice-skip: no loop in module node removes the element at its upward-counting index from a list and carries on with the next index (the neighbour of a removed candidate would escape the ignore filter and could be chosen again)")
	ruleSpliceSkip(r, "T-splice-skip", "node/keeper.")
	r.Rule("T-decode-fresh: in module node every record decoded inside a loop is decoded into a variable that is fresh per iteration (the generated Unmarshal does not reset its target: a hoisted variable hands an offline node the status bits of the node decoded before it)")
	ruleDecodeFresh(r, "T-decode-fresh", "node/keeper.")
	r.Assume(aDeps)
	r.Assume(aCG)

	// ---- G-elig-1
	f1 := "node/keeper.Keeper.GetAllNodesByStatusAndReputationAndRole"
	pl := fGetPledge + "(*.Creator)"
	evalGuard(r, "G-elig-1", f1, effSel{Calls: []string{"builtin.append"}}, []clause{
		cl("pledge-exists", guard.True(pl+"#1")),
		cl("free-capacity>=size", guard.Ge("("+pl+"#0.TotalStorage - "+pl+"#0.UsedStorage)", "#5")),
		cl("status-mask", guard.Eq("(#3 & *.Status)", "#3")),
		cl("reputation-floor", guard.Ge("*.Reputation", "#4")),
		cl("role", guard.Eq("*.Role", "#2")),
	}, 1)

	ruleElig2(r)

	// ---- G-distinct
	f3 := "node/keeper.Keeper.RandomIndex"
	if fn := r.Func("G-distinct", f3); fn != nil {
		ck := &guard.Checker{P: r.P, Fn: fn, Res: r.Resolver(fn)}
		n := 0
		for _, c := range callsIn(r, fn, "builtin.append") {
			call := c.(*ssa.Call)
			// appended value and the list it is appended to
			t := r.Resolver(fn).Of(call)
			if len(t.Args) != 2 {
				continue
			}
			n++
			// the appended element is stored into the varargs slice just before
			var elemT string
			if sl, ok := call.Call.Args[1].(*ssa.Slice); ok {
				if al, ok := sl.X.(*ssa.Alloc); ok {
					for _, ref := range *al.Referrers() {
						if ia, ok := ref.(*ssa.IndexAddr); ok {
							for _, r2 := range *ia.Referrers() {
								if st, ok := r2.(*ssa.Store); ok {
									elemT = r.Resolver(fn).Of(st.Val).String()
								}
							}
						}
					}
				}
			}
			listT := t.Args[0].String()
			key := core.Key("G-distinct", f3, "append index", "no-earlier-equal-index")
			if elemT == "" {
				r.Undecide("G-distinct", key, r.P.Pos(call.Pos()), "appended element not identified")
				continue
			}
			_ = listT
			bad := []guard.Atom{guard.Eq(guard.Exact(elemT), "elem(*)")}
			notIn, _ := ck.MustPass(call.Block(), []guard.Atom{guard.NotIn(guard.Exact(elemT), "*")})
			if ok, w := ck.MustAvoid(call.Block(), bad); ok || notIn {
				r.Discharge("G-distinct", key, r.P.Pos(call.Pos()), "the index is appended only on paths where no comparison with an earlier index was true in the same round")
			} else {
				r.Violate("G-distinct", key, r.P.Pos(call.Pos()), "an index equal to an earlier one can be appended: two replicas of an order can be placed on the same provider", w...)
			}
			// and the comparison loop covers the whole list: a range loop over the very slice appended to, which is
			// left only through its normal exit (or after a match)
			key2 := core.Key("G-distinct", f3, "append index", "compared-with-every-earlier-index")
			okLoop := false
			for _, l := range cfgx.Loops(fn) {
				iff := cfgx.IfOf(l.Header)
				if iff == nil {
					continue
				}
				bo, ok := iff.Cond.(*ssa.BinOp)
				if !ok {
					continue
				}
				lc, ok := bo.Y.(*ssa.Call)
				if !ok || len(lc.Call.Args) != 1 || lc.Call.Args[0] != call.Call.Args[0] {
					continue
				}
				matchE := ck.PassEdges(bad)
				early := false
				for b := range l.Body {
					if b == l.Header {
						continue
					}
					for _, s2 := range b.Succs {
						if !l.Body[s2] {
							// an early exit: allowed only if reachable solely through a match edge
							if forwardAvoid(l.Header.Succs[0], nil, matchE, func(x *ssa.BasicBlock) bool { return x == b }) != nil {
								early = true
							}
						}
					}
				}
				if !early {
					okLoop = true
				}
			}
			if okLoop || notIn {
				r.Discharge("G-distinct", key2, r.P.Pos(call.Pos()), "a range loop over the index list itself compares every element before the append (no early exit without a match)")
			} else {
				r.Violate("G-distinct", key2, r.P.Pos(call.Pos()), "the candidate index is not compared with every earlier index before it is appended")
			}
		}
		if n == 0 {
			r.Undecide("G-distinct", core.Key("G-distinct", f3, "appends"), r.P.FuncPos(fn), "vacuous: no append found")
		}
	}

	// ---- G-replica
	f4 := "sao/keeper.Keeper.GetSps"
	if fn := r.Func("G-replica", f4); fn != nil {
		ck := &guard.Checker{P: r.P, Fn: fn, Res: r.Resolver(fn)}
		n := 0
		for _, b := range fn.Blocks {
			if !successReturnIn(r, fn, b) {
				continue
			}
			n++
			ret := b.Instrs[len(b.Instrs)-1].(*ssa.Return)
			for _, c := range []clause{
				cl("replica>0", guard.Lt("0", "#2.Replica")),
				cl("replica<=selected", guard.Ge("builtin.len(*)", "int(#2.Replica)"), guard.Ge("int32(builtin.len(*))", "#2.Replica")),
			} {
				key := core.Key("G-replica", f4, fmt.Sprintf("success return#%d", n), c.Name)
				if ok, w := ck.MustPass(b, c.Atoms); ok {
					r.Discharge("G-replica", key, r.P.Pos(ret.Pos()), "every success path passes "+c.Name)
				} else {
					r.Violate("G-replica", key, r.P.Pos(ret.Pos()), "GetSps can succeed without "+c.Name+": an order could be accepted under-replicated", w...)
				}
			}
		}
		if n == 0 {
			r.Undecide("G-replica", core.Key("G-replica", f4, "returns"), r.P.FuncPos(fn), "vacuous: no success return found")
		}
	}

	checkRandomSPProvenance(r)
	checkIgnoreLists(r)
	r.Rule("T-filter-use: in RandomSP the list of eligible nodes as read from the store is used only by the ignore filter (everything chosen comes from the filtered list)")
	ruleFilterUse(r, "T-filter-use", "node/keeper.Keeper.RandomSP", "node/keeper.Keeper.GetAllNodesByStatusAndReputationAndRole")
}

// checkRandomSPProvenance: every node placed into RandomSP's result comes from the two eligibility-checked producers.
func checkRandomSPProvenance(r *core.Run) {
	fnName := "node/keeper.Keeper.RandomSP"
	fn := r.Func("T-provenance", fnName)
	if fn == nil {
		return
	}
	res := r.Resolver(fn)
	producers := []string{"node/keeper.Keeper.GetNextSuperNodes(", "node/keeper.Keeper.GetAllNodesByStatusAndReputationAndRole(", "node/keeper.SelectNodes("}
	n := 0
	for _, b := range fn.Blocks {
		ret, ok := b.Instrs[len(b.Instrs)-1].(*ssa.Return)
		if !ok {
			continue
		}
		n++
		t := res.Of(ret.Results[0]).String()
		key := core.Key("T-provenance", fnName, fmt.Sprintf("return#%d", n))
		// strip the producers and structural operators; anything left that denotes a node source is foreign
		okAll := true
		for _, call := range regexpCalls(t) {
			allowed := false
			for _, p := range producers {
				if strings.HasPrefix(call, p) {
					allowed = true
				}
			}
			if strings.HasPrefix(call, "builtin.append(") || strings.HasPrefix(call, "node/keeper.Keeper.RandomIndex(") || strings.HasPrefix(call, "math/big.") || strings.HasPrefix(call, "builtin.len(") || strings.HasPrefix(call, "sdk.Context.") || strings.HasPrefix(call, "make(") || strings.HasPrefix(call, "builtin.cap(") {
				allowed = true
			}
			if !allowed {
				okAll = false
			}
		}
		if okAll {
			r.Discharge("T-provenance", key, r.P.Pos(ret.Pos()), "returned slice is built only from the eligibility-checked producers, append, index selection")
		} else {
			r.Violate("T-provenance", key, r.P.Pos(ret.Pos()), "RandomSP returns nodes from a source other than GetNextSuperNodes / GetAllNodesByStatusAndReputationAndRole: "+shorten(t))
		}
	}
	// the eligibility arguments passed to the producers are the ones RandomSP received
	evalArgAll(r, "T-provenance", fnName, "node/keeper.Keeper.GetNextSuperNodes", 2, []string{"#3"}, "ignore list handed to the super-node producer is the caller's")
	evalArgAll(r, "T-provenance", fnName, "node/keeper.Keeper.GetNextSuperNodes", 3, []string{"#4"}, "size handed to the super-node producer is the caller's")
	evalArgAll(r, "T-provenance", fnName, "node/keeper.Keeper.GetAllNodesByStatusAndReputationAndRole", 3, []string{"#4"}, "size handed to the normal-node producer is the caller's")
	// the ignore filter removes every ignored normal node: a loop over the ignore list containing a removal on match
	key := core.Key("T-provenance", fnName, "ignore filter over all entries")
	found := false
	for _, fr := range frames(r, fn) {
		fres := r.Resolver(fr.Fn)
		for _, l := range cfgx.Loops(fr.Fn) {
			iff := cfgx.IfOf(l.Header)
			if iff == nil || !strings.Contains(fr.T(r, iff.Cond), "builtin.len(#3)") {
				continue
			}
			// ... or the comparison sits in a helper that is handed the current ignore entry
			for b := range l.Body {
				for _, ins := range b.Instrs {
					hc, ok := ins.(ssa.CallInstruction)
					if !ok || hc.Common().IsInvoke() {
						continue
					}
					h := hc.Common().StaticCallee()
					if h == nil || !r.P.Transparent(h) || len(h.Blocks) == 0 {
						continue
					}
					for ai, a := range hc.Common().Args {
						if ai >= len(h.Params) || !strings.Contains(fr.T(r, a), "elem(#3)") {
							continue
						}
						tok := fmt.Sprintf("#%d", ai)
						hres := r.Resolver(h)
						for _, hb := range h.Blocks {
							if i2 := cfgx.IfOf(hb); i2 != nil {
								if p, _, ok := guard.CondPred(hres, i2.Cond); ok && p.Kind == "eq" {
									pa, pb := normT(p.A), normT(p.B)
									if (pa == tok && strings.HasSuffix(pb, ".Creator")) || (pb == tok && strings.HasSuffix(pa, ".Creator")) {
										found = true
									}
								}
							}
						}
					}
				}
			}
			// inner comparison elem(#3) == node.Creator with a reslice/append on the true edge
			for b := range l.Body {
				if i2 := cfgx.IfOf(b); i2 != nil {
					if p, _, ok := guard.CondPred(fres, i2.Cond); ok && p.Kind == "eq" {
						pa, pb := p.A, p.B
						if bo, isBo := i2.Cond.(*ssa.BinOp); isBo && len(fr.Chain) > 0 {
							pa, pb = fr.T(r, bo.X), fr.T(r, bo.Y)
						}
						if (strings.Contains(pa, "elem(#3)") || strings.Contains(pb, "elem(#3)")) && (strings.HasSuffix(pa, ".Creator") || strings.HasSuffix(pb, ".Creator")) {
							found = true
						}
					}
				}
			}
		}
	}
	if found {
		r.Discharge("T-provenance", key, r.P.FuncPos(fn), "a loop over the whole ignore list compares each entry with each candidate's Creator")
	} else {
		r.Violate("T-provenance", key, r.P.FuncPos(fn), "RandomSP no longer filters the normal-node candidates against every entry of the ignore list")
	}
}

// regexpCalls extracts the "name(" prefixes of all call terms in a term string.
func regexpCalls(t string) []string {
	var out []string
	for i := 0; i < len(t); i++ {
		if t[i] != '(' {
			continue
		}
		j := i - 1
		for j >= 0 && (isIdent(t[j]) || t[j] == '/' || t[j] == '.') {
			j--
		}
		name := t[j+1 : i+1]
		if len(name) > 1 && !strings.HasPrefix(name, "phi(") && !strings.HasPrefix(name, "elem(") && name != "(" && !strings.HasPrefix(name, "int(") && !strings.HasPrefix(name, "int64(") && !strings.HasPrefix(name, "uint32(") {
			out = append(out, name)
		}
	}
	return out
}

func isIdent(c byte) bool {
	return c == '_' || c == '$' || (c >= '0' && c <= '9') || (c >= 'a' && c <= 'z') || (c >= 'A' && c <= 'Z')
}

// checkIgnoreLists: the ignore argument at each RandomSP call site.
func checkIgnoreLists(r *core.Run) {
	type site struct {
		fn, over, elemField string
	}
	// call sites: GetSps (2), HandleTimeoutOrder, Migrate
	total := 0
	for _, fnName := range []string{"sao/keeper.Keeper.GetSps", "sao/keeper.Keeper.HandleTimeoutOrder", "sao/keeper.msgServer.Migrate"} {
		fn := r.Func("T-ignore", fnName)
		if fn == nil {
			continue
		}
		anchor := fn
		// the selection call may sit in a helper extracted from the function: every frame is searched
		for i, dc := range deepCalls(r, anchor, "node/keeper.Keeper.RandomSP") {
			fn := dc.Fr.Fn
			res := r.Resolver(fn)
			total++
			call := dc.Call.(*ssa.Call)
			t := res.Of(call)
			ign := t.Args[1]
			key := core.Key("T-ignore", fnName, fmt.Sprintf("RandomSP#%d ignore argument", i+1))
			if ign.String() == "nil" {
				// allowed only for a brand-new order: the call must be dominated by Operation == 1 (create) in GetSps
				if ok, _ := mustPassDeep(r, anchor, effSite{Ins: call, Chain: dc.Fr.Chain}, []guard.Atom{guard.Eq("#2.Operation", "1")}); ok && fnName == "sao/keeper.Keeper.GetSps" {
					r.Discharge("T-ignore", key, r.P.Pos(call.Pos()), "nil ignore list only for operation 1 (a new order has no shards yet)")
				} else {
					r.Violate("T-ignore", key, r.P.Pos(call.Pos()), "RandomSP is called with a nil ignore list where the order may already have shards: a provider already holding (or having timed out on) a shard can be chosen again")
				}
				continue
			}
			// the list must be accumulated by a for-all loop: every iteration appends, only `!found` may skip
			var ignV ssa.Value
			for _, a := range call.Call.Args {
				if a.Type().String() == "[]string" {
					ignV = a
				}
			}
			if ignV == nil {
				r.Undecide("T-ignore", key, r.P.Pos(call.Pos()), "ignore argument not identified")
				continue
			}
			// a list received as a parameter of an extracted helper is the caller's argument
			lfn, lfr := fn, dc.Fr
			for {
				pa, isParam := ignV.(*ssa.Parameter)
				if !isParam || len(lfr.Chain) == 0 {
					break
				}
				parent := parentFrame(r, anchor, lfr)
				if parent == nil {
					break
				}
				moved := false
				up := lfr.Chain[len(lfr.Chain)-1].Common().Args
				for j, q := range lfn.Params {
					if q == pa && j < len(up) {
						ignV, lfn, lfr, moved = up[j], parent.Fn, *parent, true
					}
				}
				if !moved {
					break
				}
			}
			ok, why := accumulatesAll(r, lfn, ignV)
			if ok {
				r.Discharge("T-ignore", key, r.P.Pos(call.Pos()), why)
			} else {
				r.Violate("T-ignore", key, r.P.Pos(call.Pos()), "the ignore list passed to RandomSP does not accumulate every existing holder: "+why)
			}
		}
	}
	r.Floor("randomsp_call_sites", total, 4)
}

// accumulatesAll: v is a slice built by appending, in a range loop over X, on every iteration except those
// that skip because a record was not found (or that leave the enclosing iteration altogether).
func accumulatesAll(r *core.Run, fn *ssa.Function, v ssa.Value) (bool, string) {
	ok, why, _, _ := accumulatesAllL(r, fn, v)
	return ok, why
}

// accumulatesAllL: as accumulatesAll; also returns the function and loop in which the list is accumulated.
func accumulatesAllL(r *core.Run, fn *ssa.Function, v ssa.Value) (bool, string, *ssa.Function, *cfgx.Loop) {
	// the appends may lie in a helper that collects the list (alone or as a field of a local result struct)
	org := listOriginOf(r, fn, v)
	var appends []*ssa.Call
	for _, s := range org.Sites {
		appends = append(appends, s.App)
	}
	if len(appends) == 0 {
		return false, "no append feeds the list", nil, nil
	}
	if fn = org.Fn(); fn == nil {
		return false, "the appends feeding the list are spread over several functions", nil, nil
	}
	res := r.Resolver(fn)
	for _, l := range cfgx.Loops(fn) {
		inLoop := false
		appB := map[*ssa.BasicBlock]bool{}
		for _, a := range appends {
			if l.Body[a.Block()] {
				inLoop = true
				appB[a.Block()] = true
			}
		}
		if !inLoop {
			continue
		}
		// innermost loop containing the appends
		smaller := false
		for _, l2 := range cfgx.Loops(fn) {
			if l2 != l && len(l2.Body) < len(l.Body) {
				all := true
				for b := range appB {
					if !l2.Body[b] {
						all = false
					}
				}
				if all {
					smaller = true
				}
			}
		}
		if smaller {
			continue
		}
		iff := cfgx.IfOf(l.Header)
		over := ""
		if iff != nil {
			over = res.Of(iff.Cond).String()
		}
		// skips allowed: false edge of a `found` boolean (Extract #1 of a getter)
		ck := &guard.Checker{P: r.P, Fn: fn, Res: res}
		skip := map[cfgx.Edge]bool{}
		for b := range l.Body {
			if i2 := cfgx.IfOf(b); i2 != nil {
				if ex, ok := i2.Cond.(*ssa.Extract); ok && ex.Index == 1 {
					skip[cfgx.Edge{From: b, To: b.Succs[1]}] = true
				}
			}
		}
		_ = ck
		// every cycle through the header passes an append block or a skip edge
		seen := map[*ssa.BasicBlock]bool{}
		st := []*ssa.BasicBlock{}
		for _, s := range l.Header.Succs {
			if l.Body[s] {
				st = append(st, s)
			}
		}
		cyc := false
		for len(st) > 0 {
			b := st[len(st)-1]
			st = st[:len(st)-1]
			if b == l.Header {
				cyc = true
				break
			}
			if seen[b] || appB[b] {
				continue
			}
			seen[b] = true
			for _, s := range b.Succs {
				if !l.Body[s] || skip[cfgx.Edge{From: b, To: s}] {
					continue
				}
				st = append(st, s)
			}
		}
		if cyc {
			return false, "some iteration of the loop (" + shorten(over) + ") reaches the next element without appending (other than by a not-found skip)", fn, l
		}
		return true, "the list is appended to on every iteration of the range loop (" + shorten(over) + "); only a not-found record skips", fn, l
	}
	return false, "the appends feeding the list are not inside a loop", fn, nil
}

var _ = term.AllFields

// ruleElig2 (G-elig-2): shared by C15 (eligibility, ignore list) and C12 (a
// stalled shard is handed to a provider other than those already holding
// shards of the order).
func ruleElig2(r *core.Run) {
	// ---- G-elig-2: the return that hands out a node
	f2 := "node/keeper.Keeper.GetNextSuperNodes"
	if fn := r.Func("G-elig-2", f2); fn != nil {
		res := r.Resolver(fn)
		ck := &guard.Checker{P: r.P, Fn: fn, Res: res}
		sn := "elem(node/keeper.Keeper.GetAllSuperNodes())"
		pl2 := fGetPledge + "(" + sn + ".Creator)"
		clauses := []clause{
			cl("not-in-ignore-list", guard.ForAll("#4", guard.Ne("elem(#4)", sn+".Creator")), guard.NotIn(sn+".Creator", "#4")),
			cl("pledge-exists", guard.True(pl2+"#1")),
			cl("free-capacity>=size", guard.Ge("("+pl2+"#0.TotalStorage - "+pl2+"#0.UsedStorage)", "#5")),
			cl("status-mask", guard.Eq("(#2 & "+sn+".Status)", "#2")),
			cl("reputation-floor", guard.Ge(sn+".Reputation", "#3")),
		}
		n := 0
		for _, b := range fn.Blocks {
			ret, ok := b.Instrs[len(b.Instrs)-1].(*ssa.Return)
			if !ok || len(ret.Results) != 1 {
				continue
			}
			rt := res.Of(ret.Results[0]).String()
			if rt == "nil" || strings.HasPrefix(rt, "zero:") {
				continue // the empty node: "none found"
			}
			n++
			for _, c := range clauses {
				key := core.Key("G-elig-2", f2, fmt.Sprintf("return node#%d", n), c.Name)
				if ok, w := ck.MustPass(b, c.Atoms); ok {
					r.Discharge("G-elig-2", key, r.P.Pos(ret.Pos()), "every path to this return passes "+c.Atoms[0].Desc)
				} else {
					r.Violate("G-elig-2", key, r.P.Pos(ret.Pos()), "GetNextSuperNodes can hand out a super node without "+c.Name, w...)
				}
			}
			// the ignore test: a match forbids the return in the same round
			key := core.Key("G-elig-2", f2, fmt.Sprintf("return node#%d", n), "ignored-node-not-returned")
			inHelper, _ := ck.MustPass(b, []guard.Atom{guard.NotIn(sn+".Creator", "#4")})
			if ok, w := ck.MustAvoid(b, []guard.Atom{guard.Eq("elem(#4)", sn+".Creator")}); ok || inHelper {
				r.Discharge("G-elig-2", key, r.P.Pos(ret.Pos()), "no path on which an ignore-list entry equals the candidate reaches the return within the same round")
			} else {
				r.Violate("G-elig-2", key, r.P.Pos(ret.Pos()), "a super node found in the ignore list can still be returned", w...)
			}
		}
		if n == 0 {
			r.Undecide("G-elig-2", core.Key("G-elig-2", f2, "returns"), r.P.FuncPos(fn), "vacuous: no node-returning exit found")
		}
	}

}
