package prog

import (
	"fmt"
	"go/types"
	"sort"
	"strings"

	"golang.org/x/tools/go/ssa"
)

// Root is an entry point into module code, discovered by type.
type Root struct {
	Kind   string // msg | beginblock | endblock | initgenesis | exportgenesis | hook | migration | upgrade | app | query | pseudo
	Module string // sao, node, did, ... or app
	Name   string // display name, e.g. "sao.Cancel"
	Fn     *ssa.Function
}

func (r *Root) Consensus() bool {
	switch r.Kind {
	case "msg", "beginblock", "endblock", "initgenesis", "hook", "migration", "upgrade", "pseudo":
		return true
	case "app":
		return !strings.Contains(r.Name, "Export")
	}
	return false
}

func moduleOf(pkgPath string) string {
	s := Short(pkgPath)
	if i := strings.Index(s, "/"); i >= 0 {
		s = s[:i]
	}
	return s
}

// lookupImported finds a named interface in a dependency through the type
// information of the importing packages.
func (p *Program) lookupImported(path, name string) *types.Interface {
	for _, pk := range p.Pkgs {
		for _, imp := range pk.Types.Imports() {
			if imp.Path() == path {
				if o := imp.Scope().Lookup(name); o != nil {
					if i, ok := o.Type().Underlying().(*types.Interface); ok {
						return i
					}
				}
			}
		}
	}
	return nil
}

func (p *Program) methodOf(T types.Type, name string) *ssa.Function {
	ms := p.SSA.MethodSets.MethodSet(T)
	for i := 0; i < ms.Len(); i++ {
		if ms.At(i).Obj().Name() == name {
			return p.SSA.MethodValue(ms.At(i))
		}
	}
	return nil
}

// unwrap follows a synthetic wrapper (promoted method wrapper, bound, thunk)
// to the declared module function it forwards to, when that is unambiguous.
func (p *Program) unwrap(f *ssa.Function) *ssa.Function {
	for i := 0; i < 4 && f != nil && f.Synthetic != "" && f.Parent() == nil; i++ {
		var next *ssa.Function
		n := 0
		for _, b := range f.Blocks {
			for _, ins := range b.Instrs {
				if c, ok := ins.(ssa.CallInstruction); ok {
					if sc := c.Common().StaticCallee(); sc != nil {
						next = sc
						n++
					}
				}
			}
		}
		if n != 1 {
			return f
		}
		f = next
	}
	return f
}

// Roots discovers every entry point. It fails if an expected family is empty.
func (p *Program) Roots() ([]*Root, error) {
	var roots []*Root
	add := func(kind, mod, name string, f *ssa.Function) {
		if f == nil {
			return
		}
		f = p.unwrap(f)
		if !p.funcSet[f] {
			return
		}
		roots = append(roots, &Root{Kind: kind, Module: mod, Name: name, Fn: f})
	}
	appModule := p.lookupImported("github.com/cosmos/cosmos-sdk/types/module", "AppModule")
	hooksIface := p.lookupImported("github.com/cosmos/cosmos-sdk/x/staking/types", "StakingHooks")
	if appModule == nil || hooksIface == nil {
		return nil, fmt.Errorf("unresolved anchor: sdk module.AppModule / staking StakingHooks interfaces not found through imports")
	}
	for _, n := range p.named {
		pkgPath := n.Obj().Pkg().Path()
		mod := moduleOf(pkgPath)
		iface, isIface := n.Underlying().(*types.Interface)
		if isIface && (n.Obj().Name() == "MsgServer" || n.Obj().Name() == "QueryServer") {
			kind := "msg"
			if n.Obj().Name() == "QueryServer" {
				kind = "query"
			}
			for _, impl := range p.named {
				if impl.Obj().Pkg() == n.Obj().Pkg() { // generated Unimplemented* stubs
					continue
				}
				if _, ii := impl.Underlying().(*types.Interface); ii {
					continue
				}
				for _, T := range []types.Type{impl, types.NewPointer(impl)} {
					if types.Implements(T, iface) {
						for i := 0; i < iface.NumMethods(); i++ {
							m := iface.Method(i)
							add(kind, mod, mod+"."+m.Name(), p.methodOf(T, m.Name()))
						}
						break
					}
				}
			}
		}
		if isIface {
			continue
		}
		for _, T := range []types.Type{n, types.NewPointer(n)} {
			if types.Implements(T, appModule) && strings.HasPrefix(Short(pkgPath), mod) && InModule(pkgPath) && n.Obj().Name() == "AppModule" {
				add("beginblock", mod, mod+".BeginBlock", p.methodOf(T, "BeginBlock"))
				add("endblock", mod, mod+".EndBlock", p.methodOf(T, "EndBlock"))
				add("initgenesis", mod, mod+".InitGenesis", p.methodOf(T, "InitGenesis"))
				add("exportgenesis", mod, mod+".ExportGenesis", p.methodOf(T, "ExportGenesis"))
				break
			}
		}
		for _, T := range []types.Type{n, types.NewPointer(n)} {
			if types.Implements(T, hooksIface) {
				for i := 0; i < hooksIface.NumMethods(); i++ {
					m := hooksIface.Method(i)
					add("hook", mod, mod+".Hooks."+m.Name(), p.methodOf(T, m.Name()))
				}
				break
			}
		}
		if pkgPath == ModulePath+"/app" && n.Obj().Name() == "App" {
			T := types.NewPointer(n)
			for _, m := range []string{"BeginBlocker", "EndBlocker", "InitChainer", "ExportAppStateAndValidators"} {
				add("app", "app", "app.App."+m, p.methodOf(T, m))
			}
		}
	}
	// migrations and upgrade handlers: by call site of the registering SDK API
	if p.CG == nil {
		p.BuildGraph()
	}
	for _, f := range p.Funcs {
		for _, s := range p.CG.Sites[f] {
			if s.Ext == nil {
				continue
			}
			switch s.ExtName {
			case "cosmos/types/module.Configurator.RegisterMigration":
				args := s.Instr.Common().Args
				if len(args) == 3 {
					for _, fn := range resolveFuncValue(args[2], 0) {
						t := p.unwrap(fn)
						add("migration", moduleOf(f.Pkg.Pkg.Path()), moduleOf(f.Pkg.Pkg.Path())+".migration."+t.Name(), t)
					}
				}
			}
		}
		if f.Parent() == nil && f.Name() == "CreateUpgradeHandler" && strings.Contains(f.Pkg.Pkg.Path(), "/app/upgrades/") {
			for _, a := range f.AnonFuncs {
				add("upgrade", "app", "upgrade."+Short(f.Pkg.Pkg.Path()), a)
			}
		}
	}
	sort.SliceStable(roots, func(i, j int) bool {
		if roots[i].Kind != roots[j].Kind {
			return roots[i].Kind < roots[j].Kind
		}
		return roots[i].Name < roots[j].Name
	})
	// de-duplicate
	var out []*Root
	seen := map[string]bool{}
	for _, r := range roots {
		k := r.Kind + "|" + r.Name + "|" + p.Name(r.Fn)
		if !seen[k] {
			seen[k] = true
			out = append(out, r)
		}
	}
	count := map[string]int{}
	for _, r := range out {
		count[r.Kind]++
	}
	floors := map[string]int{"msg": 18, "hook": 10, "initgenesis": 6, "exportgenesis": 6, "migration": 2, "upgrade": 2, "beginblock": 1, "endblock": 3}
	for k, fl := range floors {
		if count[k] < fl {
			return out, fmt.Errorf("vacuous: found %d roots of kind %s, expected at least %d", count[k], k, fl)
		}
	}
	return out, nil
}
