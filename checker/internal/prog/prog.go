// Package prog loads /repo's current working tree, builds go/ssa for it and
// offers the resolved-program views every engine works on: module functions,
// short stable names, consensus roots, a call graph and reachability.
package prog

import (
	"fmt"
	"go/ast"
	"go/token"
	"go/types"
	"os"
	"os/exec"
	"sort"
	"strings"

	"golang.org/x/tools/go/packages"
	"golang.org/x/tools/go/ssa"
	"golang.org/x/tools/go/ssa/ssautil"
)

const ModulePath = "github.com/SaoNetwork/sao"

// Tier selects how much of the program is built.
type Tier int

const (
	Quick    Tier = iota // syntax+SSA bodies for module packages only
	Thorough             // whole program syntax + SSA (+VTA on demand)
)

type Program struct {
	Dir      string
	Tier     Tier
	Fset     *token.FileSet
	Pkgs     []*packages.Package          // module packages (in scope)
	PkgByID  map[string]*packages.Package // by import path
	SSA      *ssa.Program
	AllPkgs  []*packages.Package // everything loaded (thorough: whole closure)
	modPaths map[string]bool

	Funcs    []*ssa.Function // module functions with bodies (incl. anonymous and module wrappers), sorted by name
	funcSet  map[*ssa.Function]bool
	byName   map[string]*ssa.Function
	named    []*types.Named // named types declared in module packages
	CG       *Graph
	LoadNote []string
	implCache map[*types.Func][]*ssa.Function
	genFiles  map[string]bool

	// Vocab: names of the module functions that existed when the rule tables were written (vocabulary.txt).
	// A module function that is not in it was introduced later (typically a helper extracted from a known
	// function): rules do not know it by name, so the engines interpret it through its body ("transparent").
	// nil = no vocabulary loaded: nothing is transparent.
	Vocab map[string]bool
}

// LoadVocab reads the vocabulary file (one function name per line).
func (p *Program) LoadVocab(path string) error {
	b, err := os.ReadFile(path)
	if err != nil {
		return err
	}
	p.Vocab = map[string]bool{}
	for _, l := range strings.Split(string(b), "\n") {
		l = strings.TrimSpace(l)
		if l != "" && !strings.HasPrefix(l, "#") {
			p.Vocab[l] = true
		}
	}
	return nil
}

// Transparent: a hand-written, named module function with a body that the vocabulary does not list.
func (p *Program) Transparent(f *ssa.Function) bool {
	if p.Vocab == nil || f == nil || len(f.Blocks) == 0 || !p.funcSet[f] {
		return false
	}
	if f.Parent() != nil {
		// a function literal: as new as its name (parent$N) — literals of the pinned tree are in the vocabulary
		if f.Synthetic != "" || p.IsGenerated(f) {
			return false
		}
		return !p.Vocab[p.Name(f)]
	}
	name := p.Name(f)
	if f.Synthetic != "" {
		// an instance of a generic function is as hand-written as the generic it was made from
		o := f.Origin()
		if o == nil || o == f || o.Synthetic != "" {
			return false
		}
		name = p.Name(o)
	}
	if p.IsGenerated(f) {
		return false
	}
	return !p.Vocab[name]
}

// InModule reports whether the import path belongs to the analysed module.
func InModule(path string) bool {
	return path == ModulePath || strings.HasPrefix(path, ModulePath+"/")
}

// Short strips the module prefix (and the leading x/) from an import path.
func Short(path string) string {
	switch path {
	case "github.com/cosmos/cosmos-sdk/types":
		return "sdk"
	case "cosmossdk.io/math":
		return "math"
	case "github.com/cosmos/cosmos-sdk/types/errors":
		return "sdkerrors"
	}
	if strings.HasPrefix(path, "github.com/cosmos/cosmos-sdk/") {
		return "cosmos/" + strings.TrimPrefix(path, "github.com/cosmos/cosmos-sdk/")
	}
	p := strings.TrimPrefix(path, ModulePath+"/")
	if p == ModulePath {
		p = "."
	}
	p = strings.TrimPrefix(p, "x/")
	return p
}

func env() []string {
	e := os.Environ()
	e = append(e, "GOFLAGS=-mod=mod", "GOPROXY=off", "GOSUMDB=off", "GOTOOLCHAIN=local", "GOWORK=off", "CGO_ENABLED=1")
	return e
}

// listModulePkgs returns the import paths of module packages in the import
// closure of ./cmd/saod (the production binary): exactly what is built.
func listModulePkgs(dir string) ([]string, error) {
	cmd := exec.Command("go", "list", "-deps", "-f", "{{.ImportPath}}", "./cmd/saod")
	cmd.Dir = dir
	cmd.Env = env()
	out, err := cmd.Output()
	if err != nil {
		msg := ""
		if ee, ok := err.(*exec.ExitError); ok {
			msg = string(ee.Stderr)
		}
		return nil, fmt.Errorf("go list -deps ./cmd/saod: %v\n%s", err, msg)
	}
	var res []string
	for _, l := range strings.Split(string(out), "\n") {
		l = strings.TrimSpace(l)
		if InModule(l) {
			res = append(res, l)
		}
	}
	sort.Strings(res)
	return res, nil
}

// Overlay, when non-nil, replaces source files (absolute path -> contents) for
// the load. Used only by the self-test (reference mutants analysed in memory;
// /repo is never modified).
var Overlay map[string][]byte

// Load loads and builds the program. Any type error inside scope is an error.
func Load(dir string, tier Tier) (*Program, error) {
	p := &Program{Dir: dir, Tier: tier, Fset: token.NewFileSet(), PkgByID: map[string]*packages.Package{}, modPaths: map[string]bool{}}
	mods, err := listModulePkgs(dir)
	if err != nil {
		return nil, err
	}
	if len(mods) < 35 {
		return nil, fmt.Errorf("only %d module packages in the import closure of cmd/saod (expected >= 35): scope incomplete", len(mods))
	}
	for _, m := range mods {
		p.modPaths[m] = true
	}
	cfg := &packages.Config{Dir: dir, Fset: p.Fset, Env: env(), Tests: false, Overlay: Overlay}
	var initial []*packages.Package
	if tier == Quick {
		cfg.Mode = packages.LoadSyntax | packages.NeedModule
		initial, err = packages.Load(cfg, mods...)
	} else {
		cfg.Mode = packages.LoadAllSyntax | packages.NeedModule
		initial, err = packages.Load(cfg, "./cmd/saod")
	}
	if err != nil {
		return nil, fmt.Errorf("packages.Load: %v", err)
	}
	var errs []string
	packages.Visit(initial, nil, func(pk *packages.Package) {
		p.AllPkgs = append(p.AllPkgs, pk)
		if p.modPaths[pk.PkgPath] {
			p.PkgByID[pk.PkgPath] = pk
			for _, e := range pk.Errors {
				errs = append(errs, fmt.Sprintf("%s: %v", pk.PkgPath, e))
			}
			if pk.IllTyped && len(pk.Errors) == 0 {
				errs = append(errs, pk.PkgPath+": ill-typed (dependency error)")
			}
		}
	})
	if len(errs) > 0 {
		sort.Strings(errs)
		if len(errs) > 10 {
			errs = errs[:10]
		}
		return nil, fmt.Errorf("type errors in scope:\n  %s", strings.Join(errs, "\n  "))
	}
	for _, m := range mods {
		pk := p.PkgByID[m]
		if pk == nil || pk.Types == nil || len(pk.Syntax) == 0 && len(pk.GoFiles) > 0 {
			return nil, fmt.Errorf("module package %s was not loaded with syntax", m)
		}
		p.Pkgs = append(p.Pkgs, pk)
	}
	mode := ssa.InstantiateGenerics
	var sprog *ssa.Program
	if tier == Quick {
		sprog, _ = ssautil.Packages(initial, mode)
	} else {
		sprog, _ = ssautil.AllPackages(initial, mode)
	}
	p.SSA = sprog
	if tier == Quick {
		for _, pk := range p.Pkgs {
			sp := sprog.Package(pk.Types)
			if sp == nil {
				return nil, fmt.Errorf("no SSA package for %s", pk.PkgPath)
			}
			sp.Build()
		}
	} else {
		sprog.Build()
	}
	p.collect()
	return p, nil
}

// IsModFunc reports whether f is a function of the module with a body
// (declared, anonymous, or a synthetic wrapper of a module method).
func (p *Program) IsModFunc(f *ssa.Function) bool { return p.funcSet[f] }

func (p *Program) inMod(f *ssa.Function) bool {
	if f == nil {
		return false
	}
	if f.Pkg != nil {
		return p.modPaths[f.Pkg.Pkg.Path()]
	}
	if par := f.Parent(); par != nil {
		return p.inMod(par)
	}
	if o := f.Object(); o != nil && o.Pkg() != nil {
		return p.modPaths[o.Pkg().Path()]
	}
	// wrappers/bounds/thunks: look at receiver type's package
	if f.Signature != nil && f.Signature.Recv() != nil {
		if n := namedOf(f.Signature.Recv().Type()); n != nil && n.Obj().Pkg() != nil {
			return p.modPaths[n.Obj().Pkg().Path()]
		}
	}
	return false
}

func namedOf(t types.Type) *types.Named {
	for {
		switch x := t.(type) {
		case *types.Pointer:
			t = x.Elem()
		case *types.Named:
			return x
		case *types.Alias:
			t = types.Unalias(x)
		default:
			return nil
		}
	}
}

func (p *Program) collect() {
	p.funcSet = map[*ssa.Function]bool{}
	p.byName = map[string]*ssa.Function{}
	var add func(f *ssa.Function)
	add = func(f *ssa.Function) {
		if f == nil || p.funcSet[f] || len(f.Blocks) == 0 {
			return
		}
		p.funcSet[f] = true
		p.Funcs = append(p.Funcs, f)
		for _, a := range f.AnonFuncs {
			add(a)
		}
	}
	for _, pk := range p.Pkgs {
		sp := p.SSA.Package(pk.Types)
		for _, m := range sp.Members {
			switch m := m.(type) {
			case *ssa.Function:
				add(m)
			case *ssa.Type:
				if n, ok := m.Type().(*types.Named); ok {
					p.named = append(p.named, n)
					for _, T := range []types.Type{n, types.NewPointer(n)} {
						ms := p.SSA.MethodSets.MethodSet(T)
						for i := 0; i < ms.Len(); i++ {
							if f := p.SSA.MethodValue(ms.At(i)); f != nil && p.inMod(f) {
								add(f)
							}
						}
					}
				}
			}
		}
		// package initialiser
		if sp.Func("init") != nil {
			add(sp.Func("init"))
		}
	}
	sort.Slice(p.named, func(i, j int) bool { return p.named[i].String() < p.named[j].String() })
	sort.Slice(p.Funcs, func(i, j int) bool { return p.Name(p.Funcs[i]) < p.Name(p.Funcs[j]) })
	for _, f := range p.Funcs {
		n := p.Name(f)
		if _, dup := p.byName[n]; !dup {
			p.byName[n] = f
		}
	}
}

// Name returns a short, stable, human-readable name of a function:
// "sao/keeper.msgServer.Cancel", "node.BeginBlocker", "parent$1".
func (p *Program) Name(f *ssa.Function) string {
	if f == nil {
		return "<nil>"
	}
	if par := f.Parent(); par != nil {
		return p.Name(par) + "$" + strings.TrimPrefix(f.Name(), par.Name()+"$")
	}
	suffix := ""
	if f.Synthetic != "" {
		switch {
		case strings.HasPrefix(f.Synthetic, "bound method wrapper"):
			suffix = "$bound"
		case strings.HasPrefix(f.Synthetic, "thunk"):
			suffix = "$thunk"
		case strings.HasPrefix(f.Synthetic, "wrapper"):
			suffix = "$wrap"
		}
	}
	if f.Signature != nil && f.Signature.Recv() != nil {
		rt := f.Signature.Recv().Type()
		star := ""
		if _, ok := rt.(*types.Pointer); ok {
			star = "*"
		}
		if n := namedOf(rt); n != nil {
			pk := ""
			if n.Obj().Pkg() != nil {
				pk = Short(n.Obj().Pkg().Path())
			}
			_ = star
			return pk + "." + n.Obj().Name() + "." + f.Name() + suffix
		}
		return "(" + rt.String() + ")." + f.Name() + suffix
	}
	if f.Pkg != nil {
		return Short(f.Pkg.Pkg.Path()) + "." + f.Name() + suffix
	}
	if o := f.Object(); o != nil && o.Pkg() != nil {
		return Short(o.Pkg().Path()) + "." + f.Name() + suffix
	}
	return f.Name() + suffix
}

// ObjName gives the same style of name for a types.Func (used for callees
// without SSA bodies: interface methods, external functions).
func ObjName(o *types.Func) string {
	if o == nil {
		return "<nil>"
	}
	sig, _ := o.Type().(*types.Signature)
	if sig != nil && sig.Recv() != nil {
		rt := sig.Recv().Type()
		if n := namedOf(rt); n != nil {
			pk := ""
			if n.Obj().Pkg() != nil {
				pk = Short(n.Obj().Pkg().Path())
			}
			return pk + "." + n.Obj().Name() + "." + o.Name()
		}
		if o.Pkg() != nil {
			return Short(o.Pkg().Path()) + ".(iface)." + o.Name()
		}
	}
	if o.Pkg() != nil {
		return Short(o.Pkg().Path()) + "." + o.Name()
	}
	return o.Name()
}

// Func looks a module function up by its short name; nil if absent.
func (p *Program) Func(name string) *ssa.Function { return p.byName[name] }

// MustFunc is Func but records an unresolved anchor.
func (p *Program) MustFunc(name string) (*ssa.Function, error) {
	if f := p.byName[name]; f != nil {
		return f, nil
	}
	return nil, fmt.Errorf("unresolved anchor: function %q not found in module", name)
}

// Pos renders a position relative to the repo root.
func (p *Program) Pos(pos token.Pos) string {
	if !pos.IsValid() {
		return "-"
	}
	ps := p.Fset.Position(pos)
	f := strings.TrimPrefix(ps.Filename, p.Dir+"/")
	return fmt.Sprintf("%s:%d", f, ps.Line)
}

// FuncPos gives the declaration position of a function.
func (p *Program) FuncPos(f *ssa.Function) string { return p.Pos(f.Pos()) }

// NamedTypes returns the module's declared named types.
func (p *Program) NamedTypes() []*types.Named { return p.named }

// LookupType finds a named type "pkgshort.Name" in module packages.
func (p *Program) LookupType(pkgPath, name string) *types.Named {
	pk := p.PkgByID[pkgPath]
	if pk == nil {
		return nil
	}
	o := pk.Types.Scope().Lookup(name)
	if o == nil {
		return nil
	}
	n, _ := o.Type().(*types.Named)
	return n
}

// IsGeneratedPos reports whether the position lies in a generated file.
func (p *Program) IsGeneratedPos(pos token.Pos) bool {
	if p.genFiles == nil {
		p.IsGenerated(nil)
	}
	return pos.IsValid() && p.genFiles[p.Fset.Position(pos).Filename]
}

// IsGenerated reports whether f is declared in a generated file
// ("// Code generated ... DO NOT EDIT."), e.g. protoc-gen-gogo output.
func (p *Program) IsGenerated(f *ssa.Function) bool {
	if p.genFiles == nil {
		p.genFiles = map[string]bool{}
		for _, pk := range p.Pkgs {
			for _, file := range pk.Syntax {
				if ast.IsGenerated(file) {
					p.genFiles[p.Fset.Position(file.Pos()).Filename] = true
				}
			}
		}
	}
	for x := f; x != nil; x = x.Parent() {
		if x.Pos().IsValid() {
			return p.genFiles[p.Fset.Position(x.Pos()).Filename]
		}
		if x.Synthetic != "" && x.Parent() == nil {
			// wrappers: look at the wrapped object
			if o := x.Object(); o != nil && o.Pos().IsValid() {
				return p.genFiles[p.Fset.Position(o.Pos()).Filename]
			}
		}
	}
	return false
}
