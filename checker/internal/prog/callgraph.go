package prog

import (
	"go/types"
	"sort"

	"golang.org/x/tools/go/callgraph"
	"golang.org/x/tools/go/callgraph/cha"
	"golang.org/x/tools/go/callgraph/vta"
	"golang.org/x/tools/go/ssa"
	"golang.org/x/tools/go/ssa/ssautil"
)

// Site is one call site in a module function.
type Site struct {
	Caller  *ssa.Function
	Instr   ssa.CallInstruction
	Callees []*ssa.Function // module callees with bodies (resolved)
	Ext     *types.Func     // external (or body-less) callee object, if any
	ExtName string          // ObjName(Ext) or a description
	Dynamic bool            // call through a function value that was not resolved
}

// Graph is the module-level call graph.
type Graph struct {
	P      *Program
	Sites  map[*ssa.Function][]*Site
	Out    map[*ssa.Function][]*ssa.Function // includes closure/reference edges
	In     map[*ssa.Function][]*ssa.Function
	Kind   string
	Unres  []*Site // dynamic calls that could not be resolved
	vtaSet map[*ssa.Function]map[ssa.CallInstruction][]*ssa.Function
}

// implementers returns module methods implementing the interface method m.
func (p *Program) implementers(iface *types.Interface, m *types.Func) []*ssa.Function {
	return p.Implementers(iface, m)
}

// Implementers returns module methods implementing the interface method m
// (class-hierarchy resolution restricted to types declared in the module).
func (p *Program) Implementers(iface *types.Interface, m *types.Func) []*ssa.Function {
	if p.implCache == nil {
		p.implCache = map[*types.Func][]*ssa.Function{}
	}
	if r, ok := p.implCache[m]; ok {
		return r
	}
	r := p.implementers0(iface, m)
	p.implCache[m] = r
	return r
}

func (p *Program) implementers0(iface *types.Interface, m *types.Func) []*ssa.Function {
	var res []*ssa.Function
	seen := map[*ssa.Function]bool{}
	for _, n := range p.named {
		if _, isIface := n.Underlying().(*types.Interface); isIface {
			continue
		}
		for _, T := range []types.Type{n, types.NewPointer(n)} {
			if !types.Implements(T, iface) {
				continue
			}
			ms := p.SSA.MethodSets.MethodSet(T)
			sel := ms.Lookup(m.Pkg(), m.Name())
			if sel == nil {
				continue
			}
			f := p.unwrap(p.SSA.MethodValue(sel))
			if f != nil && !seen[f] {
				seen[f] = true
				res = append(res, f)
			}
			break
		}
	}
	return res
}

// BuildGraph builds the quick (static + module CHA) graph, or refines it with
// whole-program VTA in the thorough tier.
func (p *Program) BuildGraph() *Graph {
	g := &Graph{P: p, Sites: map[*ssa.Function][]*Site{}, Out: map[*ssa.Function][]*ssa.Function{}, In: map[*ssa.Function][]*ssa.Function{}, Kind: "static+module-CHA"}
	var vres *callgraph.Graph
	if p.Tier == Thorough {
		all := ssautil.AllFunctions(p.SSA)
		vres = vta.CallGraph(all, cha.CallGraph(p.SSA))
		g.Kind = "static+module-CHA cross-checked with whole-program VTA"
	}
	addEdge := func(a, b *ssa.Function) {
		for _, x := range g.Out[a] {
			if x == b {
				return
			}
		}
		g.Out[a] = append(g.Out[a], b)
		g.In[b] = append(g.In[b], a)
	}
	work := append([]*ssa.Function(nil), p.Funcs...)
	for i := 0; i < len(work); i++ {
		f := work[i]
		// late-discovered wrappers
		ensure := func(c *ssa.Function) {
			if c != nil && !p.funcSet[c] && len(c.Blocks) > 0 && p.inMod(c) {
				p.funcSet[c] = true
				p.Funcs = append(p.Funcs, c)
				if _, dup := p.byName[p.Name(c)]; !dup {
					p.byName[p.Name(c)] = c
				}
				work = append(work, c)
			}
		}
		for _, b := range f.Blocks {
			for _, ins := range b.Instrs {
				// references to functions (closures, method values, func operands)
				if mc, ok := ins.(*ssa.MakeClosure); ok {
					if fn, ok := mc.Fn.(*ssa.Function); ok {
						ensure(fn)
						if p.funcSet[fn] {
							addEdge(f, fn)
						}
					}
				}
				call, isCall := ins.(ssa.CallInstruction)
				for _, op := range ins.Operands(nil) {
					if op == nil || *op == nil {
						continue
					}
					if fn, ok := (*op).(*ssa.Function); ok {
						if isCall && call.Common().Value == fn {
							continue // handled as call below
						}
						ensure(fn)
						if p.funcSet[fn] {
							addEdge(f, fn) // function value escapes: may be called
						}
					}
				}
				if !isCall {
					continue
				}
				cc := call.Common()
				s := &Site{Caller: f, Instr: call}
				if sc := cc.StaticCallee(); sc != nil {
					ensure(sc)
					if p.funcSet[sc] {
						s.Callees = []*ssa.Function{sc}
					} else {
						if o, ok := sc.Object().(*types.Func); ok {
							s.Ext = o
							s.ExtName = ObjName(o)
						} else {
							s.ExtName = sc.String()
						}
					}
				} else if cc.IsInvoke() {
					iface, _ := cc.Value.Type().Underlying().(*types.Interface)
					if iface != nil {
						impl := p.implementers(iface, cc.Method)
						for _, c := range impl {
							ensure(c)
							if p.funcSet[c] {
								s.Callees = append(s.Callees, c)
							}
						}
					}
					if len(s.Callees) == 0 {
						s.Ext = cc.Method
						s.ExtName = ObjName(cc.Method)
					}
				} else {
					// dynamic call through a func value
					if _, isB := cc.Value.(*ssa.Builtin); isB {
						continue
					}
					res := resolveFuncValue(cc.Value, 0)
					for _, c := range res {
						ensure(c)
						if p.funcSet[c] {
							s.Callees = append(s.Callees, c)
						}
					}
					if gname := globalFuncVar(cc.Value); len(res) == 0 && gname != "" {
						s.ExtName = gname
					} else if len(res) == 0 {
						s.Dynamic = true
						s.ExtName = "dynamic:" + cc.Value.String()
						g.Unres = append(g.Unres, s)
					}
				}
				if vres != nil {
					// cross-check with VTA: any module callee VTA sees that we do not is added and noted
					if n := vres.Nodes[f]; n != nil {
						for _, e := range n.Out {
							if e.Site == call && e.Callee != nil && e.Callee.Func != nil {
								c := e.Callee.Func
								ensure(c)
								if p.funcSet[c] {
									found := false
									for _, x := range s.Callees {
										if x == c {
											found = true
										}
									}
									if !found {
										s.Callees = append(s.Callees, c)
										p.LoadNote = append(p.LoadNote, "VTA added edge "+p.Name(f)+" -> "+p.Name(c))
									}
								}
							}
						}
					}
				}
				for _, c := range s.Callees {
					addEdge(f, c)
				}
				g.Sites[f] = append(g.Sites[f], s)
			}
		}
	}
	sort.Slice(p.Funcs, func(i, j int) bool { return p.Name(p.Funcs[i]) < p.Name(p.Funcs[j]) })
	p.CG = g
	return g
}

// globalFuncVar recognises a call through a package-level func variable of a
// dependency (e.g. sdkerrors.Wrapf, which is `var Wrapf = errorsmod.Wrapf`).
func globalFuncVar(v ssa.Value) string {
	if u, ok := v.(*ssa.UnOp); ok {
		if g, ok := u.X.(*ssa.Global); ok && g.Pkg != nil && !InModule(g.Pkg.Pkg.Path()) {
			return Short(g.Pkg.Pkg.Path()) + "." + g.Name()
		}
	}
	return ""
}

// resolveFuncValue follows a function value to the functions it may denote
// within one function body (closures, phis of closures, bound methods).
func resolveFuncValue(v ssa.Value, depth int) []*ssa.Function {
	if depth > 6 {
		return nil
	}
	switch x := v.(type) {
	case *ssa.Function:
		return []*ssa.Function{x}
	case *ssa.MakeClosure:
		if fn, ok := x.Fn.(*ssa.Function); ok {
			return []*ssa.Function{fn}
		}
	case *ssa.Phi:
		var res []*ssa.Function
		for _, e := range x.Edges {
			r := resolveFuncValue(e, depth+1)
			if len(r) == 0 {
				return nil
			}
			res = append(res, r...)
		}
		return res
	case *ssa.ChangeType:
		return resolveFuncValue(x.X, depth+1)
	case *ssa.UnOp:
		// load of a local holding a closure: look for the unique store
		if al, ok := x.X.(*ssa.Alloc); ok {
			var res []*ssa.Function
			for _, r := range *al.Referrers() {
				if st, ok := r.(*ssa.Store); ok && st.Addr == al {
					rr := resolveFuncValue(st.Val, depth+1)
					if len(rr) == 0 {
						return nil
					}
					res = append(res, rr...)
				}
			}
			return res
		}
	}
	return nil
}

// Reach returns the set of module functions reachable from the given roots.
func (g *Graph) Reach(roots ...*ssa.Function) map[*ssa.Function]bool {
	seen := map[*ssa.Function]bool{}
	var st []*ssa.Function
	for _, r := range roots {
		if r != nil && !seen[r] {
			seen[r] = true
			st = append(st, r)
		}
	}
	for len(st) > 0 {
		f := st[len(st)-1]
		st = st[:len(st)-1]
		for _, c := range g.Out[f] {
			if !seen[c] {
				seen[c] = true
				st = append(st, c)
			}
		}
	}
	return seen
}

// Path returns one call path root -> ... -> target (function names), or nil.
func (g *Graph) Path(root, target *ssa.Function) []string {
	prev := map[*ssa.Function]*ssa.Function{root: nil}
	q := []*ssa.Function{root}
	for len(q) > 0 {
		f := q[0]
		q = q[1:]
		if f == target {
			var rev []string
			for x := f; x != nil; x = prev[x] {
				rev = append(rev, g.P.Name(x))
			}
			for i, j := 0, len(rev)-1; i < j; i, j = i+1, j-1 {
				rev[i], rev[j] = rev[j], rev[i]
			}
			return rev
		}
		outs := append([]*ssa.Function(nil), g.Out[f]...)
		sort.Slice(outs, func(i, j int) bool { return g.P.Name(outs[i]) < g.P.Name(outs[j]) })
		for _, c := range outs {
			if _, ok := prev[c]; !ok {
				prev[c] = f
				q = append(q, c)
			}
		}
	}
	return nil
}

// SortedFuncs returns the functions of a set sorted by name.
func (p *Program) SortedFuncs(set map[*ssa.Function]bool) []*ssa.Function {
	var res []*ssa.Function
	for f := range set {
		res = append(res, f)
	}
	sort.Slice(res, func(i, j int) bool { return p.Name(res[i]) < p.Name(res[j]) })
	return res
}
