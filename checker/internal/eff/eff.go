// Package eff computes primitive effects of module functions (E1): KV-store
// accesses with their module and constant key prefix, bank operations with
// their module-name arguments, event emission, parameter writes; and unions
// them over the call graph into per-root capability sets.
package eff

import (
	"fmt"
	"go/constant"
	"go/types"
	"sort"
	"strings"

	"golang.org/x/tools/go/ssa"

	"saoverif/internal/prog"
	"saoverif/internal/term"
)

type Effect struct {
	Kind     string // store.set store.delete store.get store.has store.iter bank.<Method> event param.set param.setparamset
	Module   string // for store effects: module owning the store key
	KeyField string // keeper field holding the store key
	Prefix   string // constant key prefix ("?" when not resolved)
	Exact    bool   // Prefix is a complete constant key
	Fn       *ssa.Function
	Instr    ssa.CallInstruction
	Args     []*term.Term // non-context arguments (bank: from, to, coins ...)
	Method   string
	KeyVal   ssa.Value // store effects: the key argument (nil for iterators)
}

func (e *Effect) String() string {
	if strings.HasPrefix(e.Kind, "store.") {
		return fmt.Sprintf("%s %s:%s", e.Kind, e.Module, e.Prefix)
	}
	if strings.HasPrefix(e.Kind, "bank.") {
		var a []string
		for _, t := range e.Args {
			a = append(a, t.String())
		}
		return fmt.Sprintf("%s(%s)", e.Kind, strings.Join(a, ","))
	}
	return e.Kind
}

// IsWrite: store mutation.
func (e *Effect) IsWrite() bool { return e.Kind == "store.set" || e.Kind == "store.delete" }

type Table struct {
	P     *prog.Program
	Mods  *term.Mods
	Own   map[*ssa.Function][]*Effect
	bankT types.Type
	res   map[*ssa.Function]*term.Resolver
	Unres []string
	bind  map[*ssa.Parameter]ssa.Value // helper parameters bound to the arguments of the call being resolved
	// tmpl: store accesses of functions that receive the store itself as a parameter (generic get/set helpers):
	// they are effects of each caller, with the store the caller passes
	tmpl map[*ssa.Function][]paramEffect
}

type paramEffect struct {
	kind     string
	storeIdx int // index into the function's Params of the store
	keyIdx   int // index of the key parameter, -1 when the key is not a parameter
}

var bankMutators = map[string]bool{
	"SendCoins": true, "SendCoinsFromModuleToAccount": true, "SendCoinsFromModuleToModule": true,
	"SendCoinsFromAccountToModule": true, "DelegateCoinsFromAccountToModule": true,
	"UndelegateCoinsFromModuleToAccount": true, "MintCoins": true, "BurnCoins": true,
	"InputOutputCoins": true, "DelegateCoins": true, "UndelegateCoins": true,
}

func lookupImportedObj(p *prog.Program, path, name string) types.Object {
	for _, pk := range p.AllPkgs {
		if pk.PkgPath == path && pk.Types != nil {
			return pk.Types.Scope().Lookup(name)
		}
	}
	for _, pk := range p.Pkgs {
		for _, imp := range pk.Types.Imports() {
			if imp.Path() == path {
				return imp.Scope().Lookup(name)
			}
		}
	}
	return nil
}

func Build(p *prog.Program, mods *term.Mods) *Table {
	t := &Table{P: p, Mods: mods, Own: map[*ssa.Function][]*Effect{}, res: map[*ssa.Function]*term.Resolver{}}
	if o := lookupImportedObj(p, "github.com/cosmos/cosmos-sdk/x/bank/keeper", "BaseKeeper"); o != nil {
		t.bankT = o.Type()
	}
	t.tmpl = map[*ssa.Function][]paramEffect{}
	for _, f := range p.Funcs {
		t.scan(f)
	}
	t.instantiate()
	return t
}

func paramIndex(f *ssa.Function, v ssa.Value) int {
	v = stripIface(v)
	for i, q := range f.Params {
		if ssa.Value(q) == v {
			return i
		}
	}
	return -1
}

// add records a store access of f: an effect of f, or — when the store is one of f's parameters — a template
// that is instantiated at every call of f.
func (t *Table) add(f *ssa.Function, call ssa.CallInstruction, kind string, store, key ssa.Value) {
	if i := paramIndex(f, store); i >= 0 {
		ki := -1
		if key != nil {
			ki = paramIndex(f, key)
		}
		t.tmpl[f] = append(t.tmpl[f], paramEffect{kind, i, ki})
		return
	}
	t.Own[f] = append(t.Own[f], t.storeEffect(f, call, kind, store, key))
}

// instantiate turns the templates of store-parameter functions into effects of their (transitive) callers.
func (t *Table) instantiate() {
	if len(t.tmpl) == 0 {
		return
	}
	done := map[ssa.CallInstruction]bool{}
	for round := 0; round < 4; round++ {
		changed := false
		for _, g := range t.P.Funcs {
			for _, b := range g.Blocks {
				for _, ins := range b.Instrs {
					call, ok := ins.(ssa.CallInstruction)
					if !ok || done[call] || call.Common().IsInvoke() {
						continue
					}
					h := call.Common().StaticCallee()
					if h == nil || len(t.tmpl[h]) == 0 {
						continue
					}
					done[call] = true
					args := call.Common().Args
					for _, pe := range t.tmpl[h] {
						if pe.storeIdx >= len(args) {
							continue
						}
						var key ssa.Value
						if pe.keyIdx >= 0 && pe.keyIdx < len(args) {
							key = args[pe.keyIdx]
						}
						before := len(t.tmpl[g])
						t.add(g, call, pe.kind, args[pe.storeIdx], key)
						if len(t.tmpl[g]) != before {
							changed = true
						}
					}
				}
			}
		}
		if !changed {
			break
		}
	}
}

func (t *Table) resolver(f *ssa.Function) *term.Resolver {
	if r := t.res[f]; r != nil {
		return r
	}
	r := term.NewResolver(t.P, t.Mods, f)
	t.res[f] = r
	return r
}

// IsBankIface: an interface the SDK bank keeper implements (module-declared
// BankKeeper expectations), decided by type.
func (t *Table) IsBankIface(T types.Type) bool {
	iface, ok := T.Underlying().(*types.Interface)
	if !ok || t.bankT == nil || iface.NumMethods() == 0 {
		return false
	}
	if !(types.Implements(t.bankT, iface) || types.Implements(types.NewPointer(t.bankT), iface)) {
		return false
	}
	// must mention at least one bank-specific method to avoid matching tiny generic interfaces
	for i := 0; i < iface.NumMethods(); i++ {
		n := iface.Method(i).Name()
		if bankMutators[n] || n == "GetBalance" || n == "SpendableCoins" || n == "GetAllBalances" {
			return true
		}
	}
	return false
}

func (t *Table) scan(f *ssa.Function) {
	r := t.resolver(f)
	for _, b := range f.Blocks {
		for _, ins := range b.Instrs {
			call, ok := ins.(ssa.CallInstruction)
			if !ok {
				continue
			}
			cc := call.Common()
			name, _ := term.CalleeName(t.P, cc)
			switch {
			case strings.HasPrefix(name, "cosmos/store/prefix.Store."):
				m := strings.TrimPrefix(name, "cosmos/store/prefix.Store.")
				if k := storeKind(m); k != "" && len(cc.Args) > 0 {
					t.add(f, call, k, cc.Args[0], keyArg(cc.Args, 1))
				}
			case name == "sdk.KVStorePrefixIterator" || name == "sdk.KVStoreReversePrefixIterator" || name == "cosmos/types/query.Paginate" || name == "cosmos/types/query.FilteredPaginate":
				if len(cc.Args) > 0 {
					t.add(f, call, "store.iter", cc.Args[0], nil)
				}
			case cc.IsInvoke() && isKVStore(cc.Value.Type()):
				if k := storeKind(cc.Method.Name()); k != "" {
					t.add(f, call, k, cc.Value, keyArg(cc.Args, 0))
				}
			case cc.IsInvoke() && t.IsBankIface(cc.Value.Type()):
				m := cc.Method.Name()
				kind := "bankread." + m
				if bankMutators[m] {
					kind = "bank." + m
				}
				e := &Effect{Kind: kind, Fn: f, Instr: call, Method: m}
				for _, a := range cc.Args {
					if a.Type().String() == "github.com/cosmos/cosmos-sdk/types.Context" {
						continue
					}
					e.Args = append(e.Args, r.Of(a))
				}
				t.Own[f] = append(t.Own[f], e)
			case strings.HasSuffix(name, "EventManager.EmitEvent") || strings.HasSuffix(name, "EventManager.EmitEvents") || strings.HasSuffix(name, "EventManager.EmitTypedEvent"):
				t.Own[f] = append(t.Own[f], &Effect{Kind: "event", Fn: f, Instr: call})
			case name == "cosmos/x/params/types.Subspace.Set":
				e := &Effect{Kind: "param.set", Fn: f, Instr: call}
				for _, a := range cc.Args[1:] {
					if a.Type().String() == "github.com/cosmos/cosmos-sdk/types.Context" {
						continue
					}
					e.Args = append(e.Args, r.Of(a))
				}
				t.Own[f] = append(t.Own[f], e)
			case name == "cosmos/x/params/types.Subspace.SetParamSet":
				t.Own[f] = append(t.Own[f], &Effect{Kind: "param.setparamset", Fn: f, Instr: call})
			}
		}
	}
}

func keyArg(args []ssa.Value, i int) ssa.Value {
	if i < len(args) {
		return args[i]
	}
	return nil
}

func storeKind(m string) string {
	switch m {
	case "Set":
		return "store.set"
	case "Delete":
		return "store.delete"
	case "Get":
		return "store.get"
	case "Has":
		return "store.has"
	case "Iterator", "ReverseIterator":
		return "store.iter"
	}
	return ""
}

func isKVStore(T types.Type) bool {
	s := T.String()
	return s == "github.com/cosmos/cosmos-sdk/types.KVStore" || s == "github.com/cosmos/cosmos-sdk/store/types.KVStore"
}

func constStr(v ssa.Value) (string, bool) {
	if c, ok := v.(*ssa.Const); ok && c.Value != nil && c.Value.Kind() == constant.String {
		return constant.StringVal(c.Value), true
	}
	return "", false
}

// bytesConst recognises KeyPrefix("const"), []byte("const") and []byte{}.
func (t *Table) bytesConst(v ssa.Value) (string, bool) {
	if p, ok := v.(*ssa.Parameter); ok && t.bind != nil {
		if a, ok := t.bind[p]; ok {
			return t.bytesConst(a)
		}
	}
	switch x := v.(type) {
	case *ssa.Call:
		if sc := x.Call.StaticCallee(); sc != nil && sc.Name() == "KeyPrefix" && len(x.Call.Args) == 1 && t.P.IsModFunc(sc) {
			a := x.Call.Args[0]
			if p, ok := a.(*ssa.Parameter); ok && t.bind != nil {
				if b, ok := t.bind[p]; ok {
					a = b
				}
			}
			return constStr(a)
		}
	case *ssa.Convert:
		a := x.X
		if p, ok := a.(*ssa.Parameter); ok && t.bind != nil {
			if b, ok := t.bind[p]; ok {
				a = b
			}
		}
		return constStr(a)
	case *ssa.Slice:
		if al, ok := x.X.(*ssa.Alloc); ok {
			if arr, ok := al.Type().Underlying().(*types.Pointer).Elem().Underlying().(*types.Array); ok && arr.Len() == 0 {
				return "", true
			}
		}
	case *ssa.Const:
		if x.Value == nil {
			return "", true
		}
	}
	return "", false
}

// storeEffect resolves the store value to (module, key field, prefix).
func (t *Table) storeEffect(f *ssa.Function, call ssa.CallInstruction, kind string, store ssa.Value, key ssa.Value) *Effect {
	e := &Effect{Kind: kind, Fn: f, Instr: call, Prefix: "?", Module: "?", KeyField: "?", KeyVal: key}
	v := store
	for i := 0; i < 4; i++ {
		switch x := v.(type) {
		case *ssa.MakeInterface:
			v = x.X
			continue
		case *ssa.ChangeInterface:
			v = x.X
			continue
		case *ssa.UnOp:
			// load of a local holding the store
			if al, ok := x.X.(*ssa.Alloc); ok {
				var sts []*ssa.Store
				for _, r := range *al.Referrers() {
					if st, ok := r.(*ssa.Store); ok && st.Addr == al {
						sts = append(sts, st)
					}
				}
				if len(sts) == 1 {
					v = sts[0].Val
					continue
				}
			}
		}
		break
	}
	// a store captured by a function literal: resolve what the enclosing function bound to that variable
	rf := f
	for hop := 0; hop < 3; hop++ {
		pf, pv := capturedValue(rf, v)
		if pf == nil {
			break
		}
		rf, v = pf, pv
	}
	prefix := ""
	havePrefix := false
	e.Module, e.KeyField, prefix, havePrefix = t.resolveStore(rf, v, 0)
	if havePrefix {
		e.Prefix = prefix
		if prefix == "" && key != nil {
			if s, ok := t.bytesConst(key); ok && s != "" {
				e.Prefix, e.Exact = s, true
			} else if kind != "store.iter" {
				e.Prefix = "?"
			}
		}
	}
	if e.Prefix == "?" || e.Module == "?" {
		t.Unres = append(t.Unres, fmt.Sprintf("%s at %s: store access with unresolved %s", t.P.Name(f), t.P.Pos(call.Pos()), map[bool]string{true: "prefix", false: "store key"}[e.Module != "?"]))
	}
	return e
}

// resolveStore resolves a store-typed value to (module, key field, constant
// prefix). A call of a module helper whose every return is itself a resolvable
// store expression (func (k Keeper) fooStore(ctx) prefix.Store { return
// prefix.NewStore(ctx.KVStore(k.storeKey), ...) }) is followed into the helper.
func (t *Table) resolveStore(f *ssa.Function, v ssa.Value, depth int) (mod, field, prefix string, havePrefix bool) {
	mod, field = "?", "?"
	for i := 0; i < 4; i++ {
		switch x := v.(type) {
		case *ssa.MakeInterface:
			v = x.X
			continue
		case *ssa.ChangeInterface:
			v = x.X
			continue
		}
		break
	}
	c, ok := v.(*ssa.Call)
	if !ok {
		return
	}
	name, callees := term.CalleeName(t.P, &c.Call)
	var kv ssa.Value
	switch {
	case name == "cosmos/store/prefix.NewStore" && len(c.Call.Args) == 2:
		kv = c.Call.Args[0]
		if s, ok := t.bytesConst(c.Call.Args[1]); ok {
			prefix, havePrefix = s, true
		}
	case name == "sdk.Context.KVStore":
		kv = c
		havePrefix = true
	case len(callees) == 1 && depth < 2 && callees[0].Blocks != nil:
		h := callees[0]
		first := true
		for _, b := range h.Blocks {
			ret, ok := b.Instrs[len(b.Instrs)-1].(*ssa.Return)
			if !ok || len(ret.Results) == 0 {
				continue
			}
			m2, f2, p2, hp2 := t.resolveStore(h, ret.Results[0], depth+1)
			if !hp2 && !c.Call.IsInvoke() {
				// the helper takes (part of) the key prefix as a parameter: evaluate it with this call's arguments
				if pc, ok := stripIface(ret.Results[0]).(*ssa.Call); ok && len(pc.Call.Args) == 2 {
					if pn, _ := term.CalleeName(t.P, &pc.Call); pn == "cosmos/store/prefix.NewStore" {
						old := t.bind
						t.bind = map[*ssa.Parameter]ssa.Value{}
						for i, q := range h.Params {
							if i < len(c.Call.Args) {
								t.bind[q] = c.Call.Args[i]
							}
						}
						if s, ok := t.bytesConst(pc.Call.Args[1]); ok {
							p2, hp2 = s, true
						}
						t.bind = old
					}
				}
			}
			if first {
				mod, field, prefix, havePrefix = m2, f2, p2, hp2
				first = false
			} else if m2 != mod || f2 != field || p2 != prefix || hp2 != havePrefix {
				return "?", "?", "", false
			}
		}
		return
	}
	if kc, ok := kv.(*ssa.Call); ok && len(kc.Call.Args) == 2 {
		mod, field = t.keyOwner(f, kc.Call.Args[1])
	}
	return
}

// capturedValue: v is (a load of) a free variable of the function literal f: returns the enclosing function and the
// value it stored in the captured variable (single assignment), or nil.
func capturedValue(f *ssa.Function, v ssa.Value) (*ssa.Function, ssa.Value) {
	v = stripIface(v)
	var fv *ssa.FreeVar
	switch x := v.(type) {
	case *ssa.FreeVar:
		fv = x
	case *ssa.UnOp:
		fv, _ = x.X.(*ssa.FreeVar)
	}
	parent := f.Parent()
	if fv == nil || parent == nil {
		return nil, nil
	}
	idx := -1
	for i, q := range f.FreeVars {
		if q == fv {
			idx = i
		}
	}
	if idx < 0 {
		return nil, nil
	}
	for _, b := range parent.Blocks {
		for _, ins := range b.Instrs {
			mc, ok := ins.(*ssa.MakeClosure)
			if !ok || mc.Fn != ssa.Value(f) || idx >= len(mc.Bindings) {
				continue
			}
			bv := mc.Bindings[idx]
			if al, ok := bv.(*ssa.Alloc); ok {
				var sts []*ssa.Store
				for _, r := range *al.Referrers() {
					if st, ok := r.(*ssa.Store); ok && st.Addr == al {
						sts = append(sts, st)
					}
				}
				if len(sts) == 1 {
					return parent, sts[0].Val
				}
				return nil, nil
			}
			return parent, bv
		}
	}
	return nil, nil
}

func stripIface(v ssa.Value) ssa.Value {
	for i := 0; i < 4; i++ {
		switch x := v.(type) {
		case *ssa.MakeInterface:
			v = x.X
			continue
		case *ssa.ChangeInterface:
			v = x.X
			continue
		}
		break
	}
	return v
}

// keyOwner: the store key value is a load of a keeper field, or a parameter.
func (t *Table) keyOwner(f *ssa.Function, v ssa.Value) (string, string) {
	if u, ok := v.(*ssa.UnOp); ok {
		if fa, ok := u.X.(*ssa.FieldAddr); ok {
			T := fa.X.Type()
			for {
				if p, ok := T.Underlying().(*types.Pointer); ok {
					T = p.Elem()
					continue
				}
				break
			}
			mod := "?"
			if n, ok := T.(*types.Named); ok && n.Obj().Pkg() != nil {
				mod = modOf(n.Obj().Pkg().Path())
			}
			field := "?"
			if s, ok := T.Underlying().(*types.Struct); ok && fa.Field < s.NumFields() {
				field = s.Field(fa.Field).Name()
			}
			return mod, field
		}
	}
	if fld, ok := v.(*ssa.Field); ok {
		T := fld.X.Type()
		mod := "?"
		if n, ok := T.(*types.Named); ok && n.Obj().Pkg() != nil {
			mod = modOf(n.Obj().Pkg().Path())
		}
		field := "?"
		if s, ok := T.Underlying().(*types.Struct); ok && fld.Field < s.NumFields() {
			field = s.Field(fld.Field).Name()
		}
		return mod, field
	}
	if p, ok := v.(*ssa.Parameter); ok {
		// key passed in (migrations): owner is the package's module
		if f.Pkg != nil {
			return modOf(f.Pkg.Pkg.Path()), "param:" + p.Name()
		}
	}
	return "?", "?"
}

func modOf(path string) string {
	s := prog.Short(path)
	if i := strings.Index(s, "/"); i >= 0 {
		s = s[:i]
	}
	return s
}

// Reach unions the effects of all functions reachable from the roots.
func (t *Table) Reach(roots ...*ssa.Function) []*Effect {
	set := t.P.CG.Reach(roots...)
	var out []*Effect
	for _, f := range t.P.SortedFuncs(set) {
		out = append(out, t.Own[f]...)
	}
	return out
}

// StoreOwnerOfKeyField maps (keeper module, field) to the module whose store
// it addresses: "storeKey" is the keeper's own; other fields are named after
// the foreign module (orderStoreKey -> order).
func StoreOwner(e *Effect) string {
	if e.KeyField == "storeKey" || strings.HasPrefix(e.KeyField, "param:") {
		return e.Module
	}
	if strings.HasSuffix(e.KeyField, "StoreKey") {
		return strings.ToLower(strings.TrimSuffix(e.KeyField, "StoreKey"))
	}
	return e.Module + "." + e.KeyField
}

// Caps summarises effects as sorted strings "kind owner:prefix".
func Caps(effs []*Effect) []string {
	m := map[string]bool{}
	for _, e := range effs {
		switch {
		case strings.HasPrefix(e.Kind, "store."):
			m[e.Kind+" "+StoreOwner(e)+":"+e.Prefix] = true
		default:
			m[e.Kind] = true
		}
	}
	var out []string
	for k := range m {
		out = append(out, k)
	}
	sort.Strings(out)
	return out
}
