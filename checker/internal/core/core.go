// Package core holds the run state shared by all property checks: the loaded
// program, obligations (discharged / violated / undecided), instance-count
// floors, known findings and the evidence writer.
package core

import (
	"encoding/json"
	"fmt"
	"os"
	"path/filepath"
	"sort"
	"strings"
	"time"

	"golang.org/x/tools/go/ssa"

	"saoverif/internal/eff"
	"saoverif/internal/prog"
	"saoverif/internal/term"
)

type Status int

const (
	Discharged Status = iota
	Violated
	Undecided
)

func (s Status) String() string { return [...]string{"discharged", "violated", "undecided"}[s] }

type Obligation struct {
	Rule    string   `json:"rule"`
	Key     string   `json:"key"` // stable construct key (rule|function|slot), never a line number
	Status  string   `json:"status"`
	Where   string   `json:"where,omitempty"`
	Detail  string   `json:"detail,omitempty"`
	Witness []string `json:"witness,omitempty"`
	Known   string   `json:"known_finding,omitempty"`
	st      Status
}

type Finding struct {
	Property     string   `json:"property"`
	Rule         string   `json:"rule"`
	ConstructKey string   `json:"construct_key"`
	WhatFails    string   `json:"what_fails"`
	Witness      string   `json:"witness,omitempty"`
	Status       string   `json:"status"` // "known" | "fixed"
	Commit       string   `json:"commit,omitempty"`
	AlsoUnder    []string `json:"also_under,omitempty"`
}

type Run struct {
	Prop        string
	Tier        string
	Seed        int64
	P           *prog.Program
	Roots       []*prog.Root
	Mods        *term.Mods
	Eff         *eff.Table
	Start       time.Time
	Obls        []*Obligation
	Assumptions []string
	Notes       []string
	Counters    map[string]int
	Explanation string
	Rules       []string
	floorsBad   []string
	resolvers   map[*ssa.Function]*term.Resolver
	consensus   map[*ssa.Function]bool
	VerifDir    string
	hasTransp   int
	// Shadow: self-test run on an in-memory variant of the tree; prints
	// SHADOW lines only, writes no evidence and no violation files.
	Shadow bool
	// Opaque: given a component of an obligation key (a function name), a description of why that function cannot
	// be followed by the engines ("" when it can). Set by the rules package.
	Opaque func(name string) string
}

func NewRun(prop, tier string, p *prog.Program, roots []*prog.Root, mods *term.Mods) *Run {
	return &Run{Prop: prop, Tier: tier, P: p, Roots: roots, Mods: mods, Start: time.Now(), Counters: map[string]int{}, resolvers: map[*ssa.Function]*term.Resolver{}, VerifDir: "/verif"}
}

func (r *Run) Resolver(f *ssa.Function) *term.Resolver {
	if x := r.resolvers[f]; x != nil {
		return x
	}
	x := term.NewResolver(r.P, r.Mods, f)
	r.resolvers[f] = x
	return x
}

func (r *Run) add(rule, key, where, detail string, st Status, witness []string) *Obligation {
	// the same construct may be reached through several rule rows: keep the worst
	for _, o := range r.Obls {
		if o.Key == key {
			if st > o.st {
				o.st, o.Status, o.Detail, o.Where, o.Witness = st, st.String(), detail, where, witness
			}
			return o
		}
	}
	o := &Obligation{Rule: rule, Key: key, Where: where, Detail: detail, Status: st.String(), st: st, Witness: witness}
	r.Obls = append(r.Obls, o)
	return o
}

func (r *Run) Discharge(rule, key, where, detail string) { r.add(rule, key, where, detail, Discharged, nil) }
func (r *Run) Violate(rule, key, where, detail string, witness ...string) {
	// A violation found in a function that has been restructured in a way the engines cannot follow (see Opaque)
	// is not asserted: it is reported as undecided, with the reason.
	if r.Opaque != nil {
		parts := strings.Split(key, "|")
		for _, p := range parts[1:] {
			if why := r.Opaque(p); why != "" {
				r.add(rule, key, where, "not decided: "+why+". Without following it the rule reports: "+detail, Undecided, nil)
				return
			}
		}
	}
	r.add(rule, key, where, detail, Violated, witness)
}
func (r *Run) Undecide(rule, key, where, detail string) { r.add(rule, key, where, detail, Undecided, nil) }

// Floor records an instance count and fails the run as vacuous if it is below
// the number confirmed by reading.
func (r *Run) Floor(name string, got, want int) {
	r.Counters[name] = got
	if got < want {
		// Instance counts were confirmed on a tree whose functions are all in the rule vocabulary. When code has
		// been moved into helpers the vocabulary does not know, sites are found through those helpers and their
		// number legitimately differs (merged duplicates, per-frame counting): the count is then recorded, not enforced.
		// A rule that finds no instance at all has decided nothing and stays a failure either way.
		if r.HasTransparent() && got > 0 {
			r.Notes = append(r.Notes, fmt.Sprintf("instance count %s: found %d, confirmed count on the vocabulary tree %d (not enforced: the tree has helpers outside the vocabulary)", name, got, want))
			return
		}
		r.floorsBad = append(r.floorsBad, fmt.Sprintf("%s: found %d, expected at least %d", name, got, want))
	}
}

// HasTransparent: some consensus-reachable module function is outside the rule vocabulary.
func (r *Run) HasTransparent() bool {
	if r.hasTransp == 0 {
		r.hasTransp = -1
		for f := range r.ConsensusFuncs() {
			if r.P.Transparent(f) {
				r.hasTransp = 1
				break
			}
		}
	}
	return r.hasTransp > 0
}

func (r *Run) Count(name string, n int) { r.Counters[name] += n }
func (r *Run) Assume(a string) {
	for _, x := range r.Assumptions {
		if x == a {
			return
		}
	}
	r.Assumptions = append(r.Assumptions, a)
}
func (r *Run) Rule(desc string) { r.Rules = append(r.Rules, desc) }

// Func resolves an anchor or records an undecided obligation.
func (r *Run) Func(rule, name string) *ssa.Function {
	f := r.P.Func(name)
	if f == nil {
		r.Undecide(rule, rule+"|anchor|"+name, "", "unresolved anchor: function "+name+" not found (renamed or removed); the rule cannot be evaluated")
	}
	return f
}

// RootsOf returns roots by kind (and optional module).
func (r *Run) RootsOf(kinds ...string) []*prog.Root {
	var out []*prog.Root
	for _, rt := range r.Roots {
		for _, k := range kinds {
			if rt.Kind == k {
				out = append(out, rt)
			}
		}
	}
	return out
}

func (r *Run) Root(name string) *prog.Root {
	for _, rt := range r.Roots {
		if rt.Name == name {
			return rt
		}
	}
	return nil
}

// ConsensusFuncs: module functions reachable from consensus roots.
func (r *Run) ConsensusFuncs() map[*ssa.Function]bool {
	if r.consensus != nil {
		return r.consensus
	}
	var fs []*ssa.Function
	for _, rt := range r.Roots {
		if rt.Consensus() {
			fs = append(fs, rt.Fn)
		}
	}
	r.consensus = r.P.CG.Reach(fs...)
	return r.consensus
}

// KeyName: the function name used in obligation keys and function-keyed tables. A transparent helper (not in
// the rule vocabulary) is named after the known function(s) it was reached from, so that extracting a block
// into a helper does not change construct keys (known findings keep matching) nor table look-ups.
func (r *Run) KeyName(f *ssa.Function) string {
	if !r.P.Transparent(f) {
		return r.P.Name(f)
	}
	owners := r.Owners(f)
	if len(owners) == 0 {
		return r.P.Name(f)
	}
	var ns []string
	for _, o := range owners {
		ns = append(ns, r.P.Name(o))
	}
	sort.Strings(ns)
	return strings.Join(ns, "+")
}

// Owners: nearest non-transparent (known) consensus callers of a transparent function.
func (r *Run) Owners(f *ssa.Function) []*ssa.Function {
	seen := map[*ssa.Function]bool{f: true}
	var out []*ssa.Function
	q := []*ssa.Function{f}
	for len(q) > 0 {
		x := q[0]
		q = q[1:]
		for _, c := range r.P.CG.In[x] {
			if seen[c] || !r.ConsensusFuncs()[c] {
				continue
			}
			seen[c] = true
			if r.P.Transparent(c) {
				q = append(q, c)
			} else {
				out = append(out, c)
			}
		}
	}
	sort.Slice(out, func(i, j int) bool { return r.P.Name(out[i]) < r.P.Name(out[j]) })
	return out
}

// RequireResolvedStores makes the run undecided when consensus-reachable module
// code accesses a store whose key (module) could not be resolved: the
// capability, prefix and flow rules would otherwise silently not see that access.
func (r *Run) RequireResolvedStores() {
	n := 0
	for _, f := range r.P.SortedFuncs(r.ConsensusFuncs()) {
		for _, e := range r.Eff.Own[f] {
			if !strings.HasPrefix(e.Kind, "store.") {
				continue
			}
			n++
			if e.Module == "?" {
				r.Undecide("E1-resolve", Key("E1-resolve", r.P.Name(f)), r.P.Pos(e.Instr.Pos()), "store access whose store key cannot be traced to a keeper field (not ctx.KVStore(k.<field>), prefix.NewStore over it, or a helper returning one): the effect rules cannot attribute it to a module")
			}
		}
	}
	r.Counters["consensus_store_accesses"] = n
}

// ---------------------------------------------------------------- findings

func LoadFindings(path string) ([]Finding, error) {
	b, err := os.ReadFile(path)
	if err != nil {
		if os.IsNotExist(err) {
			return nil, nil
		}
		return nil, err
	}
	var fs []Finding
	if err := json.Unmarshal(b, &fs); err != nil {
		return nil, fmt.Errorf("%s: %v", path, err)
	}
	return fs, nil
}

// Finish matches violations against the known-findings file, prints the
// protocol lines, writes evidence and returns the process exit code.
func (r *Run) Finish() int {
	findings, ferr := LoadFindings(filepath.Join(r.VerifDir, "known_findings.json"))
	if ferr != nil {
		fmt.Println("UNDECIDED", ferr)
		return 2
	}
	known := map[string]*Finding{}
	for i := range findings {
		f := &findings[i]
		if f.Status != "known" {
			continue
		}
		// keys are compared without the "unstable read" marks: whether a record is rendered as ~X or X depends on
		// whether some helper received a pointer to it, not on the construct
		if f.Property == r.Prop {
			known[normKey(f.ConstructKey)] = f
		}
		for _, p := range f.AlsoUnder {
			if p == r.Prop {
				known[normKey(f.ConstructKey)] = f
			}
		}
	}
	sort.SliceStable(r.Obls, func(i, j int) bool { return r.Obls[i].Key < r.Obls[j].Key })
	var viol, und []*Obligation
	nKnown, nDis := 0, 0
	for _, o := range r.Obls {
		switch o.st {
		case Violated:
			if f := known[normKey(o.Key)]; f != nil {
				o.Known = f.WhatFails
				nKnown++
				fmt.Printf("KNOWN-FINDING: property=%s %s %s — %s\n", r.Prop, o.Rule, o.Key, f.WhatFails)
			} else {
				viol = append(viol, o)
			}
		case Undecided:
			und = append(und, o)
		default:
			nDis++
		}
	}
	// stale known entries are reported (not an error: the defect may have been repaired)
	for k, f := range known {
		found := false
		for _, o := range r.Obls {
			if normKey(o.Key) == k && o.st == Violated {
				found = true
			}
		}
		if !found {
			r.Notes = append(r.Notes, "known finding not re-derived on this tree (repaired or construct gone): "+f.ConstructKey)
		}
	}
	if r.Shadow {
		code := 0
		for _, m := range r.floorsBad {
			fmt.Printf("SHADOW-UNDECIDED\tvacuous\t%s\n", m)
			code = 2
		}
		for _, o := range und {
			fmt.Printf("SHADOW-UNDECIDED\t%s\t%s\n", o.Rule, o.Key)
			code = 2
		}
		for _, o := range viol {
			fmt.Printf("SHADOW-FIRED\t%s\t%s\t%s\n", o.Rule, o.Key, o.Where)
			code = 1
		}
		return code
	}
	code := 0
	os.MkdirAll(filepath.Join(r.VerifDir, "evidence", "violations"), 0o755)
	// clean stale violation files of this property
	old, _ := filepath.Glob(filepath.Join(r.VerifDir, "evidence", "violations", r.Prop+"-*.json"))
	for _, f := range old {
		os.Remove(f)
	}
	if len(r.floorsBad) > 0 {
		for _, m := range r.floorsBad {
			fmt.Println("UNDECIDED vacuous:", m)
		}
		code = 2
	}
	for _, o := range und {
		fmt.Printf("UNDECIDED %s %s: %s\n", o.Rule, o.Key, o.Detail)
		code = 2
	}
	for i, o := range viol {
		path := filepath.Join(r.VerifDir, "evidence", "violations", fmt.Sprintf("%s-%d.json", r.Prop, i+1))
		b, _ := json.MarshalIndent(map[string]any{"property": r.Prop, "rule": o.Rule, "construct_key": o.Key, "where": o.Where, "detail": o.Detail, "witness": o.Witness, "tier": r.Tier}, "", " ")
		os.WriteFile(path, b, 0o644)
		fmt.Printf("violation: %s %s at %s: %s\n", o.Rule, o.Key, o.Where, o.Detail)
		for _, w := range o.Witness {
			fmt.Println("    ", w)
		}
		fmt.Printf("VIOLATION property=%s replay=%s\n", r.Prop, path)
		code = 1
	}
	r.writeEvidence(nDis, nKnown, len(viol), len(und))
	if code == 0 {
		fmt.Printf("OK property=%s tier=%s obligations=%d discharged=%d known_findings=%d wall=%.1fs\n", r.Prop, r.Tier, len(r.Obls), nDis, nKnown, time.Since(r.Start).Seconds())
	}
	return code
}

func (r *Run) writeEvidence(nDis, nKnown, nViol, nUnd int) {
	samples := []any{}
	// samples: every violated/undecided obligation and up to 40 discharged ones
	n := 0
	for _, o := range r.Obls {
		if o.st != Discharged {
			samples = append(samples, o)
		}
	}
	for _, o := range r.Obls {
		if o.st == Discharged && n < 60 {
			samples = append(samples, o)
			n++
		}
	}
	keys := []string{}
	for _, o := range r.Obls {
		keys = append(keys, o.Status+" "+o.Key)
	}
	expl := r.Explanation
	if expl == "" {
		expl = "static structural clauses, see rules"
	}
	if r.P != nil {
		expl += fmt.Sprintf(" | analysed: %d module packages, %d module functions (SSA), call graph %s; %d consensus-reachable functions.", len(r.P.Pkgs), len(r.P.Funcs), r.P.CG.Kind, len(r.ConsensusFuncs()))
	}
	ev := map[string]any{
		"property_id": r.Prop,
		"tier":        r.Tier,
		"seed":        r.Seed,
		"level":       "other",
		"coverage": map[string]any{
			"explanation":     expl,
			"obligations":     len(r.Obls),
			"discharged":      nDis,
			"known_findings":  nKnown,
			"undecided":       nUnd,
			"rules":           r.Rules,
			"counters":        r.Counters,
			"samples":         samples,
			"obligation_keys": keys,
			"notes":           r.Notes,
			"exhaustive":      true,
		},
		"assumptions": r.Assumptions,
		"wall_s":      time.Since(r.Start).Seconds(),
		"violations":  nViol,
	}
	b, _ := json.MarshalIndent(ev, "", " ")
	os.MkdirAll(filepath.Join(r.VerifDir, "evidence"), 0o755)
	os.WriteFile(filepath.Join(r.VerifDir, "evidence", r.Prop+".json"), b, 0o644)
}

// Join builds a construct key.
func Key(parts ...string) string { return strings.Join(parts, "|") }

func normKey(k string) string { return term.DropNilPhi(strings.ReplaceAll(k, "~", "")) }
