// Package guard decides guard-dominance obligations (E2): "every path from the
// function entry to this effect passes an edge on which one of these
// predicates holds". Predicates are normalised branch conditions over
// canonical terms; boolean flags (φ of constants) are expanded to their
// justification; the decision is an edge-cut reachability over the CFG, so it
// over-approximates paths: a reported bypass names a concrete branch sequence,
// a pass is a proof for all paths.
package guard

import (
	"fmt"
	"os"
	"sort"
	"go/constant"
	"go/token"
	"go/types"
	"regexp"
	"strings"

	"golang.org/x/tools/go/ssa"

	"saoverif/internal/cfgx"
	"saoverif/internal/prog"
	"saoverif/internal/term"
)

// Pred is a normalised branch predicate. Kind: eq | lt | bool.
type Pred struct {
	Kind string
	A, B string
}

func (p Pred) String() string {
	switch p.Kind {
	case "eq":
		return p.A + " == " + p.B
	case "lt":
		return p.A + " < " + p.B
	}
	return p.A
}

// CondPred normalises a boolean SSA value into (pred, polarity): the value is
// true iff pred == polarity.
func CondPred(res *term.Resolver, v ssa.Value) (Pred, bool, bool) {
	pol := true
	for {
		if u, ok := v.(*ssa.UnOp); ok && u.Op == token.NOT {
			v = u.X
			pol = !pol
			continue
		}
		break
	}
	if b, ok := v.(*ssa.BinOp); ok {
		x, y := res.Of(b.X).String(), res.Of(b.Y).String()
		switch b.Op {
		case token.EQL:
			return Pred{"eq", x, y}, pol, true
		case token.NEQ:
			return Pred{"eq", x, y}, !pol, true
		case token.LSS:
			return Pred{"lt", x, y}, pol, true
		case token.GTR:
			return Pred{"lt", y, x}, pol, true
		case token.GEQ:
			return Pred{"lt", x, y}, !pol, true
		case token.LEQ:
			return Pred{"lt", y, x}, !pol, true
		}
	}
	if _, isPhi := v.(*ssa.Phi); isPhi {
		return Pred{}, pol, false
	}
	if c, ok := v.(*ssa.Call); ok {
		if h := c.Call.StaticCallee(); h != nil && !c.Call.IsInvoke() && res.P.Transparent(h) {
			if li, ei, ok := ContainsHelper(h); ok && li < len(c.Call.Args) && ei < len(c.Call.Args) {
				return Pred{"in", res.Of(c.Call.Args[ei]).String(), res.Of(c.Call.Args[li]).String()}, pol, true
			}
		}
	}
	if c, ok := v.(*ssa.Const); ok && c.Value != nil && c.Value.Kind() == constant.Bool {
		return Pred{"bool", c.Value.String(), ""}, pol, true
	}
	if bt, ok := v.Type().Underlying().(*types.Basic); ok && bt.Kind() == types.Bool {
		return Pred{"bool", res.Of(v).String(), ""}, pol, true
	}
	return Pred{}, pol, false
}

// Atom matches predicates. Pass edge = the edge on which pred == Pol.
type Atom struct {
	Desc string
	Kind string
	A, B *regexp.Regexp
	Pol  bool
	rawA, rawB string // the globs as written (to recognise constant operands)
	Req  [][]Atom // conjunction-by-dominance: the testing block must itself pass each of these disjunctions
	// ForAll: Kind == "forall": the normal exit of a range loop over a slice whose term matches A, in which every
	// full iteration passes one of Inner.
	Inner []Atom
}

// ForAll: "for every element of the slice `over`, one of inner holds" — recognised as a range loop over it
// whose every iteration passes an inner atom; the pass edge is the loop's normal exit.
func ForAll(over string, inner ...Atom) Atom {
	var ds []string
	for _, x := range inner {
		ds = append(ds, x.Desc)
	}
	return Atom{Desc: "for all elements of " + over + ": " + strings.Join(ds, " or "), Kind: "forall", A: Glob(over), Inner: inner}
}

// With returns the atom restricted to tests that are dominated by the given guards.
func (a Atom) With(req ...[]Atom) Atom {
	a.Req = append(append([][]Atom{}, a.Req...), req...)
	for _, q := range req {
		var ds []string
		for _, x := range q {
			ds = append(ds, x.Desc)
		}
		a.Desc += " [given " + strings.Join(ds, " or ") + "]"
	}
	return a
}

// Glob compiles a glob ('*' = any substring, everything else literal).
func Glob(g string) *regexp.Regexp {
	g = strings.ReplaceAll(g, `\*`, "\x00")
	parts := strings.Split(g, "*")
	for i, p := range parts {
		parts[i] = regexp.QuoteMeta(strings.ReplaceAll(p, "\x00", "*"))
	}
	return regexp.MustCompile("^" + strings.Join(parts, ".*") + "$")
}

// Exact escapes a term string so that Glob matches it literally.
func Exact(s string) string { return strings.ReplaceAll(s, "*", `\*`) }

// Eq: a == b holds on the pass edge (symmetric).
func Eq(a, b string) Atom {
	return Atom{Desc: a + " == " + b, Kind: "eq", A: Glob(a), B: Glob(b), Pol: true, rawA: a, rawB: b}
}

// Ne: a != b holds on the pass edge.
func Ne(a, b string) Atom {
	return Atom{Desc: a + " != " + b, Kind: "eq", A: Glob(a), B: Glob(b), Pol: false, rawA: a, rawB: b}
}

// In / NotIn: membership decided by a "contains" helper (a function that ranges over a slice parameter and
// returns true exactly when an element equals its other parameter): elem ∈ list holds / does not hold.
func In(elem, list string) Atom {
	return Atom{Desc: elem + " in " + list, Kind: "in", A: Glob(elem), B: Glob(list), Pol: true}
}
func NotIn(elem, list string) Atom {
	return Atom{Desc: elem + " not in " + list, Kind: "in", A: Glob(elem), B: Glob(list), Pol: false}
}

// Lt: a < b holds; Ge: !(a < b).
func Lt(a, b string) Atom { return Atom{Desc: a + " < " + b, Kind: "lt", A: Glob(a), B: Glob(b), Pol: true} }
func Ge(a, b string) Atom { return Atom{Desc: a + " >= " + b, Kind: "lt", A: Glob(a), B: Glob(b), Pol: false} }

// True / False: boolean term (call result, found flag) is true / false on the pass edge.
func True(a string) Atom  { return Atom{Desc: a, Kind: "bool", A: Glob(a), Pol: true} }
func False(a string) Atom { return Atom{Desc: "!" + a, Kind: "bool", A: Glob(a), Pol: false} }

// matches reports whether pred with the given truth value satisfies the atom.
// matches: also tried with the "read through memory" markers removed — they are not part of the vocabulary of the
// rule tables (assumption A-flow), and whether a local record is address-taken changes with refactoring (&rec
// handed to a helper).
func (a Atom) matches(p Pred, truth bool) bool {
	if a.matches1(p, truth) {
		return true
	}
	if strings.Contains(p.A, "~") || strings.Contains(p.B, "~") {
		q := Pred{p.Kind, strings.ReplaceAll(p.A, "~", ""), strings.ReplaceAll(p.B, "~", "")}
		if a.matches1(q, truth) {
			return true
		}
	}
	// a record handed back by a lookup helper that returns the zero value on its failure paths:
	// phi(nil|X) stands for X wherever the record is used after the helper's success was tested
	if strings.Contains(p.A, "phi(") || strings.Contains(p.B, "phi(") {
		// ... but not where the φ itself is compared with the very value that is dropped: `phi(X|nil) == nil`
		// holding says nothing about X (the nil alternative may be the one that was taken — a helper with an
		// early `return nil` in front of `return check(...)`); only the unequal outcome excludes the nil alternative
		if p.Kind == "eq" && truth {
			za, zb := isZeroTerm(p.A), isZeroTerm(p.B)
			if (za && strings.HasPrefix(strings.TrimLeft(p.B, "~*"), "phi(")) || (zb && strings.HasPrefix(strings.TrimLeft(p.A, "~*"), "phi(")) {
				return false
			}
		}
		qa, qb := dropNilPhi(strings.ReplaceAll(p.A, "~", "")), dropNilPhi(strings.ReplaceAll(p.B, "~", ""))
		if qa != p.A || qb != p.B {
			return a.matches1(Pred{p.Kind, qa, qb}, truth)
		}
	}
	return false
}

func isZeroTerm(s string) bool {
	return s == "nil" || s == "0" || s == `""` || s == "false"
}

// DropNilPhi is dropNilPhi for rules that compare argument terms.
func DropNilPhi(s string) string { return dropNilPhi(s) }

// dropNilPhi: see term.DropNilPhi.
func dropNilPhi(s string) string { return term.DropNilPhi(s) }

func (a Atom) matches1(p Pred, truth bool) bool {
	// X == c1 (holding) establishes X != c2 for a different constant c2
	if a.Kind == "eq" && p.Kind == "eq" && !a.Pol && truth && isConstTerm(a.rawB) {
		if isConstTerm(p.B) && p.B != a.rawB && a.A.MatchString(p.A) {
			return true
		}
		if isConstTerm(p.A) && p.A != a.rawB && a.A.MatchString(p.B) {
			return true
		}
	}
	if a.Kind != p.Kind || truth != a.Pol {
		return false
	}
	switch a.Kind {
	case "eq":
		return (a.A.MatchString(p.A) && a.B.MatchString(p.B)) || (a.A.MatchString(p.B) && a.B.MatchString(p.A))
	case "lt", "in":
		return a.A.MatchString(p.A) && a.B.MatchString(p.B)
	default:
		return a.A.MatchString(p.A)
	}
}

type Checker struct {
	P     *prog.Program
	Fn    *ssa.Function
	Res   *term.Resolver
	Subst []string // when checking a helper: caller-side terms of the helper's parameters
	Depth int      // helper inlining depth
	// ArgVals / Parent: when checking a helper in the context of one call — the argument values of that call and
	// the checker of the calling function (so that a function-valued parameter can be resolved to the closure the
	// caller passes). FreeSubst: when checking a closure — caller-side terms of its captured variables.
	ArgVals   []ssa.Value
	Parent    *Checker
	FreeSubst map[string]string

	// MustRespond mode
	through *ssa.BasicBlock
	avoidB  map[*ssa.BasicBlock]bool
	targets map[*ssa.BasicBlock]bool
	boolIdx  int // helperCall: which result of the helper the condition tests (multi-value helpers)
	phiDepth int // recursion bound for φ-valued conditions
	phiNest  int // nesting bound for φ of φ
}

// MaxHelperDepth bounds helper summarisation (quick 2 / thorough 4, set by the driver).
var MaxHelperDepth = 3

// parameter tokens "#i" (not the "#i" of a tuple extraction, which always follows ')')
var reParam = regexp.MustCompile(`(^|[^)\w])#([0-9]+)(\.)?`)

// SubstParams rewrites the parameter tokens "#i" of a term string to the given terms (exported for rules that
// re-evaluate a helper's call site in its caller's vocabulary).
func SubstParams(s string, subst []string) string { return substParams(s, subst, "") }

func substParams(s string, subst []string, unknown string) string {
	out := substParams0(s, subst, unknown)
	if strings.Contains(out, "mk{") {
		out = term.ReduceLiteralFields(out)
	}
	return out
}

func substParams0(s string, subst []string, unknown string) string {
	return reParam.ReplaceAllStringFunc(s, func(m string) string {
		sm := reParam.FindStringSubmatch(m)
		var i int
		fmt.Sscanf(sm[2], "%d", &i)
		if i < len(subst) && subst[i] != "" {
			t := subst[i]
			if sm[3] == "." {
				t = strings.TrimPrefix(t, "&") + "."
			}
			return sm[1] + t
		}
		if unknown == "" {
			return m
		}
		return sm[1] + unknown + sm[2] + sm[3]
	})
}

// pred: CondPred with parameter tokens rewritten to the caller's argument terms.
func (c *Checker) pred(v ssa.Value) (Pred, bool, bool) {
	// a boolean parameter of a helper stands for the condition the caller computed for it (`h(err == nil)`)
	if c.Parent != nil {
		if bv, vpol := stripNot(v); bv != nil {
			if prm, isP := bv.(*ssa.Parameter); isP && isBool(prm) {
				for i, q := range c.Fn.Params {
					if q == prm && i < len(c.ArgVals) {
						if _, isConst := c.ArgVals[i].(*ssa.Const); !isConst {
							if p, pol, ok := c.Parent.pred(c.ArgVals[i]); ok {
								return p, pol == vpol, true
							}
						}
					}
				}
			}
		}
	}
	p, pol, ok := CondPred(c.Res, v)

	if ok && len(c.Subst) > 0 {
		sub := func(s string) string { return substParams(s, c.Subst, "#callee") }
		p.A, p.B = sub(p.A), sub(p.B)
	}
	if ok && len(c.FreeSubst) > 0 {
		p.A, p.B = c.substFree(p.A), c.substFree(p.B)
	}
	return p, pol, ok
}

var reFree = regexp.MustCompile(`\*?free:(\w+)`)

func (c *Checker) substFree(s string) string {
	return reFree.ReplaceAllStringFunc(s, func(m string) string {
		name := reFree.FindStringSubmatch(m)[1]
		if t, ok := c.FreeSubst[name]; ok {
			return t
		}
		return m
	})
}

// T: the term of a value of the checked function, in the vocabulary of the outermost caller.
func (c *Checker) T(v ssa.Value) string {
	t := c.Res.Of(v).String()
	if len(c.Subst) > 0 {
		t = substParams(t, c.Subst, "")
	}
	if len(c.FreeSubst) > 0 {
		t = c.substFree(t)
	}
	return t
}

// funcOfParam: the function a function-valued parameter of the checked helper stands for at the call under
// consideration (a function, or a closure with the caller-side terms of its captured variables).
func (c *Checker) funcOfParam(v ssa.Value) (*ssa.Function, map[string]string) {
	p, ok := v.(*ssa.Parameter)
	if !ok || c.Parent == nil {
		return nil, nil
	}
	idx := -1
	for i, q := range c.Fn.Params {
		if q == p {
			idx = i
		}
	}
	if idx < 0 || idx >= len(c.ArgVals) {
		return nil, nil
	}
	switch a := c.ArgVals[idx].(type) {
	case *ssa.Function:
		return a, nil
	case *ssa.MakeClosure:
		fn, _ := a.Fn.(*ssa.Function)
		if fn == nil {
			return nil, nil
		}
		fs := map[string]string{}
		for i, fv := range fn.FreeVars {
			if i < len(a.Bindings) {
				t := c.Parent.T(a.Bindings[i])
				fs[fv.Name()] = strings.TrimPrefix(strings.TrimPrefix(t, "~"), "&")
			}
		}
		return fn, fs
	case *ssa.Parameter:
		return c.Parent.funcOfParam(a)
	}
	return nil, nil
}

// helperCall recognises a condition that is decided by a module helper: a bool-returning call (want = the
// boolean) or `call == nil` / `call != nil` on an error-returning call (want = nil-ness).
func (c *Checker) helperCall(v ssa.Value) (call *ssa.Call, isErr bool, pol bool) {
	v, pol = stripNot(v)
	v = term.StoredValue(v)
	c.boolIdx = 0
	if cl, ok := v.(*ssa.Call); ok && isBool(cl) {
		return cl, false, pol
	}
	// the boolean component of a multi-value helper: (x, found bool)
	if ex, ok := v.(*ssa.Extract); ok && isBool(ex) {
		if cl, ok := ex.Tuple.(*ssa.Call); ok && !cl.Call.IsInvoke() {
			if h := cl.Call.StaticCallee(); h != nil && len(h.Blocks) > 0 && h.Pkg != nil && prog.InModule(h.Pkg.Pkg.Path()) {
				c.boolIdx = ex.Index
				return cl, false, pol
			}
		}
	}
	if bo, ok := v.(*ssa.BinOp); ok && (bo.Op == token.EQL || bo.Op == token.NEQ) {
		var other ssa.Value
		var cl *ssa.Call
		isErrVal := false
		asErrCall := func(v ssa.Value) *ssa.Call {
			v = term.StoredValue(v)
			if x, ok := v.(*ssa.Call); ok && x.Type().String() == "error" {
				return x
			}
			// the error component of a multi-value helper: (..., error)
			if ex, ok := v.(*ssa.Extract); ok {
				if x, ok := ex.Tuple.(*ssa.Call); ok {
					if tup, ok := x.Type().(*types.Tuple); ok && ex.Index == tup.Len()-1 && tup.At(ex.Index).Type().String() == "error" {
						return x
					}
				}
			}
			return nil
		}
		if x := asErrCall(bo.X); x != nil {
			cl, other, isErrVal = x, bo.Y, true
		} else if y := asErrCall(bo.Y); y != nil {
			cl, other, isErrVal = y, bo.X, true
		}
		if cl != nil {
			if k, ok := other.(*ssa.Const); ok && k.Value == nil && isErrVal {
				// value of (call == nil) is pol for EQL
				if bo.Op == token.NEQ {
					pol = !pol
				}
				return cl, true, pol
			}
		}
	}
	return nil, false, pol
}

// helperImplies: does the helper returning `want` (true/false, or nil/non-nil error) imply one of the atoms?
func (c *Checker) helperImplies(call *ssa.Call, isErr bool, want bool, atoms []Atom) bool {
	if c.Depth >= MaxHelperDepth {
		return false
	}
	bidx := 0
	if !isErr {
		if tup, ok := call.Type().(*types.Tuple); ok && tup.Len() > 1 {
			bidx = c.boolIdx
			if bidx >= tup.Len() || !isBoolType(tup.At(bidx).Type()) {
				// find the single bool component
				bidx = -1
				for i := 0; i < tup.Len(); i++ {
					if isBoolType(tup.At(i).Type()) {
						if bidx >= 0 {
							return false
						}
						bidx = i
					}
				}
				if bidx < 0 {
					return false
				}
			}
		}
	}
	_, callees := term.CalleeName(c.P, &call.Call)
	var freeSubst map[string]string
	if len(callees) != 1 && !call.Call.IsInvoke() {
		// a call of a function-valued parameter: the closure (or function) the caller passed
		if fn, fs := c.funcOfParam(call.Call.Value); fn != nil {
			callees, freeSubst = []*ssa.Function{fn}, fs
		}
	}
	if len(callees) != 1 || len(callees[0].Blocks) == 0 {
		return false
	}
	h := callees[0]
	off := 0
	if call.Call.IsInvoke() {
		off = 1
	}
	subst := make([]string, len(h.Params))
	for i, a := range call.Call.Args {
		if i+off < len(subst) {
			subst[i+off] = c.T(a)
		}
	}
	hc := &Checker{P: c.P, Fn: h, Res: term.NewResolver(c.P, c.Res.Mods, h), Subst: subst, Depth: c.Depth + 1, ArgVals: call.Call.Args, Parent: c, FreeSubst: freeSubst}
	if os.Getenv("SAODEBUG") != "" {
		fmt.Fprintf(os.Stderr, "helperImplies %s want=%v subst=%v atoms=%d first=%s\n", c.P.Name(h), want, subst, len(atoms), atoms[0].Desc)
		for _, b := range h.Blocks {
			if iff := cfgx.IfOf(b); iff != nil {
				p, pol, ok := hc.pred(iff.Cond)
				fmt.Fprintf(os.Stderr, "   b%d pred=%v pol=%v ok=%v\n", b.Index, p, pol, ok)
			}
		}
	}
	n := 0
	for _, b := range h.Blocks {
		ret, ok := b.Instrs[len(b.Instrs)-1].(*ssa.Return)
		if !ok || len(ret.Results) == 0 {
			continue
		}
		res := ret.Results[len(ret.Results)-1]
		if !isErr {
			if bidx >= len(ret.Results) {
				continue
			}
			res = ret.Results[bidx]
		}
		k, isC := res.(*ssa.Const)
		if !isErr {
			if phi, isPhi := res.(*ssa.Phi); isPhi && (!isC) {
				// `return a && b` / `return a || b`: a φ of constants and computed values. The helper returns
				// `want` through an incoming edge whose value can be `want`; each such edge must be covered.
				allCovered := true
				for i, ev := range phi.Edges {
					if ek, ok := ev.(*ssa.Const); ok && ek.Value != nil && ek.Value.Kind() == constant.Bool {
						if constant.BoolVal(ek.Value) != want {
							continue
						}
					}
					n++
					covered := false
					if _, isConst := ev.(*ssa.Const); !isConst {
						if p, pol, ok := hc.pred(ev); ok {
							for _, a := range atoms {
								if a.matches(p, pol == want) {
									covered = true
								}
							}
						}
					}
					if !covered && hc.edgeEstablishes(phi.Block().Preds[i], phi.Block(), atoms) {
						covered = true
					}
					if !covered {
						if ok, _ := hc.MustPass(phi.Block().Preds[i], atoms); ok {
							covered = true
						}
					}
					if !covered {
						allCovered = false
					}
				}
				if !allCovered {
					return false
				}
				continue
			}
			if !isC || k.Value == nil || k.Value.Kind() != constant.Bool {
				// computed boolean result: helper == want means this value == want
				n++
				covered := false
				if p, pol, ok := hc.pred(res); ok {
					for _, a := range atoms {
						if a.matches(p, pol == want) {
							covered = true
						}
					}
				}
				// ... or the result of a further helper:  return k.other(...)
				if !covered {
					if inner, ipol := stripNot(res); inner != nil {
						if cl, isCall := inner.(*ssa.Call); isCall && isBool(cl) {
							hc.boolIdx = 0
							if hc.helperImplies(cl, false, ipol == want, atoms) {
								covered = true
							}
						}
					}
				}
				if !covered {
					if ok, _ := hc.MustPass(b, atoms); !ok {
						return false
					}
				}
				continue
			}
			if constant.BoolVal(k.Value) != want {
				continue
			}
		} else {
			isNil := isC && k.Value == nil
			if want { // want nil error
				if !isNil {
					if isC || DefinitelyNonNil(res, 0) {
						continue
					}
					// a computed error: may be nil — must also be covered. When the helper hands back the very
					// error value an atom speaks about (`return k.bank.Send(...)`), the helper returning nil IS
					// that value being nil.
					rt := hc.Res.Of(res).String()
					if len(hc.Subst) > 0 {
						rt = substParams(rt, hc.Subst, "#callee")
					}
					direct := false
					for _, a := range atoms {
						if a.matches(Pred{Kind: "eq", A: rt, B: "nil"}, true) {
							direct = true
						}
					}
					if direct {
						n++
						continue
					}
					// ... or the error of a further helper:  return k.other(...)
					if cl, isCall := res.(*ssa.Call); isCall && cl.Type().String() == "error" {
						if hc.helperImplies(cl, true, true, atoms) {
							n++
							continue
						}
					}
				}
			} else {
				if isNil {
					continue
				}
			}
		}
		n++
		if ok, w := hc.MustPass(b, atoms); !ok {
			if os.Getenv("SAODEBUG") != "" {
				fmt.Fprintf(os.Stderr, "  helperImplies %s want=%v: return at b%d not covered: %v\n", c.P.Name(h), want, b.Index, w)
			}
			return false
		}
	}
	if os.Getenv("SAODEBUG") != "" {
		fmt.Fprintf(os.Stderr, "  helperImplies %s want=%v: n=%d\n", c.P.Name(h), want, n)
	}
	return n > 0
}

// enumTest recognises  h(...) == K  /  h(...) != K  with h a module helper with a body returning one non-bool,
// non-error value and K a constant: the condition is true exactly when (result == K) == eqPol.
func (c *Checker) enumTest(v ssa.Value) (call *ssa.Call, k *ssa.Const, eqPol bool, ok bool) {
	v, pol := stripNot(v)
	bo, isBo := v.(*ssa.BinOp)
	if !isBo || (bo.Op != token.EQL && bo.Op != token.NEQ) {
		return nil, nil, false, false
	}
	x, y := bo.X, bo.Y
	if _, isC := x.(*ssa.Const); isC {
		x, y = y, x
	}
	kc, isC := y.(*ssa.Const)
	if !isC || kc.Value == nil || kc.Value.Kind() == constant.Bool {
		return nil, nil, false, false
	}
	cl, isCall := x.(*ssa.Call)
	if !isCall || cl.Call.IsInvoke() {
		return nil, nil, false, false
	}
	h := cl.Call.StaticCallee()
	if h == nil || len(h.Blocks) == 0 || h.Pkg == nil || !prog.InModule(h.Pkg.Pkg.Path()) || h.Signature.Results().Len() != 1 {
		return nil, nil, false, false
	}
	if bo.Op == token.NEQ {
		pol = !pol
	}
	return cl, kc, pol, true
}

// enumImplies: the helper handing back K (wantEq) / something else implies one of the atoms.
func (c *Checker) enumImplies(call *ssa.Call, k *ssa.Const, wantEq bool, atoms []Atom, also ...*ssa.Const) bool {
	if c.Depth >= MaxHelperDepth {
		return false
	}
	h := call.Call.StaticCallee()
	subst := make([]string, len(h.Params))
	for i, a := range call.Call.Args {
		if i < len(subst) {
			subst[i] = c.T(a)
		}
	}
	hc := &Checker{P: c.P, Fn: h, Res: term.NewResolver(c.P, c.Res.Mods, h), Subst: subst, Depth: c.Depth + 1, ArgVals: call.Call.Args, Parent: c}
	n := 0
	for _, b := range h.Blocks {
		ret, ok := b.Instrs[len(b.Instrs)-1].(*ssa.Return)
		if !ok || len(ret.Results) != 1 {
			continue
		}
		if rc, isC := ret.Results[0].(*ssa.Const); isC && rc.Value != nil {
			same := constant.Compare(rc.Value, token.EQL, k.Value)
			if same != wantEq {
				continue
			}
			// constants already ruled out by the tests above this one (the cases of a switch)
			excluded := false
			for _, k2 := range also {
				if !wantEq && constant.Compare(rc.Value, token.EQL, k2.Value) {
					excluded = true
				}
			}
			if excluded {
				continue
			}
		}
		n++
		if ok, _ := hc.MustPass(b, atoms); !ok {
			return false
		}
	}
	return n > 0
}

// resultTest recognises a condition on one result of a module helper call: the condition is true exactly when that
// result is empty/nil == emptyPol.
func (c *Checker) resultTest(v ssa.Value) (call *ssa.Call, idx int, emptyPol bool, ok bool) {
	v, pol := stripNot(v)
	var x ssa.Value
	switch t := v.(type) {
	case *ssa.Call:
		if f := t.Call.StaticCallee(); f != nil && f.Name() == "Empty" && len(t.Call.Args) == 1 {
			x, emptyPol = t.Call.Args[0], pol
		}
	case *ssa.BinOp:
		other := t.Y
		cand := t.X
		if _, isC := t.X.(*ssa.Const); isC {
			other, cand = t.X, t.Y
		}
		k, isC := other.(*ssa.Const)
		if !isC {
			return nil, 0, false, false
		}
		if lc, isLen := cand.(*ssa.Call); isLen {
			if bi, okb := lc.Call.Value.(*ssa.Builtin); okb && bi.Name() == "len" && len(lc.Call.Args) == 1 && k.Value != nil && k.Value.Kind() == constant.Int && k.Int64() == 0 {
				switch t.Op {
				case token.EQL:
					x, emptyPol = lc.Call.Args[0], pol
				case token.NEQ, token.GTR:
					x, emptyPol = lc.Call.Args[0], !pol
				}
			}
		} else if (k.Value == nil || isEmptyStringConst(k)) && (t.Op == token.EQL || t.Op == token.NEQ) {
			// result == nil, or a string result compared with "" (a failure text handed back instead of an error)
			x, emptyPol = cand, pol
			if t.Op == token.NEQ {
				emptyPol = !pol
			}
		}
	}
	if x == nil {
		return nil, 0, false, false
	}
	switch r := x.(type) {
	case *ssa.Extract:
		if cl, isCall := r.Tuple.(*ssa.Call); isCall {
			call, idx = cl, r.Index
		}
	case *ssa.Call:
		call, idx = r, 0
	}
	if call == nil || call.Call.IsInvoke() {
		return nil, 0, false, false
	}
	h := call.Call.StaticCallee()
	if h == nil || len(h.Blocks) == 0 || h.Pkg == nil || !prog.InModule(h.Pkg.Pkg.Path()) {
		return nil, 0, false, false
	}
	// an error result is the business of helperCall
	if call.Type().String() == "error" {
		return nil, 0, false, false
	}
	if tup, isTup := call.Type().(*types.Tuple); isTup && idx < tup.Len() && tup.At(idx).Type().String() == "error" {
		return nil, 0, false, false
	}
	return call, idx, emptyPol, true
}

// resultImplies: the helper handing back an empty (wantEmpty) / non-empty result idx implies one of the atoms: every
// return site whose value for that result is compatible with the outcome establishes it.
func (c *Checker) resultImplies(call *ssa.Call, idx int, wantEmpty bool, atoms []Atom) bool {
	if c.Depth >= MaxHelperDepth {
		return false
	}
	h := call.Call.StaticCallee()
	subst := make([]string, len(h.Params))
	for i, a := range call.Call.Args {
		if i < len(subst) {
			t := c.Res.Of(a).String()
			if len(c.Subst) > 0 {
				t = substParams(t, c.Subst, "")
			}
			subst[i] = t
		}
	}
	hc := &Checker{P: c.P, Fn: h, Res: term.NewResolver(c.P, c.Res.Mods, h), Subst: subst, Depth: c.Depth + 1}
	n := 0
	for _, b := range h.Blocks {
		ret, ok := b.Instrs[len(b.Instrs)-1].(*ssa.Return)
		if !ok || idx >= len(ret.Results) {
			continue
		}
		rv := ret.Results[idx]
		k, isC := rv.(*ssa.Const)
		isEmpty := isC && (k.Value == nil || isEmptyStringConst(k))
		if wantEmpty {
			if isString(rv.Type()) {
				if !isEmpty && nonEmptyString(rv, b, 0) {
					continue
				}
			} else if !isEmpty && DefinitelyNonNil(rv, 0) {
				continue
			}
		} else if isEmpty {
			continue
		}
		n++
		if ok, _ := hc.MustPass(b, atoms); !ok {
			return false
		}
	}
	return n > 0
}

// siteAlt: one way a helper can have produced the outcome a branch observes (one of its return sites): whether
// every path to that site establishes an atom, and the equalities with constants that hold whenever it is reached.
type siteAlt struct {
	cut bool
	eq  map[string]string
	ne  map[string][]string
	// nonNil: caller-side argument values that this return site needs to be non-nil / non-empty (the site lies
	// behind the non-empty side of a test of the corresponding parameter)
	nonNil []ssa.Value
}

// nonNilParams: parameters of the checked helper that are tested non-nil / non-empty on the single-predecessor
// chain of branch edges above block b.
func (c *Checker) nonNilParams(b *ssa.BasicBlock) []int {
	var out []int
	for x := b; x != nil && len(x.Preds) == 1; x = x.Preds[0] {
		d := x.Preds[0]
		iff := cfgx.IfOf(d)
		if iff == nil || len(d.Succs) != 2 || d.Succs[0] == d.Succs[1] {
			continue
		}
		v, pol := stripNot(iff.Cond)
		truth := (d.Succs[0] == x) == pol // value of v on the edge taken
		var tested ssa.Value
		switch y := v.(type) {
		case *ssa.Call:
			if sc := y.Call.StaticCallee(); sc != nil && sc.Name() == "Empty" && len(y.Call.Args) == 1 && !truth {
				tested = y.Call.Args[0]
			}
		case *ssa.BinOp:
			if y.Op == token.EQL || y.Op == token.NEQ {
				a, k := y.X, y.Y
				if cv, isC := a.(*ssa.Const); isC && cv.Value == nil {
					a, k = k, a
				}
				if cv, isC := k.(*ssa.Const); isC && cv.Value == nil && nillable(cv.Type()) && truth == (y.Op == token.NEQ) {
					tested = a
				}
			}
		}
		if tested == nil {
			continue
		}
		for i, q := range c.Fn.Params {
			if ssa.Value(q) == tested {
				out = append(out, i)
			}
		}
	}
	return out
}

// mustFacts: equalities / disequalities of terms with constants that hold whenever block b of the checked function is
// reached, read off the chain of single-predecessor branch edges above it (terms in the outermost caller's vocabulary).
func (c *Checker) mustFacts(b *ssa.BasicBlock) (map[string]string, map[string][]string) {
	eq, ne := map[string]string{}, map[string][]string{}
	for x := b; x != nil && len(x.Preds) == 1; x = x.Preds[0] {
		d := x.Preds[0]
		iff := cfgx.IfOf(d)
		if iff == nil || len(d.Succs) != 2 || d.Succs[0] == d.Succs[1] {
			continue
		}
		onTrue := d.Succs[0] == x
		p, ppol, ok := c.pred(iff.Cond)
		if !ok || p.Kind != "eq" {
			continue
		}
		t, k := p.A, p.B
		if isConstTerm(t) && !isConstTerm(k) {
			t, k = k, t
		}
		if !isConstTerm(k) || isConstTerm(t) || strings.Contains(t, "#callee") || strings.Contains(t, "~") || strings.Contains(t, "elem(") || strings.Contains(t, "phi(") || strings.Contains(t, "cyc:") {
			continue
		}
		if onTrue == ppol {
			if _, dup := eq[t]; !dup {
				eq[t] = k
			}
		} else {
			ne[t] = append(ne[t], k)
		}
	}
	return eq, ne
}

// helperAlts: the return sites through which the helper can have produced the observed outcome, each with what it
// establishes. nil when the helper cannot be summarised.
func (c *Checker) helperAlts(call *ssa.Call, isErr bool, want bool, atoms []Atom) []siteAlt {
	if c.Depth >= MaxHelperDepth {
		return nil
	}
	_, callees := term.CalleeName(c.P, &call.Call)
	if len(callees) != 1 || len(callees[0].Blocks) == 0 || call.Call.IsInvoke() {
		return nil
	}
	h := callees[0]
	bidx := 0
	if !isErr {
		if tup, ok := call.Type().(*types.Tuple); ok && tup.Len() > 1 {
			bidx = c.boolIdx
			if bidx >= tup.Len() || !isBoolType(tup.At(bidx).Type()) {
				return nil
			}
		}
	}
	subst := make([]string, len(h.Params))
	for i, a := range call.Call.Args {
		if i < len(subst) {
			subst[i] = c.T(a)
		}
	}
	hc := &Checker{P: c.P, Fn: h, Res: term.NewResolver(c.P, c.Res.Mods, h), Subst: subst, Depth: c.Depth + 1, ArgVals: call.Call.Args, Parent: c}
	var out []siteAlt
	for _, b := range h.Blocks {
		ret, ok := b.Instrs[len(b.Instrs)-1].(*ssa.Return)
		if !ok || len(ret.Results) == 0 {
			continue
		}
		res := ret.Results[len(ret.Results)-1]
		if !isErr {
			if bidx >= len(ret.Results) {
				return nil
			}
			res = ret.Results[bidx]
		}
		k, isC := res.(*ssa.Const)
		if isErr {
			isNil := isC && k.Value == nil
			if want && !isNil && (isC || DefinitelyNonNil(res, 0)) {
				continue
			}
			if !want && isNil {
				continue
			}
		} else {
			if !isC || k.Value == nil || k.Value.Kind() != constant.Bool {
				return nil // a computed boolean: no per-site split
			}
			if constant.BoolVal(k.Value) != want {
				continue
			}
		}
		est, _ := hc.MustPass(b, atoms)
		if !est && isErr && want {
			if cl, isCall := res.(*ssa.Call); isCall && cl.Type().String() == "error" {
				est = hc.helperImplies(cl, true, true, atoms)
			}
		}
		eq, ne := hc.mustFacts(b)
		var nn []ssa.Value
		for _, i := range hc.nonNilParams(b) {
			if i < len(call.Call.Args) {
				nn = append(nn, call.Call.Args[i])
			}
		}
		out = append(out, siteAlt{cut: est, eq: eq, ne: ne, nonNil: nn})
	}
	return out
}

// altEdges: for branch edges decided by a helper that are not established outright, the alternatives (return sites)
// with their facts — the search forks over them, so that a later test in the caller can rule an alternative out.
func (c *Checker) altEdges(atoms []Atom, cut map[cfgx.Edge]bool) map[cfgx.Edge][]siteAlt {
	out := map[cfgx.Edge][]siteAlt{}
	if len(atoms) == 0 {
		return out
	}
	for _, b := range c.Fn.Blocks {
		iff := cfgx.IfOf(b)
		if iff == nil || len(b.Succs) != 2 {
			continue
		}
		call, isErr, hpol := c.helperCall(iff.Cond)
		if call == nil {
			continue
		}
		for si := 0; si < 2; si++ {
			e := cfgx.Edge{From: b, To: b.Succs[si]}
			if cut[e] {
				continue
			}
			want := hpol
			if si == 1 {
				want = !hpol
			}
			alts := c.helperAlts(call, isErr, want, atoms)
			useful := false
			for _, a := range alts {
				if a.cut || len(a.eq) > 0 || len(a.ne) > 0 || len(a.nonNil) > 0 {
					useful = true
				}
			}
			if useful && len(alts) > 1 {
				out[e] = alts
			}
		}
	}
	return out
}

// directCut: edges on which one of the atoms holds by the branch condition itself.
func (c *Checker) directCut(atoms []Atom) map[cfgx.Edge]bool {
	cut := map[cfgx.Edge]bool{}
	for _, a := range atoms {
		if a.Kind == "forall" {
			for e := range c.forallEdges(a) {
				cut[e] = true
			}
		}
	}
	for _, b := range c.Fn.Blocks {
		iff := cfgx.IfOf(b)
		if iff == nil || len(b.Succs) != 2 {
			continue
		}
		// conditions decided by a module helper: summarise the helper (bounded depth)
		if call, isErr, hpol := c.helperCall(iff.Cond); call != nil {
			// true edge of the If: helper result == hpol (bool) / error is nil == hpol
			if c.helperImplies(call, isErr, hpol, atoms) {
				cut[cfgx.Edge{From: b, To: b.Succs[0]}] = true
			}
			if c.helperImplies(call, isErr, !hpol, atoms) {
				cut[cfgx.Edge{From: b, To: b.Succs[1]}] = true
			}
		}
		// a comparison of a helper's result with a constant (an enum-like classification computed by the helper):
		// only the return sites that hand back that constant (resp. another one) can have been taken
		if call, k, eqPol, ok := c.enumTest(iff.Cond); ok && len(atoms) > 0 {
			// the constants the same result was compared with, unequal, on the way here (earlier cases of a switch)
			var also []*ssa.Const
			for x := b; len(x.Preds) == 1; x = x.Preds[0] {
				d := x.Preds[0]
				iff2 := cfgx.IfOf(d)
				if iff2 == nil || len(d.Succs) != 2 || d.Succs[0] == d.Succs[1] {
					break
				}
				call2, k2, eqPol2, ok2 := c.enumTest(iff2.Cond)
				if !ok2 || call2 != call {
					break
				}
				if (d.Succs[0] == x) != eqPol2 {
					also = append(also, k2)
				}
			}
			if c.enumImplies(call, k, eqPol, atoms, also...) {
				cut[cfgx.Edge{From: b, To: b.Succs[0]}] = true
			}
			if c.enumImplies(call, k, !eqPol, atoms, also...) {
				cut[cfgx.Edge{From: b, To: b.Succs[1]}] = true
			}
		}
		// a test of what a helper handed back (x == nil, x.Empty(), len(x) == 0 with x a result of the helper): only
		// the helper's return sites whose value is compatible with the outcome can have been taken
		if call, idx, emptyPol, ok := c.resultTest(iff.Cond); ok && len(atoms) > 0 {
			if c.resultImplies(call, idx, emptyPol, atoms) {
				cut[cfgx.Edge{From: b, To: b.Succs[0]}] = true
			}
			if c.resultImplies(call, idx, !emptyPol, atoms) {
				cut[cfgx.Edge{From: b, To: b.Succs[1]}] = true
			}
		}
		// a materialised `A && B` / `A || B` (switch-case expressions, boolean locals): the condition is a φ whose
		// incoming values are constants and computed comparisons
		if pv, ppol0 := stripNot(iff.Cond); pv != nil {
			if phi, isPhi := pv.(*ssa.Phi); isPhi && isBool(phi) && c.phiDepth < 1 && len(atoms) > 0 {
				if c.phiImplies(phi, ppol0, atoms) {
					cut[cfgx.Edge{From: b, To: b.Succs[0]}] = true
				}
				if c.phiImplies(phi, !ppol0, atoms) {
					cut[cfgx.Edge{From: b, To: b.Succs[1]}] = true
				}
			}
		}
		p, ppol, ok := c.pred(iff.Cond)
		if !ok {
			continue
		}
		for _, a := range atoms {
			m0, m1 := a.matches(p, ppol), a.matches(p, !ppol)
			if (m0 || m1) && len(a.Req) > 0 {
				okReq := true
				for _, q := range a.Req {
					if ok, _ := c.MustPass(b, q); !ok {
						okReq = false
					}
				}
				if !okReq {
					continue
				}
			}
			if m0 {
				cut[cfgx.Edge{From: b, To: b.Succs[0]}] = true
			}
			if m1 {
				cut[cfgx.Edge{From: b, To: b.Succs[1]}] = true
			}
		}
	}
	return cut
}

// edgeEstablishes: the branch condition of `from`, on its edge to `to`, establishes one of the atoms.
func (c *Checker) edgeEstablishes(from, to *ssa.BasicBlock, atoms []Atom) bool {
	iff := cfgx.IfOf(from)
	if iff == nil || len(from.Succs) != 2 {
		return false
	}
	p, pol, ok := c.pred(iff.Cond)
	if !ok {
		return false
	}
	holds := pol // on the true edge the predicate has polarity pol
	if from.Succs[1] == to && from.Succs[0] != to {
		holds = !pol
	} else if from.Succs[0] != to {
		return false
	}
	for _, a := range atoms {
		if len(a.Req) == 0 && a.matches(p, holds) {
			return true
		}
	}
	return false
}

// NilResultImplies: the error handed back by the module helper called at `call` being nil implies one of the atoms
// (every nil return site of the helper lies behind one of them, in the caller's vocabulary).
func (c *Checker) NilResultImplies(call *ssa.Call, atoms []Atom) bool {
	return c.helperImplies(call, true, true, atoms)
}

// ValueEstablishes: the boolean value v being `truth` establishes one of the atoms (by its own comparison).
func (c *Checker) ValueEstablishes(v ssa.Value, truth bool, atoms []Atom) bool {
	p, pol, ok := c.pred(v)
	if !ok {
		return false
	}
	for _, a := range atoms {
		if len(a.Req) == 0 && a.matches(p, pol == truth) {
			return true
		}
	}
	return false
}

// phiImplies: does the boolean φ having the value `want` imply one of the atoms? Every incoming value that can be
// `want` must either be a comparison that matches an atom at that polarity, or arrive from a block that is itself
// reached only through the atoms (the `A` of `A && B`, decided by the branch that leads to the evaluation of B).
func (c *Checker) phiImplies(phi *ssa.Phi, want bool, atomsIn []Atom) bool {
	n := 0
	for i, e := range phi.Edges {
		// atoms restricted by dominating requirements (With): the requirement must hold where this incoming value
		// is computed; the atom is then used without it
		atoms := make([]Atom, 0, len(atomsIn))
		for _, a := range atomsIn {
			if len(a.Req) == 0 || i >= len(phi.Block().Preds) {
				atoms = append(atoms, a)
				continue
			}
			okReq := true
			for _, q := range a.Req {
				sub := *c
				sub.phiDepth = c.phiDepth + 1
				if ok, _ := sub.MustPass(phi.Block().Preds[i], q); !ok {
					okReq = false
				}
			}
			if okReq {
				b := a
				b.Req = nil
				atoms = append(atoms, b)
			}
		}
		if k, ok := e.(*ssa.Const); ok && k.Value != nil && k.Value.Kind() == constant.Bool {
			if constant.BoolVal(k.Value) != want {
				continue // this edge cannot produce `want`
			}
		}
		n++
		covered := false
		if _, isConst := e.(*ssa.Const); !isConst {
			if p, pol, ok := c.pred(e); ok {
				for _, a := range atoms {
					if len(a.Req) == 0 && a.matches(p, pol == want) {
						covered = true
					}
				}
			}
			// nested and/or: the incoming value is itself a materialised boolean
			if !covered {
				if ev, epol := stripNot(e); ev != nil {
					if inner, isPhi := ev.(*ssa.Phi); isPhi && isBool(inner) && inner != phi && c.phiNest < 4 {
						sub := *c
						sub.phiNest = c.phiNest + 1
						if sub.phiImplies(inner, epol == want, atomsIn) {
							covered = true
						}
					}
				}
			}
			// the incoming value is decided by a helper: `a || k.helper(...)`
			if !covered {
				if call, isErr, hpol := c.helperCall(e); call != nil {
					if c.helperImplies(call, isErr, hpol == want, atoms) {
						covered = true
					}
				}
			}
		}
		if !covered && i < len(phi.Block().Preds) {
			if c.edgeEstablishes(phi.Block().Preds[i], phi.Block(), atoms) {
				covered = true
			}
		}
		if !covered && i < len(phi.Block().Preds) {
			sub := *c
			sub.phiDepth = c.phiDepth + 1
			if ok, _ := sub.MustPass(phi.Block().Preds[i], atoms); ok {
				covered = true
			}
		}
		if !covered {
			return false
		}
	}
	return n > 0
}

// forallEdges: exit edges of range loops over a slice matching a.A in which every iteration passes a.Inner.
func (c *Checker) forallEdges(a Atom) map[cfgx.Edge]bool {
	out := map[cfgx.Edge]bool{}
	for _, l := range cfgx.Loops(c.Fn) {
		iff := cfgx.IfOf(l.Header)
		if iff == nil || len(l.Header.Succs) != 2 {
			continue
		}
		// range-over-slice header: (φ+1) < len(X)
		bo, ok := iff.Cond.(*ssa.BinOp)
		if !ok || bo.Op != token.LSS {
			continue
		}
		call, ok := bo.Y.(*ssa.Call)
		if !ok {
			continue
		}
		if bi, ok := call.Call.Value.(*ssa.Builtin); !ok || bi.Name() != "len" || len(call.Call.Args) != 1 {
			continue
		}
		xt := c.Res.Of(call.Call.Args[0]).String()
		if len(c.Subst) > 0 {
			xt = substParams(xt, c.Subst, "#callee") // inside a helper: the list in the caller's vocabulary
		}
		if !a.A.MatchString(strings.ReplaceAll(xt, "~", "")) && !a.A.MatchString(xt) {
			continue
		}
		if !l.Body[l.Header.Succs[0]] || l.Body[l.Header.Succs[1]] {
			continue
		}
		inner := c.directCut(a.Inner)
		// every cycle header -> ... -> header must pass an inner edge
		seen := map[*ssa.BasicBlock]bool{}
		st := []*ssa.BasicBlock{l.Header.Succs[0]}
		cycles := false
		for len(st) > 0 {
			b := st[len(st)-1]
			st = st[:len(st)-1]
			if b == l.Header {
				cycles = true
				break
			}
			if seen[b] {
				continue
			}
			seen[b] = true
			for _, s2 := range b.Succs {
				if !l.Body[s2] || inner[cfgx.Edge{From: b, To: s2}] {
					continue
				}
				st = append(st, s2)
			}
		}
		if !cycles {
			out[cfgx.Edge{From: l.Header, To: l.Header.Succs[1]}] = true
		}
	}
	return out
}

// PassEdges is kept for diagnostics: the direct pass edges.
func (c *Checker) PassEdges(atoms []Atom) map[cfgx.Edge]bool { return c.directCut(atoms) }

func stripNot(v ssa.Value) (ssa.Value, bool) {
	pol := true
	for {
		if u, ok := v.(*ssa.UnOp); ok && u.Op == token.NOT {
			v = u.X
			pol = !pol
			continue
		}
		return v, pol
	}
}

func nillable(t types.Type) bool {
	switch t.Underlying().(type) {
	case *types.Pointer, *types.Slice, *types.Map, *types.Interface, *types.Signature, *types.Chan:
		return true
	}
	return false
}

// nilCond evaluates conditions over a φ known to be nil on this path:
// x == nil, x != nil, x.Empty(), len(x) == 0.
func nilCond(v ssa.Value, val valuation) (bool, bool) {
	isNil := func(x ssa.Value) bool {
		if _, ok := x.(*ssa.Phi); ok {
			return val[x] == -1 && !isBool(x)
		}
		return false
	}
	switch x := v.(type) {
	case *ssa.BinOp:
		if x.Op == token.EQL || x.Op == token.NEQ {
			var other ssa.Value
			if isNil(x.X) {
				other = x.Y
			} else if isNil(x.Y) {
				other = x.X
			}
			if cv, ok := other.(*ssa.Const); ok && cv.Value == nil && nillable(cv.Type()) {
				return x.Op == token.EQL, true
			}
		}
	case *ssa.Call:
		if sc := x.Call.StaticCallee(); sc != nil && sc.Name() == "Empty" && len(x.Call.Args) == 1 && isNil(x.Call.Args[0]) {
			return true, true
		}
	}
	return false, false
}

func isBoolType(t types.Type) bool {
	b, ok := t.Underlying().(*types.Basic)
	return ok && b.Kind() == types.Bool
}

func isBool(v ssa.Value) bool {
	bt, ok := v.Type().Underlying().(*types.Basic)
	return ok && bt.Kind() == types.Bool
}

// tracked: boolean values whose truth is remembered along a path: φ of bools,
// values flowing into such φ, and conditions tested by more than one branch.
func (c *Checker) tracked() map[ssa.Value]bool {
	t := map[ssa.Value]bool{}
	uses := map[ssa.Value]int{}
	for _, b := range c.Fn.Blocks {
		for _, ins := range b.Instrs {
			if phi, ok := ins.(*ssa.Phi); ok && !isBool(phi) && nillable(phi.Type()) {
				for _, e := range phi.Edges {
					if cv, isC := e.(*ssa.Const); isC && cv.Value == nil {
						t[phi] = true
					}
				}
			}
			if phi, ok := ins.(*ssa.Phi); ok && isBool(phi) {
				t[phi] = true
				for _, e := range phi.Edges {
					if _, isC := e.(*ssa.Const); !isC {
						v, _ := stripNot(e)
						t[v] = true
					}
				}
			}
		}
		if iff := cfgx.IfOf(b); iff != nil {
			v, _ := stripNot(iff.Cond)
			uses[v]++
		}
	}
	for v, n := range uses {
		if n > 1 {
			t[v] = true
		}
	}
	return t
}

type pstate struct {
	b   *ssa.BasicBlock
	val string // canonical valuation
}

type valuation map[ssa.Value]int8 // 1 true, -1 false

func (v valuation) key(order map[ssa.Value]int) string {
	buf := make([]byte, len(order))
	for i := range buf {
		buf[i] = '.'
	}
	for k, x := range v {
		if x > 0 {
			buf[order[k]] = 'T'
		} else if x < 0 {
			buf[order[k]] = 'F'
		}
	}
	return string(buf)
}

const maxStates = 20000

// StateBound is the witness text returned when the search was cut off.
const StateBound = "UNDECIDED: abstract-state bound exceeded"

// MustPass: every feasible path entry -> target passes an edge where an atom
// holds. Paths are explored over (block, valuation of tracked booleans), so
// flags are expanded to the comparisons that set them and repeated tests of
// one value are correlated. On failure the witness path is returned.
func (c *Checker) MustPass(target *ssa.BasicBlock, atoms []Atom) (bool, []string) {
	ok, path, bound := c.search(target, atoms)
	if ok {
		return true, nil
	}
	if bound {
		return false, []string{StateBound}
	}
	return false, c.RenderPath(path)
}

// Undecided reports whether the last search hit the state bound.
func (c *Checker) search(target *ssa.BasicBlock, atoms []Atom) (bool, []*ssa.BasicBlock, bool) {
	return c.searchMode(target, atoms, false)
}

// MustAvoid: no feasible path entry -> target traverses an edge on which one of the atoms holds
// (e.g. "the element is appended only when no earlier element equals it").
func (c *Checker) MustAvoid(target *ssa.BasicBlock, atoms []Atom) (bool, []string) {
	ok, path, bound := c.searchMode(target, atoms, true)
	if ok {
		return true, nil
	}
	if bound {
		return false, []string{StateBound}
	}
	return false, c.RenderPath(path)
}

// Obligation: after passing through a trigger block, every feasible path to a target passes a response block
// (or an edge on which a response atom holds). Flags and repeated tests are correlated as in MustPass.
// Returns ok, or a witness path from the entry through the trigger to the target that misses every response.
func (c *Checker) MustRespond(trigger *ssa.BasicBlock, targets map[*ssa.BasicBlock]bool, respBlocks map[*ssa.BasicBlock]bool, respAtoms []Atom) (bool, []string) {
	c.through, c.avoidB, c.targets = trigger, respBlocks, targets
	defer func() { c.through, c.avoidB, c.targets = nil, nil, nil }()
	ok, path, bound := c.searchMode(nil, respAtoms, false)
	if ok {
		return true, nil
	}
	if bound {
		return false, []string{StateBound}
	}
	return false, c.RenderPath(path)
}

func (c *Checker) searchMode(target *ssa.BasicBlock, atoms []Atom, avoid bool) (bool, []*ssa.BasicBlock, bool) {
	cut := c.directCut(atoms)
	// avoid mode: "within one iteration of the loop that holds the target"
	var iterHdr *ssa.BasicBlock
	if avoid {
		loops := cfgx.Loops(c.Fn)
		for b := target; b != nil && iterHdr == nil; b = b.Idom() {
			var best *cfgx.Loop
			for _, l := range loops {
				if l.Body[b] && (best == nil || len(l.Body) < len(best.Body)) {
					best = l
				}
			}
			if best != nil {
				iterHdr = best.Header
			}
		}
		if len(cut) == 0 {
			return false, nil, false // nothing to avoid: the rule would pass vacuously
		}
	}
	var alts map[cfgx.Edge][]siteAlt
	if !avoid && c.through == nil {
		alts = c.altEdges(atoms, cut)
	}
	tr := c.tracked()
	order := map[ssa.Value]int{}
	for _, b := range c.Fn.Blocks {
		for _, ins := range b.Instrs {
			if v, ok := ins.(ssa.Value); ok && tr[v] {
				order[v] = len(order)
			}
		}
	}
	for v := range tr {
		if _, ok := order[v]; !ok {
			order[v] = len(order)
		}
	}
	type node struct {
		b    *ssa.BasicBlock
		val  valuation
		eqc  map[string]string // term -> constant it equals on this path
		nec  map[string]string // term -> "|c1|c2|" constants it differs from
		prev *node
		bad  bool // avoid mode: the path has traversed a forbidden edge
		arm  bool // respond mode: the trigger has been passed and no response since
	}
	factKey := func(eqc, nec map[string]string) string {
		if len(eqc) == 0 && len(nec) == 0 {
			return ""
		}
		var ks []string
		for k, v := range eqc {
			ks = append(ks, k+"="+v)
		}
		for k, v := range nec {
			ks = append(ks, k+"!"+v)
		}
		sortStrings(ks)
		return strings.Join(ks, ";")
	}
	entry := c.Fn.Blocks[0]
	start := &node{b: entry, val: valuation{}, eqc: map[string]string{}, nec: map[string]string{}}
	respond := c.through != nil
	if respond && entry == c.through && !c.avoidB[entry] {
		start.arm = true
	}
	seen := map[pstate]bool{{entry, start.val.key(order)}: true}
	q := []*node{start}
	for len(q) > 0 {
		n := q[0]
		q = q[1:]
		if (!respond && n.b == target && (!avoid || n.bad)) || (respond && n.arm && c.targets[n.b]) {
			var rev []*ssa.BasicBlock
			for x := n; x != nil; x = x.prev {
				rev = append(rev, x.b)
			}
			for i, j := 0, len(rev)-1; i < j; i, j = i+1, j-1 {
				rev[i], rev[j] = rev[j], rev[i]
			}
			return false, rev, false
		}
		if len(seen) > maxStates {
			return false, nil, true
		}
		iff := cfgx.IfOf(n.b)
		for si, s := range n.b.Succs {
			e := cfgx.Edge{From: n.b, To: s}
			nbad := n.bad
			narm := n.arm
			if cut[e] {
				if respond {
					narm = false // a response edge discharges the obligation
				} else if !avoid {
					continue
				} else {
					nbad = true
				}
			}
			if respond {
				if c.avoidB[s] {
					narm = false
				}
				if s == c.through && !c.avoidB[s] {
					narm = true
				}
			}
			nv := valuation{}
			for k, x := range n.val {
				nv[k] = x
			}
			neq, nne := n.eqc, n.nec
			if iff != nil && len(n.b.Succs) == 2 {
				v, pol := stripNot(iff.Cond)
				truth := (si == 0) == pol // value of v on this edge
				if cv, isC := v.(*ssa.Const); isC && cv.Value != nil && cv.Value.Kind() == constant.Bool {
					if constant.BoolVal(cv.Value) != truth {
						continue
					}
				}
				if x, known := nv[v]; known && isBool(v) {
					if (x > 0) != truth {
						continue // infeasible: contradicts an earlier decision on the same value
					}
				}
				if nt, known := nilCond(v, nv); known && nt != truth {
					continue // infeasible: the tested value is the nil constant on this path
				}
				// equality with a constant: remembered per term
				if p, ppol, okp := c.pred(iff.Cond); okp && p.Kind == "eq" {
					t, k := p.A, p.B
					if isConstTerm(t) && !isConstTerm(k) {
						t, k = k, t
					}
					if isConstTerm(k) && !isConstTerm(t) && !strings.Contains(t, "~") && !strings.Contains(t, "elem(") && !strings.Contains(t, "phi(") && !strings.Contains(t, "cyc:") {
						holds := (si == 0) == ppol // t == k on this edge
						if cur, ok := n.eqc[t]; ok {
							if (cur == k) != holds {
								continue
							}
						}
						if strings.Contains(n.nec[t], "|"+k+"|") && holds {
							continue
						}
						neq, nne = copyMap(n.eqc), copyMap(n.nec)
						if holds {
							neq[t] = k
						} else {
							if nne[t] == "" {
								nne[t] = "|"
							}
							if !strings.Contains(nne[t], "|"+k+"|") {
								nne[t] += k + "|"
							}
						}
					}
				}
				if tr[v] {
					if truth {
						nv[v] = 1
					} else {
						nv[v] = -1
					}
				}
			}
			// entering s: values defined in s are redefined
			idx := -1
			for i, p := range s.Preds {
				if p == n.b {
					idx = i
				}
			}
			var phis []*ssa.Phi
			for _, ins := range s.Instrs {
				if v, ok := ins.(ssa.Value); ok && tr[v] {
					if phi, ok := ins.(*ssa.Phi); ok {
						phis = append(phis, phi)
					} else {
						delete(nv, v)
					}
				}
			}
			// parallel φ assignment from the old valuation
			upd := map[ssa.Value]int8{}
			infeasible := false
			for _, phi := range phis {
				if idx < 0 || idx >= len(phi.Edges) {
					upd[phi] = 0
					continue
				}
				o := phi.Edges[idx]
				if !isBool(phi) {
					if cv, isC := o.(*ssa.Const); isC && cv.Value == nil {
						upd[phi] = -1
					} else if op, isPhi := o.(*ssa.Phi); isPhi && nv[op] == -1 && !isBool(op) {
						upd[phi] = -1
					} else {
						upd[phi] = 0
					}
					continue
				}
				if cv, isC := o.(*ssa.Const); isC {
					if cv.Value != nil && cv.Value.Kind() == constant.Bool {
						if constant.BoolVal(cv.Value) {
							upd[phi] = 1
						} else {
							upd[phi] = -1
						}
					}
					continue
				}
				ov, opol := stripNot(o)
				if x, known := nv[ov]; known {
					if (x > 0) == opol {
						upd[phi] = 1
					} else {
						upd[phi] = -1
					}
				} else {
					upd[phi] = 0
				}
			}
			if infeasible {
				continue
			}
			for k, x := range upd {
				if x == 0 {
					delete(nv, k)
				} else {
					nv[k] = x
				}
			}
			// a φ that merely copies a computed boolean: when that boolean, being true/false, establishes an atom,
			// the decision is taken at the test of the φ (handled below through aliasCut)
			if s == iterHdr {
				nbad = false
			}
			bk := ""
			if nbad {
				bk = "!"
			}
			if narm {
				bk += "^"
			}
			if as := alts[e]; len(as) > 0 {
				// the helper can have returned through several sites: follow each one that does not establish the
				// atom, with the facts of that site (a contradiction with what the path already knows, or learns
				// later, makes it infeasible)
				for _, a := range as {
					if a.cut {
						continue
					}
					aeq, ane := copyMap(neq), copyMap(nne)
					feasible := true
					for _, av := range a.nonNil {
						if cv, isC := av.(*ssa.Const); isC && cv.Value == nil {
							feasible = false
						}
						if _, isPhi := av.(*ssa.Phi); isPhi && !isBool(av) && nv[av] == -1 {
							feasible = false // the argument is the nil constant on this path
						}
					}
					for t, k := range a.eq {
						if cur, ok := aeq[t]; ok && cur != k {
							feasible = false
						}
						if strings.Contains(ane[t], "|"+k+"|") {
							feasible = false
						}
						aeq[t] = k
					}
					for t, ks := range a.ne {
						for _, k := range ks {
							if cur, ok := aeq[t]; ok && cur == k {
								feasible = false
							}
							if ane[t] == "" {
								ane[t] = "|"
							}
							if !strings.Contains(ane[t], "|"+k+"|") {
								ane[t] += k + "|"
							}
						}
					}
					if !feasible {
						continue
					}
					ps := pstate{s, nv.key(order) + "#" + factKey(aeq, ane) + bk}
					if seen[ps] {
						continue
					}
					seen[ps] = true
					q = append(q, &node{b: s, val: nv, eqc: aeq, nec: ane, prev: n, bad: nbad, arm: narm})
				}
				continue
			}
			ps := pstate{s, nv.key(order) + "#" + factKey(neq, nne) + bk}
			if seen[ps] {
				continue
			}
			seen[ps] = true
			q = append(q, &node{b: s, val: nv, eqc: neq, nec: nne, prev: n, bad: nbad, arm: narm})
		}
	}
	return true, nil, false
}

// RenderPath prints the branch decisions along a block path.
func (c *Checker) RenderPath(path []*ssa.BasicBlock) []string {
	var out []string
	for i := 0; i+1 < len(path); i++ {
		b := path[i]
		iff := cfgx.IfOf(b)
		if iff == nil || len(b.Succs) != 2 {
			continue
		}
		taken := "true"
		if b.Succs[1] == path[i+1] {
			taken = "false"
		}
		cond := c.Res.Of(iff.Cond).String()
		if len(cond) > 220 {
			cond = cond[:220] + "…"
		}
		pos := c.P.Pos(iff.Cond.Pos())
		if pos == "-" {
			pos = c.P.Pos(lastPos(b))
		}
		out = append(out, fmt.Sprintf("%s: [%s] is %s", pos, cond, taken))
	}
	if len(out) > 40 {
		out = append(out[:20], append([]string{"…"}, out[len(out)-19:]...)...)
	}
	return out
}

func lastPos(b *ssa.BasicBlock) token.Pos {
	for i := len(b.Instrs) - 1; i >= 0; i-- {
		if b.Instrs[i].Pos().IsValid() {
			return b.Instrs[i].Pos()
		}
	}
	return token.NoPos
}

// Conds lists all normalised branch predicates of the function (diagnostics
// and rule-instance discovery).
func (c *Checker) Conds() []string {
	var out []string
	for _, b := range c.Fn.Blocks {
		if iff := cfgx.IfOf(b); iff != nil {
			if p, pol, ok := CondPred(c.Res, iff.Cond); ok {
				s := p.String()
				if !pol {
					s = "!(" + s + ")"
				}
				out = append(out, s)
			}
		}
	}
	return out
}

func isConstTerm(s string) bool {
	if s == "nil" || s == "true" || s == "false" {
		return true
	}
	if strings.HasPrefix(s, "\"") && strings.HasSuffix(s, "\"") {
		return true
	}
	return reInt.MatchString(s)
}

var reInt = regexp.MustCompile(`^-?[0-9]+$`)

func copyMap(m map[string]string) map[string]string {
	o := make(map[string]string, len(m)+1)
	for k, v := range m {
		o[k] = v
	}
	return o
}

func sortStrings(xs []string) { sort.Strings(xs) }

// DefinitelyNonNil: an error value that cannot be nil (errors.New/fmt.Errorf/status.Error(f), sdkerrors.Wrap(f) of
// a definitely non-nil error, a registered Err* variable, a concrete value boxed into the interface).
func DefinitelyNonNil(v ssa.Value, d int) bool {
	if d > 4 {
		return false
	}
	switch x := v.(type) {
	case *ssa.Const:
		return x.Value != nil
	case *ssa.Call:
		if sc := x.Call.StaticCallee(); sc != nil {
			n := sc.Name()
			if n == "Errorf" || n == "New" || n == "Error" || n == "Wrap" || n == "Wrapf" {
				if (n == "Wrap" || n == "Wrapf") && len(x.Call.Args) > 0 {
					return DefinitelyNonNil(x.Call.Args[0], d+1) || testedNonNilAbove(x.Call.Args[0], x.Block())
				}
				return true
			}
		}
		if u, ok := x.Call.Value.(*ssa.UnOp); ok {
			if g, ok := u.X.(*ssa.Global); ok && (g.Name() == "Wrap" || g.Name() == "Wrapf") && len(x.Call.Args) > 0 {
				return DefinitelyNonNil(x.Call.Args[0], d+1) || testedNonNilAbove(x.Call.Args[0], x.Block())
			}
		}
		// a module function with a body all of whose returns are non-nil (a constructor such as  return &T{...})
		if sc := x.Call.StaticCallee(); sc != nil && len(sc.Blocks) > 0 && sc.Pkg != nil && prog.InModule(sc.Pkg.Pkg.Path()) && sc.Signature.Results().Len() == 1 {
			n := 0
			for _, b := range sc.Blocks {
				if ret, ok := b.Instrs[len(b.Instrs)-1].(*ssa.Return); ok && len(ret.Results) == 1 {
					n++
					if !DefinitelyNonNil(ret.Results[0], d+1) {
						return false
					}
				}
			}
			return n > 0
		}
	case *ssa.Alloc:
		return true // the address of a variable or of a composite literal
	case *ssa.UnOp:
		if g, ok := x.X.(*ssa.Global); ok && strings.HasPrefix(g.Name(), "Err") {
			return true
		}
	case *ssa.MakeInterface:
		return true
	case *ssa.ChangeInterface:
		return DefinitelyNonNil(x.X, d+1)
	}
	return false
}

func isEmptyStringConst(k *ssa.Const) bool {
	return k != nil && k.Value != nil && k.Value.Kind() == constant.String && constant.StringVal(k.Value) == ""
}

func isString(t types.Type) bool {
	b, ok := t.Underlying().(*types.Basic)
	return ok && b.Info()&types.IsString != 0
}

// nonEmptyString: a string value that cannot be "": a non-empty constant; the text of an error built by
// sdkerrors.Wrap(f) ("<msg>: <parent>") or grpc status.Error(f) ("rpc error: code = ...") — both formats contain
// literal text whatever their arguments are; a value the block is reached with only through the non-empty side of
// a comparison with "".
func nonEmptyString(v ssa.Value, b *ssa.BasicBlock, d int) bool {
	if d > 4 {
		return false
	}
	switch x := v.(type) {
	case *ssa.Const:
		return x.Value != nil && x.Value.Kind() == constant.String && constant.StringVal(x.Value) != ""
	case *ssa.Call:
		if x.Call.IsInvoke() && x.Call.Method.Name() == "Error" && len(x.Call.Args) == 0 {
			if ec, ok := x.Call.Value.(*ssa.Call); ok {
				name, pkg := "", ""
				if sc := ec.Call.StaticCallee(); sc != nil && sc.Pkg != nil {
					name, pkg = sc.Name(), sc.Pkg.Pkg.Path()
				} else if u, ok := ec.Call.Value.(*ssa.UnOp); ok {
					if g, ok := u.X.(*ssa.Global); ok && g.Pkg != nil {
						name, pkg = g.Name(), g.Pkg.Pkg.Path()
					}
				}
				switch {
				case (name == "Wrap" || name == "Wrapf") && (strings.HasSuffix(pkg, "/errors") || strings.HasSuffix(pkg, "cosmossdk.io/errors")):
					return len(ec.Call.Args) > 0 && (DefinitelyNonNil(ec.Call.Args[0], d+1) || testedNonNilAbove(ec.Call.Args[0], ec.Block()))
				case (name == "Errorf" || name == "Error") && strings.HasSuffix(pkg, "grpc/status"):
					return true
				}
			}
			return false
		}
	}
	return testedNonEmptyAbove(v, b)
}

// testedNonEmptyAbove: block b is reached only through the non-empty side of a test of the string e against "".
func testedNonEmptyAbove(e ssa.Value, b *ssa.BasicBlock) bool {
	if b == nil {
		return false
	}
	for _, d := range b.Parent().Blocks {
		iff := cfgx.IfOf(d)
		if iff == nil || len(d.Succs) != 2 || d.Succs[0] == d.Succs[1] {
			continue
		}
		v, pol := stripNot(iff.Cond)
		bo, ok := v.(*ssa.BinOp)
		if !ok || (bo.Op != token.NEQ && bo.Op != token.EQL) {
			continue
		}
		x, y := bo.X, bo.Y
		if c, isC := x.(*ssa.Const); isC && isEmptyStringConst(c) {
			x, y = y, x
		}
		if c, isC := y.(*ssa.Const); !isC || !isEmptyStringConst(c) || x != e {
			continue
		}
		side := d.Succs[0]
		if (bo.Op == token.EQL) == pol {
			side = d.Succs[1]
		}
		if len(side.Preds) == 1 && (side == b || side.Dominates(b)) {
			return true
		}
	}
	return false
}

// testedNonNilAbove: block b is reached only through the non-nil side of a test of e against nil.
func testedNonNilAbove(e ssa.Value, b *ssa.BasicBlock) bool {
	if b == nil {
		return false
	}
	for _, d := range b.Parent().Blocks {
		iff := cfgx.IfOf(d)
		if iff == nil || len(d.Succs) != 2 || d.Succs[0] == d.Succs[1] {
			continue
		}
		v, pol := stripNot(iff.Cond)
		bo, ok := v.(*ssa.BinOp)
		if !ok || (bo.Op != token.NEQ && bo.Op != token.EQL) {
			continue
		}
		x, y := bo.X, bo.Y
		if c, isC := x.(*ssa.Const); isC && c.Value == nil {
			x, y = y, x
		}
		if c, isC := y.(*ssa.Const); !isC || c.Value != nil || x != e {
			continue
		}
		side := d.Succs[0]
		if (bo.Op == token.EQL) == pol {
			side = d.Succs[1]
		}
		if len(side.Preds) == 1 && (side == b || side.Dominates(b)) {
			return true
		}
	}
	return false
}

var containsCache = map[*ssa.Function][3]int{}

// ContainsHelper recognises   func f(list []T, x T) bool { for _, e := range list { if e == x { return true } }; return false }
// (parameters in any order, optional receiver): one loop over a slice parameter, a single equality test of the
// element with another parameter whose true edge returns true, every other return false, no calls with effects.
func ContainsHelper(f *ssa.Function) (listIdx, elemIdx int, ok bool) {
	if c, seen := containsCache[f]; seen {
		return c[0], c[1], c[2] == 1
	}
	containsCache[f] = [3]int{0, 0, 0}
	if len(f.Blocks) == 0 || len(f.Blocks) > 12 || f.Signature.Results().Len() != 1 {
		return 0, 0, false
	}
	if b, isB := f.Signature.Results().At(0).Type().Underlying().(*types.Basic); !isB || b.Kind() != types.Bool {
		return 0, 0, false
	}
	loops := cfgx.Loops(f)
	if len(loops) != 1 {
		return 0, 0, false
	}
	paramIdx := func(v ssa.Value) int {
		for i, p := range f.Params {
			if p == v {
				return i
			}
		}
		return -1
	}
	li, ei := -1, -1
	nEq := 0
	for _, b := range f.Blocks {
		for _, ins := range b.Instrs {
			switch x := ins.(type) {
			case *ssa.Call:
				if bi, isB := x.Call.Value.(*ssa.Builtin); !isB || bi.Name() != "len" {
					return 0, 0, false
				}
				if i := paramIdx(x.Call.Args[0]); i >= 0 {
					li = i
				}
			case *ssa.Store, *ssa.MapUpdate, *ssa.Go, *ssa.Defer, *ssa.Send, *ssa.Panic:
				return 0, 0, false
			case *ssa.BinOp:
				if x.Op == token.EQL {
					nEq++
					// one side an element of the list (load of IndexAddr(list, i)), the other a parameter
					for _, pair := range [][2]ssa.Value{{x.X, x.Y}, {x.Y, x.X}} {
						if u, ok := pair[0].(*ssa.UnOp); ok {
							if ia, ok := u.X.(*ssa.IndexAddr); ok && paramIdx(ia.X) >= 0 {
								if j := paramIdx(pair[1]); j >= 0 {
									li, ei = paramIdx(ia.X), j
								}
							}
						}
					}
				}
			case *ssa.Return:
				if len(x.Results) != 1 {
					return 0, 0, false
				}
				if _, isC := x.Results[0].(*ssa.Const); !isC {
					return 0, 0, false
				}
			}
		}
	}
	if nEq != 1 || li < 0 || ei < 0 || li == ei {
		return 0, 0, false
	}
	// the equality's true edge leads to `return true`, all other returns are false
	for _, b := range f.Blocks {
		iff := cfgx.IfOf(b)
		if iff == nil {
			continue
		}
		if bo, ok := iff.Cond.(*ssa.BinOp); ok && bo.Op == token.EQL {
			t := b.Succs[0]
			ret, ok := t.Instrs[len(t.Instrs)-1].(*ssa.Return)
			if !ok || len(ret.Results) != 1 {
				return 0, 0, false
			}
			k, _ := ret.Results[0].(*ssa.Const)
			if k == nil || k.Value == nil || !constant.BoolVal(k.Value) {
				return 0, 0, false
			}
		}
	}
	nTrue := 0
	for _, b := range f.Blocks {
		if ret, ok := b.Instrs[len(b.Instrs)-1].(*ssa.Return); ok {
			if k, _ := ret.Results[0].(*ssa.Const); k != nil && k.Value != nil && constant.BoolVal(k.Value) {
				nTrue++
			}
		}
	}
	if nTrue != 1 {
		return 0, 0, false
	}
	containsCache[f] = [3]int{li, ei, 1}
	return li, ei, true
}
