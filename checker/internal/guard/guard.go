// Package guard decides guard-dominance obligations (E2): "every path from the
// function entry to this effect passes an edge on which one of these
// predicates holds". Predicates are normalised branch conditions over
// canonical terms; boolean flags (φ of constants) are expanded to their
// justification; the decision is an edge-cut reachability over the CFG, so it
// over-approximates paths: a reported bypass names a concrete branch sequence,
// a pass is a proof for all paths.
package guard

import (
	"fmt"
	"go/constant"
	"go/token"
	"go/types"
	"regexp"
	"strings"

	"golang.org/x/tools/go/ssa"

	"saoverif/internal/cfgx"
	"saoverif/internal/prog"
	"saoverif/internal/term"
)

// Pred is a normalised branch predicate. Kind: eq | lt | bool.
type Pred struct {
	Kind string
	A, B string
}

func (p Pred) String() string {
	switch p.Kind {
	case "eq":
		return p.A + " == " + p.B
	case "lt":
		return p.A + " < " + p.B
	}
	return p.A
}

// CondPred normalises a boolean SSA value into (pred, polarity): the value is
// true iff pred == polarity.
func CondPred(res *term.Resolver, v ssa.Value) (Pred, bool, bool) {
	pol := true
	for {
		if u, ok := v.(*ssa.UnOp); ok && u.Op == token.NOT {
			v = u.X
			pol = !pol
			continue
		}
		break
	}
	if b, ok := v.(*ssa.BinOp); ok {
		x, y := res.Of(b.X).String(), res.Of(b.Y).String()
		switch b.Op {
		case token.EQL:
			return Pred{"eq", x, y}, pol, true
		case token.NEQ:
			return Pred{"eq", x, y}, !pol, true
		case token.LSS:
			return Pred{"lt", x, y}, pol, true
		case token.GTR:
			return Pred{"lt", y, x}, pol, true
		case token.GEQ:
			return Pred{"lt", x, y}, !pol, true
		case token.LEQ:
			return Pred{"lt", y, x}, !pol, true
		}
	}
	if _, isPhi := v.(*ssa.Phi); isPhi {
		return Pred{}, pol, false
	}
	if c, ok := v.(*ssa.Const); ok && c.Value != nil && c.Value.Kind() == constant.Bool {
		return Pred{"bool", c.Value.String(), ""}, pol, true
	}
	if bt, ok := v.Type().Underlying().(*types.Basic); ok && bt.Kind() == types.Bool {
		return Pred{"bool", res.Of(v).String(), ""}, pol, true
	}
	return Pred{}, pol, false
}

// Atom matches predicates. Pass edge = the edge on which pred == Pol.
type Atom struct {
	Desc string
	Kind string
	A, B *regexp.Regexp
	Pol  bool
}

// Glob compiles a glob ('*' = any substring, everything else literal).
func Glob(g string) *regexp.Regexp {
	g = strings.ReplaceAll(g, `\*`, "\x00")
	parts := strings.Split(g, "*")
	for i, p := range parts {
		parts[i] = regexp.QuoteMeta(strings.ReplaceAll(p, "\x00", "*"))
	}
	return regexp.MustCompile("^" + strings.Join(parts, ".*") + "$")
}

// Exact escapes a term string so that Glob matches it literally.
func Exact(s string) string { return strings.ReplaceAll(s, "*", `\*`) }

// Eq: a == b holds on the pass edge (symmetric).
func Eq(a, b string) Atom { return Atom{Desc: a + " == " + b, Kind: "eq", A: Glob(a), B: Glob(b), Pol: true} }

// Ne: a != b holds on the pass edge.
func Ne(a, b string) Atom { return Atom{Desc: a + " != " + b, Kind: "eq", A: Glob(a), B: Glob(b), Pol: false} }

// Lt: a < b holds; Ge: !(a < b).
func Lt(a, b string) Atom { return Atom{Desc: a + " < " + b, Kind: "lt", A: Glob(a), B: Glob(b), Pol: true} }
func Ge(a, b string) Atom { return Atom{Desc: a + " >= " + b, Kind: "lt", A: Glob(a), B: Glob(b), Pol: false} }

// True / False: boolean term (call result, found flag) is true / false on the pass edge.
func True(a string) Atom  { return Atom{Desc: a, Kind: "bool", A: Glob(a), Pol: true} }
func False(a string) Atom { return Atom{Desc: "!" + a, Kind: "bool", A: Glob(a), Pol: false} }

// matches reports whether pred with the given truth value satisfies the atom.
func (a Atom) matches(p Pred, truth bool) bool {
	if a.Kind != p.Kind || truth != a.Pol {
		return false
	}
	switch a.Kind {
	case "eq":
		return (a.A.MatchString(p.A) && a.B.MatchString(p.B)) || (a.A.MatchString(p.B) && a.B.MatchString(p.A))
	case "lt":
		return a.A.MatchString(p.A) && a.B.MatchString(p.B)
	default:
		return a.A.MatchString(p.A)
	}
}

type Checker struct {
	P   *prog.Program
	Fn  *ssa.Function
	Res *term.Resolver
}

// flagTrueOK: is every way for the boolean φ to become `want` covered by the cut?
func (c *Checker) flagOK(phi *ssa.Phi, want bool, atoms []Atom, cut map[cfgx.Edge]bool, visiting map[*ssa.Phi]bool) bool {
	if visiting[phi] {
		return true // loop-carried: justified by the other incoming edges
	}
	visiting[phi] = true
	defer delete(visiting, phi)
	blk := phi.Block()
	for i, e := range phi.Edges {
		pred := blk.Preds[i]
		switch x := e.(type) {
		case *ssa.Const:
			if x.Value == nil || x.Value.Kind() != constant.Bool {
				return false
			}
			if constant.BoolVal(x.Value) != want {
				continue
			}
			// the edge pred->blk must be unreachable without passing the cut
			if cut[cfgx.Edge{From: pred, To: blk}] {
				continue
			}
			if c.reachable(pred, cut) {
				return false
			}
		case *ssa.Phi:
			if !c.flagOK(x, want, atoms, cut, visiting) {
				// the inner flag may be `want` without justification; still fine if this edge is cut off
				if cut[cfgx.Edge{From: pred, To: blk}] || !c.reachable(pred, cut) {
					continue
				}
				return false
			}
		default:
			// a computed boolean flowing into the flag: flag == want via this edge iff value == want
			p, pol, ok := CondPred(c.Res, e)
			if ok {
				m := false
				for _, a := range atoms {
					if a.matches(p, pol == want) {
						m = true
					}
				}
				if m {
					continue
				}
			}
			if cut[cfgx.Edge{From: pred, To: blk}] || !c.reachable(pred, cut) {
				continue
			}
			return false
		}
	}
	return true
}

func (c *Checker) reachable(b *ssa.BasicBlock, cut map[cfgx.Edge]bool) bool {
	if len(c.Fn.Blocks) == 0 {
		return false
	}
	return cfgx.ReachAvoiding(c.Fn.Blocks[0], cut)[b]
}

// PassEdges computes the edges on which one of the atoms is known to hold,
// including edges of flag tests whose flag is justified by the atoms.
func (c *Checker) PassEdges(atoms []Atom) map[cfgx.Edge]bool {
	cut := map[cfgx.Edge]bool{}
	type flagIf struct {
		b   *ssa.BasicBlock
		phi *ssa.Phi
		pol bool
	}
	var flags []flagIf
	for _, b := range c.Fn.Blocks {
		iff := cfgx.IfOf(b)
		if iff == nil || len(b.Succs) != 2 {
			continue
		}
		v := iff.Cond
		pol := true
		for {
			if u, ok := v.(*ssa.UnOp); ok && u.Op == token.NOT {
				v = u.X
				pol = !pol
				continue
			}
			break
		}
		if phi, ok := v.(*ssa.Phi); ok {
			flags = append(flags, flagIf{b, phi, pol})
			continue
		}
		p, ppol, ok := CondPred(c.Res, iff.Cond)
		if !ok {
			continue
		}
		for _, a := range atoms {
			// true edge: cond true => pred == ppol
			if a.matches(p, ppol) {
				cut[cfgx.Edge{From: b, To: b.Succs[0]}] = true
			}
			if a.matches(p, !ppol) {
				cut[cfgx.Edge{From: b, To: b.Succs[1]}] = true
			}
		}
	}
	// flag closure to fixpoint
	for changed := true; changed; {
		changed = false
		for _, f := range flags {
			// true edge of `if cond`: cond true => phi == f.pol
			for side, want := range []bool{f.pol, !f.pol} {
				e := cfgx.Edge{From: f.b, To: f.b.Succs[side]}
				if cut[e] {
					continue
				}
				if c.flagOK(f.phi, want, atoms, cut, map[*ssa.Phi]bool{}) && c.flagCanBe(f.phi, want, map[*ssa.Phi]bool{}) {
					cut[e] = true
					changed = true
				}
			}
		}
	}
	return cut
}

// flagCanBe: does the φ have at least one source of value `want` (otherwise
// "justified" would be vacuous and every flag's dead side would count as a guard).
func (c *Checker) flagCanBe(phi *ssa.Phi, want bool, vis map[*ssa.Phi]bool) bool {
	if vis[phi] {
		return false
	}
	vis[phi] = true
	for _, e := range phi.Edges {
		switch x := e.(type) {
		case *ssa.Const:
			if x.Value != nil && x.Value.Kind() == constant.Bool && constant.BoolVal(x.Value) == want {
				return true
			}
		case *ssa.Phi:
			if c.flagCanBe(x, want, vis) {
				return true
			}
		default:
			return true
		}
	}
	return false
}

// MustPass: every path entry -> target block passes an edge where an atom
// holds. On failure returns a witness path rendered as branch decisions.
func (c *Checker) MustPass(target *ssa.BasicBlock, atoms []Atom) (bool, []string) {
	cut := c.PassEdges(atoms)
	path := cfgx.PathAvoiding(c.Fn.Blocks[0], target, cut)
	if path == nil {
		return true, nil
	}
	return false, c.RenderPath(path)
}

// RenderPath prints the branch decisions along a block path.
func (c *Checker) RenderPath(path []*ssa.BasicBlock) []string {
	var out []string
	for i := 0; i+1 < len(path); i++ {
		b := path[i]
		iff := cfgx.IfOf(b)
		if iff == nil || len(b.Succs) != 2 {
			continue
		}
		taken := "true"
		if b.Succs[1] == path[i+1] {
			taken = "false"
		}
		cond := c.Res.Of(iff.Cond).String()
		if len(cond) > 220 {
			cond = cond[:220] + "…"
		}
		pos := c.P.Pos(iff.Cond.Pos())
		if pos == "-" {
			pos = c.P.Pos(lastPos(b))
		}
		out = append(out, fmt.Sprintf("%s: [%s] is %s", pos, cond, taken))
	}
	if len(out) > 40 {
		out = append(out[:20], append([]string{"…"}, out[len(out)-19:]...)...)
	}
	return out
}

func lastPos(b *ssa.BasicBlock) token.Pos {
	for i := len(b.Instrs) - 1; i >= 0; i-- {
		if b.Instrs[i].Pos().IsValid() {
			return b.Instrs[i].Pos()
		}
	}
	return token.NoPos
}

// Conds lists all normalised branch predicates of the function (diagnostics
// and rule-instance discovery).
func (c *Checker) Conds() []string {
	var out []string
	for _, b := range c.Fn.Blocks {
		if iff := cfgx.IfOf(b); iff != nil {
			if p, pol, ok := CondPred(c.Res, iff.Cond); ok {
				s := p.String()
				if !pol {
					s = "!(" + s + ")"
				}
				out = append(out, s)
			}
		}
	}
	return out
}
