#!/bin/bash
# usage: run_demos.sh <worktree> [seed-name ...]
# Runs the demonstrations of the confirmed seeds (they drive real handlers / keepers / blockers) against the
# given tree as a behavioural regression suite: on a tree that behaves like the pinned one each exits 0.
# Prints "<seed> <exit>" lines. Demos are run one after the other (they create temporary packages in the tree).
export GOFLAGS=-mod=mod GOPROXY=off GOSUMDB=off GOTOOLCHAIN=local GOWORK=off
WT=$1; shift
names=("$@")
if [ ${#names[@]} -eq 0 ]; then names=($(ls /verif/seeded)); fi
cd "$WT" || exit 2
for n in "${names[@]}"; do
  rm -rf seeded; mkdir -p seeded; cp -r /verif/seeded/$n/demo seeded/demo
  timeout 900 bash seeded/demo/run_demo.sh > /tmp/demo_$$.out 2>&1; e=$?
  echo "$n $e"
  git checkout -q -- . 2>/dev/null; git clean -fdq -e seeded 2>/dev/null
done
rm -rf seeded /tmp/demo_$$.out
