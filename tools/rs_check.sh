#!/bin/bash
# usage: rs_check.sh <seed-name> ...  — "refactor of a seed": composes the confirmed seed with the behaviour-preserving
# refactoring an agent made of the *seeded* tree (/tmp/rs-<seed>/refactor/patch.diff or /verif/refactored_seeds/<seed>/refactor.diff)
# in a scratch worktree of /repo, confirms that the bug survived (build ok, baseline ok, the seed's demo still fails) and
# runs the seed's property check: it must still report a violation. Prints one line per seed.
export GOFLAGS=-mod=mod GOPROXY=off GOSUMDB=off GOTOOLCHAIN=local GOWORK=off
mkdir -p /root/vmlog
for s in "$@"; do
 (
  prop=${s%%-*}
  rf=/verif/refactored_seeds/$s/refactor.diff
  [ -f $rf ] || rf=/tmp/rs-$s/refactor/patch.diff
  [ -f $rf ] || { echo "$s: no refactor patch"; exit 0; }
  wt=/tmp/rsw-$s
  git -C /repo worktree remove --force $wt >/dev/null 2>&1
  git -C /repo worktree add --detach $wt HEAD >/dev/null 2>&1
  cd $wt
  git apply /verif/seeded/$s/patch.diff || { echo "$s: seed does not apply"; exit 0; }
  git apply $rf || { echo "$s: refactor does not apply on the seeded tree"; git -C /repo worktree remove --force $wt; exit 0; }
  go build ./cmd/... ./x/... ./app/... > /root/vmlog/rs-$s.build 2>&1; B=$?
  BLOUT=$(/verif/tools/baseline.py $wt | tail -1); BL=$?
  rm -rf seeded; mkdir -p seeded; cp -r /verif/seeded/$s/demo seeded/demo
  timeout 900 bash seeded/demo/run_demo.sh > /root/vmlog/rs-$s.demo 2>&1; D=$?
  rm -rf seeded
  # demos may leave files behind: restore exactly seed+refactor
  git checkout -q -- . ; git clean -fdq; git apply /verif/seeded/$s/patch.diff; git apply $rf
  mkdir -p /tmp/vrs-$s && cp /verif/known_findings.json /tmp/vrs-$s/
  /verif/bin/saocheck -p $prop -repo $wt -verif /tmp/vrs-$s > /root/vmlog/rs-$s.log 2>&1; E=$?
  V=$(grep -c '^VIOLATION' /root/vmlog/rs-$s.log); U=$(grep -c '^UNDECIDED' /root/vmlog/rs-$s.log)
  rules=$(grep '^violation:' /root/vmlog/rs-$s.log | awk '{print $2}' | sort -u | tr '\n' ' ')
  # the same check on the seed alone: rules (and undecided obligations) that only the composite raises are false alarms
  # of the refactoring, not detections of the seed
  git checkout -q -- . ; git clean -fdq; git apply /verif/seeded/$s/patch.diff
  /verif/bin/saocheck -p $prop -repo $wt -verif /tmp/vrs-$s > /root/vmlog/rs-$s.seed.log 2>&1
  srules=$(grep '^violation:' /root/vmlog/rs-$s.seed.log | awk '{print $2}' | sort -u | tr '\n' ' ')
  extra=""
  for x in $rules; do case " $srules " in *" $x "*) ;; *) extra="$extra $x";; esac; done
  sund=$(grep -c '^UNDECIDED' /root/vmlog/rs-$s.seed.log)
  echo "$s build=$B baseline=$BL demo=$D check_exit=$E viol=$V und=$U rules=[$rules] seed_alone=[$srules] seed_und=$sund EXTRA=[$extra ]"
  cd /; git -C /repo worktree remove --force $wt >/dev/null 2>&1; rm -rf /tmp/vrs-$s
 ) &
done
wait
git -C /repo worktree prune
