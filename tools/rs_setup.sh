#!/bin/bash
# usage: rs_setup.sh <seed-name> ...   — for each confirmed seed, builds a standalone scratch repository /tmp/rs-<seed>
# (one commit: /repo HEAD + the seed's patch) for a refactoring agent, plus its prompt /tmp/rs-<seed>.prompt.
# The agent is told nothing about the seed or /verif: it refactors the seeded tree behaviour-preservingly. The composed
# change (seed + refactor) must still be caught by the seed's property check.
for s in "$@"; do
  d=/tmp/rs-$s
  rm -rf $d && mkdir -p $d && git -C /repo archive HEAD | tar -x -C $d || exit 1
  ( cd $d && git init -q && git apply /verif/seeded/$s/patch.diff && git add -A && git -c user.name=x -c user.email=x@x commit -qm base ) || { echo "$s: setup failed"; continue; }
  files=$(grep '^+++ b/' /verif/seeded/$s/patch.diff | sed 's/+++ b\///' | grep -v '_test.go\|\.pb\.' | sed 's/^/  - /')
  python3 - "$d" "$files" > /tmp/rs-$s.prompt <<'PY'
import sys
t=open('/verif/tools/refactor_prompt.txt').read()
print(t.replace('WORKTREE',sys.argv[1]).replace('FILES',sys.argv[2]))
PY
  echo "$s ready"
done
