#!/bin/bash
# usage: mutants_par.sh [N]   — runs the whole both-ways harness in N scratch worktrees of /repo in parallel
# (default 6); /repo itself is not touched. Logs: /root/vmlog/par-<i>.log, summary on stdout.
export GOFLAGS=-mod=mod GOPROXY=off GOSUMDB=off GOTOOLCHAIN=local GOWORK=off
N=${1:-6}
mkdir -p /root/vmlog
ids=($(python3 /verif/tools/mutants.py --list))
for i in $(seq 0 $((N-1))); do
  git -C /repo worktree remove --force /tmp/mw-$i >/dev/null 2>&1
  git -C /repo worktree add --detach /tmp/mw-$i HEAD >/dev/null 2>&1 || { echo "cannot create worktree $i"; exit 2; }
done
for i in $(seq 0 $((N-1))); do
  mine=()
  for j in "${!ids[@]}"; do if [ $((j % N)) -eq $i ]; then mine+=("${ids[$j]}"); fi; done
  ( MUT_REPO=/tmp/mw-$i python3 /verif/tools/mutants.py "${mine[@]}" > /root/vmlog/par-$i.log 2>&1 ) &
done
wait
for i in $(seq 0 $((N-1))); do git -C /repo worktree remove --force /tmp/mw-$i >/dev/null 2>&1; done
git -C /repo worktree prune
cat /root/vmlog/par-[0-9]*.log | grep -v conda | grep -c "OK-caught\|OK-silent" | sed 's/^/as expected: /'
cat /root/vmlog/par-[0-9]*.log | grep -v "conda\|OK-caught\|OK-silent\|as expected" | head -40
