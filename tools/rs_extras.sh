#!/bin/bash
# usage: rs_extras.sh <seed-name> ...  — for each archived "refactor of a seed": runs EVERY property's check on the seed
# alone and on seed + refactor and prints the (property, rule) pairs and undecided obligations that only the composite
# raises. A behaviour-preserving refactoring must add none: anything listed is a false alarm of the refactoring.
export GOFLAGS=-mod=mod GOPROXY=off GOSUMDB=off GOTOOLCHAIN=local GOWORK=off
mkdir -p /root/vmlog
run() { # tree-dir out
  mkdir -p /tmp/vrx-$$-$3 && cp /verif/known_findings.json /tmp/vrx-$$-$3/
  /verif/bin/saocheck -p all -repo $1 -verif /tmp/vrx-$$-$3 > $2 2>&1
  rm -rf /tmp/vrx-$$-$3
}
for s in "$@"; do
 (
  rf=/verif/refactored_seeds/$s/refactor.diff
  wt=/tmp/rsx-$s
  git -C /repo worktree remove --force $wt >/dev/null 2>&1
  git -C /repo worktree add --detach $wt HEAD >/dev/null 2>&1
  cd $wt && git apply /verif/seeded/$s/patch.diff
  run $wt /root/vmlog/rsx-$s.seed.log $s
  git apply $rf
  run $wt /root/vmlog/rsx-$s.comp.log $s
  sig() { grep -E '^violation:|^UNDECIDED' $1 | awk '{print $1, $2}' | sort -u; }
  extra=$(comm -13 <(sig /root/vmlog/rsx-$s.seed.log) <(sig /root/vmlog/rsx-$s.comp.log) | tr '\n' ';')
  lost=$(comm -23 <(sig /root/vmlog/rsx-$s.seed.log) <(sig /root/vmlog/rsx-$s.comp.log) | tr '\n' ';')
  echo "$s extra=[$extra] lost=[$lost]"
  cd /; git -C /repo worktree remove --force $wt >/dev/null 2>&1
 ) &
 # at most 8 at a time
 while [ $(jobs -r | wc -l) -ge 8 ]; do sleep 2; done
done
wait
git -C /repo worktree prune
