#!/usr/bin/env python3
"""Run the repository's baseline test command in a given tree and compare with
/root/.vp/BASELINE.json stable_pass. Usage: baseline.py [repo_dir]"""
import json, subprocess, sys, os
repo = sys.argv[1] if len(sys.argv) > 1 else "/repo"
base = json.load(open("/root/.vp/BASELINE.json"))
want = set(base["stable_pass"])
env = dict(os.environ, GOFLAGS="-mod=mod", GOPROXY="off", GOSUMDB="off", GOTOOLCHAIN="local")
p = subprocess.run(["go", "test", "-mod=mod", "-json", "-vet=off", "-count=1", "-timeout", "25m", "./..."], cwd=repo, env=env, capture_output=True, text=True)
passed = set()
for line in p.stdout.splitlines():
    try:
        ev = json.loads(line)
    except Exception:
        continue
    if ev.get("Action") == "pass" and ev.get("Test"):
        passed.add(ev["Package"] + "::" + ev["Test"])
missing = sorted(want - passed)
print(f"baseline: {len(want & passed)}/{len(want)} stable tests pass; missing={missing[:5]}")
sys.exit(0 if not missing else 1)
