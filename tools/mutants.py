#!/usr/bin/env python3
"""Both-ways development harness (not registered in MANIFEST): applies one seeded
edit at a time to /repo's working tree, checks that it still builds, runs the
named property check and verifies that the expected rule fires (or, for
controls, that the check stays silent); then restores the tree.

usage: mutants.py [id ...]     (no ids = all)
"""
import subprocess, sys, os, json, tempfile, shutil

REPO = os.environ.get("MUT_REPO", "/repo")  # a scratch worktree may be used instead (tools/mutants_par.sh)
ENV = dict(os.environ, GOFLAGS="-mod=mod", GOPROXY="off", GOSUMDB="off", GOTOOLCHAIN="local", GOWORK="off")

# (id, property, expected rule substring ("" = must stay silent), [(file, old, new)...])
M = []
def m(id, prop, rule, *edits):
    M.append((id, prop, rule, edits))

# ---------------------------------------------------------------- C10
m("M1", "C10", "G-cancel", ("x/sao/keeper/msg_server_cancel.go", "if !isCreator {", "if !isCreator && msg.OrderId == 0 {"))
m("M1b", "C10", "G-cancel", ("x/sao/keeper/msg_server_cancel.go", "} else if msg.Provider == order.Provider {", "} else {"))
m("M2", "C10", "G-complete", ("x/sao/keeper/msg_server_complete.go", "if msg.Provider == msg.Creator {", "if msg.Provider == order.Provider {"))
m("M2b", "C10", "G-complete", ("x/sao/keeper/msg_server_complete.go",
   '\tif shard.Status == ordertypes.ShardCompleted {\n\t\terr = sdkerrors.Wrapf(types.ErrShardCompleted, "%s already completed the shard task in order %d", msg.Provider, order.Id)\n\t\treturn &types.MsgCompleteResponse{}, err\n\t}\n\n\tif shard.Status != ordertypes.ShardWaiting && shard.Status != ordertypes.ShardMigrating {\n\t\terr = sdkerrors.Wrapf(types.ErrShardUnexpectedStatus, "invalid shard status, expect: waiting/migrating")\n\t\treturn &types.MsgCompleteResponse{}, err\n\t}\n', ''))
# removing only the explicit completed test is equivalent: the waiting/migrating test that follows implies it
m("C-18", "C10", "", ("x/sao/keeper/msg_server_complete.go",
   '\tif shard.Status == ordertypes.ShardCompleted {\n\t\terr = sdkerrors.Wrapf(types.ErrShardCompleted, "%s already completed the shard task in order %d", msg.Provider, order.Id)\n\t\treturn &types.MsgCompleteResponse{}, err\n\t}\n', ''))
m("M-ready", "C10", "G-ready", ("x/sao/keeper/msg_server_ready.go", "} else if order.Provider == msg.Provider {", "} else {"))
m("M-payer", "C10", "G-payer", ("x/sao/keeper/msg_server_store.go",
   '\t\tif paymentAddress.String() != msg.Creator {\n\t\t\treturn nil, sdkerrors.Wrap(types.ErrorNoPermission, "creator should be payment address of payment DID")\n\t\t}\n', ''))
m("M-node1", "C10", "G-node", ("x/node/keeper/msg_server_remove_vstorage.go", "pledge, found := k.GetPledge(ctx, msg.Creator)", "pledge, found := k.GetPledge(ctx, msg.Size_Owner())"),
  ("x/node/types/message_remove_vstorage.go", "func (msg *MsgRemoveVstorage) Route() string {", "func (msg *MsgRemoveVstorage) Size_Owner() string { return msg.Creator[1:] }\n\nfunc (msg *MsgRemoveVstorage) Route() string {"))
# ---------------------------------------------------------------- C09
m("M3", "C09", "G-term", ("x/sao/keeper/msg_server_terminate.go", "isValid := meta.Owner == sigDid", "isValid := meta.Owner != \"\""))
m("M4", "C09", "G-renew", ("x/sao/keeper/msg_server_renew.go", "if metadata.Owner != sigDid {", "if metadata.Owner != sigDid && sigDid == \"\" {"))
m("M4b", "C09", "G-renew", ("x/sao/keeper/msg_server_renew.go",
   "\tsigDid, err = k.verifySignature(ctx, proposal.Owner, proposal, msg.JwsSignature)\n\tif err != nil {\n\t\treturn nil, err\n\t}\n",
   "\tsigDid, _ = k.verifySignature(ctx, proposal.Owner, proposal, msg.JwsSignature)\n"))
m("M-store-upd", "C09", "G-store-upd", ("x/sao/keeper/msg_server_store.go",
   '\t\tif !isValid {\n\t\t\treturn nil, sdkerrors.Wrap(types.ErrorNoPermission, "No permission to update the model")\n\t\t}\n\n\t\tif meta.OrderId > orderId {', '\t\tif meta.OrderId > orderId {'))
m("M-perm", "C09", "G-perm", ("x/model/keeper/data_management.go", "if owner != metadata.Owner {", "if owner == \"\" {"))
m("M-capmeta", "C09", "CAP-meta", ("x/sao/keeper/msg_server_migrate.go", "\t\tk.order.SetOrder(ctx, oldOrder)\n", "\t\tk.order.SetOrder(ctx, oldOrder)\n\t\tk.model.ExtendMetaDuration(ctx, dataId, uint64(ctx.BlockHeight()))\n"),
  ("x/sao/types/expected_keepers.go", "\tDeleteMeta(ctx sdk.Context, dataId string) error\n", "\tDeleteMeta(ctx sdk.Context, dataId string) error\n"))
# ---------------------------------------------------------------- C19
m("M5", "C19", "G-fish", ("x/sao/keeper/msg_server_report_faults.go", "if !strings.Contains(fishmenInfo, node.Creator) {", "if !strings.Contains(fishmenInfo, node.Creator) && len(msg.Faults) == 0 {"))
m("M6", "C19", "CAP-fault", ("x/sao/keeper/msg_server_report_faults.go", "\tfaultIds := make([]string, 0)\n",
   "\tk.node.IncreaseReputation(ctx, msg.Creator, 1)\n\tfaultIds := make([]string, 0)\n"))
m("M-fault-sp", "C19", "G-fault", ("x/sao/keeper/msg_server_report_faults.go", "if found && shard.Sp == fault.Provider {", "if found {"))
m("M-selfrec", "C19", "G-selfrec", ("x/sao/keeper/msg_server_recover_faults.go", "if msg.Provider == msg.Creator && faultOrg.Provider == msg.Creator {", "if msg.Provider == msg.Creator {"))
# ---------------------------------------------------------------- C17
m("M25", "C17", "G-bind", ("x/did/keeper/msg_server_binding.go", "\t_, found = k.GetDid(ctx, accId)\n\tif found {", "\t_, found = k.GetDid(ctx, accId)\n\tif found && len(msg.Keys) == 0 {"))
m("M26", "C17", "G-pay", ("x/did/keeper/msg_server_update_payment_address.go", "if caip10.Address != msg.Creator {", "if caip10.Address != msg.Creator && msg.Creator == \"\" {"))
m("M-upd-pay", "C17", "G-upd", ("x/did/keeper/msg_server_update.go", "\t\t\tcaip10.Address == payAddr.Address {", "\t\t\tcaip10.Address == payAddr.Address && len(removeList) > 1 {"))
m("M-bind-fresh", "C17", "G-bind", ("x/did/keeper/msg_server_binding.go", "if proof.Timestamp+EXPIRE_DURATION < uint64(now) {", "if proof.Timestamp+EXPIRE_DURATION < uint64(now) && rootDocId != \"\" && len(msg.Keys) > 0 {"))
m("M-capdid", "C17", "CAP-did", ("x/sao/keeper/msg_server_store.go", "\tif proposal.PaymentDid != \"\" {\n\t\torder.PaymentDid = proposal.PaymentDid\n\t}\n", "\tif proposal.PaymentDid != \"\" {\n\t\torder.PaymentDid = proposal.PaymentDid\n\t\tk.did.SetKidForPayer(ctx, msg.Creator, proposal.PaymentDid)\n\t}\n"),
  ("x/sao/types/expected_keepers.go", "\tValidDid(ctx sdk.Context, did string) error\n", "\tValidDid(ctx sdk.Context, did string) error\n\tSetKidForPayer(ctx sdk.Context, addr string, did string)\n"),
  ("x/did/keeper/did_management.go", "func (k Keeper) ValidDid(", "func (k Keeper) SetKidForPayer(ctx sdk.Context, addr string, did string) {\n\tk.SetKid(ctx, types.Kid{Address: addr, Kid: did})\n}\n\nfunc (k Keeper) ValidDid("))
# ---------------------------------------------------------------- C20
m("M27", "C20", "G-hooks", ("x/node/keeper/hooks.go", "func (hook Hooks) AfterDelegationModified(ctx sdk.Context, delAddr sdk.AccAddress, valAddr sdk.ValAddress) error {\n", "func (hook Hooks) AfterDelegationModified(ctx sdk.Context, delAddr sdk.AccAddress, valAddr sdk.ValAddress) error {\n\tif delAddr.Empty() {\n\t\treturn nil\n\t}\n"))
m("M28", "C20", "G-promote", ("x/node/keeper/msg_server_add_vstorage.go", "if pledge.TotalStorage >= k.VstorageThreshold(ctx) {", "if pledge.TotalStorage >= k.VstorageThreshold(ctx) || msg.Size_ > 1<<40 {"))
m("M28b", "C20", "G-promote", ("x/node/keeper/msg_server_reset.go", "if found && pledge.TotalStorage >= k.VstorageThreshold(ctx) {", "if found && pledge.TotalStorage >= 0 {"))
m("M-demote1", "C20", "G-demote", ("x/node/keeper/hooks.go", "\t\t\tif !found || pledge.TotalStorage < hook.k.VstorageThreshold(ctx) {\n\t\t\t\tif node.Role == types.NODE_SUPER {\n\t\t\t\t\thook.k.SetNormalNode(ctx, node.Creator)\n\t\t\t\t}\n\t\t\t\tcontinue", "\t\t\tif !found || pledge.TotalStorage < hook.k.VstorageThreshold(ctx) {\n\t\t\t\tcontinue"))
m("M-demote2", "C20", "G-demote", ("x/node/keeper/msg_server_remove_vstorage.go", "\t// check super node\n\tif pledge.TotalStorage < k.VstorageThreshold(ctx) {", "\t// check super node\n\tif pledge.TotalStorage+size.Int64() < k.VstorageThreshold(ctx) {"))
m("M-reset-role", "C20", "G-demote", ("x/node/keeper/msg_server_reset.go", "\tnode.Role = types.NODE_NORMAL\n\tif msg.Status", "\tif msg.Status"))
# ---------------------------------------------------------------- C15
m("M23", "C15", "G-elig-1", ("x/node/keeper/node.go", "\t\tif !found || pledge.TotalStorage-pledge.UsedStorage < size {\n\t\t\tcontinue\n\t\t}\n\t\tif status&n.Status == status", "\t\tif !found {\n\t\t\tcontinue\n\t\t}\n\t\t_ = pledge\n\t\tif status&n.Status == status"))
m("M24", "C15", "T-ignore", ("x/sao/keeper/timeout_management.go", "\t\tsps = append(sps, shard.Sp)\n\t\t// TODO: migrating timeout\n\t\tif shard.Status == ordertypes.ShardWaiting {\n", "\t\t// TODO: migrating timeout\n\t\tif shard.Status == ordertypes.ShardWaiting {\n\t\t\tsps = append(sps, shard.Sp)\n"))
m("M-distinct", "C15", "G-distinct", ("x/node/keeper/reputation.go", "\t\tif duplicate {\n\t\t\tcontinue\n\t\t}", "\t\tif duplicate && total > 64 {\n\t\t\tcontinue\n\t\t}"))
m("M-replica", "C15", "G-replica", ("x/sao/keeper/msg_server_store.go", "\t\tif int(order.Replica) > len(sps) {\n\t\t\treturn nil, sdkerrors.Wrapf(types.ErrInvalidReplica, \"replica should <= %d\", len(sps))\n\t\t}\n\t} else {", "\t} else {"))
m("M-elig2", "C15", "G-elig-2", ("x/node/keeper/node.go", "if !found || pledge.TotalStorage-pledge.UsedStorage < size {\n\t\t\t\ttoIgnore = true", "if !found || pledge.TotalStorage < size {\n\t\t\t\ttoIgnore = true"))
m("M-elig2b", "C15", "G-elig-2", ("x/node/keeper/node.go", "\t\t\t\tif ig == snodes[i].Creator {\n\t\t\t\t\ttoIgnore = true\n\t\t\t\t\tbreak", "\t\t\t\tif ig == snodes[i].Creator && len(ignore) > 1 {\n\t\t\t\t\ttoIgnore = true\n\t\t\t\t\tbreak"))
m("M-provenance", "C15", "T-provenance", ("x/node/keeper/reputation.go", "\tnodes := k.GetAllNodesByStatusAndReputationAndRole(ctx, uint32(types.NODE_NORMAL), status, 8000.0, size)\n", "\tnodes := k.GetAllNodesByStatusAndReputationAndRole(ctx, uint32(types.NODE_NORMAL), status, 8000.0, size)\n\tif len(nodes) == 0 {\n\t\tnodes = k.GetAllNodesByStatus(ctx, status)\n\t}\n"))
# ---------------------------------------------------------------- C16 / C08
m("M7", "C08", "CAP-mint", ("x/node/keeper/msg_server_claim_reward.go", "\tk.RepayPledgeDebt(ctx, msg.Creator, []*sdk.Coin{&claimReward, &workerReward})\n", "\tk.RepayPledgeDebt(ctx, msg.Creator, []*sdk.Coin{&claimReward, &workerReward})\n\tif claimReward.Amount.IsZero() && pledge.TotalStorage > 1<<50 {\n\t\tk.MintCoins(ctx, sdk.NewCoins(sdk.NewInt64Coin(claimReward.Denom, 1)))\n\t}\n"))
m("M8", "C08", "T-settle", ("x/node/keeper/msg_server_add_vstorage.go", "\tif pledge.TotalStorage > 0 {\n\t\tpending := pool.AccRewardPerByte.Amount.MulInt64(pledge.TotalStorage).Sub(pledge.RewardDebt.Amount)\n\t\tpledge.Reward.Amount = pledge.Reward.Amount.Add(pending)\n\t}\n\n\tpledge.TotalStorage += size.Int64()\n", "\tpledge.TotalStorage += size.Int64()\n\n\tif pledge.TotalStorage > 0 {\n\t\tpending := pool.AccRewardPerByte.Amount.MulInt64(pledge.TotalStorage).Sub(pledge.RewardDebt.Amount)\n\t\tpledge.Reward.Amount = pledge.Reward.Amount.Add(pending)\n\t}\n"))
m("M8b", "C08", "T-settle", ("x/node/keeper/msg_server_remove_vstorage.go", "\trewardDebt := pool.AccRewardPerByte.Amount.MulInt64(pledge.TotalStorage)\n\n\tpledge.RewardDebt.Amount = rewardDebt\n", "\tif pledge.TotalStorage > 0 {\n\t\tpledge.RewardDebt.Amount = pool.AccRewardPerByte.Amount.MulInt64(pledge.TotalStorage)\n\t}\n"))
m("M15", "C16", "T-count", ("x/order/keeper/order.go", "k.SetOrderCount(ctx, count+1)", "k.SetOrderCount(ctx, count)"))
m("M15b", "C16", "CAP-count", ("x/order/keeper/order_management.go", "\tk.RemoveOrder(ctx, orderId)\n\n\treturn nil\n}\n\nfunc (k Keeper) RefundOrder", "\tk.RemoveOrder(ctx, orderId)\n\tif orderId+1 == k.GetOrderCount(ctx) {\n\t\tk.SetOrderCount(ctx, orderId)\n\t}\n\n\treturn nil\n}\n\nfunc (k Keeper) RefundOrder"))
m("M-inflight", "C16", "G-inflight", ("x/model/keeper/data_management.go", "if metadata.Status != types.MetaComplete {", "if metadata.Status != types.MetaComplete && metadata.Status != types.MetaNew {"))
m("M-inflight2", "C16", "G-inflight", ("x/sao/keeper/msg_server_store.go", "if lastOrder.Status != ordertypes.OrderCompleted {", "if lastOrder.Status != ordertypes.OrderCompleted && lastOrder.Status != ordertypes.OrderDataReady {"))
m("M-mint1", "C08", "G-mint", ("x/node/abci.go", "\tif err == nil {\n\t\tpool.TotalReward = pool.TotalReward.Add(rewardCoin)", "\tpool.TotalReward = pool.TotalReward.Add(rewardCoin)\n\tif err == nil {"))
m("M-mint2", "C08", "G-mint", ("x/node/abci.go", "\t\tif reward.LT(rewardCoin.Amount) {\n\t\t\trewardCoin = sdk.NewCoin(params.BlockReward.Denom, reward)\n\t\t}", "\t\trewardCoin = sdk.NewCoin(params.BlockReward.Denom, reward)"))
m("M-claim", "C08", "T-claim", ("x/node/keeper/msg_server_claim_reward.go", "\tpledge.Reward = remainReward\n", "\t_ = remainReward\n"))
# ---------------------------------------------------------------- C06 / C07 / C14
m("M13", "C07", "E7-release", ("x/sao/keeper/msg_server_cancel.go", "err := k.node.ShardRelease(ctx, sdk.MustAccAddressFromBech32(shard.Sp), &shard)", "err := k.node.ShardRelease(ctx, sdk.MustAccAddressFromBech32(msg.Creator), &shard)"))
m("M14", "C14", "T-couple", ("x/market/keeper/pool_management.go", "\tworker.Storage -= shard.Size_\n", "\tworker.Storage -= order.Size_\n"))
m("M14b", "C14", "T-couple", ("x/node/keeper/msg_server_remove_vstorage.go", "\tpool.TotalStorage -= size.Int64()\n", "\tpool.TotalStorage -= int64(msg.Size_)\n"))
m("M29", "C06", "T-bankerr", ("x/sao/keeper/msg_server_renew.go", "\t\t\t\t\terr = k.bank.SendCoinsFromAccountToModule(ctx, spAcc, nodetypes.ModuleName, sdk.Coins{extraPledge})\n\t\t\t\t\tif err != nil {\n\t\t\t\t\t\treturn nil, err\n\t\t\t\t\t}\n", "\t\t\t\t\tk.bank.SendCoinsFromAccountToModule(ctx, spAcc, nodetypes.ModuleName, sdk.Coins{extraPledge})\n"))
m("M30", "C06", "CAP-macc", ("app/app.go", "\t\tmarketmoduletypes.ModuleName:   {authtypes.Staking},\n", ""))
m("M-flow", "C06", "E7-flow", ("x/market/keeper/pool_management.go", "\trewardCoin := sdk.NewCoin(denom, worker.Reward.Amount.TruncateInt())\n", "\trewardCoin := sdk.NewCoin(denom, worker.Reward.Amount.TruncateInt())\n\tif worker.Storage == 0 {\n\t\tif err := k.bank.SendCoinsFromModuleToAccount(ctx, types.ModuleName, sdk.MustAccAddressFromBech32(sp), sdk.Coins{rewardCoin}); err != nil {\n\t\t\treturn empty, err\n\t\t}\n\t}\n"))
m("M-flow2", "C07", "E7-flow", ("x/node/keeper/shard_pledge_management.go", "err := k.bank.SendCoinsFromModuleToAccount(ctx, types.ModuleName, sp, sdk.Coins{shardPledge})", "err := k.bank.SendCoinsFromModuleToAccount(ctx, types.ModuleName, sp, sdk.Coins{shardPledge.AddAmount(sdk.NewInt(1))})"))
m("M-rmv", "C07", "G-rmv", ("x/node/keeper/msg_server_remove_vstorage.go", "if size.Int64() > pledge.TotalStorage-pledge.UsedStorage {", "if size.Int64() > pledge.TotalStorage {"))
m("M-used", "C07", "G-used", ("x/node/keeper/shard_pledge_management.go", "if uint64(pledge.TotalStorage-pledge.UsedStorage) < shard.Size_ {", "if uint64(pledge.TotalStorage) < shard.Size_ {"))
m("M-booked", "C07", "T-booked", ("x/node/keeper/shard_pledge_management.go", "\t\t\t\t\tDebt: shardPledge.Sub(balance),", "\t\t\t\t\tDebt: shardPledge,"))
# ---------------------------------------------------------------- C04 / C05 / C11 / C12 / C13
m("M9", "C11", "T-sched-shard", ("x/sao/keeper/msg_server_complete.go", "k.SetExpiredShardBlock(ctx, shard.Id, shard.CreatedAt+shard.Duration)", "k.SetExpiredShardBlock(ctx, shard.Id, shard.CreatedAt+order.Timeout)"))
m("M9b", "C11", "T-sched-shard", ("x/sao/keeper/expire_management.go", "\t\tk.SetExpiredShardBlock(ctx, shard.Id, shard.CreatedAt+shard.Duration)\n", "\t\tif nextOrderInfo.Duration > 3600 {\n\t\t\tk.SetExpiredShardBlock(ctx, shard.Id, shard.CreatedAt+shard.Duration)\n\t\t}\n"))
m("M10", "C12", "T-timeout", ("x/sao/keeper/msg_server_ready.go", "\tk.SetTimeoutOrderBlock(ctx, order, uint64(ctx.BlockHeight())+order.Timeout)\n", ""))
m("M10b", "C12", "T-timeout", ("x/sao/keeper/msg_server_store.go", "\tif isProvider {\n\t\tk.SetTimeoutOrderBlock(", "\tif isProvider && len(sps) > 1 {\n\t\tk.SetTimeoutOrderBlock("))
m("M11", "C05", "T-cancel", ("x/model/keeper/data_management.go", "\tk.RollbackMeta(ctx, order.DataId)\n\tk.order.RemoveOrder(ctx, orderId)", "\tif order.Operation != 2 {\n\t\tk.RollbackMeta(ctx, order.DataId)\n\t}\n\tk.order.RemoveOrder(ctx, orderId)"))
m("M12", "C05", "E7-flow", ("x/order/keeper/order_management.go", "return k.bank.SendCoinsFromModuleToAccount(ctx, types.ModuleName, paymentAcc, sdk.Coins{order.Amount})", "return k.bank.SendCoinsFromModuleToAccount(ctx, types.ModuleName, paymentAcc, sdk.Coins{order.Amount.SubAmount(sdk.NewInt(1))})"))
m("M-charge", "C04", "T-charge", ("x/sao/keeper/msg_server_store.go", "\torder.Amount = amount\n", "\torder.Amount = sdk.NewCoin(denom, amount.Amount.SubRaw(1))\n"))
m("M-charge2", "C04", "T-charge", ("x/sao/keeper/msg_server_store.go", "\terr = k.bank.SendCoinsFromAccountToModule(ctx, paymentAddress, ordertypes.ModuleName, sdk.Coins{amount})\n\tif err != nil {\n\t\treturn nil, err\n\t}\n", "\tif !isProvider || len(sps) > 0 {\n\t\terr = k.bank.SendCoinsFromAccountToModule(ctx, paymentAddress, ordertypes.ModuleName, sdk.Coins{amount})\n\t\tif err != nil {\n\t\t\treturn nil, err\n\t\t}\n\t}\n"))
m("M-cancelpre", "C05", "T-cancel-pre", ("x/sao/keeper/msg_server_cancel.go", "\t\t\tif err != nil {\n\t\t\t\treturn nil, err\n\t\t\t}\n\t\t}\n\t\tk.order.RemoveShard(ctx, id)", "\t\t\tif err != nil {\n\t\t\t\treturn nil, err\n\t\t\t}\n\t\t\tcontinue\n\t\t}\n\t\tk.order.RemoveShard(ctx, id)"))
m("M-refundstate", "C05", "G-refund-state", ("x/sao/keeper/msg_server_cancel.go", "\tif order.Status == ordertypes.OrderCompleted {", "\tif order.Status == ordertypes.OrderCompleted && len(order.Shards) > 1 {"))
m("M-reserve", "C05", "CAP-reserve", ("x/sao/keeper/msg_server_ready.go", "\tk.order.GenerateShards(ctx, &order, spAddresses)\n", "\tk.order.GenerateShards(ctx, &order, spAddresses)\n\tfor _, sp := range sps {\n\t\tif pledge, ok := k.node.GetPledge(ctx, sp.Creator); ok {\n\t\t\tpledge.UsedStorage += int64(order.Size_)\n\t\t\tk.node.SetPledge(ctx, pledge)\n\t\t}\n\t}\n"))
m("M-listed", "C13", "T-listed", ("x/sao/keeper/msg_server_migrate.go", "\t\t\toldOrder.Shards = append(oldOrder.Shards, newShard.Id)\n\n\t\t\tk.order.SetOrder(ctx, oldOrder)\n", "\t\t\tif len(oldOrder.Shards) < 8 {\n\t\t\t\toldOrder.Shards = append(oldOrder.Shards, newShard.Id)\n\t\t\t\tk.order.SetOrder(ctx, oldOrder)\n\t\t\t}\n"))
m("M-listed2", "C13", "T-listed", ("x/sao/keeper/timeout_management.go", "\t\tk.order.SetOrder(ctx, order)\n\t}\n\n\tk.SetTimeoutOrderBlock(", "\t}\n\n\tk.SetTimeoutOrderBlock("))
m("M-alias", "C13", "T-alias", ("x/model/keeper/data_management.go", "\tk.RemoveMetadata(ctx, dataId)\n\tk.RemoveModel(ctx, key)\n\n\treturn nil\n}", "\tk.RemoveMetadata(ctx, dataId)\n\tif metadata.Alias != \"\" {\n\t\tk.RemoveModel(ctx, key)\n\t}\n\n\treturn nil\n}"))
m("M-exits", "C12", "T-exits", ("x/sao/keeper/timeout_management.go", "\t\t\treturn\n\t\t}\n\t} else {\n\n\t\tfor i, node := range randSp {", "\t\t\treturn\n\t\t}\n\t\tif len(sps) > 16 {\n\t\t\treturn\n\t\t}\n\t} else {\n\n\t\tfor i, node := range randSp {"))
m("M-nowait", "C12", "T-nowait", ("x/sao/keeper/timeout_management.go", "\t\tfor _, shardId := range uncompletedShards {\n\t\t\tk.order.RemoveShard(ctx, shardId)\n\t\t}\n\t\tif len(uncompletedShards) != 0 {", "\t\tfor _, shardId := range order.Shards {\n\t\t\tk.order.RemoveShard(ctx, shardId)\n\t\t}\n\t\tif len(uncompletedShards) != 0 {"))
m("M-consume", "C11", "T-consume", ("x/sao/abci.go", "\t\tfor _, shardId := range ExpiredShard.ShardList {\n\t\t\tk.HandleExpiredShard(ctx, shardId)", "\t\tfor i, shardId := range ExpiredShard.ShardList {\n\t\t\tif i >= 64 {\n\t\t\t\tcontinue\n\t\t\t}\n\t\t\tk.HandleExpiredShard(ctx, shardId)"))
m("M-lifetime", "C11", "T-lifetime", ("x/sao/keeper/msg_server_complete.go", "k.model.ExtendMetaDuration(ctx, meta.DataId, shard.CreatedAt+shard.Duration)", "k.model.ExtendMetaDuration(ctx, meta.DataId, shard.CreatedAt+order.Duration)"))
m("M-schedmeta", "C05", "T-sched-meta", ("x/model/keeper/data_management.go", "\tk.removeDataExpireBlock(ctx, dataId, metadata.CreatedAt+metadata.Duration)\n\tk.RemoveMetadata(ctx, dataId)\n\tk.RemoveModel(ctx, key)\n\n\treturn nil", "\tk.RemoveMetadata(ctx, dataId)\n\tk.RemoveModel(ctx, key)\n\n\treturn nil"))
m("M-caprel", "C11", "CAP-release", ("x/sao/keeper/msg_server_renew.go", "\t\t\tif shard.Status == ordertypes.ShardMigrating {\n\t\t\t\tcontinue\n\t\t\t}", "\t\t\tif shard.Status == ordertypes.ShardMigrating {\n\t\t\t\tk.node.ShardRelease(ctx, sdk.MustAccAddressFromBech32(shard.Sp), &shard)\n\t\t\t\tcontinue\n\t\t\t}"))
# ---------------------------------------------------------------- C01 / C03
m("M17", "C03", "D3", ("x/node/keeper/node.go", "func (k Keeper) SetNode(ctx sdk.Context, node types.Node) {\n",
   "var nodeCache = map[string]types.Node{}\n\nfunc (k Keeper) SetNode(ctx sdk.Context, node types.Node) {\n\tnodeCache[node.Creator] = node\n"))
m("M18", "C01", "D1", ("x/sao/keeper/expire_management.go", "shard.CreatedAt = uint64(ctx.BlockHeight())", "shard.CreatedAt = uint64(time.Now().Unix())"),
  ("x/sao/keeper/expire_management.go", 'import (\n', 'import (\n\t"time"\n'))
m("M19", "C01", "D2", ("x/sao/keeper/msg_server_terminate.go", "\tfor shardId := range shardSet {\n\t\tk.order.RemoveShard(ctx, shardId)\n\t}\n",
   "\tremoved := make([]uint64, 0)\n\tfor shardId := range shardSet {\n\t\tk.order.RemoveShard(ctx, shardId)\n\t\tremoved = append(removed, shardId)\n\t}\n\tctx.EventManager().EmitEvent(sdk.NewEvent(\"removed\", sdk.NewAttribute(\"ids\", fmt.Sprint(removed))))\n"),
  ("x/sao/keeper/msg_server_terminate.go", 'import (\n\t"context"\n', 'import (\n\t"context"\n\t"fmt"\n'))
# ---------------------------------------------------------------- C02
m("M20", "C02", "L1-rec", ("x/node/keeper/reputation.go", "\tif cr < size && nodes[cr].LastAliveHeight >= nodes[index].LastAliveHeight {",
   "\tif cl < size {\n\t\theapify(cl, size, nodes)\n\t}\n\tif cr < size && nodes[cr].LastAliveHeight >= nodes[index].LastAliveHeight {"))
m("M21", "C02", "L1", ("x/node/keeper/reputation.go", "for i := 0; i <= size; i++ {", "for i := 0; i <= size; i-- {"))
m("M22", "C02", "L2-sub", ("x/node/keeper/shard_pledge_management.go", "\t\t\tif reward.IsGTE(pledgeDebt.Debt) {", "\t\t\tif !reward.IsZero() {"))
m("M-iter", "C02", "L1", ("x/node/keeper/node.go", "\tfor ; iterator.Valid(); iterator.Next() {\n\t\tvar f types.Fault", "\tfor iterator.Valid() {\n\t\tvar f types.Fault"))
# ---------------------------------------------------------------- C18
m("M16", "C18", "E6", ("x/model/genesis.go", "\tgenesis.ExpiredDataList = k.GetAllExpiredData(ctx)\n", ""))
m("M16b", "C18", "E6", ("x/order/genesis.go", "\tk.SetShardCount(ctx, genState.ShardCount)\n", ""))
# ---------------------------------------------------------------- controls (must stay silent)
m("C-2", "C10", "", ("x/sao/keeper/msg_server_complete.go",
   "\tisProvider := false\n\tif msg.Provider == msg.Creator {\n\t\tisProvider = true\n\t} else {\n\t\tprovider, found := k.node.GetNode(ctx, msg.Provider)\n\t\tif found {\n\t\t\tfor _, address := range provider.TxAddresses {\n\t\t\t\tif address == msg.Creator {\n\t\t\t\t\tisProvider = true\n\t\t\t\t}\n\t\t\t}\n\t\t}\n\t}\n\n\tif !isProvider {",
   "\tactsFor := msg.Provider == msg.Creator\n\tif !actsFor {\n\t\tgw, ok := k.node.GetNode(ctx, msg.Provider)\n\t\tif ok {\n\t\t\tfor _, a := range gw.TxAddresses {\n\t\t\t\tif a == msg.Creator {\n\t\t\t\t\tactsFor = true\n\t\t\t\t\tbreak\n\t\t\t\t}\n\t\t\t}\n\t\t}\n\t}\n\n\tif !actsFor {"))
m("C-3", "C02", "", ("x/node/keeper/node.go", "\tfor ; iterator.Valid(); iterator.Next() {\n\t\tvar f types.Fault\n\t\terr := k.cdc.Unmarshal(iterator.Value(), &f)\n\t\tif err != nil {\n\t\t\tk.Logger(ctx).Error(\"unmarshal failed,\" + err.Error())\n\t\t\tcontinue\n\t\t}",
   "\tfor iterator.Valid() {\n\t\tvar f types.Fault\n\t\terr := k.cdc.Unmarshal(iterator.Value(), &f)\n\t\titerator.Next()\n\t\tif err != nil {\n\t\t\tk.Logger(ctx).Error(\"unmarshal failed,\" + err.Error())\n\t\t\tcontinue\n\t\t}"))
m("C-4", "C09", "", ("x/sao/keeper/msg_server_terminate.go", '"No permission to delete the model"', '"permission denied: model deletion"'))
m("C-1", "C10", "", ("x/sao/keeper/msg_server_ready.go", "order, found := k.order.GetOrder(ctx, msg.OrderId)\n\tif !found {", "o, ok := k.order.GetOrder(ctx, msg.OrderId)\n\torder := o\n\tfound := ok\n\tif !found {"))

m("M-memkey", "C03", "D3-mem", ("app/app.go", "\t\tkeys[saomoduletypes.StoreKey],\n\t\tkeys[ordermoduletypes.StoreKey],\n\t\tkeys[saomoduletypes.MemStoreKey],", "\t\tmemKeys[saomoduletypes.StoreKey],\n\t\tkeys[ordermoduletypes.StoreKey],\n\t\tkeys[saomoduletypes.MemStoreKey],"))

# ---------------------------------------------------------------- round-2 rules: hand-made variants and faithful controls
m("M-bookpair", "C14", "T-book-pair", ("x/sao/keeper/expire_management.go", "\tk.market.WorkerRelease(ctx, &order, &shard)\n\tif len(shard.RenewInfos) == 0 {", "\tif len(shard.RenewInfos) == 0 {"))
m("C-9", "C14", "", ("x/sao/keeper/expire_management.go", "\tk.market.WorkerRelease(ctx, &order, &shard)\n\tif len(shard.RenewInfos) == 0 {\n", "\tif len(shard.RenewInfos) == 0 {\n\t\tk.market.WorkerRelease(ctx, &order, &shard)\n"),
  ("x/sao/keeper/expire_management.go", "\t} else {\n\t\tnextOrderInfo := shard.RenewInfos[0]\n", "\t} else {\n\t\tk.market.WorkerRelease(ctx, &order, &shard)\n\t\tnextOrderInfo := shard.RenewInfos[0]\n"))
m("M-refclass", "C04", "T-refund-class", ("x/market/keeper/pool_management.go", "\t\t} else if shard.Status == ordertypes.ShardWaiting {\n", "\t\t} else {\n"))
m("M-refclass6", "C06", "T-refund-class", ("x/market/keeper/pool_management.go", "\t\t} else if shard.Status == ordertypes.ShardWaiting {\n", "\t\t} else if shard.Status != ordertypes.ShardTimeout {\n"))
m("C-7", "C04", "", ("x/market/keeper/pool_management.go", "\t\tif shard.Status == ordertypes.ShardCompleted && shard.OrderId == order.Id {\n", "\t\tif shard.OrderId == order.Id && shard.Status == ordertypes.ShardCompleted {\n"))
m("M-rollback", "C05", "T-rollback", ("x/model/keeper/data_management.go", "metadata.OrderId = metadata.Orders[len(metadata.Orders)-1]", "metadata.OrderId = metadata.Orders[0]"))
m("C-8", "C05", "", ("x/model/keeper/data_management.go", "\tmetadata.OrderId = metadata.Orders[len(metadata.Orders)-1]\n", "\tlastOrder := len(metadata.Orders) - 1\n\tmetadata.OrderId = metadata.Orders[lastOrder]\n"))
m("M-claim-persist", "C08", "T-claim", ("x/node/keeper/msg_server_claim_reward.go", "\tk.SetPledge(ctx, pledge)\n\n\tclaimReward = claimReward.Add(workerReward)", "\tif !workerReward.IsZero() {\n\t\tk.SetPledge(ctx, pledge)\n\t}\n\n\tclaimReward = claimReward.Add(workerReward)"))
m("C-10", "C08", "", ("x/node/keeper/msg_server_claim_reward.go", "\tpledge.Reward = remainReward\n", "\tpledge.Reward = remainReward\n\tk.SetPledge(ctx, pledge)\n"),
  ("x/node/keeper/msg_server_claim_reward.go", "\tk.SetPledge(ctx, pledge)\n\n\tclaimReward = claimReward.Add(workerReward)", "\tclaimReward = claimReward.Add(workerReward)"))
m("M-replace", "C12", "T-replace", ("x/sao/keeper/timeout_management.go", "\t\t\tnewShard := k.order.NewShardTask(ctx, &order, node.Creator)\n\t\t\torder.Shards = append(order.Shards, newShard.Id)\n", "\t\t\tif node.Creator != shard.Sp {\n\t\t\t\tnewShard := k.order.NewShardTask(ctx, &order, node.Creator)\n\t\t\t\torder.Shards = append(order.Shards, newShard.Id)\n\t\t\t}\n"))
m("M-aliasfree", "C13", "G-alias-free", ("x/model/keeper/data_management.go", "\tif found_model {\n", "\tif found_model && metadata.Alias != \"\" {\n"))
m("M-paykey", "C17", "T-paykey", ("x/did/keeper/msg_server_update_payment_address.go", "\t\t\t\tKid:     msg.Did,\n", "\t\t\t\tKid:     did.ID,\n"))
m("M-takeover", "C11", "T-takeover", ("x/sao/keeper/msg_server_complete.go", "\t\tshard.RenewInfos = oldShard.RenewInfos\n", ""))
m("M-base-latest", "C16", "T-base", ("x/sao/keeper/msg_server_store.go", "if !strings.Contains(meta.Commit, lastCommitId) {", "if !strings.Contains(strings.Join(meta.Commits, \",\"), lastCommitId) {"))
m("C-11", "C03", "", ("x/sao/keeper/expired_shard.go", "\tstore := prefix.NewStore(ctx.KVStore(k.storeKey), types.KeyPrefix(types.ExpiredShardKeyPrefix))\n", "\tstore := k.expiredShardStore(ctx)\n"),
  ("x/sao/keeper/expired_shard.go", "// SetExpiredShard set", "func (k Keeper) expiredShardStore(ctx sdk.Context) prefix.Store {\n\treturn prefix.NewStore(ctx.KVStore(k.storeKey), types.KeyPrefix(types.ExpiredShardKeyPrefix))\n}\n\n// SetExpiredShard set"))
m("C-11b", "C11", "", ("x/sao/keeper/expired_shard.go", "\tstore := prefix.NewStore(ctx.KVStore(k.storeKey), types.KeyPrefix(types.ExpiredShardKeyPrefix))\n", "\tstore := k.expiredShardStore(ctx)\n"),
  ("x/sao/keeper/expired_shard.go", "// SetExpiredShard set", "func (k Keeper) expiredShardStore(ctx sdk.Context) prefix.Store {\n\treturn prefix.NewStore(ctx.KVStore(k.storeKey), types.KeyPrefix(types.ExpiredShardKeyPrefix))\n}\n\n// SetExpiredShard set"))


# ---------------------------------------------------------------- round-3 rules: hand-made variants and faithful controls
m("M-nilarg", "C02", "L2-nilarg", ("x/node/keeper/hooks.go", "if accAddr != nil && !sharesBeforeModified.IsZero() {", "if !sharesBeforeModified.IsZero() || accAddr != nil {"))
m("M-fresh", "C04", "T-append-fresh", ("x/sao/keeper/msg_server_complete.go", "\t\tshard.CreatedAt = uint64(ctx.BlockHeight())\n\t\tshard.Duration = order.Duration\n", "\t\tshard.Duration = order.Duration\n"))
m("M-aliaskey", "C05", "T-aliaskey", ("x/model/keeper/data_management.go", "\t\tkey := fmt.Sprintf(\"%s-%s-%s\", metadata.Owner, metadata.Alias, metadata.GroupId)\n\t\tk.RemoveModel(ctx, key)\n\t\treturn", "\t\tkey := fmt.Sprintf(\"%s-%s-%s\", metadata.Owner, metadata.DataId, metadata.GroupId)\n\t\tk.RemoveModel(ctx, key)\n\t\treturn"))
m("M-aliaskey13", "C13", "T-aliaskey", ("x/model/keeper/data_management.go", "\t\tkey := fmt.Sprintf(\"%s-%s-%s\", metadata.Owner, metadata.Alias, metadata.GroupId)\n\t\tk.RemoveModel(ctx, key)\n\t\treturn", "\t\tkey := fmt.Sprintf(\"%s-%s\", metadata.Owner, metadata.Alias)\n\t\tk.RemoveModel(ctx, key)\n\t\treturn"))
m("M-pool6", "C06", "T-couple", ("x/node/keeper/msg_server_add_vstorage.go", "\tpool.TotalStorage += size.Int64()\n", "\tpool.TotalStorage += int64(msg.Size_)\n"))
m("M-pool8", "C08", "T-couple", ("x/node/keeper/msg_server_add_vstorage.go", "\tpool.TotalStorage += size.Int64()\n", "\tpool.TotalStorage += int64(msg.Size_)\n"))
m("M-relown", "C07", "G-release-own", ("x/model/keeper/data_management.go", "\t\tif shard.Status == ordertypes.ShardCompleted && shard.OrderId == order.Id {\n\t\t\terr := k.node.ShardRelease(", "\t\tif shard.Status == ordertypes.ShardCompleted {\n\t\t\terr := k.node.ShardRelease("))
m("M-pairswap", "C16", "E6-pair", ("x/order/genesis.go", "k.SetOrderCount(ctx, genState.OrderCount)", "k.SetOrderCount(ctx, genState.ShardCount)"), ("x/order/genesis.go", "k.SetShardCount(ctx, genState.ShardCount)", "k.SetShardCount(ctx, genState.OrderCount)"))
m("M-pairswap18", "C18", "E6-pair", ("x/order/genesis.go", "k.SetOrderCount(ctx, genState.OrderCount)", "k.SetOrderCount(ctx, genState.ShardCount)"), ("x/order/genesis.go", "k.SetShardCount(ctx, genState.ShardCount)", "k.SetShardCount(ctx, genState.OrderCount)"))
m("M-ratio", "C20", "G-share-ratio", ("x/node/keeper/super.go", "ratio := delegate.Shares.Quo(totalShares)", "ratio := delegate.Shares.Quo(validator.DelegatorShares)"))
m("M-period", "C19", "CAP-period", ("x/order/keeper/shard_management.go", "\t\tStatus:  types.ShardWaiting,\n", "\t\tStatus:  types.ShardWaiting,\n\t\tCreatedAt: uint64(ctx.BlockHeight()),\n"))
m("C-12", "C05", "", ("x/model/keeper/data_management.go", "func (k Keeper) NewMeta(", "func modelKey(metadata types.Metadata) string {\n\treturn fmt.Sprintf(\"%s-%s-%s\", metadata.Owner, metadata.Alias, metadata.GroupId)\n}\n\nfunc (k Keeper) NewMeta("),
  ("x/model/keeper/data_management.go", "\tkey := fmt.Sprintf(\"%s-%s-%s\", metadata.Owner, metadata.Alias, metadata.GroupId)\n\n\t_, found_model := k.GetModel(ctx, key)", "\tkey := modelKey(metadata)\n\n\t_, found_model := k.GetModel(ctx, key)"),
  ("x/model/keeper/data_management.go", "\t\tkey := fmt.Sprintf(\"%s-%s-%s\", metadata.Owner, metadata.Alias, metadata.GroupId)\n\t\tk.RemoveModel(ctx, key)\n\t\treturn", "\t\tk.RemoveModel(ctx, modelKey(metadata))\n\t\treturn"))


m("C-15", "C04", "", ("x/market/keeper/pool_management.go", "\t\terr := k.bank.SendCoinsFromModuleToModule(ctx, types.ModuleName, ordertypes.ModuleName, sdk.Coins{refundCoin})\n", "\t\terr := k.moveToOrderEscrow(ctx, refundCoin)\n"),
  ("x/market/keeper/pool_management.go", "func (k Keeper) Claim(", "func (k Keeper) moveToOrderEscrow(ctx sdk.Context, coin sdk.Coin) error {\n\treturn k.bank.SendCoinsFromModuleToModule(ctx, types.ModuleName, ordertypes.ModuleName, sdk.Coins{coin})\n}\n\nfunc (k Keeper) Claim("))
m("C-15b", "C06", "", ("x/market/keeper/pool_management.go", "\t\terr := k.bank.SendCoinsFromModuleToModule(ctx, types.ModuleName, ordertypes.ModuleName, sdk.Coins{refundCoin})\n", "\t\terr := k.moveToOrderEscrow(ctx, refundCoin)\n"),
  ("x/market/keeper/pool_management.go", "func (k Keeper) Claim(", "func (k Keeper) moveToOrderEscrow(ctx sdk.Context, coin sdk.Coin) error {\n\treturn k.bank.SendCoinsFromModuleToModule(ctx, types.ModuleName, ordertypes.ModuleName, sdk.Coins{coin})\n}\n\nfunc (k Keeper) Claim("))
m("M-flowhelper", "C04", "E7-flow", ("x/market/keeper/pool_management.go", "\t\terr := k.bank.SendCoinsFromModuleToModule(ctx, types.ModuleName, ordertypes.ModuleName, sdk.Coins{refundCoin})\n", "\t\terr := k.moveToOrderEscrow(ctx, order.Amount)\n"),
  ("x/market/keeper/pool_management.go", "func (k Keeper) Claim(", "func (k Keeper) moveToOrderEscrow(ctx sdk.Context, coin sdk.Coin) error {\n\treturn k.bank.SendCoinsFromModuleToModule(ctx, types.ModuleName, ordertypes.ModuleName, sdk.Coins{coin})\n}\n\nfunc (k Keeper) Claim("))


m("C-16", "C04", "", ("x/sao/keeper/expire_management.go", "\t\tshard.CreatedAt = uint64(ctx.BlockHeight())\n", "\t\tstartPeriod(ctx, &shard)\n"),
  ("x/sao/keeper/expire_management.go", "func (k Keeper) HandleExpiredShard(", "func startPeriod(ctx sdk.Context, shard *ordertypes.Shard) {\n\tshard.CreatedAt = uint64(ctx.BlockHeight())\n}\n\nfunc (k Keeper) HandleExpiredShard("),
  ("x/sao/keeper/expire_management.go", "import (\n", "import (\n\tordertypes \"github.com/SaoNetwork/sao/x/order/types\"\n"))

m("C-16b", "C11", "", ("x/sao/keeper/expire_management.go", "\t\tshard.CreatedAt = uint64(ctx.BlockHeight())\n", "\t\tstartPeriod(ctx, &shard)\n"),
  ("x/sao/keeper/expire_management.go", "func (k Keeper) HandleExpiredShard(", "func startPeriod(ctx sdk.Context, shard *ordertypes.Shard) {\n\tshard.CreatedAt = uint64(ctx.BlockHeight())\n}\n\nfunc (k Keeper) HandleExpiredShard("),
  ("x/sao/keeper/expire_management.go", "import (\n", "import (\n\tordertypes \"github.com/SaoNetwork/sao/x/order/types\"\n"))
m("C-16c", "C19", "", ("x/sao/keeper/expire_management.go", "\t\tshard.CreatedAt = uint64(ctx.BlockHeight())\n", "\t\tstartPeriod(ctx, &shard)\n"),
  ("x/sao/keeper/expire_management.go", "func (k Keeper) HandleExpiredShard(", "func startPeriod(ctx sdk.Context, shard *ordertypes.Shard) {\n\tshard.CreatedAt = uint64(ctx.BlockHeight())\n}\n\nfunc (k Keeper) HandleExpiredShard("),
  ("x/sao/keeper/expire_management.go", "import (\n", "import (\n\tordertypes \"github.com/SaoNetwork/sao/x/order/types\"\n"))
m("C-16d", "C14", "", ("x/sao/keeper/expire_management.go", "\t\tshard.CreatedAt = uint64(ctx.BlockHeight())\n", "\t\tstartPeriod(ctx, &shard)\n"),
  ("x/sao/keeper/expire_management.go", "func (k Keeper) HandleExpiredShard(", "func startPeriod(ctx sdk.Context, shard *ordertypes.Shard) {\n\tshard.CreatedAt = uint64(ctx.BlockHeight())\n}\n\nfunc (k Keeper) HandleExpiredShard("),
  ("x/sao/keeper/expire_management.go", "import (\n", "import (\n\tordertypes \"github.com/SaoNetwork/sao/x/order/types\"\n"))
m("C-16e", "C07", "", ("x/sao/keeper/expire_management.go", "\t\tshard.CreatedAt = uint64(ctx.BlockHeight())\n", "\t\tstartPeriod(ctx, &shard)\n"),
  ("x/sao/keeper/expire_management.go", "func (k Keeper) HandleExpiredShard(", "func startPeriod(ctx sdk.Context, shard *ordertypes.Shard) {\n\tshard.CreatedAt = uint64(ctx.BlockHeight())\n}\n\nfunc (k Keeper) HandleExpiredShard("),
  ("x/sao/keeper/expire_management.go", "import (\n", "import (\n\tordertypes \"github.com/SaoNetwork/sao/x/order/types\"\n"))


# ---------------------------------------------------------------- round-4 rules: hand-made variants and controls
m("M-addr", "C02", "L2-addr", ("x/did/keeper/msg_server_binding.go", "if caip10.Network == DEFAULT_NETWORK && caip10.Chain == ctx.ChainID() {\n\t\t\t_, found := k.GetPaymentAddress(ctx, proof.Did)", "if caip10.Chain == ctx.ChainID() {\n\t\t\t_, found := k.GetPaymentAddress(ctx, proof.Did)"))
m("M-pricedur", "C04", "T-price-dur", ("x/sao/keeper/msg_server_renew.go", "\t\t\tDuration:  proposal.Duration,", "\t\t\tDuration:  proposal.Duration + uint64(proposal.Timeout),"))
m("C-17", "C05", "", ("x/model/keeper/data_management.go", "\torder, _ := k.order.GetOrder(ctx, orderId)\n\n\tif k.order.RefundOrder", "\torder, foundOrder := k.order.GetOrder(ctx, orderId)\n\tif !foundOrder {\n\t\treturn status.Errorf(codes.NotFound, \"order %d not found\", orderId)\n\t}\n\n\tif k.order.RefundOrder"))
m("M-canceltotal", "C05", "T-cancel", ("x/model/keeper/data_management.go", "\torder, _ := k.order.GetOrder(ctx, orderId)\n\n\tif k.order.RefundOrder", "\torder, _ := k.order.GetOrder(ctx, orderId)\n\tif order.Status == ordertypes.OrderCompleted {\n\t\treturn status.Errorf(codes.Aborted, \"order %d already completed\", orderId)\n\t}\n\n\tif k.order.RefundOrder"))
m("M-replicadec", "C06", "T-replica-dec", ("x/sao/keeper/timeout_management.go", "order.Replica -= int32(timeoutCount)", "order.Replica -= int32(len(order.Shards) - len(completedShards))"))
m("M-bookedpath", "C07", "T-booked", ("x/node/keeper/shard_pledge_management.go", "\t} else {\n\t\terr = k.bank.SendCoinsFromAccountToModule(ctx, sdk.MustAccAddressFromBech32(shard.Sp), types.ModuleName, coins)\n\t}", "\t} else if !coins.IsZero() {\n\t\terr = k.bank.SendCoinsFromAccountToModule(ctx, sdk.MustAccAddressFromBech32(shard.Sp), types.ModuleName, coins)\n\t}"))
m("M-settleremove", "C14", "T-settle-then-remove", ("x/sao/keeper/msg_server_terminate.go", "\t\terr = k.model.TerminateOrder(ctx, order)\n\t\tif err != nil {\n\t\t\treturn nil, err\n\t\t}\n", "\t\terr = k.model.TerminateOrder(ctx, order)\n\t\tif err != nil {\n\t\t\treturn nil, err\n\t\t}\n\t\tfor _, shardId := range order.Shards {\n\t\t\tk.order.RemoveShard(ctx, shardId)\n\t\t}\n"))
m("M-rescan", "C20", "G-rescan", ("x/node/keeper/hooks.go", "\tdelegations := hook.k.staking.GetValidatorDelegations(ctx, valAddr)\n", "\tdelegations := hook.k.staking.GetValidatorDelegations(ctx, valAddr)\n\tif len(delegations) > 100 {\n\t\treturn\n\t}\n"))
m("M-keyparams", "C19", "T-keyparams", ("x/node/types/fault.go", "\tproviderBytes := []byte(provider)\n", ""), ("x/node/types/fault.go", "\tkey = append(key, providerBytes...)\n", ""))

# ---- round r1 (seed on a refactored tree): hand-made variants of the new rules on the pinned tree, and controls
m("M-persist-ptr", "C05", "T-persist", ("x/model/keeper/data_management.go",
   "\tk.ResetMetaDuration(ctx, &metadata)\n\n\tk.SetMetadata(ctx, metadata)\n\treturn\n}",
   "\tk.SetMetadata(ctx, metadata)\n\tk.ResetMetaDuration(ctx, &metadata)\n\treturn\n}"))
m("M-release-own14", "C14", "G-release-own", ("x/market/keeper/pool_management.go",
   "if shard.Status == ordertypes.ShardCompleted && shard.OrderId == order.Id {", "if shard.Status == ordertypes.ShardCompleted && shard.OrderId <= order.Id {"))
m("M-accrual", "C06", "T-accrual-clock", ("x/market/keeper/pool_management.go",
   "\t\tlogger.Error(\"no reward\", \"worker\", workerName)\n\t\treturn empty, nil", "\t\tlogger.Error(\"no reward\", \"worker\", workerName)\n\t\tk.SetWorker(ctx, worker)\n\t\treturn empty, nil"))
m("M-sigowner", "C09", "T-sigowner", ("x/sao/keeper/verify.go",
   "saodid.NewDidManagerWithDid(owner, querySidDocument)", "saodid.NewDidManagerWithDid(string(proposalBytes[:0])+jwsSignature.Protected, querySidDocument)"))
m("M-settled", "C13", "T-settled-shards", ("x/model/keeper/data_management.go",
   "\t\t\tif lastOrder.Commit != lastCommit {\n\t\t\t\tbreak\n\t\t\t}", "\t\t\tif lastOrder.Commit != lastCommit {\n\t\t\t\tmetadata.Status = types.MetaComplete\n\t\t\t\tk.SetMetadata(ctx, metadata)\n\t\t\t\treturn nil\n\t\t\t}"))
m("M-unbind", "C17", "T-unbind-all", ("x/did/keeper/msg_server_update.go",
   "\t\tremoveAccId = append(removeAccId, accountId.AccountId)\n", "\t\tif caip10.Network != DEFAULT_NETWORK {\n\t\t\tcontinue\n\t\t}\n\t\tremoveAccId = append(removeAccId, accountId.AccountId)\n"))
m("M-filteruse", "C15", "T-filter-use",
  ("x/node/keeper/reputation.go", "\tnodes := k.GetAllNodesByStatusAndReputationAndRole(ctx, uint32(types.NODE_NORMAL), status, 8000.0, size)\n", "\tall := k.GetAllNodesByStatusAndReputationAndRole(ctx, uint32(types.NODE_NORMAL), status, 8000.0, size)\n\tnodes := all\n"),
  ("x/node/keeper/reputation.go", "\t\t\tnodes = append([]types.Node{superNode}, nodes...)\n\t\t}\n\t\treturn nodes", "\t\t\tnodes = append([]types.Node{superNode}, all...)\n\t\t}\n\t\treturn nodes"))
m("M-sharessub", "C20", "T-shares-sub", ("x/node/keeper/hooks.go",
   "\t\tif sharesBeforeModified.GT(del.GetShares()) {\n\t\t\tsharesToSub = sharesBeforeModified.Sub(del.GetShares())", "\t\tif !sharesBeforeModified.Equal(del.GetShares()) {\n\t\t\tsharesToSub = sharesBeforeModified.Sub(del.GetShares()).Abs()"))
# faithful: the ignore filter builds a new list instead of cutting in place
m("C-19", "C15", "", ("x/node/keeper/reputation.go",
   "\tfor _, s := range ignore {\n\t\tfor index, node := range nodes {\n\t\t\tif s == node.Creator {\n\t\t\t\tnodes = append(nodes[:index], nodes[index+1:]...)\n\t\t\t\tbreak\n\t\t\t}\n\t\t}\n\t}\n",
   "\tfor _, s := range ignore {\n\t\tkept := make([]types.Node, 0, len(nodes))\n\t\tdropped := false\n\t\tfor _, node := range nodes {\n\t\t\tif !dropped && s == node.Creator {\n\t\t\t\tdropped = true\n\t\t\t\tcontinue\n\t\t\t}\n\t\t\tkept = append(kept, node)\n\t\t}\n\t\tnodes = kept\n\t}\n"))
# faithful: the clock is set before the accrual is added (order of two independent assignments)
m("C-20", "C06", "", ("x/market/keeper/pool_management.go",
   "\tworker.Reward.Amount = worker.Reward.Amount.Sub(sdk.NewDecFromInt(rewardCoin.Amount))\n\tworker.LastRewardAt = ctx.BlockHeight()\n", "\tworker.LastRewardAt = ctx.BlockHeight()\n\tworker.Reward.Amount = worker.Reward.Amount.Sub(sdk.NewDecFromInt(rewardCoin.Amount))\n"))
# faithful: sharesToSub through a switch
m("C-21", "C20", "", ("x/node/keeper/hooks.go",
   "\t\tif sharesBeforeModified.GT(del.GetShares()) {\n\t\t\tsharesToSub = sharesBeforeModified.Sub(del.GetShares())\n\t\t} else if beforeDeletationRemoved {",
   "\t\tdecreased := sharesBeforeModified.GT(del.GetShares())\n\t\tif decreased {\n\t\t\tsharesToSub = sharesBeforeModified.Sub(del.GetShares())\n\t\t} else if beforeDeletationRemoved {"))

# patch-file mutants / controls: (id, property, expected rule or "" for silent, patch path)
P = [
 ("C-5", "C19", "", "/verif/tools/controls/C-5-faithful-helper-reportfaults.diff"),
 ("S-C01-a1", "C01", "D2", "/verif/seeded/C01-a1/patch.diff"),
 ("S-C02-a1", "C02", "L2-couple", "/verif/seeded/C02-a1/patch.diff"),
 ("S-C09-a1", "C09", "G-renew", "/verif/seeded/C09-a1/patch.diff"),
 ("S-C10-a1", "C10", "G-payer", "/verif/seeded/C10-a1/patch.diff"),
 ("S-C18-a1", "C18", "E6-all", "/verif/seeded/C18-a1/patch.diff"),
 ("S-C19-a1", "C19", "G-fault", "/verif/seeded/C19-a1/patch.diff"),
 ("S-C17-a1", "C17", "G-upd", "/verif/seeded/C17-a1/patch.diff"),
 ("S-C20-a1", "C20", "G-promote", "/verif/seeded/C20-a1/patch.diff"),
 ("S-C03-a1", "C03", "D3", "/verif/seeded/C03-a1/patch.diff"),
 ("S-C08-a1", "C08", "G-mint", "/verif/seeded/C08-a1/patch.diff"),
 ("S-C15-a1", "C15", "G-elig-2", "/verif/seeded/C15-a1/patch.diff"),
 ("S-C16-a1", "C16", "T-forcepush", "/verif/seeded/C16-a1/patch.diff"),
 ("S-C14-a1", "C14", "T-couple", "/verif/seeded/C14-a1/patch.diff"),
 ("S-C06-a1", "C06", "T-booked", "/verif/seeded/C06-a1/patch.diff"),
 ("S-C07-a1", "C07", "T-couple", "/verif/seeded/C07-a1/patch.diff"),
 ("S-C04-a1", "C04", "T-refund-booked", "/verif/seeded/C04-a1/patch.diff"),
 ("S-C05-a1", "C05", "T-cancel-pre", "/verif/seeded/C05-a1/patch.diff"),
 ("S-C11-a1", "C11", "T-paid-end", "/verif/seeded/C11-a1/patch.diff"),
 ("S-C12-a1", "C12", "T-timeout-height", "/verif/seeded/C12-a1/patch.diff"),
 ("S-C13-a1", "C13", "T-partition", "/verif/seeded/C13-a1/patch.diff"),
 ("S-C01-a2", "C01", "D3", "/verif/seeded/C01-a2/patch.diff"),
 ("S-C02-a2", "C02", "T-couple", "/verif/seeded/C02-a2/patch.diff"),
 ("S-C03-a2", "C03", "D3-mem", "/verif/seeded/C03-a2/patch.diff"),
 ("S-C04-a2", "C04", "T-refund-class", "/verif/seeded/C04-a2/patch.diff"),
 ("S-C05-a2", "C05", "T-rollback", "/verif/seeded/C05-a2/patch.diff"),
 ("S-C06-a2", "C06", "T-refund-class", "/verif/seeded/C06-a2/patch.diff"),
 ("S-C07-a2", "C07", "G-rmv", "/verif/seeded/C07-a2/patch.diff"),
 ("S-C08-a2", "C08", "T-claim", "/verif/seeded/C08-a2/patch.diff"),
 ("S-C09-a2", "C09", "G-store-upd", "/verif/seeded/C09-a2/patch.diff"),
 ("S-C10-a2", "C10", "G-cancel", "/verif/seeded/C10-a2/patch.diff"),
 ("S-C11-a2", "C11", "T-takeover", "/verif/seeded/C11-a2/patch.diff"),
 ("S-C12-a2", "C12", "T-replace", "/verif/seeded/C12-a2/patch.diff"),
 ("S-C13-a2", "C13", "G-alias-free", "/verif/seeded/C13-a2/patch.diff"),
 ("S-C14-a2", "C14", "T-book-pair", "/verif/seeded/C14-a2/patch.diff"),
 ("S-C15-a2", "C15", "T-ignore", "/verif/seeded/C15-a2/patch.diff"),
 ("S-C16-a2", "C16", "T-base", "/verif/seeded/C16-a2/patch.diff"),
 ("S-C17-a2", "C17", "T-paykey", "/verif/seeded/C17-a2/patch.diff"),
 ("S-C18-a2", "C18", "E6-all", "/verif/seeded/C18-a2/patch.diff"),
 ("S-C19-a2", "C19", "G-fish", "/verif/seeded/C19-a2/patch.diff"),
 ("S-C20-a2", "C20", "G-demote", "/verif/seeded/C20-a2/patch.diff"),
 ("C-6", "C18", "", "/verif/tools/controls/C-6-iterate-callback-export.diff"),
 ("S-C01-a4", "C01", "D1", "/verif/seeded/C01-a4/patch.diff"),
 ("S-C02-a4", "C02", "L2-addr", "/verif/seeded/C02-a4/patch.diff"),
 ("S-C03-a4", "C03", "D3", "/verif/seeded/C03-a4/patch.diff"),
 ("S-C04-a4", "C04", "T-price-dur", "/verif/seeded/C04-a4/patch.diff"),
 ("S-C05-a4", "C05", "T-cancel", "/verif/seeded/C05-a4/patch.diff"),
 ("S-C06-a4", "C06", "T-replica-dec", "/verif/seeded/C06-a4/patch.diff"),
 ("S-C07-a4", "C07", "T-booked", "/verif/seeded/C07-a4/patch.diff"),
 ("S-C08-a4", "C08", "T-couple", "/verif/seeded/C08-a4/patch.diff"),
 ("S-C09-a4", "C09", "G-updmeta", "/verif/seeded/C09-a4/patch.diff"),
 ("S-C10-a4", "C10", "G-renew", "/verif/seeded/C10-a4/patch.diff"),
 ("S-C11-a4", "C11", "T-lost-update", "/verif/seeded/C11-a4/patch.diff"),
 ("S-C12-a4", "C12", "CAP-sched-delete", "/verif/seeded/C12-a4/patch.diff"),
 ("S-C13-a4", "C13", "T-sched-shard", "/verif/seeded/C13-a4/patch.diff"),
 ("S-C14-a4", "C14", "T-settle-then-remove", "/verif/seeded/C14-a4/patch.diff"),
 ("S-C15-a4", "C15", "G-distinct", "/verif/seeded/C15-a4/patch.diff"),
 ("S-C16-a4", "C16", "T-persist", "/verif/seeded/C16-a4/patch.diff"),
 ("S-C17-a4", "C17", "T-anchored", "/verif/seeded/C17-a4/patch.diff"),
 ("S-C18-a4", "C18", "E6-all", "/verif/seeded/C18-a4/patch.diff"),
 ("S-C19-a4", "C19", "T-keyparams", "/verif/seeded/C19-a4/patch.diff"),
 ("S-C20-a4", "C20", "G-rescan", "/verif/seeded/C20-a4/patch.diff"),
 ("S-C01-a3", "C01", "D1-dep", "/verif/seeded/C01-a3/patch.diff"),
 ("S-C02-a3", "C02", "L2-nilarg", "/verif/seeded/C02-a3/patch.diff"),
 ("S-C03-a3", "C03", "D3-startup", "/verif/seeded/C03-a3/patch.diff"),
 ("S-C04-a3", "C04", "T-append-fresh", "/verif/seeded/C04-a3/patch.diff"),
 ("S-C05-a3", "C05", "T-aliaskey", "/verif/seeded/C05-a3/patch.diff"),
 ("S-C06-a3", "C06", "T-couple", "/verif/seeded/C06-a3/patch.diff"),
 ("S-C07-a3", "C07", "G-release-own", "/verif/seeded/C07-a3/patch.diff"),
 ("S-C08-a3", "C08", "E6-all", "/verif/seeded/C08-a3/patch.diff"),
 ("S-C09-a3", "C09", "G-sigpath", "/verif/seeded/C09-a3/patch.diff"),
 ("S-C10-a3", "C10", "T-loopvar", "/verif/seeded/C10-a3/patch.diff"),
 ("S-C11-a3", "C11", "T-sched-shard", "/verif/seeded/C11-a3/patch.diff"),
 ("S-C12-a3", "C12", "G-elig-2", "/verif/seeded/C12-a3/patch.diff"),
 ("S-C13-a3", "C13", "CAP-sched-delete", "/verif/seeded/C13-a3/patch.diff"),
 ("S-C14-a3", "C14", "T-accum-scope", "/verif/seeded/C14-a3/patch.diff"),
 ("S-C15-a3", "C15", "G-replica", "/verif/seeded/C15-a3/patch.diff"),
 ("S-C16-a3", "C16", "E6-pair", "/verif/seeded/C16-a3/patch.diff"),
 ("S-C17-a3", "C17", "G-bind", "/verif/seeded/C17-a3/patch.diff"),
 ("S-C18-a3", "C18", "E6-pair", "/verif/seeded/C18-a3/patch.diff"),
 ("S-C19-a3", "C19", "CAP-period", "/verif/seeded/C19-a3/patch.diff"),
 ("S-C20-a3", "C20", "G-share-ratio", "/verif/seeded/C20-a3/patch.diff"),
]
# behaviour-preserving refactors made by sub-agents (DESIGN 8.5b): every property must stay silent on each. The
# property named here is the one whose thorough-tier self-test re-analyses the refactor in memory.
for (rid, prop) in [("R01", "C16"), ("R02", "C10"), ("R03", "C09"), ("R04", "C12"), ("R05", "C05"), ("R06", "C07"),
                    ("R07", "C20"), ("R08", "C15"), ("R09", "C14"), ("R10", "C17"), ("R11", "C18"), ("R12", "C19"),
                    ("R13", "C04"), ("R14", "C12"), ("R15", "C06"), ("R16", "C08"), ("R17", "C11"), ("R18", "C17"),
                    ("R19", "C15"), ("R20", "C09"), ("R22", "C13"), ("R23", "C18")]:
    P.append((rid, prop, "", f"/verif/refactors/{rid}/patch.diff"))
# faithful, but of a shape the engines cannot follow (DESIGN 8.6): heap-carried request record (R21), table of
# predicate function values (R24) — expected outcome: undecided, never a violation
for (rid, prop) in [("R21", "C10"), ("R24", "C19")]:
    P.append((rid, prop, "~undecided", f"/verif/refactors/{rid}/patch.diff"))
# "refactor of a seed" (DESIGN 8.5c): a confirmed seed composed with a behaviour-preserving refactoring that an agent
# made of the seeded tree without knowing about the seed; the bug survives (the seed's demo still fails) and the
# property's check must still fire.
RS = [('C01-a4', 'D1'), ('C02-a2', 'T-couple'), ('C03-a4', 'D3'), ('C04-a4', 'T-price-dur'), ('C05-a3', 'T-aliaskey'), ('C06-a2', 'T-refund-class'), ('C07-a2', 'G-rmv'), ('C08-a2', 'T-claim'), ('C09-a2', 'G-store-upd'), ('C10-a4', 'G-renew'), ('C11-a3', 'T-sched-shard'), ('C12-a2', 'T-replace'), ('C13-a3', 'CAP-sched-delete'), ('C14-a1', 'T-couple'), ('C15-a4', 'G-distinct'), ('C16-a4', 'T-persist'), ('C17-a3', 'G-bind'), ('C18-a4', 'E6-all'), ('C19-a2', 'G-fish'), ('C20-a3', 'G-share-ratio')]
# second, styled round (DESIGN 8.5f): the refactoring agent was asked for one named style per seed (guard clauses,
# enum classification, parameter / result records, phase split ...)
RS += [('C01-a2', 'D3'), ('C02-a3', 'L2-nilarg'), ('C03-a1', 'D3'), ('C04-a2', 'T-refund-class'), ('C05-a2', 'T-rollback'), ('C06-a1', 'T-booked'),
       ('C07-a4', 'T-booked'), ('C08-a4', 'T-couple'), ('C09-a1', 'G-renew'), ('C10-a1', 'G-payer'), ('C11-a2', 'T-takeover'), ('C12-a1', 'T-timeout-height'),
       ('C13-a1', 'T-partition'), ('C14-a3', 'T-accum-scope'), ('C15-a1', 'G-elig-2'), ('C17-a2', 'T-paykey'), ('C18-a2', 'E6-all'),
       ('C19-a1', 'G-fault'), ('C20-a2', 'G-demote')]
for (sid, rule) in RS:
    P.append(("RS-" + sid, sid.split("-")[0], rule, f"/verif/refactored_seeds/{sid}/combined.diff"))
# a validation phase that returns a by-value request record with conditionally assigned fields (DESIGN 8.6): the
# rules of Store are left undecided, the seeded defect included
P.append(("RS-C16-a2", "C16", "~undecided", "/verif/refactored_seeds/C16-a2/combined.diff"))
# round r1: seeds made on a refactored tree (patch.diff = refactor + seed relative to the pinned tree)
for (sid, rule) in [("C01", "D3"), ("C02", "T-couple"), ("C03", "D3"), ("C04", "T-replica-dec"), ("C05", "T-persist"), ("C06", "T-accrual-clock"),
                    ("C07", "T-release-amount"), ("C08", "T-claim"), ("C09", "T-sigowner"), ("C10", "G-payer"), ("C11", "T-sched-meta"),
                    ("C12", "T-replace"), ("C13", "T-settled-shards"), ("C14", "G-release-own"), ("C15", "T-filter-use"), ("C16", "T-base"),
                    ("C17", "T-unbind-all"), ("C18", "E6-all"), ("C19", "G-fault"), ("C20", "T-shares-sub")]:
    P.append((f"S-{sid}-r1", sid, rule, f"/verif/seeded/{sid}-r1/patch.diff"))
# round a5: told about all five earlier seeds of the property (DESIGN 8.5g)
for (sid, rule) in [("C01", "T-get-immutable"), ("C02", "T-couple"), ("C03", "T-get-immutable"), ("C04", "T-loopvar"), ("C05", "T-unschedule"), ("C06", "T-remaining-term"), ("C07", "T-booked"), ("C08", "T-settle-rebase"), ("C09", "T-msg-immutable"), ("C10", "G-pay"), ("C11", "T-extend-meta"), ("C12", "T-replace"), ("C13", "T-shard-owner"), ("C14", "E6-pair"), ("C15", "T-permute"), ("C16", "T-status-forward"), ("C17", "T-splice-skip"), ("C18", "E6-all"), ("C19", "T-flag-reset"), ("C20", "G-promote")]:
    P.append((f"S-{sid}-a5", sid, rule, f"/verif/seeded/{sid}-a5/patch.diff"))
# round a6 (DESIGN 8.5h); C08-a6 and C14-a6 are not caught (numeric boundary / index arithmetic of one loop): kept as seeds, not registered
for (sid, rule) in [("C01", "D3-mem"), ("C02", "L2-index"), ("C03", "D3"), ("C04", "T-fresh-if-missing"), ("C05", "E7-flow"), ("C06", "T-couple"), ("C07", "T-debt-repay"), ("C09", "T-perm-applied"), ("C10", "T-decode-fresh"), ("C11", "E6-pair"), ("C12", "T-refund-booked"), ("C13", "G-renew-shards"), ("C15", "T-decode-fresh"), ("C16", "G-inflight"), ("C17", "G-bind"), ("C18", "T-validate-map"), ("C19", "G-selfrec"), ("C20", "G-promote")]:
    P.append((f"S-{sid}-a6", sid, rule, f"/verif/seeded/{sid}-a6/patch.diff"))
# round a7 (DESIGN 8.5i): ten properties, told about all seven earlier seeds
for (sid, rule) in [("C02", "L1"), ("C05", "T-rollback-fields"), ("C06", "T-accrual-clock"), ("C07", "G-used"), ("C10", "G-bound"), ("C11", "G-retain"), ("C12", "T-exits"), ("C15", "T-splice-skip"), ("C17", "G-proof-addr"), ("C18", "E6-all")]:
    P.append((f"S-{sid}-a7", sid, rule, f"/verif/seeded/{sid}-a7/patch.diff"))
# refactor-of-seed composites on round-5 seeds (the new rules under a faithful refactoring)
for (sid, rule) in [("C01-a5", "T-get-immutable"), ("C05-a5", "T-unschedule"), ("C06-a5", "T-remaining-term"), ("C08-a5", "T-settle-rebase"), ("C09-a5", "T-msg-immutable"),
                    ("C11-a5", "T-extend-meta"), ("C13-a5", "T-shard-owner"), ("C15-a5", "T-permute"), ("C16-a5", "T-status-forward"), ("C19-a5", "T-flag-reset")]:
    P.append(("RS-" + sid, sid.split("-")[0], rule, f"/verif/refactored_seeds/{sid}/combined.diff"))
# refactor-of-seed composites on round-6 seeds
for (sid, rule) in [("C02-a6", "L2-index"), ("C04-a6", "T-fresh-if-missing"), ("C07-a6", "T-debt-repay"), ("C09-a6", "T-perm-applied"), ("C10-a6", "T-decode-fresh"),
                    ("C16-a6", "G-inflight"), ("C18-a6", "T-validate-map")]:
    P.append(("RS-" + sid, sid.split("-")[0], rule, f"/verif/refactored_seeds/{sid}/combined.diff"))
# RS-C13-a6 (Renew split into loadRenewTarget -> renewableShards / renewData, failures handed back as a text compared with ""):
# since the seventh session G-renew (C09) is silent on it (string-emptiness result tests); G-renew-shards says "not decided"
P.append(("RS-C13-a6", "C13", "~undecided", "/verif/refactored_seeds/C13-a6/combined.diff"))
import glob as _glob
for d in sorted(_glob.glob("/verif/refactors/R[0-9][0-9]")):
    rid = os.path.basename(d)
    if not any(x[0] == rid for x in P):
        P.append((rid, "C10", "", d + "/patch.diff"))
for (id, prop, rule, path) in P:
    M.append((id, prop, rule, [("@patch", path, "")]))

def sh(cmd, **kw):
    return subprocess.run(cmd, shell=True, capture_output=True, text=True, env=ENV, **kw)

def restore():
    sh(f"git -C {REPO} checkout -- . && git -C {REPO} clean -fdq")

def hunks_of(patch_path):
    """unified diff -> [(file, old, new)] (one edit per hunk; old == "" creates the file)."""
    edits, cur, old, new, newfile = [], None, [], [], False
    def flush():
        nonlocal old, new
        if cur and (old or new):
            edits.append((cur, "".join(old), "".join(new)))
        old, new = [], []
    for line in open(patch_path).read().splitlines(keepends=True):
        if line.startswith("diff --git "):
            flush(); cur = None; newfile = False
        elif line.startswith("new file mode"):
            newfile = True
        elif line.startswith("--- "):
            pass
        elif line.startswith("+++ "):
            cur = line[4:].strip()
            cur = cur[2:] if cur.startswith("b/") else cur
        elif line.startswith("@@"):
            flush()
        elif cur is None or line.startswith("\\"):
            continue
        elif line.startswith("+"):
            new.append(line[1:])
        elif line.startswith("-"):
            old.append(line[1:])
        elif line.startswith(" "):
            old.append(line[1:]); new.append(line[1:])
    flush()
    return edits

def whole_file_edits(patch_path):
    """patch -> [(file, whole old content, whole new content)] by applying it in a scratch worktree of REPO
    (robust where per-hunk text replacement is ambiguous); falls back to hunks_of."""
    wt = "/tmp/mexp-wt"
    sh(f"git -C {REPO} worktree remove --force {wt}")
    if sh(f"git -C {REPO} worktree add --detach {wt} HEAD").returncode != 0:
        return hunks_of(patch_path)
    try:
        if sh(f"git -C {wt} apply {patch_path}").returncode != 0:
            return hunks_of(patch_path)
        out = []
        for line in sh(f"git -C {wt} status --porcelain -uall").stdout.splitlines():
            f = line[3:].strip()
            newc = open(os.path.join(wt, f)).read() if os.path.exists(os.path.join(wt, f)) else None
            oldp = os.path.join(REPO, f)
            oldc = open(oldp).read() if os.path.exists(oldp) else ""
            if newc is None:
                continue  # deletions are not representable as overlays; none of the recorded patches deletes a file
            out.append((f, oldc, newc))
        return out
    finally:
        sh(f"git -C {REPO} worktree remove --force {wt}")

def export(path):
    import hashlib
    assert sh(f"git -C {REPO} status --porcelain").stdout.strip() == "", "repo tree must be clean"
    out = []
    for id, prop, rule, edits in M:
        es = []
        for (f, old, new) in edits:
            if f == "@patch":
                es += whole_file_edits(old)
            else:
                es.append((f, old, new))
        # skip no-op edits, verify applicability (sequentially, per file)
        cur, ok, js = {}, True, []
        for (f, old, new) in es:
            if old == new:
                continue
            fp = os.path.join(REPO, f)
            if f not in cur:
                cur[f] = open(fp).read() if os.path.exists(fp) else None
            base = None
            if os.path.exists(fp):
                base = hashlib.sha256(open(fp, "rb").read()).hexdigest()
            if cur[f] is None:
                if old != "":
                    ok = False; break
                cur[f] = new
            else:
                if old == "" or old not in cur[f]:
                    ok = False; break
                cur[f] = cur[f].replace(old, new, 1)
            e = {"file": f, "old": old, "new": new}
            if base:
                e["base_sha256"] = base
            js.append(e)
        if not ok or not js:
            print(f"export: {id} skipped (does not apply as text edits)")
            continue
        out.append({"id": id, "property": prop, "rule": rule, "edits": js})
    json.dump(out, open(path, "w"), indent=1)
    print(f"exported {len(out)} reference variants to {path}")

def main():
    if len(sys.argv) > 1 and sys.argv[1] == "--list":
        print("\n".join(x[0] for x in M)); return
    if len(sys.argv) > 1 and sys.argv[1] == "--export":
        export(sys.argv[2] if len(sys.argv) > 2 else "/verif/positives.json"); return
    want = set(sys.argv[1:])
    results = []
    assert sh(f"git -C {REPO} status --porcelain").stdout.strip() == "", "repo tree must be clean"
    for id, prop, rule, edits in M:
        if want and id not in want:
            continue
        ok_apply = True
        for (f, old, new) in edits:
            if f == "@patch":
                a = sh(f"git -C {REPO} apply {old}")
                if a.returncode != 0:
                    ok_apply = False
                    print(f"{id}: PATCH DOES NOT APPLY: {a.stderr[:200]}")
                    break
                continue
            p = os.path.join(REPO, f)
            s = open(p).read()
            if old not in s:
                ok_apply = False
                print(f"{id}: PATTERN NOT FOUND in {f}")
                break
            open(p, "w").write(s.replace(old, new, 1))
        if not ok_apply:
            restore(); results.append((id, "BROKEN-MUTANT")); continue
        b = sh("go build ./... 2>&1 | grep -v '^#' | grep -v testutil | head -5", cwd=REPO)
        # testutil/keeper never compiled; anything else is a broken mutant
        bb = sh("go build ./cmd/... ./x/... ./app/... 2>&1 | head -5", cwd=REPO)
        if bb.returncode != 0 or bb.stdout.strip():
            print(f"{id}: does not build: {bb.stdout[:300]}")
            restore(); results.append((id, "NOBUILD")); continue
        vm = "/tmp/vmut" + str(os.getpid())
        os.makedirs(vm, exist_ok=True)
        shutil.copy("/verif/known_findings.json", vm + "/known_findings.json")
        # controls (behaviour-preserving edits) must leave EVERY property's check silent, not only the named one
        parg = "all" if rule in ("", "~undecided") else prop
        out = sh(f"/verif/bin/saocheck -p {parg} -repo {REPO} -verif {vm}")
        fired = [l for l in out.stdout.splitlines() if l.startswith("violation:")]
        und = [l for l in out.stdout.splitlines() if l.startswith("UNDECIDED")]
        if rule == "~undecided":
            # a faithful refactor of a shape the engines cannot follow (documented limit): no VIOLATION may be
            # raised; "not decided" (exit 2) is the expected, honest outcome
            status = "OK-silent" if (not fired and out.returncode in (0, 2)) else "FALSE-ALARM"
        elif rule == "":
            status = "OK-silent" if out.returncode == 0 else "FALSE-ALARM"
        else:
            hit = [l for l in fired if rule in l]
            status = "OK-caught" if (out.returncode == 1 and hit) else ("MISSED" if out.returncode == 0 else f"WRONG(exit={out.returncode})")
        print(f"{id:10s} {prop} expect={rule or 'silent':12s} -> {status}  ({len(fired)} violations, {len(und)} undecided)")
        if status not in ("OK-caught", "OK-silent"):
            for l in (fired + und)[:4]:
                print("     ", l[:300])
        results.append((id, status))
        restore()
    shutil.rmtree("/tmp/vmut" + str(os.getpid()), ignore_errors=True)
    bad = [r for r in results if not r[1].startswith("OK")]
    print(f"{len(results)-len(bad)}/{len(results)} as expected")
    sys.exit(1 if bad else 0)

if __name__ == "__main__":
    main()
