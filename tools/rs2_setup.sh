#!/bin/bash
# usage: rs2_setup.sh <seed-name> "<style focus>"  — like rs_setup.sh (standalone repository /tmp/rs-<seed> holding the
# SEEDED tree, refactoring prompt without any mention of the seed), with a style focus for the refactoring.
s=$1; focus=$2
d=/tmp/rs-$s
rm -rf $d && mkdir -p $d && git -C /repo archive HEAD | tar -x -C $d || exit 1
( cd $d && git init -q && git apply /verif/seeded/$s/patch.diff && git add -A && git -c user.name=x -c user.email=x@x commit -qm base ) || { echo "$s: setup failed"; exit 1; }
files=$(grep '^+++ b/' /verif/seeded/$s/patch.diff | sed 's/+++ b\///' | grep -v '_test.go\|\.pb\.' | sed 's/^/  - /')
python3 - "$d" "$files" "$focus" > /tmp/rs-$s.prompt <<'PY'
import sys
t=open('/verif/tools/refactor_prompt.txt').read()
t=t.replace('WORKTREE',sys.argv[1]).replace('FILES',sys.argv[2])
t+="\nSTYLE FOCUS for this clean-up (in addition to the list above; use it where it fits the code naturally, at least 3 of your refactorings should be of this kind, and apply it to the central functions of the listed files, not only to the fringes): "+sys.argv[3]+"\n(The \"worktree\" is a standalone git repository with a single commit; treat that commit as the base.)\n"
print(t)
PY
echo "$s ready"
