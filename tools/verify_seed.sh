#!/bin/bash
# usage: verify_seed.sh <worktree> <property> <seed-name>
# Confirms a seeded change independently (clean: demo passes; patched: builds, baseline passes, demo fails),
# stores it under /verif/seeded/<seed-name>/ and runs the property's check against it in /repo (then restores /repo).
export GOFLAGS=-mod=mod GOPROXY=off GOSUMDB=off GOTOOLCHAIN=local
WT=$1; PROP=$2; NAME=$3
cd "$WT" || exit 2
echo "=== $NAME ($PROP) in $WT"
git checkout -q -- . 2>/dev/null
bash seeded/demo/run_demo.sh >/tmp/seed_clean_$NAME.log 2>&1; C=$?
echo "clean demo exit=$C"
git apply --check seeded/patch.diff || { echo "PATCH DOES NOT APPLY"; exit 1; }
git apply seeded/patch.diff
go build ./cmd/... ./x/... ./app/... >/tmp/seed_build_$NAME.log 2>&1; B=$?
echo "patched build exit=$B"
/verif/tools/baseline.py "$WT" | tail -1; BL=${PIPESTATUS[0]}
bash seeded/demo/run_demo.sh >/tmp/seed_patched_$NAME.log 2>&1; P=$?
echo "patched demo exit=$P"
git apply -R seeded/patch.diff; git checkout -q -- . ; git clean -fdq -e seeded
if [ $C -eq 0 ] && [ $B -eq 0 ] && [ $BL -eq 0 ] && [ $P -ne 0 ]; then
  echo "CONFIRMED"
  mkdir -p /verif/seeded/$NAME && cp -r seeded/patch.diff seeded/demo seeded/meta.json /verif/seeded/$NAME/ 2>/dev/null
  cp seeded/meta.json /verif/seeded/$NAME/agent_meta.json
  # run our check against it
  git -C /repo apply "$WT/seeded/patch.diff" && { /verif/bin/saocheck -p $PROP -verif /tmp/vseed_$NAME > /tmp/seed_check_$NAME.log 2>&1; echo "check exit=$? (see /tmp/seed_check_$NAME.log)"; grep -c '^VIOLATION' /tmp/seed_check_$NAME.log; grep '^violation' /tmp/seed_check_$NAME.log | cut -c1-260 | head -5; }
  git -C /repo checkout -q -- . ; git -C /repo clean -fdq
else
  echo "NOT CONFIRMED (clean=$C build=$B baseline=$BL patched=$P)"
fi
