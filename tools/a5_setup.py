#!/usr/bin/env python3
"""usage: a5_setup.py <round-tag> Cxx ...  — builds, for each property, a standalone scratch repository /tmp/s5-<Cxx> (one
commit: /repo HEAD) and a seeding prompt /tmp/s5-<Cxx>.prompt that describes the mechanisms of all earlier confirmed
seeds of that property (to be avoided). Nothing from /verif is visible to the agent."""
import sys, os, json, subprocess, glob
tag = sys.argv[1]
props = {json.loads(l)["id"]: json.loads(l) for l in open("/verif/properties.jsonl")}
tmpl = open("/verif/tools/seed_prompt.txt").read()
for c in sys.argv[2:]:
    d = f"/tmp/s{tag[-1]}-{c}"
    subprocess.run(f"rm -rf {d} && mkdir -p {d} && git -C /repo archive HEAD | tar -x -C {d} && cd {d} && git init -q && git add -A && git -c user.name=x -c user.email=x@x commit -qm base", shell=True, check=True)
    earlier = []
    for m in sorted(glob.glob(f"/verif/seeded/{c}-*/meta.json")):
        j = json.load(open(m))
        txt = (j.get("breaks") or j.get("summary") or "").strip().replace("\n", " ")
        earlier.append("  - " + txt[:420] + ("…" if len(txt) > 420 else ""))
    t = tmpl.replace("WORKTREE", d).replace("PROPERTY_JSON", json.dumps(props[c], indent=1))
    t += f"""
NOTE: your "worktree" is a standalone git repository with one commit; that commit is the unchanged tree.
Earlier bug seeders already produced the following changes for this same property. Do NOT repeat any of these mechanisms or a close variant of one (same function + same kind of mistake). Find a genuinely different way to break the property: a different function, a different clause of the property, a different kind of mistake (ordering, aliasing, stale copy, wrong key, wrong unit, off-by-one on a boundary, missing case of a switch, error swallowed, state left behind on an error path, interaction between two modules, genesis/upgrade path, query/simulation path affecting state, ...):
""" + "\n".join(earlier) + "\n"
    open(f"/tmp/s{tag[-1]}-{c}.prompt", "w").write(t)
    print(c, "ready", len(earlier), "earlier seeds listed")
