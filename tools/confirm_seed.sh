#!/bin/bash
# usage: confirm_seed.sh <worktree> <seed-name>
# Phase 1 of seed confirmation, safe to run in parallel (touches only the scratch worktree):
# clean: demo passes; patched: builds, baseline 47 pass, demo fails. On success copies the
# seed to /verif/seeded/<seed-name>/. Phase 2 (check against /repo) = tools/check_seed.sh.
export GOFLAGS=-mod=mod GOPROXY=off GOSUMDB=off GOTOOLCHAIN=local
WT=$1; NAME=$2
cd "$WT" || exit 2
git checkout -q -- . 2>/dev/null
bash seeded/demo/run_demo.sh >/tmp/seed_clean_$NAME.log 2>&1; C=$?
git apply --check seeded/patch.diff || { echo "$NAME PATCH DOES NOT APPLY"; exit 1; }
git apply seeded/patch.diff
go build ./cmd/... ./x/... ./app/... >/tmp/seed_build_$NAME.log 2>&1; B=$?
BLOUT=$(/verif/tools/baseline.py "$WT" | tail -1); BL=$?
bash seeded/demo/run_demo.sh >/tmp/seed_patched_$NAME.log 2>&1; P=$?
git apply -R seeded/patch.diff; git checkout -q -- . ; git clean -fdq -e seeded
if [ $C -eq 0 ] && [ $B -eq 0 ] && [ $BL -eq 0 ] && [ $P -ne 0 ]; then
  mkdir -p /verif/seeded/$NAME && cp -r seeded/patch.diff seeded/demo /verif/seeded/$NAME/
  cp seeded/meta.json /verif/seeded/$NAME/agent_meta.json
  echo "$NAME CONFIRMED (clean demo=0, build=0, baseline: $BLOUT, patched demo=$P)"
else
  echo "$NAME NOT CONFIRMED (clean=$C build=$B baseline=$BL [$BLOUT] patched=$P)"
fi
