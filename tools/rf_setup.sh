#!/bin/bash
# usage: rf_setup.sh <Rxx> "<file list, one per line>" "<style focus>"  — standalone scratch repository /tmp/rf-<Rxx>
# (one commit: /repo HEAD) and prompt /tmp/rf-<Rxx>.prompt for a behaviour-preserving refactoring agent.
k=$1; files=$2; focus=$3
d=/tmp/rf-$k
rm -rf $d && mkdir -p $d && git -C /repo archive HEAD | tar -x -C $d || exit 1
( cd $d && git init -q && git add -A && git -c user.name=x -c user.email=x@x commit -qm base ) || exit 1
python3 - "$d" "$files" "$focus" > /tmp/rf-$k.prompt <<'PY'
import sys
t=open('/verif/tools/refactor_prompt.txt').read()
files="\n".join("  - "+f for f in sys.argv[2].split())
t=t.replace('WORKTREE',sys.argv[1]).replace('FILES',files)
t+="\nSTYLE FOCUS for this clean-up (in addition to the list above; use it where it fits the code naturally, at least 3 of your refactorings should be of this kind): "+sys.argv[3]+"\n(The \"worktree\" is a standalone git repository with a single commit; treat that commit as the base.)\n"
print(t)
PY
echo "$k ready"
