#!/usr/bin/env python3
"""Regenerate /verif/MANIFEST.json from the table below (kept valid at all times)."""
import json, sys

ENV = "GOFLAGS=-mod=mod GOPROXY=off GOSUMDB=off GOTOOLCHAIN=local GOWORK=off"

# id -> (technique, level text, level note, design ref)
CLAIMED = {
 "C01": ("E5: call-graph reachability + SSA scans for nondeterministic sources, map-range body classification, global/receiver writes, concurrency, float fusing; intra-function may-alias taint: bytes handed back by a KVStore/iterator are never written in place",
         "Structural necessary conditions of replica determinism, decided over every consensus-reachable module function (all handlers, block hooks, staking hooks, genesis, migrations): no wall clock/entropy/host state influences state, every map iteration body is order-insensitive, no process-resident state is written, no concurrency, no fusable float expression. Absence is a proof over an over-approximate call graph; it does not prove equality of app hashes.",
         "Trusts dependencies (SDK, tendermint, sao-did) and generated protobuf code; uniform gas per key inside order-insensitive map bodies; cross-architecture math.* results not decided.",
         "DESIGN.md §3 C01"),
 "C03": ("E5-D3: SSA scan for stores/map updates/in-place mutators rooted at package-level variables or long-lived receivers; mem/transient store use by field name and by the static type of the key bound at the keeper constructor call; intra-function may-alias taint: bytes handed back by a KVStore/iterator are never written in place (residue in the store caches after a dropped transaction)",
         "Structural necessary condition of crash-restart equivalence: module code never writes process-resident state (package variables, keeper/server/hook fields, memory stores), so it is a function of (committed stores, message). Decided for every consensus-reachable function; SDK/IAVL restart behaviour is not decided.",
         "Trusts dependencies and generated code; aliasing through nested heap pointers is not tracked.",
         "DESIGN.md §3 C03"),
 "C02": ("E4: natural-loop classification with termination variants (induction variable + bounding test, iterator Valid/Next, range Next, shrinking slice), call-cycle detection, guard dominance for divisions and coin subtractions in block-hook-reachable code, validated-parameter bound derivation, coupled-delta agreement for the end-block subtrahend Shard.Pledge; field-delta coupling of the begin-block divisor Pool.TotalStorage with Pledge.TotalStorage; upward count against a list the loop only shortens; persisted-cursor index check (a slice indexed by a value flowing from a store Get is compared with its length) in block-hook-reachable code",
         "Structural necessary conditions of liveness over every consensus-reachable hand-written function: each loop has a recognised termination variant, no recursion; in code that runs without panic recovery (Begin/EndBlock, staking hooks fired by the staking end-blocker) every division has a provably non-zero divisor and every Coin subtraction is dominated by a comparison of its operands. A pass is a proof of those clauses for all paths; index/nil/bank panics and time bounds are not decided.",
         "Trusts dependencies and generated code; stored bech32 addresses valid (A-addr); record fields non-negative for arithmetic form AF1 (A-nonneg); guard and use of a memory-held operand not separated by a write (A-flow).",
         "DESIGN.md §3 C02"),
 "C18": ("E6: writer/reader table agreement between the store prefixes written by consensus code (effect summaries over the call graph) and those read by ExportGenesis / written by InitGenesis; GenesisState field and parameter-key symmetry; export getters return every record (iterator loop or Iterate+callback idiom) decoded into a per-iteration variable; each duplicate-index loop of a GenesisState.Validate consults the map it fills",
         "Structural necessary condition of the genesis round trip: every constant store prefix that consensus code writes is exported and re-imported by its module, every GenesisState field is assigned on export and consumed on import, every registered parameter key is exported. A missing table entry is state silently dropped by export/import. Validate(), JSON fidelity and continuation equivalence are not decided.",
         "Trusts dependencies; store keys are opened only through prefix.NewStore(ctx.KVStore(k.<key>), KeyPrefix(const)) (an unresolved prefix on a consensus path makes the check undecided, not passing).",
         "DESIGN.md §3 C18"),
 "C10": ("E2/E7: path-sensitive guard dominance over normalised branch predicates (flags expanded to the comparisons that set them) + argument provenance of keyed accesses and bank counter-parties; argument provenance of the verifying DID manager (created with the claimed owner); guard rows of UpdatePaymentAddress (who can be made the payer of a DID's orders); per-iteration decode targets (protobuf Unmarshal does not reset) in every loop; who may extend the set of accounts bound to an existing DID (G-bound: submitter already bound)",
         "Structural necessary conditions of actor authorization, for all paths of Complete, Cancel, Ready, Migrate, Store (payer selection) and the five node handlers: every state-changing effect is reachable only through the comparisons that tie the signer to the provider/creator/payer it claims to be; node handlers key every record and coin movement by the signer, and GetSigners returns the Creator address. A reported bypass is a concrete branch sequence. Honesty of TxAddresses lists is not decided.",
         "Trusts dependencies; canonical access-path terms ignore aliasing through nested heap pointers; a boolean copied into a flag without ever being tested directly is not expanded (would be reported, not passed).",
         "DESIGN.md §3 C10"),
 "C09": ("E2/E1: path-sensitive guard dominance of every model-changing call by signature verification and the owner/read-write comparison against the signing DID; argument provenance from the signed proposal; capability matrix for the model store prefixes; argument provenance of the verifying DID manager (created with the claimed owner); intra-function may-alias taint: slice fields of the signed request are never written in place (element store, copy, sort, through append); both grant lists assigned on every persisting path of UpdatePermission",
         "Structural necessary conditions of data-model authorization for all paths and all field values of Store, Renew, Terminate, UpdataPermission, Complete->UpdateMeta: no model-changing effect is reachable without verifySignature succeeding over the proposal whose fields feed the effect and without the owner / grantee comparison; model prefixes are written only from the tabled entry points. Field-crafting bypasses (e.g. commit ids embedding the data id) are exactly the paths the search looks for. Cryptographic validity is the trusted library's.",
         "Trusts sao-did VerifyJWS (A-sig) and dependencies; access-path terms ignore aliasing through nested heap pointers.",
         "DESIGN.md §3 C09"),
 "C19": ("E1/E2: capability matrix (no bank effect, writes confined to fault tables) + path-sensitive guard dominance of every write by fishman/node/shard tests; loop-carried boolean flags that gate state writes inside the loop of the fault handlers",
         "Structural necessary conditions for fault reports: the 'never changes balances, orders, shards or other pledges' clause is proved as absence of capability over the call graph; every write is dominated by the registered-node and fishman tests; a report is persisted only after provider/metadata/order/data-id/shard-listed/holder/unexpired tests; self-recovery only for faults recorded against the signer. Penalty <= holdings (numeric) is not decided.",
         "Trusts dependencies; over-approximate call graph (absence of capability is sound, presence may be spurious).",
         "DESIGN.md §3 C19"),
 "C17": ("E2/E1: path-sensitive guard dominance for Binding/Update/UpdatePaymentAddress incl. for-all loops and helper summaries; data dependence of the signed payload; capability matrix of the binding tables; written record keys equal the keys the guards looked up; for-all accumulation of the reverse-index removal list over the forward removal list; forward-index splice-and-continue loops in module did; exact-equality guard of the proven address with the account-id key on every success return of verifyBindingProof, followed into helpers (G-proof-addr)",
         "Structural necessary conditions of DID registry integrity for all paths and inputs of the three handlers: no table write without the tests the statement names; for-all requirements (every account handled, payment account never unbound) recognised as loops whose every iteration passes the test; the payload whose signature is verified must depend on the claimed DID and timestamp; binding tables written only from the handlers, genesis and the v2 migration. Whole-table agreement is not decided.",
         "Trusts signature primitives and dependencies; CAIP-10 parsing is the repo's own helper (not re-verified).",
         "DESIGN.md §3 C17"),
 "C20": ("E2/E3/E5: interprocedural guard dominance of every store of the super role (conjoined up the call chain), must-follow demotion after each failing requirement, every-path reachability of the re-evaluation from share-affecting hooks, ordering checks in RemoveVstorage/Reset, D3 residue scan; guard dominance of every non-zero source of the shares-to-subtract argument (value sources followed through φs and helper results)",
         "Structural necessary conditions for the super-node role: promotion only under status mask AND capacity threshold AND delegation-share check (along every call chain); each failing requirement in the re-evaluation routine is followed by demotion; each share-affecting staking hook re-evaluates on every path and the hooks are registered with staking; capacity withdrawal re-tests after the decrement and demotes; Reset clears the role first; decision uses committed state only (D3). Agreement of the flag with the predicate over staking histories is not decided.",
         "Trusts the staking keeper's hook call protocol as documented in DESIGN §1; dependencies trusted.",
         "DESIGN.md §3 C20"),
 "C15": ("E2/E3: guard dominance and must-avoid over the two node producers, index selection and GetSps; provenance of RandomSP's result; for-all accumulation of ignore lists at the four call sites; def-use confinement of the unfiltered candidate list to the ignore filter; swap-only (permutation) check of every element store under SelectNodes; per-iteration decode targets in the node scans; splice-and-advance loops over the candidate list (T-splice-skip)",
         "Structural necessary conditions of replica placement for all node populations, ignore lists and seeds: a node is produced for selection only after the capacity/status/reputation(/role, not-ignored) tests; RandomSP returns only nodes from those producers; an index equal to an earlier one is never appended; GetSps succeeds only with 0 < replica <= selected; every RandomSP call gets an ignore list that accumulates every existing holder (nil only for a new order). Uniformity and the count bound as arithmetic are not decided; termination of RandomIndex is C02.",
         "Trusts dependencies; cyclic φ terms are compared by SSA identity where term text would be unstable.",
         "DESIGN.md §3 C15"),
 "C16": ("E1/E2/E3: writer table of the counter keys, term identities in Append*, guard dominance for in-flight exclusion and base-version comparison (strict equality and tested-against-latest clauses); interprocedural check that Order.Status is set to a non-Completed value only on a fresh order or one tested Pending (record followed up the call chain through pointer parameters); Renew reaches RenewOrder/UpdateMeta only for a model whose Status is MetaComplete",
         "Structural necessary conditions of identifier uniqueness and version linearity: counters written only by Append*/genesis with read, store-under-read, read+1, return-read; an existing model is re-pointed only when Complete and only when its latest order is Completed; the base-version comparison must be an equality (today it is a substring test: known finding). History shape over interleavings is not decided.",
         "Trusts dependencies.",
         "DESIGN.md §3 C16"),
 "C08": ("E1/E2/E3: capability matrix for MintCoins/BurnCoins, guard dominance of mint and counter update, same-value identity of minted and counted coin, ordering (settle / change / re-base / persist) around capacity changes, claim remainder assigned and persisted on every success path; typestate settle => rebase before SetPledge in ShardPledge/ShardRelease/Add-/RemoveVstorage",
         "Structural necessary conditions of block-reward accounting: coins are minted only from the node begin-blocker and never burnt (proof over the call graph); the counter grows only after a successful mint by exactly the minted coin; mint is dominated by the pledge/reward tests and the baseline replacement is a guarded minimum; every persisted capacity change is preceded by settlement at the old capacity and followed by re-basing; a claim persists exactly the fractional remainder. Halving numerics and the sum bound are not decided (the division by pool.TotalStorage is reported under C02).",
         "Trusts dependencies; value identity is term identity (same access path, no intervening write assumed within the handler).",
         "DESIGN.md §3 C08"),
 "C06": ("E1/E7/E3/E2: module-account registration table vs bank call sites, bank error discipline, closed table of money flows, status classification of refund contributions in Withdraw; accrual-clock pairing (reward accrual persisted only with LastRewardAt := height); data dependence of the replacement shard's Duration on the replaced shard's CreatedAt and Duration at the hand-over; ShardRelease lowers TotalShardPledged by the recorded collateral (a field whose address is stored elsewhere counts as written)",
         "Three necessary structural clauses of escrow solvency: every module account named in a bank call is registered with the permission the call needs (else the bank panics and the payout cannot happen); the error of every bank mutator call is consumed (else records are updated for a transfer that failed); every bank call site matches the closed table of flows (modules, counter-party term, amount form) — a new or altered outflow is reported. The inequality balance >= sum owed is not decided.",
         "Trusts bank keeper semantics (A-bank) and dependencies.",
         "DESIGN.md §3 C06"),
 "C07": ("E7/E2/E3: closed flow table for the node escrow, recipient provenance at every ShardRelease call site, guard dominance for capacity withdrawal and use, booked-amount identities and coupled deltas; RepayPledgeDebt lowers the debt record wherever it consumes a coin",
         "Structural necessary conditions of collateral safety: collateral leaves the node escrow only through tabled flows to the signer or to the provider recorded in the released shard; the amount released is shard.Pledge net of debt repaid first; withdrawal is dominated by size <= total − used and use by the free-capacity test; the collateral stored in a shard equals coins taken plus debt recorded, and the provider's total moves by the same amount (violated at renewal: known finding). Numeric non-negativity and rounding are not decided.",
         "Trusts dependencies; value identity is term identity.",
         "DESIGN.md §3 C07"),
 "C14": ("E3: coupled-delta analysis (sibling agreement and same-function coupling of aggregate updates); book/un-book call pairing on every path; sibling agreement of the guards of the two release sides (WorkerRelease in Withdraw / ShardRelease in TerminateOrder); genesis pairing of the order/shard id counters",
         "Structural necessary condition of aggregate accounting: each aggregate is updated only together with, and by the same term as, the per-shard/per-provider quantity it sums (append vs release siblings agree; provider and pool totals move together; total shard collateral moves by what is stored in the shard — violated at renewal: known finding). The equalities themselves on reachable states are not decided.",
         "Trusts dependencies; parameters of sibling functions are matched by record type.",
         "DESIGN.md §3 C14"),
 "C04": ("E7/E3/E2: closed table of money flows; charge-once identities (single charge site on every success path, outside loops, amount = persisted Order.Amount, before persistence); deposit only on first completion; status classification of refund contributions in Withdraw; loop-variable address escape (T-loopvar) in the sao handlers; a freshly built Worker/Pool record replaces the stored one only under !found",
         "Topology and identity clauses of payment conservation: order escrow pays only the market escrow, the payer's/owner's payment address or the DID ledger; market escrow pays only order escrow, the claiming provider or the owner's payment address; Store and RenewOrder charge exactly once, exactly the amount they persist. Price formula, income accrual, refund arithmetic and the sum identity income + refunds = charged are runtime quantities and are NOT decided.",
         "Trusts dependencies; value identity is term identity plus 'no write to the variable after the charge'.",
         "DESIGN.md §3 C04"),
 "C05": ("E3/E2/E1: must-pass chain in CancelOrder, call-site preconditions (for-all shard removal or pending), refund only before completion, capability absence for reservation, schedule pairing, restore-from-own-last-element identities in RollbackMeta; modified-but-unpersisted local record analysis (T-persist: direct field stores and mutation through pointer-parameter helpers); list-provenance check of the schedule entry written back by removeDataExpireBlock; field-set agreement between the in-flight marker and the rollback (T-rollback-fields: every Metadata field UpdateMetaStatusAndCommit overwrites is assigned by RollbackMeta, through pointer-receiving callees)",
         "Structural necessary conditions of full refund and clean rollback: every success path of CancelOrder refunds the recorded amount (flow table), rolls the model back and removes the order, in that order; every caller first removes all shards or is on the pending branch, and never cancels a completed order; Store/Ready/timeout cannot write pledge records nor take provider coins (proved as absence of capability); removing a model removes its schedule entry. Balance deltas and re-assignment histories are not decided.",
         "Trusts dependencies; over-approximate call graph.",
         "DESIGN.md §3 C05"),
 "C11": ("E3/E1: typestate (period started => release scheduled at own end height) with path-sensitive search, capability tables for release and model deletion, for-all consumption of schedule entries, lifetime coupling, take-over stores dominating the migration hand-over; typestate in Complete: expiry scheduled and success => model lifetime extended; remaining-term data dependence at the hand-over; list provenance of the un-scheduling write-back; genesis pairing of the order/shard id counters; CancelOrder reachable only under order.Status != Completed (G-retain)",
         "Structural necessary conditions of retention and expiry: wherever a shard's paid period starts or rotates, every success path schedules its release at that shard's CreatedAt+Duration; shards are removed/collateral released only from the tabled operations; models are deleted only by Terminate and the model end-blocker; the end-blockers handle every id listed for the current height and drop the entry; the model is extended to the scheduled end height. 'Exactly that many blocks later' and exactly-once as temporal facts are not decided.",
         "Trusts dependencies; Renew is tabled for CAP-release only because the call graph is path-insensitive in UpdateMeta's operation switch.",
         "DESIGN.md §3 C11"),
 "C12": ("E3/E2: typestate (hand-over => timeout scheduled) path-sensitive in the isProvider flag, exit classification of the timeout handler by dominating facts, effect scan of the nothing-waiting branch, for-all consumption, close-implies-replace pairing inside the re-assignment loop; the refund of dropped replicas lowers Order.Amount and is persisted in the same function",
         "Structural necessary conditions of timeout progress: after providers are selected for waiting shards every success path schedules the order's next examination; every exit of the timeout handler is rescheduled or dominated by an allowed reason; the nothing-waiting branch moves no coins and removes only non-completed shards; the end-blocker hands every listed order to the handler. Eventual completion and the ten-interval bound as arithmetic are not decided.",
         "Trusts dependencies.",
         "DESIGN.md §3 C12"),
 "C13": ("E3: creation/alias/schedule pairings — new shard id listed and its order persisted (interprocedural through pointer-parameter helpers), model and alias created/removed together with the alias key from the same record, period start => release scheduled, model removal => schedule entry removed; alias/metadata creation dominated by emptiness tests on the written keys; every success path after TerminateOrder runs the shard-removal loop to its end; provenance of the OrderId of every record handed to AppendShard (the *Order parameter of the creating function); loop-variable address escape in the sao handlers; for-all guard in Renew: every listed shard found and Completed/Migrating before the renewal order is created",
         "Creation-, alias- and schedule-side necessary conditions of referential integrity. Deletion-side list maintenance across shared renew orders and whole-state agreement need collection reasoning and are not decided.",
         "Trusts dependencies.",
         "DESIGN.md §3 C13"),
}

NA_REASON = "check not implemented yet (framework under construction; see DESIGN.md section 3 for the planned structural clauses)"

def main():
    props = [json.loads(l) for l in open("/verif/properties.jsonl")]
    checks = []
    na = []
    for p in props:
        pid = p["id"]
        if pid in CLAIMED:
            tech, text, note, ref = CLAIMED[pid]
            checks.append({
                "property_id": pid,
                "quick_cmd": f"/verif/bin/saocheck -p {pid} -tier quick",
                "thorough_cmd": f"/verif/bin/saocheck -p {pid} -tier thorough",
                "evidence_file": f"/verif/evidence/{pid}.json",
                "replay_cmd_template": "/verif/bin/saocheck -explain {path}",
                "engine": "saocheck",
                "level_claimed": {"category": "other", "text": text, "design_ref": ref},
                "level_note": note,
                "technique": "static analysis: " + tech,
            })
        else:
            na.append({"property_id": pid, "reason": NA_REASON})
    m = {
        "version": 1,
        "setup_cmd": f"cd /verif/checker && {ENV} go build -o /verif/bin/saocheck ./cmd/saocheck",
        "hooks": {
            "guard": "verif",
            "enable": "none needed - the checker reads source; no hook commits exist",
            "baseline_off_cmd": "cd /repo && go test -mod=mod -json -vet=off -count=1 -timeout 25m ./...",
            "source_commits": [],
            "add_only": True,
        },
        "engines": [{
            "name": "saocheck",
            "path": "/verif/checker",
            "serves_properties": sorted(CLAIMED),
            "kind_free_text": "custom Go static analyser over go/packages + go/ssa: call graph, effect/capability matrix, guard dominance, coupling/typestate, loop variants, determinism scans, genesis tables",
        }],
        "checks": checks,
        "not_applicable": na,
        "notes": "Static analysis only. Exit 0 = all structural obligations discharged or matched by /verif/known_findings.json (printed as KNOWN-FINDING); exit 1 = unlisted violation (VIOLATION line); exit 2 = undecided (unresolved anchor, type error, vacuous rule): treated as a broken check, never a pass. Every claim is level 'other': a set of necessary structural clauses, stated per property in DESIGN.md §3.",
    }
    json.dump(m, open("/verif/MANIFEST.json", "w"), indent=1)
    print("claimed", len(checks), "not_applicable", len(na))

if __name__ == "__main__":
    main()
