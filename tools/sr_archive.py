#!/usr/bin/env python3
"""usage: sr_archive.py <Cxx-Ryy> <expected-rule> <check-result sentence>
Stores a confirmed "seed on a refactored tree" as /verif/seeded/<Cxx>-r1/ :
 patch.diff (refactor Ryy + seed, relative to /repo HEAD — what `git -C /repo apply` takes), seed_on_refactor.diff (the
 agent's own patch, relative to HEAD + Ryy), demo/, agent_meta.json, meta.json."""
import sys, os, json, shutil
s, rule, result = sys.argv[1], sys.argv[2], sys.argv[3]
prop, rf = s.split("-")
src = f"/tmp/sr-{s}/seeded"
dst = f"/verif/seeded/{prop}-r1"
os.makedirs(dst, exist_ok=True)
shutil.copy(f"/tmp/sr-{s}.combined.diff", f"{dst}/patch.diff")
shutil.copy(f"{src}/patch.diff", f"{dst}/seed_on_refactor.diff")
if os.path.exists(f"{dst}/demo"): shutil.rmtree(f"{dst}/demo")
shutil.copytree(f"{src}/demo", f"{dst}/demo")
am = json.load(open(f"{src}/meta.json"))
json.dump(am, open(f"{dst}/agent_meta.json", "w"), indent=1)
meta = {
 "property": prop,
 "breaks": am.get("summary", ""),
 "needs_to_manifest": am.get("needs_to_manifest", ""),
 "files_changed": am.get("files_changed", []),
 "base": f"/repo HEAD + behaviour-preserving refactor {rf} (/verif/refactors/{rf}/patch.diff); patch.diff contains both, seed_on_refactor.diff only the seed",
 "produced_by": "independent sub-agent (round r1: seed on a refactored tree) given only the property record and a standalone repository holding the refactored tree; told to prefer the small extracted helpers",
 "confirmed_by_me": "tools/sr_check.sh in a scratch worktree: refactored tree demo exit 0; with the seed: build ok, 47/47 baseline tests pass, demo exit non-zero",
 "check_result": result,
 "expected_rule": rule,
 "how_to_run_check": f"git -C /repo apply /verif/seeded/{prop}-r1/patch.diff && /verif/bin/saocheck -p {prop}; git -C /repo checkout -- . && git -C /repo clean -fdq",
}
json.dump(meta, open(f"{dst}/meta.json", "w"), indent=1)
print("archived", dst)
