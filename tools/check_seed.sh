#!/bin/bash
# usage: check_seed.sh <property> <seed-name>   (sequential: applies the seed to /repo, runs the check, restores /repo)
export GOFLAGS=-mod=mod GOPROXY=off GOSUMDB=off GOTOOLCHAIN=local GOWORK=off
PROP=$1; NAME=$2
[ -z "$(git -C /repo status --porcelain)" ] || { echo "/repo not clean"; exit 2; }
mkdir -p /tmp/vseed_$NAME && cp /verif/known_findings.json /tmp/vseed_$NAME/
git -C /repo apply /verif/seeded/$NAME/patch.diff || { echo "$NAME does not apply to /repo"; exit 2; }
/verif/bin/saocheck -p $PROP -verif /tmp/vseed_$NAME > /tmp/seed_check_$NAME.log 2>&1; E=$?
git -C /repo checkout -q -- . ; git -C /repo clean -fdq
echo "$NAME check exit=$E violations=$(grep -c '^VIOLATION' /tmp/seed_check_$NAME.log)"
grep '^violation\|^UNDECIDED' /tmp/seed_check_$NAME.log | cut -c1-300 | head -6
rm -rf /tmp/vseed_$NAME
