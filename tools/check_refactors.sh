#!/bin/bash
# usage: check_refactors.sh [name ...]  — applies each behaviour-preserving refactor under /verif/refactors/<name>/patch.diff
# to a scratch worktree of /repo and runs every property check on it: all must stay silent (exit 0).
export GOFLAGS=-mod=mod GOPROXY=off GOSUMDB=off GOTOOLCHAIN=local GOWORK=off
names=("$@"); if [ ${#names[@]} -eq 0 ]; then names=($(ls /verif/refactors)); fi
mkdir -p /root/vmlog /tmp/vrf && cp /verif/known_findings.json /tmp/vrf/
tot=0
for k in "${names[@]}"; do
  wt=/tmp/rfw-$k
  git -C /repo worktree remove --force $wt >/dev/null 2>&1
  git -C /repo worktree add --detach $wt HEAD >/dev/null 2>&1
  ( cd $wt && git apply /verif/refactors/$k/patch.diff ) || { echo "$k: patch does not apply"; continue; }
  ( mkdir -p /tmp/vrf-$k && cp /verif/known_findings.json /tmp/vrf-$k/ && /verif/bin/saocheck -p all -repo $wt -verif /tmp/vrf-$k > /root/vmlog/rf-$k.log 2>&1; echo "$k exit=$? viol=$(grep -c '^VIOLATION' /root/vmlog/rf-$k.log) und=$(grep -c '^UNDECIDED' /root/vmlog/rf-$k.log) known=$(grep -c '^KNOWN-FINDING' /root/vmlog/rf-$k.log)"; git -C /repo worktree remove --force $wt >/dev/null 2>&1; rm -rf /tmp/vrf-$k ) &
done
wait
git -C /repo worktree prune
