#!/bin/bash
# usage: s5_intake.sh Cxx [tag]  — intake of a round-5 seed made in the standalone scratch repository /tmp/s5-Cxx:
# phase 1 (tools/confirm_seed.sh): clean demo passes; patched: builds, 47 baseline tests pass, demo fails -> copied to
# /verif/seeded/Cxx-<tag>/. phase 2: the seed is applied to a scratch worktree of /repo and EVERY property's check is
# run on it (never in /repo itself). Prints the violated rules per property.
export GOFLAGS=-mod=mod GOPROXY=off GOSUMDB=off GOTOOLCHAIN=local GOWORK=off
c=$1; tag=${2:-a5}; name=$c-$tag
/verif/tools/confirm_seed.sh /tmp/s${tag#a}-$c $name || exit 1
[ -f /verif/seeded/$name/patch.diff ] || exit 1
wt=/tmp/s5w-$c
git -C /repo worktree remove --force $wt >/dev/null 2>&1
git -C /repo worktree add --detach $wt HEAD >/dev/null 2>&1
( cd $wt && git apply /verif/seeded/$name/patch.diff ) || { echo "$name: patch does not apply to /repo HEAD"; exit 1; }
mkdir -p /tmp/s5v-$c /root/vmlog && cp /verif/known_findings.json /tmp/s5v-$c/
/verif/bin/saocheck -p all -repo $wt -verif /tmp/s5v-$c > /root/vmlog/s5-$c.log 2>&1
echo "$name own: $(grep -E '^violation:|^UNDECIDED' /root/vmlog/s5-$c.log | awk '{print $1,$2}' | sort | uniq -c | tr '\n' ';')"
echo "$name properties alarmed: $(grep '^VIOLATION' /root/vmlog/s5-$c.log | sed 's/ replay.*//' | sort -u | tr '\n' ' ')"
git -C /repo worktree remove --force $wt >/dev/null 2>&1; rm -rf /tmp/s5v-$c; git -C /repo worktree prune
