#!/bin/bash
# usage: sr_check.sh <Cxx-Ryy> ...  — "seed on a refactored tree": confirms the seed an agent produced in the standalone
# repository /tmp/sr-<Cxx>-<Ryy> (HEAD + refactor Ryy) and runs the property's check on it.
#   refactored tree: demo passes;  + seed: builds, baseline passes, demo fails;  check must report a violation.
# On confirmation the seed is stored as /verif/seeded/<Cxx>-r<N>/ with patch.diff = refactor + seed relative to /repo HEAD.
export GOFLAGS=-mod=mod GOPROXY=off GOSUMDB=off GOTOOLCHAIN=local GOWORK=off
mkdir -p /root/vmlog
for s in "$@"; do
 (
  prop=${s%%-*}; rf=${s##*-}
  src=/tmp/sr-$s/seeded
  [ -f $src/patch.diff ] || { echo "$s: no seeded/patch.diff"; exit 0; }
  wt=/tmp/srw-$s
  git -C /repo worktree remove --force $wt >/dev/null 2>&1
  git -C /repo worktree add --detach $wt HEAD >/dev/null 2>&1
  cd $wt
  git apply /verif/refactors/$rf/patch.diff || { echo "$s: refactor does not apply"; exit 0; }
  mkdir -p seeded && cp -r $src/demo seeded/demo
  timeout 1200 bash seeded/demo/run_demo.sh > /root/vmlog/sr-$s.clean 2>&1; C=$?
  git checkout -q -- . ; git clean -fdq -e seeded; git apply /verif/refactors/$rf/patch.diff
  git apply $src/patch.diff || { echo "$s: seed does not apply on the refactored tree"; cd /; git -C /repo worktree remove --force $wt; exit 0; }
  go build ./cmd/... ./x/... ./app/... > /root/vmlog/sr-$s.build 2>&1; B=$?
  BLOUT=$(/verif/tools/baseline.py $wt | tail -1); BL=$?
  timeout 1200 bash seeded/demo/run_demo.sh > /root/vmlog/sr-$s.patched 2>&1; D=$?
  rm -rf seeded; git checkout -q -- . ; git clean -fdq; git apply /verif/refactors/$rf/patch.diff; git apply $src/patch.diff
  git add -A -N . ; git diff > /tmp/sr-$s.combined.diff; git reset -q
  mkdir -p /tmp/vsr-$s && cp /verif/known_findings.json /tmp/vsr-$s/
  /verif/bin/saocheck -p $prop -repo $wt -verif /tmp/vsr-$s > /root/vmlog/sr-$s.log 2>&1; E=$?
  V=$(grep -c '^VIOLATION' /root/vmlog/sr-$s.log); U=$(grep -c '^UNDECIDED' /root/vmlog/sr-$s.log)
  rules=$(grep '^violation:' /root/vmlog/sr-$s.log | awk '{print $2}' | sort -u | tr '\n' ' ')
  conf=NOT-CONFIRMED
  if [ $C -eq 0 ] && [ $B -eq 0 ] && [ $BL -eq 0 ] && [ $D -ne 0 ]; then conf=CONFIRMED; fi
  echo "$s $conf (refactored demo=$C build=$B baseline=$BL seeded demo=$D) check_exit=$E viol=$V und=$U rules=[$rules]"
  cd /; git -C /repo worktree remove --force $wt >/dev/null 2>&1; rm -rf /tmp/vsr-$s
 ) &
done
wait
git -C /repo worktree prune
