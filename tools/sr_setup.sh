#!/bin/bash
# usage: sr_setup.sh <Cxx> <Ryy> ...pairs — "seed on a refactored tree": builds a standalone scratch repository
# /tmp/sr-<Cxx>-<Ryy> (one commit: /repo HEAD + the behaviour-preserving refactor Ryy) and the seeding prompt
# /tmp/sr-<Cxx>-<Ryy>.prompt (property text only; nothing from /verif is visible to the agent).
while [ $# -ge 2 ]; do
  c=$1; r=$2; shift 2
  d=/tmp/sr-$c-$r
  rm -rf $d && mkdir -p $d && git -C /repo archive HEAD | tar -x -C $d || exit 1
  ( cd $d && git init -q && git apply /verif/refactors/$r/patch.diff && git add -A && git -c user.name=x -c user.email=x@x commit -qm base ) || { echo "$c-$r: setup failed"; continue; }
  python3 - "$d" "$c" > /tmp/sr-$c-$r.prompt <<'PY'
import sys,json
t=open('/verif/tools/seed_prompt.txt').read()
prop=None
for line in open('/verif/properties.jsonl'):
    o=json.loads(line)
    if o.get('id')==sys.argv[2]: prop=o
t=t.replace('WORKTREE',sys.argv[1]).replace('PROPERTY_JSON',json.dumps(prop,indent=1))
t+='''
NOTE: your "worktree" is a standalone git repository with one commit; that commit is the unchanged tree. Parts of this code base were recently cleaned up (blocks extracted into small unexported helper functions, guard clauses, helper structs). Where it is natural for your idea, place the change INSIDE one of those small unexported helpers, or in the way a caller uses one (an argument, the handling of its result, a call moved or dropped on one path) rather than in a large exported function: a subtly wrong helper is exactly what a hurried follow-up commit produces. Avoid the most obvious idea for this property (deleting the main check outright); look for a second-order one.
'''
print(t)
PY
  echo "$c-$r ready"
done
