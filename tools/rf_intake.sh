#!/bin/bash
# usage: rf_intake.sh <Rxx> ...  — takes the refactoring an agent left in /tmp/rf-<Rxx>/refactor/ (patch.diff, notes.md),
# stores it as /verif/refactors/<Rxx>/ and checks in a scratch worktree of /repo that it is what it claims to be:
# it applies, builds, the 47 baseline tests pass, and the demonstrations of the confirmed seeds that touch the same files
# (they drive the real handlers / keepers and pass on the pinned tree) still pass. Prints one line per refactor.
export GOFLAGS=-mod=mod GOPROXY=off GOSUMDB=off GOTOOLCHAIN=local GOWORK=off
mkdir -p /root/vmlog
for k in "$@"; do
 (
  src=/tmp/rf-$k/refactor
  [ -f $src/patch.diff ] || { echo "$k: no patch"; exit 0; }
  mkdir -p /verif/refactors/$k && cp $src/patch.diff $src/notes.md /verif/refactors/$k/ 2>/dev/null
  wt=/tmp/rfi-$k
  git -C /repo worktree remove --force $wt >/dev/null 2>&1
  git -C /repo worktree add --detach $wt HEAD >/dev/null 2>&1
  cd $wt
  git apply /verif/refactors/$k/patch.diff || { echo "$k: does not apply"; exit 0; }
  go build ./cmd/... ./x/... ./app/... > /root/vmlog/rfi-$k.build 2>&1; B=$?
  BLOUT=$(/verif/tools/baseline.py $wt | tail -1); BL=$?
  files=$(grep '^+++ b/' /verif/refactors/$k/patch.diff | sed 's/+++ b\///')
  demos=""
  for s in $(cat /verif/tools/demos_ok.txt); do
    for f in $files; do
      if grep -q "^+++ b/$f" /verif/seeded/$s/patch.diff 2>/dev/null; then demos="$demos $s"; break; fi
    done
  done
  bad=""; nd=0
  for s in $demos; do
    rm -rf seeded; mkdir -p seeded; cp -r /verif/seeded/$s/demo seeded/demo
    timeout 900 bash seeded/demo/run_demo.sh > /root/vmlog/rfi-$k-$s.demo 2>&1 || bad="$bad $s"
    nd=$((nd+1))
    rm -rf seeded; git checkout -q -- . 2>/dev/null; git clean -fdq 2>/dev/null; git apply /verif/refactors/$k/patch.diff
  done
  echo "$k build=$B baseline=$BL demos_run=$nd demos_failed=[$bad ]"
  cd /; git -C /repo worktree remove --force $wt >/dev/null 2>&1
 ) &
done
wait
git -C /repo worktree prune
