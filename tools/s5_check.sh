#!/bin/bash
# usage: s5_check.sh [-t tag] Cxx ...  — checks the seeds /verif/seeded/Cxx-<tag> (default a5) against every property, in scratch worktrees
export GOFLAGS=-mod=mod GOPROXY=off GOSUMDB=off GOTOOLCHAIN=local GOWORK=off
tag=a5; if [ "$1" = "-t" ]; then tag=$2; shift 2; fi
for c in "$@"; do
 (
  wt=/tmp/s5w-$c; git -C /repo worktree remove --force $wt >/dev/null 2>&1; git -C /repo worktree add --detach $wt HEAD >/dev/null 2>&1
  (cd $wt && git apply /verif/seeded/$c-$tag/patch.diff)
  mkdir -p /tmp/s5v-$c && cp /verif/known_findings.json /tmp/s5v-$c/
  /verif/bin/saocheck -p all -repo $wt -verif /tmp/s5v-$c > /root/vmlog/s5-$c.log 2>&1
  own=$(grep -c "^VIOLATION property=$c " /root/vmlog/s5-$c.log)
  echo "$c-$tag own_alarms=$own rules=[$(grep -E '^violation:|^UNDECIDED' /root/vmlog/s5-$c.log | awk '{print $1,$2}' | sort | uniq -c | tr '\n' ';')] props=[$(grep '^VIOLATION' /root/vmlog/s5-$c.log | sed 's/ replay.*//;s/VIOLATION property=//' | sort -u | tr '\n' ' ')]"
  git -C /repo worktree remove --force $wt >/dev/null 2>&1; rm -rf /tmp/s5v-$c
 ) &
 while [ $(jobs -r | wc -l) -ge 7 ]; do sleep 2; done
done
wait; git -C /repo worktree prune
